#!/usr/bin/env python3
"""Regenerate MANIFEST.json from engine/registry.py (run after editing the registry)."""
import json, os, sys
sys.path.insert(0, os.path.dirname(os.path.abspath(__file__)))
from engine import registry

props = [json.loads(l) for l in open(os.path.join(os.path.dirname(os.path.abspath(__file__)), 'properties.jsonl'))]
checks, na = [], []
for p in props:
    pid = p['id']
    if pid in registry.PROPS and (registry.PROPS[pid].get('verus') or registry.PROPS[pid].get('kani')):
        P = registry.PROPS[pid]
        checks.append({
            'property_id': pid,
            'quick_cmd': './check %s --tier quick' % pid,
            'thorough_cmd': './check %s --tier thorough' % pid,
            'evidence_file': 'evidence/%s.json' % pid,
            'replay_cmd_template': './check %s --replay {path}' % pid,
            'engine': 'contracts',
            'level_claimed': {'category': P.get('level', 'proof'), 'text': P['claim'],
                              'design_ref': 'DESIGN.md §5 ' + pid},
            'level_note': P['note'],
            'technique': P.get('technique', 'contract-based deductive verification (Verus contracts on the '
                                            'mechanically extracted real functions; Kani complete/bounded harnesses)'),
        })
    else:
        na.append({'property_id': pid, 'reason': registry.NOT_APPLICABLE.get(pid, 'no unit registered yet for this property in this revision of /verif (planned: DESIGN.md §5 %s)' % pid)})
m = {
    'version': 1,
    'setup_cmd': 'python3 -c "import sys; sys.exit(0)"',
    'hooks': {
        'guard': 'cfg(kani) / cfg(dashu_verif_replay)',
        'enable': 'no commit in /repo: each run appends one `#[cfg(any(kani, dashu_verif_replay))] #[path=...] mod ...;` '
                  'line per file under test to a scratch copy of /repo (engine/kani_run.py); Verus units are '
                  'extracted from /repo on every run (engine/extract.py)',
        'baseline_off_cmd': 'cd /repo && cargo test --workspace --no-fail-fast --offline',
        'source_commits': [],
        'add_only': True,
    },
    'engines': [{'name': 'contracts', 'path': 'check',
                 'serves_properties': [c['property_id'] for c in checks],
                 'kind_free_text': 'contract-based deductive verification: Verus (unbounded, per function) + Kani '
                                   'function-level harnesses on the real crate'}],
    'checks': checks,
    'not_applicable': na,
    'notes': 'exit 2 = inconclusive (never an alarm). See DESIGN.md.',
}
json.dump(m, open(os.path.join(os.path.dirname(os.path.abspath(__file__)), 'MANIFEST.json'), 'w'), indent=1)
print('checks:', [c['property_id'] for c in checks])
