// Kani harnesses for base/src/ring/root.rs (and the thin wrappers in base/src/math/root.rs): integer square and cube
// roots of primitive integers.  u8 and u16: complete (all inputs, loops fully unwound with unwinding assertions).
// u32 is NOT covered: `sqrt_rem` over all u32 (32x32-bit Newton multiplications) did not finish in 15 min.
//
// Oracle (C12): r is the root truncated toward zero and e the remainder, from the defining inequalities evaluated in a
// wider type:  r^2 <= x < (r+1)^2, e == x - r^2   /   r^3 <= x < (r+1)^3, e == x - r^3.
use super::*;
use crate::math::{CubicRoot, SquareRoot};
include!("/verif/kani/harness/shim.rs");

macro_rules! vk_base_root_harnesses {
    ($sqrt:ident, $cbrt:ident, $t:ty, $unwind:expr) => {
        #[cfg_attr(kani, kani::proof)]
        #[cfg_attr(not(kani), test)]
        #[cfg_attr(kani, kani::unwind($unwind))]
        fn $sqrt() {
            let x: $t = any();
            let (r, e) = x.sqrt_rem();
            let (xw, rw) = (x as u128, r as u128);
            assert!(rw * rw <= xw && xw < (rw + 1) * (rw + 1));
            assert!(e as u128 == xw - rw * rw);
            assert!(x.sqrt() == r);
            cover();
        }

        #[cfg_attr(kani, kani::proof)]
        #[cfg_attr(not(kani), test)]
        #[cfg_attr(kani, kani::unwind($unwind))]
        fn $cbrt() {
            let x: $t = any();
            let (r, e) = x.cbrt_rem();
            let (xw, rw) = (x as u128, r as u128);
            assert!(rw * rw * rw <= xw && xw < (rw + 1) * (rw + 1) * (rw + 1));
            assert!(e as u128 == xw - rw * rw * rw);
            assert!(x.cbrt() == r);
            cover();
        }
    };
}

// u8: brute-force search from 0: at most 15 (sqrt) / 6 (cbrt) increments
vk_base_root_harnesses!(vk_base_root_sqrt_u8, vk_base_root_cbrt_u8, u8, 18);
// u16: table estimate followed by a short correction loop
vk_base_root_harnesses!(vk_base_root_sqrt_u16, vk_base_root_cbrt_u16, u16, 8);

// the normalized kernels on their whole precondition (top bits set)
#[cfg_attr(kani, kani::proof)]
#[cfg_attr(not(kani), test)]
#[cfg_attr(kani, kani::unwind(8))]
fn vk_base_root_normalized_sqrt_u16() {
    let x: u16 = any();
    assume(x.leading_zeros() <= 1);
    let (r, e) = x.normalized_sqrt_rem();
    let (xw, rw) = (x as u32, r as u32);
    assert!(rw * rw <= xw && xw < (rw + 1) * (rw + 1));
    assert!(e as u32 == xw - rw * rw);
    cover();
}

#[cfg_attr(kani, kani::proof)]
#[cfg_attr(not(kani), test)]
#[cfg_attr(kani, kani::unwind(8))]
fn vk_base_root_normalized_cbrt_u16() {
    let x: u16 = any();
    assume(x.leading_zeros() <= 2);
    let (r, e) = x.normalized_cbrt_rem();
    let (xw, rw) = (x as u32, r as u32);
    assert!(rw * rw * rw <= xw && xw < (rw + 1) * (rw + 1) * (rw + 1));
    assert!(e as u32 == xw - rw * rw * rw);
    cover();
}
