// Kani harnesses for base/src/bit.rs: `BitTest::{bit, bit_len}` of the primitive integers (C09: "as if the number
// were written in two's complement with infinitely many sign bits").  COMPLETE: loop-free, every value of the type x
// every usize position (macro bodies are shared by all widths: i8 / u8 and the widest i128 / u128 are instantiated).
use super::*;
include!("/verif/kani/harness/shim.rs");

macro_rules! vk_bittest_signed {
    ($name:ident, $T:ty, $U:ty) => {
        #[cfg_attr(kani, kani::proof)]
        #[cfg_attr(not(kani), test)]
        fn $name() {
            let x: $T = any();
            let p: usize = any();
            // two's complement with an infinite sign extension
            let want = if p >= <$T>::BITS as usize { x < 0 } else { ((x as $U) >> (p as u32)) & 1 == 1 };
            assert!(x.bit(p) == want);
            // bit_len: 0 for 0, else floor(log2 |x|) + 1
            let l = x.bit_len();
            let a = x.unsigned_abs();
            assert!(l <= <$T>::BITS as usize);
            assert!((a == 0) == (l == 0));
            if l > 0 {
                assert!((a >> ((l - 1) as u32)) == 1);
            }
            cover();
        }
    };
}
macro_rules! vk_bittest_unsigned {
    ($name:ident, $T:ty) => {
        #[cfg_attr(kani, kani::proof)]
        #[cfg_attr(not(kani), test)]
        fn $name() {
            let x: $T = any();
            let p: usize = any();
            let want = if p >= <$T>::BITS as usize { false } else { (x >> (p as u32)) & 1 == 1 };
            assert!(x.bit(p) == want);
            let l = x.bit_len();
            assert!(l <= <$T>::BITS as usize);
            assert!((x == 0) == (l == 0));
            if l > 0 {
                assert!((x >> ((l - 1) as u32)) == 1);
            }
            cover();
        }
    };
}
vk_bittest_signed!(vk_base_bittest_i8, i8, u8);
vk_bittest_signed!(vk_base_bittest_i64, i64, u64);
vk_bittest_signed!(vk_base_bittest_i128, i128, u128);
vk_bittest_unsigned!(vk_base_bittest_u8, u8);
vk_bittest_unsigned!(vk_base_bittest_u128, u128);
