// Kani harnesses for base/src/ring/gcd.rs: Gcd::gcd and ExtendedGcd::gcd_ext on primitive integers.
// u8: complete (all pairs, every loop fully unwound, unwinding assertions on).  u16 is NOT covered: the complete
// u16 x u16 harnesses ran out of memory at unwind 40 and out of time (25 min) at unwind 25, and even a stand-in with
// operands below 2^10 did not finish in 16 min (symbolic divisions and multiplications in every unwound step).
//
// Oracle (C12): g is the greatest common divisor of a and b, stated from the definition:
//   * g divides a and g divides b (remainders in a wider type),
//   * gcd_ext: s * a + t * b == g evaluated in i32 / i64 (no wrap-around). Together with the first clause this
//     implies that every common divisor divides g, i.e. g is the greatest one;
//   * gcd (no coefficients): every d in 1..=255 that divides both a and b divides g - the definition itself, with d
//     a third symbolic input, i.e. universally quantified.
// gcd(0, 0) must panic (documented).
use super::*;
include!("/verif/kani/harness/shim.rs");

#[cfg_attr(kani, kani::proof)]
#[cfg_attr(not(kani), test)]
#[cfg_attr(kani, kani::unwind(20))]
fn vk_base_gcd_gcd_u8() {
    let a: u8 = any();
    let b: u8 = any();
    assume(a != 0 || b != 0);
    let g = a.gcd(b) as u32;
    let (a, b) = (a as u32, b as u32);
    assert!(g != 0);
    assert!(a % g == 0 && b % g == 0);
    // for ALL d in 1..=255 (d is universally quantified by being symbolic): a common divisor divides g
    let d: u8 = any();
    assume(d != 0);
    let d = d as u32;
    if a % d == 0 && b % d == 0 {
        assert!(g % d == 0);
    }
    cover();
}

#[cfg_attr(kani, kani::proof)]
#[cfg_attr(not(kani), test)]
#[cfg_attr(kani, kani::unwind(14))] // Euclid on 8-bit operands: at most 12 division steps (233, 144)
fn vk_base_gcd_gcd_ext_u8() {
    let a: u8 = any();
    let b: u8 = any();
    assume(a != 0 || b != 0);
    let (g, s, t) = a.gcd_ext(b);
    let (a, b, g) = (a as i32, b as i32, g as i32);
    assert!(g > 0);
    assert!(a % g == 0 && b % g == 0);
    assert!(s as i32 * a + t as i32 * b == g);
    cover();
}

// documented panic: both operands zero
macro_rules! vk_base_gcd_zero_zero {
    ($name:ident, $name_ext:ident, $t:ty) => {
        #[cfg_attr(kani, kani::proof)]
        #[cfg_attr(kani, kani::should_panic)]
        #[cfg_attr(not(kani), test)]
        #[cfg_attr(not(kani), should_panic)]
        fn $name() {
            let z: $t = 0;
            let _ = z.gcd(z);
        }

        #[cfg_attr(kani, kani::proof)]
        #[cfg_attr(kani, kani::should_panic)]
        #[cfg_attr(not(kani), test)]
        #[cfg_attr(not(kani), should_panic)]
        fn $name_ext() {
            let z: $t = 0;
            let _ = z.gcd_ext(z);
        }
    };
}
vk_base_gcd_zero_zero!(vk_base_gcd_zero_zero_u8, vk_base_gcd_ext_zero_zero_u8, u8);
vk_base_gcd_zero_zero!(vk_base_gcd_zero_zero_u16, vk_base_gcd_ext_zero_zero_u16, u16);
vk_base_gcd_zero_zero!(vk_base_gcd_zero_zero_u32, vk_base_gcd_ext_zero_zero_u32, u32);
vk_base_gcd_zero_zero!(vk_base_gcd_zero_zero_u64, vk_base_gcd_ext_zero_zero_u64, u64);
vk_base_gcd_zero_zero!(vk_base_gcd_zero_zero_u128, vk_base_gcd_ext_zero_zero_u128, u128);

// one operand zero, any width: gcd(a, 0) = gcd(0, a) = a, gcd_ext gives the trivial combination (loop-free paths)
macro_rules! vk_base_gcd_one_zero {
    ($name:ident, $t:ty) => {
        #[cfg_attr(kani, kani::proof)]
        #[cfg_attr(not(kani), test)]
        #[cfg_attr(kani, kani::unwind(2))] // the loops are not reachable on these paths
        fn $name() {
            let a: $t = any();
            assume(a != 0);
            assert!(a.gcd(0) == a && (0 as $t).gcd(a) == a);
            assert!(a.gcd_ext(0) == (a, 1, 0));
            assert!((0 as $t).gcd_ext(a) == (a, 0, 1));
            cover();
        }
    };
}
vk_base_gcd_one_zero!(vk_base_gcd_one_zero_u32, u32);
vk_base_gcd_one_zero!(vk_base_gcd_one_zero_u64, u64);
vk_base_gcd_one_zero!(vk_base_gcd_one_zero_u128, u128);
