// Kani harnesses for integer/src/memory.rs (+ math::ceil_log2): they back the TRUSTED contracts of the capacity-tracking
// scratch-memory model contracts/lib/mem_model.rs / mem_req_stubs.rs used by the Verus units int_memsize_* (C01, C16).
//
//   vk_memsize_find_*      try_find_memory_for_slice::<T> on a chunk with ARBITRARY addresses start <= end and an arbitrary
//                          element count: `Some` iff align_up(start, align_of T) + n * size_of T <= end (wide arithmetic),
//                          and then the pair returned is (aligned start, that sum)             -- loop-free, complete
//   vk_memsize_alloc_*     allocate_slice_fill / _copy / _copy_fill on a REAL MemoryAllocation of 6 Words: a request that
//                          fits returns n initialised elements, the rest chunk starts behind them, ends where the parent
//                          ends, and the parent chunk is unchanged (a second carve-out overlaps nothing) -- bounded (6 Words)
//   vk_memsize_layout      zero_layout / array_layout::<Word> / add_layout / max_layout: size and alignment formulas
//   vk_memsize_fresh       MemoryAllocation::new(l).memory(): start aligned to l.align(), end - start == l.size()
//   vk_memsize_ceil_log2   math::ceil_log2::<usize>(x): the r with 2^(r-1) < x <= 2^r, for every x != 0 -- complete
use super::*;
include!("/verif/kani/harness/shim.rs");
use crate::arch::word::Word;

fn chunk(start: usize, end: usize) -> Memory<'static> {
    Memory { start: start as *mut u8, end: end as *mut u8, phantom_data: PhantomData }
}

/// oracle in u128: (fits, aligned start, end of the slice)
fn fit(start: usize, end: usize, n: usize, size: u128, align: u128) -> (bool, u128, u128) {
    let s = start as u128;
    let pad = (align - s % align) % align;
    let a = s + pad;
    let e = a + (n as u128) * size;
    (e <= end as u128, a, e)
}

#[cfg_attr(kani, kani::proof)]
#[cfg_attr(not(kani), test)]
fn vk_memsize_find_word() {
    let start: usize = any();
    let end: usize = any();
    let n: usize = any();
    assume(start <= end);
    let m = chunk(start, end);
    let r = m.try_find_memory_for_slice::<Word>(n);
    let (ok, a, e) = fit(start, end, n, mem::size_of::<Word>() as u128, mem::align_of::<Word>() as u128);
    assert!(mem::size_of::<Word>() == 8 && mem::align_of::<Word>() == 8);
    match r {
        Some((p, q)) => {
            assert!(ok);
            assert!(p as usize as u128 == a);
            assert!(q as usize as u128 == e);
        }
        None => assert!(!ok),
    }
    cover();
}

#[cfg_attr(kani, kani::proof)]
#[cfg_attr(not(kani), test)]
fn vk_memsize_find_u32() {
    let start: usize = any();
    let end: usize = any();
    let n: usize = any();
    assume(start <= end);
    let m = chunk(start, end);
    let r = m.try_find_memory_for_slice::<u32>(n);
    let (ok, a, e) = fit(start, end, n, 4, mem::align_of::<u32>() as u128);
    match r {
        Some((p, q)) => {
            assert!(ok);
            assert!(p as usize as u128 == a);
            assert!(q as usize as u128 == e);
        }
        None => assert!(!ok),
    }
    cover();
}

#[cfg_attr(kani, kani::proof)]
#[cfg_attr(not(kani), test)]
fn vk_memsize_find_u8() {
    let start: usize = any();
    let end: usize = any();
    let n: usize = any();
    assume(start <= end);
    let m = chunk(start, end);
    let r = m.try_find_memory_for_slice::<u8>(n);
    let (ok, a, e) = fit(start, end, n, 1, 1);
    match r {
        Some((p, q)) => {
            assert!(ok);
            assert!(p as usize as u128 == a);
            assert!(q as usize as u128 == e);
        }
        None => assert!(!ok),
    }
    cover();
}

const CAPW: usize = 6;

#[cfg_attr(kani, kani::proof)]
#[cfg_attr(kani, kani::unwind(8))]
#[cfg_attr(not(kani), test)]
fn vk_memsize_alloc_fill() {
    let n: usize = any();
    let k: usize = any();
    let v: Word = any();
    let w: Word = any();
    assume(n <= CAPW && k <= CAPW - n);
    let mut allocation = MemoryAllocation::new(Layout::array::<Word>(CAPW).unwrap());
    let mut memory = allocation.memory();
    let (s0, e0) = (memory.start as usize, memory.end as usize);
    assert!(s0 % 8 == 0 && e0 - s0 == 8 * CAPW);
    {
        let (a, mut rest) = memory.allocate_slice_fill::<Word>(n, v);
        assert!(a.len() == n);
        let pa = a.as_ptr() as usize;
        assert!(pa == s0);
        assert!(rest.start as usize == s0 + 8 * n && rest.end as usize == e0);
        // the rest offers exactly CAPW - n Words: k <= CAPW - n fit, one more does not
        assert!(rest.try_find_memory_for_slice::<Word>(CAPW - n).is_some());
        assert!(rest.try_find_memory_for_slice::<Word>(CAPW - n + 1).is_none());
        let (b, rest2) = rest.allocate_slice_fill::<Word>(k, w);
        assert!(b.len() == k);
        let pb = b.as_ptr() as usize;
        assert!(pb >= pa + 8 * n);                       // disjoint
        assert!(rest2.start as usize == s0 + 8 * (n + k) && rest2.end as usize == e0);
        let mut i = 0;
        while i < CAPW {
            if i < n {
                assert!(a[i] == v);                          // not clobbered by the second carve-out
            }
            if i < k {
                assert!(b[i] == w);
            }
            i += 1;
        }
    }
    // the parent chunk is unchanged: it can be carved again
    assert!(memory.start as usize == s0 && memory.end as usize == e0);
    cover();
}

#[cfg_attr(kani, kani::proof)]
#[cfg_attr(kani, kani::unwind(8))]
#[cfg_attr(not(kani), test)]
fn vk_memsize_alloc_copy() {
    let src: [Word; CAPW] = any();
    let n: usize = any();
    let l: usize = any();
    let v: Word = any();
    assume(l <= n && n <= CAPW);
    let mut allocation = MemoryAllocation::new(Layout::array::<Word>(CAPW).unwrap());
    let mut memory = allocation.memory();
    let (s0, e0) = (memory.start as usize, memory.end as usize);
    {
        let (a, rest) = memory.allocate_slice_copy::<Word>(&src[..l]);
        assert!(a.len() == l);
        assert!(rest.start as usize == s0 + 8 * l && rest.end as usize == e0);
        let mut i = 0;
        while i < CAPW {
            if i < l {
                assert!(a[i] == src[i]);
            }
            i += 1;
        }
    }
    {
        let (a, rest) = memory.allocate_slice_copy_fill::<Word>(n, &src[..l], v);
        assert!(a.len() == n);
        assert!(rest.start as usize == s0 + 8 * n && rest.end as usize == e0);
        let mut i = 0;
        while i < CAPW {
            if i < l {
                assert!(a[i] == src[i]);
            } else if i < n {
                assert!(a[i] == v);
            }
            i += 1;
        }
    }
    assert!(memory.start as usize == s0 && memory.end as usize == e0);
    cover();
}

#[cfg_attr(kani, kani::proof)]
#[cfg_attr(not(kani), test)]
fn vk_memsize_layout() {
    let z = zero_layout();
    assert!(z.size() == 0 && z.align() == 1);
    let n: usize = any();
    assume(n <= (isize::MAX as usize) / 8);
    let a = array_layout::<Word>(n);
    assert!(a.size() == 8 * n && a.align() == 8);
    // add_layout / max_layout on layouts of alignment 1 or 8 (all that the crate builds)
    let s1: usize = any();
    let s2: usize = any();
    let w1: bool = any();
    let w2: bool = any();
    assume(s1 <= 1 << 40 && s2 <= 1 << 40);
    let l1 = Layout::from_size_align(s1, if w1 { 8 } else { 1 }).unwrap();
    let l2 = Layout::from_size_align(s2, if w2 { 8 } else { 1 }).unwrap();
    let sum = add_layout(l1, l2);
    let al2 = l2.align();
    let up = s1 + (al2 - s1 % al2) % al2;
    assert!(sum.size() == up + s2);
    assert!(sum.align() == if w1 || w2 { 8 } else { 1 });
    let mx = max_layout(l1, l2);
    assert!(mx.size() == if s1 >= s2 { s1 } else { s2 });
    assert!(mx.align() == if w1 || w2 { 8 } else { 1 });
    cover();
}

#[cfg_attr(kani, kani::proof)]
#[cfg_attr(not(kani), test)]
fn vk_memsize_fresh() {
    // zero-sized: the start is the alignment itself (memory.rs:38)
    let mut z = MemoryAllocation::new(zero_layout());
    let m = z.memory();
    assert!(m.start as usize == 1 && m.end as usize == 1);
    let mut z8 = MemoryAllocation::new(array_layout::<Word>(0));
    let m = z8.memory();
    assert!(m.start as usize == 8 && m.end as usize == 8);
    // non-empty: aligned start, end - start == size
    let mut a = MemoryAllocation::new(array_layout::<Word>(5));
    let m = a.memory();
    assert!((m.start as usize) % 8 == 0 && (m.end as usize) - (m.start as usize) == 40);
    cover();
}

#[cfg_attr(kani, kani::proof)]
#[cfg_attr(not(kani), test)]
fn vk_memsize_ceil_log2() {
    let x: usize = any();
    assume(x != 0);
    let r = crate::math::ceil_log2(x);
    assert!(r <= 64);
    if r < 64 {
        assert!((x as u128) <= 1u128 << r);
    }
    if r >= 1 {
        assert!((x as u128) > 1u128 << (r - 1));
    }
    cover();
}
