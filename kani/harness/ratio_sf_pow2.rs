// Kani harnesses for rational/src/simplify.rs `RBig::simplest_from_f32` / `simplest_from_f64` (macro
// impl_simplest_from_float), C18: "the simplest fraction among those that convert back to exactly the given float".
// BOUNDED: one CONCRETE float per harness (powers of two and their neighbours, where the rounding interval is
// asymmetric); the Verus unit ratio_simplest_prim carries the unbounded statement.
//
// Oracle (independent of the code under test, plain i128 arithmetic): the float is decoded from its BIT PATTERN
// (sign / biased exponent / fraction -> m * 2^e); its two neighbours are the bit patterns bits - 1 and bits + 1 (IEEE:
// adjacent patterns of one sign are adjacent values); a real x rounds to f under round-to-nearest-even iff it lies between
// the midpoints (f + pred)/2 and (f + succ)/2, a midpoint counting iff the fraction field of f is even.  The simplest
// fraction of that interval is found by brute force: the smallest denominator d = 1, 2, .. that admits a numerator, then
// the numerator of smallest magnitude.
use super::*;
include!("/verif/kani/harness/shim.rs");

/// (m, e) with |value| = m * 2^e, from the bit pattern of a finite f32 (8 exponent bits, 23 fraction bits) / f64 (11, 52)
fn vk_sfp_dec(mag_bits: u64, p: u32) -> (i128, i32) {
    let biased = (mag_bits >> p) as i32;
    let frac = (mag_bits & ((1u64 << p) - 1)) as i128;
    let bias = if p == 23 { 127 } else { 1023 };
    if biased == 0 {
        (frac, 1 - bias - p as i32)
    } else {
        (frac | (1i128 << p), biased - bias - p as i32)
    }
}

/// the simplest fraction (n, d) of the rounding interval of the finite non-zero float with magnitude bits `mag_bits`
/// (p fraction bits), as a magnitude; exponents must stay small enough for i128 (callers pick such floats)
fn vk_sfp_oracle(mag_bits: u64, p: u32) -> (i128, i128) {
    let (m, e) = vk_sfp_dec(mag_bits, p);
    let (m0, e0) = vk_sfp_dec(mag_bits - 1, p);
    let (m1, e1) = vk_sfp_dec(mag_bits + 1, p);
    let emin = e.min(e0).min(e1);
    // twice the midpoints in units of 2^emin, i.e. the midpoints in units of 2^(emin - 1)
    let lo = (m << (e - emin) as u32) + (m0 << (e0 - emin) as u32);
    let hi = (m << (e - emin) as u32) + (m1 << (e1 - emin) as u32);
    let u = emin - 1;
    let (lo, hi, t) = if u >= 0 { (lo << u as u32, hi << u as u32, 1i128) } else { (lo, hi, 1i128 << (-u) as u32) };
    let incl = mag_bits & 1 == 0;
    // interval [lo/t, hi/t] (closed iff incl)
    let mut d: i128 = 1;
    while d <= 64 {
        // smallest n with n/d >= lo/t (> if !incl)
        let mut n = (lo * d + t - 1) / t;
        if !incl && n * t == lo * d {
            n += 1;
        }
        if (incl && n * t <= hi * d) || (!incl && n * t < hi * d) {
            return (n, d);
        }
        d += 1;
    }
    (0, 0)
}

fn vk_sfp_check_f32(f: f32) {
    let bits = f.to_bits();
    let neg = bits >> 31 == 1;
    let (n, d) = vk_sfp_oracle((bits & 0x7fff_ffff) as u64, 23);
    assert!(d != 0);
    let s = RBig::simplest_from_f32(f).unwrap();
    let n = if neg { -n } else { n };
    assert!(*s.numerator() == IBig::from(n));
    assert!(*s.denominator() == UBig::from(d as u128));
}
fn vk_sfp_check_f64(f: f64) {
    let bits = f.to_bits();
    let neg = bits >> 63 == 1;
    let (n, d) = vk_sfp_oracle(bits & 0x7fff_ffff_ffff_ffff, 52);
    assert!(d != 0);
    let s = RBig::simplest_from_f64(f).unwrap();
    let n = if neg { -n } else { n };
    assert!(*s.numerator() == IBig::from(n));
    assert!(*s.denominator() == UBig::from(d as u128));
}

macro_rules! vk_sfp_harness {
    ($name:ident, $check:ident, $f:expr) => {
        #[cfg_attr(kani, kani::proof)]
        #[cfg_attr(kani, kani::unwind(70))]
        #[cfg_attr(not(kani), test)]
        fn $name() {
            $check($f);
            vshim::cover();
        }
    };
}
// 2^24 (odd biased exponent 151: the power of two the seeded mask change no longer recognises), 2^25, their negatives,
// a non-power neighbour, and fractional powers of two
vk_sfp_harness!(vk_ratio_sf_pow2_f32_2p24, vk_sfp_check_f32, 16777216.0f32);
vk_sfp_harness!(vk_ratio_sf_pow2_f32_m2p24, vk_sfp_check_f32, -16777216.0f32);
vk_sfp_harness!(vk_ratio_sf_pow2_f32_2p25, vk_sfp_check_f32, 33554432.0f32);
vk_sfp_harness!(vk_ratio_sf_pow2_f32_2p26, vk_sfp_check_f32, 67108864.0f32);
vk_sfp_harness!(vk_ratio_sf_pow2_f32_2p24_next, vk_sfp_check_f32, 16777218.0f32);
vk_sfp_harness!(vk_ratio_sf_pow2_f32_one, vk_sfp_check_f32, 1.0f32);
vk_sfp_harness!(vk_ratio_sf_pow2_f32_half, vk_sfp_check_f32, 0.5f32);
vk_sfp_harness!(vk_ratio_sf_pow2_f64_2p54, vk_sfp_check_f64, 18014398509481984.0f64);
vk_sfp_harness!(vk_ratio_sf_pow2_f64_m2p54, vk_sfp_check_f64, -18014398509481984.0f64);
vk_sfp_harness!(vk_ratio_sf_pow2_f64_2p55, vk_sfp_check_f64, 36028797018963968.0f64);
vk_sfp_harness!(vk_ratio_sf_pow2_f64_one, vk_sfp_check_f64, 1.0f64);

// ------------------------------------------------------------------------------------------------------------
// COMPLETE (loop-free, every bit pattern): the IEEE meaning of the core float operations that the Verus unit
// ratio_simplest_prim ASSUMES (contracts/lib/sf_prim_stubs.rs: is_nan / is_infinite / == / != / > / unary minus /
// MIN_POSITIVE / MANTISSA_DIGITS read through the fields of `to_bits()`), as far as CBMC's IEEE-754 model goes.
#[cfg_attr(kani, kani::proof)]
#[cfg_attr(not(kani), test)]
fn vk_ratio_sf_pow2_model_f32() {
    let bits: u32 = vshim::any();
    let f = f32::from_bits(bits);
    let (sbit, eb, frac) = (bits >> 31 == 1, (bits >> 23) & 0xff, bits & 0x7f_ffff);
    let nan = eb == 0xff && frac != 0;
    let zero = eb == 0 && frac == 0;
    assert!(f.to_bits() == bits || nan); // (a NaN payload may be canonicalised by from_bits on some targets)
    assert!(f.is_nan() == nan);
    assert!(f.is_infinite() == (eb == 0xff && frac == 0));
    assert!((f == 0.) == zero);
    assert!((f > 0.) == (!nan && !zero && !sbit));
    assert!(f32::MIN_POSITIVE.to_bits() == 0x0080_0000);
    assert!((-f32::MIN_POSITIVE).to_bits() == 0x8080_0000);
    assert!((f != f32::MIN_POSITIVE) == (nan || bits != 0x0080_0000));
    assert!((f != -f32::MIN_POSITIVE) == (nan || bits != 0x8080_0000));
    assert!(f32::MANTISSA_DIGITS == 24);
    vshim::cover();
}
#[cfg_attr(kani, kani::proof)]
#[cfg_attr(not(kani), test)]
fn vk_ratio_sf_pow2_model_f64() {
    let bits: u64 = vshim::any();
    let f = f64::from_bits(bits);
    let (sbit, eb, frac) = (bits >> 63 == 1, (bits >> 52) & 0x7ff, bits & 0xf_ffff_ffff_ffff);
    let nan = eb == 0x7ff && frac != 0;
    let zero = eb == 0 && frac == 0;
    assert!(f.to_bits() == bits || nan);
    assert!(f.is_nan() == nan);
    assert!(f.is_infinite() == (eb == 0x7ff && frac == 0));
    assert!((f == 0.) == zero);
    assert!((f > 0.) == (!nan && !zero && !sbit));
    assert!(f64::MIN_POSITIVE.to_bits() == 0x0010_0000_0000_0000);
    assert!((-f64::MIN_POSITIVE).to_bits() == 0x8010_0000_0000_0000);
    assert!((f != f64::MIN_POSITIVE) == (nan || bits != 0x0010_0000_0000_0000));
    assert!((f != -f64::MIN_POSITIVE) == (nan || bits != 0x8010_0000_0000_0000));
    assert!(f64::MANTISSA_DIGITS == 53);
    vshim::cover();
}
