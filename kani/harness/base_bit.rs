// Kani harnesses for base/src/bit.rs: FloatEncoding::{decode, encode} for f32 and f64.
// All harnesses are loop-free and range over the whole input domain (complete proofs).
//
// Oracle (from the property statement, C06): `encode(m, e)` is the IEEE-754 round-to-nearest, ties-to-even
// value of the real number m * 2^e, `Exact` iff that number is representable, otherwise `Inexact(sign of
// result - exact)`; `decode(f)` is a pair with m * 2^e == f.  The oracle never builds a float: it takes the
// *bit pattern* that came back, reads sign / biased exponent / fraction with the IEEE field layout, and compares
// the exact value a * 2^e with the candidate float and with the midpoints to its two neighbours by exact
// integer comparison (u128, exponent alignment bounded by a case split).
use super::*;
include!("/verif/kani/harness/shim.rs");

/// sign(a * 2^ea - b * 2^eb) for a, b < 2^64, decided exactly.
fn vk_bb_cmp_scaled(a: u64, ea: i32, b: u64, eb: i32) -> i8 {
    if a == 0 || b == 0 {
        return if a == b {
            0
        } else if a == 0 {
            -1
        } else {
            1
        };
    }
    let d = ea - eb;
    let (x, y): (u128, u128) = if d >= 64 {
        return 1; // a >= 1, so a * 2^d >= 2^64 > b
    } else if d <= -64 {
        return -1;
    } else if d >= 0 {
        ((a as u128) << (d as u32), b as u128)
    } else {
        (a as u128, (b as u128) << ((-d) as u32))
    };
    if x < y {
        -1
    } else if x > y {
        1
    } else {
        0
    }
}

/// "`bits` (an IEEE binary format with `p` fraction bits and `w` exponent bits) is the round-to-nearest-even value of
/// (-1)^neg * a * 2^e, and (`exact`, `err_pos`) report truthfully whether it is exact / the sign of result - exact."
fn vk_bb_rne_ok(neg: bool, a: u64, e: i32, p: u32, w: u32, bits: u64, exact: bool, err_pos: bool) -> bool {
    let emaxb: u64 = (1u64 << w) - 1;
    let bias: i32 = (1i32 << (w - 1)) - 1;
    let sbit = (bits >> (p + w)) == 1;
    let eb = (bits >> p) & emaxb;
    let frac = bits & ((1u64 << p) - 1);
    if a == 0 {
        return bits == 0 && exact; // zero is +0.0, exact
    }
    if sbit != neg {
        return false;
    }
    // quantum exponent of the top binade; the overflow threshold is the midpoint between the largest finite
    // value (2^(p+1) - 1) * 2^q_top and 2^(p+1) * 2^q_top, i.e. (2^(p+2) - 1) * 2^(q_top - 1); the tie goes to infinity
    // (the largest finite significand is odd).
    let q_top: i32 = (emaxb as i32 - 1) - bias - p as i32;
    let thr: u64 = (1u64 << (p + 2)) - 1;
    if eb == emaxb {
        return frac == 0 && vk_bb_cmp_scaled(a, e, thr, q_top - 1) >= 0 && !exact && (err_pos != neg);
    }
    // finite candidate y = m * 2^q
    let m: u64 = if eb == 0 { frac } else { frac | (1u64 << p) };
    let q: i32 = (if eb == 0 { 1 } else { eb as i32 }) - bias - p as i32;
    let c = vk_bb_cmp_scaled(a, e, m, q); // sign(x - y), x = a * 2^e
    if c == 0 {
        return exact;
    }
    if exact {
        return false;
    }
    // sign(result - exact) is sign(y - x) for positive inputs and the opposite for negative ones
    if err_pos != ((c < 0) != neg) {
        return false;
    }
    if c > 0 {
        // x above y: not beyond the midpoint (2m + 1) * 2^(q-1) to the next float up; on the tie m must be even
        let t = vk_bb_cmp_scaled(a, e, 2 * m + 1, q - 1);
        t < 0 || (t == 0 && m % 2 == 0)
    } else {
        // x below y (so m > 0): the next float down is (m - 1) * 2^q, except at the bottom of a normal binade
        // above the first one, where it is (2m - 1) * 2^(q-1)
        let (mid, mq) = if eb > 1 && frac == 0 { (4 * m - 1, q - 2) } else { (2 * m - 1, q - 1) };
        let t = vk_bb_cmp_scaled(a, e, mid, mq);
        t > 0 || (t == 0 && m % 2 == 0)
    }
}

fn vk_bb_flat32(r: Approximation<f32, Sign>) -> (u64, bool, bool) {
    match r {
        Exact(f) => (f.to_bits() as u64, true, false),
        Inexact(f, s) => (f.to_bits() as u64, false, s == Sign::Positive),
    }
}

fn vk_bb_flat64(r: Approximation<f64, Sign>) -> (u64, bool, bool) {
    match r {
        Exact(f) => (f.to_bits(), true, false),
        Inexact(f, s) => (f.to_bits(), false, s == Sign::Positive),
    }
}

// ------------------------------------------------------------------------------------------------------------
// decode

#[cfg_attr(kani, kani::proof)]
#[cfg_attr(not(kani), test)]
fn vk_base_bit_decode_f32() {
    let bits: u32 = any();
    let eb = (bits >> 23) & 0xff;
    let frac = bits & 0x7fffff;
    match f32::from_bits(bits).decode() {
        Err(c) => {
            assert!(eb == 0xff);
            assert!((c == FpCategory::Nan) == (frac != 0));
            assert!((c == FpCategory::Infinite) == (frac == 0));
        }
        Ok((m, e)) => {
            assert!(eb != 0xff);
            // value from the IEEE fields
            let mm: u64 = if eb == 0 { frac as u64 } else { (frac | 0x800000) as u64 };
            let q: i32 = (if eb == 0 { 1 } else { eb as i32 }) - 127 - 23;
            // m * 2^e == (-1)^s * mm * 2^q exactly
            assert!(vk_bb_cmp_scaled(m.unsigned_abs() as u64, e as i32, mm, q) == 0);
            assert!(m == 0 || (m < 0) == (bits >> 31 == 1));
            // documented: the pair is not reduced
            assert!(e as i32 == q);
        }
    }
    cover();
}

#[cfg_attr(kani, kani::proof)]
#[cfg_attr(not(kani), test)]
fn vk_base_bit_decode_f64() {
    let bits: u64 = any();
    let eb = (bits >> 52) & 0x7ff;
    let frac = bits & 0xfffffffffffff;
    match f64::from_bits(bits).decode() {
        Err(c) => {
            assert!(eb == 0x7ff);
            assert!((c == FpCategory::Nan) == (frac != 0));
            assert!((c == FpCategory::Infinite) == (frac == 0));
        }
        Ok((m, e)) => {
            assert!(eb != 0x7ff);
            let mm: u64 = if eb == 0 { frac } else { frac | (1u64 << 52) };
            let q: i32 = (if eb == 0 { 1 } else { eb as i32 }) - 1023 - 52;
            assert!(vk_bb_cmp_scaled(m.unsigned_abs(), e as i32, mm, q) == 0);
            assert!(m == 0 || (m < 0) == (bits >> 63 == 1));
            assert!(e as i32 == q);
        }
    }
    cover();
}

// ------------------------------------------------------------------------------------------------------------
// encode(decode(f)) == Exact(f) for every finite f (the sign of -0.0 cannot survive an integer mantissa: +0.0)

#[cfg_attr(kani, kani::proof)]
#[cfg_attr(not(kani), test)]
fn vk_base_bit_roundtrip_f32() {
    let bits: u32 = any();
    assume((bits >> 23) & 0xff != 0xff);
    let (m, e) = f32::from_bits(bits).decode().unwrap();
    let (back, exact, _) = vk_bb_flat32(f32::encode(m, e));
    assert!(exact);
    if bits == 0x8000_0000 {
        assert!(back == 0);
    } else {
        assert!(back == bits as u64);
    }
    cover();
}

#[cfg_attr(kani, kani::proof)]
#[cfg_attr(not(kani), test)]
fn vk_base_bit_roundtrip_f64() {
    let bits: u64 = any();
    assume((bits >> 52) & 0x7ff != 0x7ff);
    let (m, e) = f64::from_bits(bits).decode().unwrap();
    let (back, exact, _) = vk_bb_flat64(f64::encode(m, e));
    assert!(exact);
    if bits == 1u64 << 63 {
        assert!(back == 0);
    } else {
        assert!(back == bits);
    }
    cover();
}

// ------------------------------------------------------------------------------------------------------------
// encode: correct rounding and truthful flag over the whole (mantissa, exponent) domain.
// (History: on the original tree four regions violated this - i16 overflow of bitlen + exponent, the f32 underflow
// cut-off, a sticky mask one bit short, negative shift amounts next to the smallest subnormal - see
// known_findings.txt `fixed:` entries 7749a6e, 49a3cb9, 4670df6.)

#[cfg_attr(kani, kani::proof)]
#[cfg_attr(not(kani), test)]
fn vk_base_bit_encode_f32() {
    let m: i32 = any();
    let e: i16 = any();
    let (bits, exact, pos) = vk_bb_flat32(f32::encode(m, e));
    assert!(vk_bb_rne_ok(m < 0, m.unsigned_abs() as u64, e as i32, 23, 8, bits, exact, pos));
    cover();
}

#[cfg_attr(kani, kani::proof)]
#[cfg_attr(not(kani), test)]
fn vk_base_bit_encode_f64() {
    let m: i64 = any();
    let e: i16 = any();
    let (bits, exact, pos) = vk_bb_flat64(f64::encode(m, e));
    assert!(vk_bb_rne_ok(m < 0, m.unsigned_abs(), e as i32, 52, 11, bits, exact, pos));
    cover();
}
