// Kani harnesses that WITNESS entries of /verif/known_findings.txt in dashu-float (kind 'finding': expected to fail).
// Mounted on float/src/round.rs.
//
// C18, odd bases: ErrorBounds::error_bounds of the two round-to-nearest modes returns ceil(B/2) units of the next
// digit as "half an ulp" (`(B + 1) / 2 // ceil division`).  For an odd base that is MORE than half an ulp (half an ulp
// has no finite expansion in an odd base), so the interval handed to RBig::simplest_from_float contains reals that
// round to a neighbour of f: simplest_from_float(0.1 in base 3, 1 digit, HalfAway) = 1/2, which converts back to
// 0.2 in base 3.  The Verus units float_error_bounds / float_error_bounds_halfeven prove the bounds EXACT for even
// bases only (precondition eb_domain); this harness states the same requirement on one concrete odd-base input.
use super::*;
use crate::{fbig::FBig, repr::{Context, Repr}};
use dashu_int::IBig;
include!("/verif/kani/harness/shim.rs");

#[cfg_attr(kani, kani::proof)]
#[cfg_attr(kani, kani::unwind(4))]
#[cfg_attr(not(kani), test)]
fn vk_float_finding_error_bounds_odd_base_halfaway() {
    // f = 1 * 3^-1 at precision 1: ulp = 3^-1, the reals that round to f are [f - ulp/6, f + ulp/2)
    let f: FBig<mode::HalfAway, 3> = FBig::new(Repr { significand: IBig::ONE, exponent: -1 }, Context::new(1));
    let (_l, r, _il, _ir) = <mode::HalfAway as ErrorBounds>::error_bounds(&f);
    // r = rs * 3^re must not exceed ulp / 2 = 3^-1 / 2, i.e. 2 * rs * 3^(re + 1) <= 1; the code returns 2 * 3^-2
    let re = r.repr.exponent;
    assert!(re == -2);
    let two_rs = r.repr.significand.clone() + r.repr.significand.clone();
    assert!(two_rs <= IBig::from(3u8));
    cover();
}
