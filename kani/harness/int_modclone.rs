// Kani harnesses for integer/src/modular/repr.rs `impl Clone for Reduced` / `impl Clone for ReducedRepr` (clone and the
// buffer-reusing clone_from): C15, clause "Cloning (clone and clone_from onto any previous value) yields a value equal to
// and independent of the original".  An element of a ring is the pair (ring INSTANCE, residue): equality of elements is
// only defined inside one instance (`==` panics otherwise), so "equal to the original" means: the clone refers to the SAME
// ring object (pointer identity, the relation `check_same_ring_*` tests) and stores the same residue words.
//
// BOUNDED (concrete rings; the stored words of the Large source are symbolic within the validity invariant):
//   * 3-word rings  A = [7, 5, 2^62 + 1]  and  B = [9, 3, 2^62 + 3]  (both shift 1), 4-word ring  C = [3, 0, 1, 2^62 + 5]
//   * single-word rings 1_000_003 and 1_000_033, double-word rings 2^64 + 13 and 2^64 + 15
//   clone_from Large <- Large across two rings of equal length (buffer reused), inside one ring, and across different
//   lengths (buffer replaced); every other ordered pair of representations (single / double / large target and source,
//   symbolic selector); clone() of the three representations; independence: writing into the clone's words leaves the
//   source untouched.
// The oracle never calls clone/clone_from: expected ring = address of the source's ring object, expected words = the
// words the harness stored in the source.
use super::*;
include!("/verif/kani/harness/shim.rs");

fn vk_mc_pin(w: Word) -> Word {
    let v: Word = any();
    assume(v == w);
    v
}

// single / double word rings: moduli pinned through `assume` (CBMC 6.11 crashes in its constant folder on num_modular's
// reciprocal of a literal divisor: probed, see int_modpow.rs)
fn vk_mc_single(m: Word) -> ConstSingleDivisor {
    ConstSingleDivisor::new(vk_mc_pin(m))
}

fn vk_mc_double(lo: Word) -> ConstDoubleDivisor {
    let lo = vk_mc_pin(lo) as DoubleWord;
    let hi = vk_mc_pin(1) as DoubleWord;
    ConstDoubleDivisor::new(lo | (hi << Word::BITS))
}

fn vk_mc_large3(w0: Word, w1: Word, w2: Word) -> ConstLargeDivisor {
    let mut b = Buffer::allocate_exact(3);
    b.push(w0);
    b.push(w1);
    b.push(w2);
    ConstLargeDivisor::new(b)
}

fn vk_mc_ring_a() -> ConstLargeDivisor {
    vk_mc_large3(7, 5, (1 << (Word::BITS - 2)) + 1)
}

fn vk_mc_ring_b() -> ConstLargeDivisor {
    vk_mc_large3(9, 3, (1 << (Word::BITS - 2)) + 3)
}

fn vk_mc_ring_c() -> ConstLargeDivisor {
    let mut b = Buffer::allocate_exact(4);
    b.push(3);
    b.push(0);
    b.push(1);
    b.push((1 << (Word::BITS - 2)) + 5);
    ConstLargeDivisor::new(b)
}

/// a valid stored value of a 3-word ring with shift 1 and top word >= 2^62: low word even, top word < 2^62 (so the stored
/// number is below the normalized modulus, whose top word is >= 2^63)
fn vk_mc_elem3(w: [Word; 3]) -> ReducedLarge {
    let mut b = Buffer::allocate_exact(3);
    b.push(w[0]);
    b.push(w[1]);
    b.push(w[2]);
    ReducedLarge(b.into_boxed_slice())
}

fn vk_mc_elem4(w: [Word; 4]) -> ReducedLarge {
    let mut b = Buffer::allocate_exact(4);
    b.push(w[0]);
    b.push(w[1]);
    b.push(w[2]);
    b.push(w[3]);
    ReducedLarge(b.into_boxed_slice())
}

fn vk_mc_any_words3() -> [Word; 3] {
    let w: [Word; 3] = [any(), any(), any()];
    assume(w[0] & 1 == 0);
    assume(w[2] < (1 << (Word::BITS - 2)));
    w
}

/// the clone `c` is the element (ring object `ring`, words `w`)
fn vk_mc_is_large(c: &Reduced<'_>, ring: &ConstLargeDivisor, w: &[Word]) -> bool {
    match c.repr() {
        ReducedRepr::Large(raw, r) => {
            let mut same = raw.0.len() == w.len();
            let mut i = 0;
            while same && i < w.len() {
                same = raw.0[i] == w[i];
                i += 1;
            }
            ptr::eq(*r, ring) && same
        }
        _ => false,
    }
}

fn vk_mc_is_single(c: &Reduced<'_>, ring: &ConstSingleDivisor, w: Word) -> bool {
    match c.repr() {
        ReducedRepr::Single(raw, r) => ptr::eq(*r, ring) && raw.0 == w,
        _ => false,
    }
}

fn vk_mc_is_double(c: &Reduced<'_>, ring: &ConstDoubleDivisor, w: DoubleWord) -> bool {
    match c.repr() {
        ReducedRepr::Double(raw, r) => ptr::eq(*r, ring) && raw.0 == w,
        _ => false,
    }
}

// ---- clone_from, Large <- Large, two different rings of EQUAL length: the branch that reuses the target's buffer -------
// (unwind 26: the final `==` is a memcmp over 3 words)
#[cfg_attr(kani, kani::proof)]
#[cfg_attr(kani, kani::unwind(26))]
#[cfg_attr(not(kani), test)]
fn vk_modclone_large_across_rings() {
    let (ra, rb) = (vk_mc_ring_a(), vk_mc_ring_b());
    let wa = vk_mc_any_words3();
    let wb = vk_mc_any_words3();
    let mut a = Reduced::from_large(vk_mc_elem3(wa), &ra);
    let b = Reduced::from_large(vk_mc_elem3(wb), &rb);
    a.clone_from(&b);
    // equal to the original: ring of the SOURCE, residue of the source
    assert!(vk_mc_is_large(&a, &rb, &wb));
    // the source is unchanged
    assert!(vk_mc_is_large(&b, &rb, &wb));
    // `==` is defined (same ring: no panic) and true
    assert!(a == b);
    // independent of the original: writing into the clone does not reach the source
    if let ReducedRepr::Large(raw, _) = a.repr_mut() {
        raw.0[1] = !wb[1];
    }
    assert!(vk_mc_is_large(&b, &rb, &wb));
    cover();
}

// ---- clone_from, Large <- Large inside ONE ring ------------------------------------------------------------------------
#[cfg_attr(kani, kani::proof)]
#[cfg_attr(kani, kani::unwind(6))]
#[cfg_attr(not(kani), test)]
fn vk_modclone_large_same_ring() {
    let ra = vk_mc_ring_a();
    let wa = vk_mc_any_words3();
    let wb = vk_mc_any_words3();
    let mut a = Reduced::from_large(vk_mc_elem3(wa), &ra);
    let b = Reduced::from_large(vk_mc_elem3(wb), &ra);
    a.clone_from(&b);
    assert!(vk_mc_is_large(&a, &ra, &wb));
    assert!(vk_mc_is_large(&b, &ra, &wb));
    if let ReducedRepr::Large(raw, _) = a.repr_mut() {
        raw.0[0] = wb[0] ^ 2;
    }
    assert!(vk_mc_is_large(&b, &ra, &wb));
    cover();
}

// ---- clone_from, Large <- Large, rings of DIFFERENT length (3 <- 4 and 4 <- 3 words): the buffer is replaced ------------
#[cfg_attr(kani, kani::proof)]
#[cfg_attr(kani, kani::unwind(6))]
#[cfg_attr(not(kani), test)]
fn vk_modclone_large_other_length() {
    let (ra, rc) = (vk_mc_ring_a(), vk_mc_ring_c());
    let wa = vk_mc_any_words3();
    let wc: [Word; 4] = [2, any(), 5, 1];
    let mut a = Reduced::from_large(vk_mc_elem3(wa), &ra);
    let c = Reduced::from_large(vk_mc_elem4(wc), &rc);
    let a0 = Reduced::from_large(vk_mc_elem3(wa), &ra);
    let mut c2 = Reduced::from_large(vk_mc_elem4([4, 0, 0, 0]), &rc);
    a.clone_from(&c);
    assert!(vk_mc_is_large(&a, &rc, &wc));
    assert!(vk_mc_is_large(&c, &rc, &wc));
    c2.clone_from(&a0);
    assert!(vk_mc_is_large(&c2, &ra, &wa));
    assert!(vk_mc_is_large(&a0, &ra, &wa));
    cover();
}

// ---- clone_from for every other ordered pair of representations (the `*self = source.clone()` branch) ------------------
#[cfg_attr(kani, kani::proof)]
#[cfg_attr(kani, kani::unwind(26))]
#[cfg_attr(not(kani), test)]
fn vk_modclone_mixed_repr() {
    let (s1, s2) = (vk_mc_single(1_000_003), vk_mc_single(1_000_033));
    let (d1, d2) = (vk_mc_double(13), vk_mc_double(15));
    let ra = vk_mc_ring_a();
    let wl: [Word; 3] = [6, 1, 2];
    // stored values: multiples of 2^shift below the normalized modulus
    let ws: Word = 5 << s2.shift();
    let wd: DoubleWord = 9 << d2.shift();
    let pair: u8 = any();
    assume(pair < 8);
    // target (any previous value)
    let mut t = match pair {
        0 | 1 => Reduced::from_single(ReducedWord::one(&s1), &s1),
        2 | 3 => Reduced::from_double(ReducedDword::one(&d1), &d1),
        4 | 5 => Reduced::from_large(vk_mc_elem3([2, 0, 0]), &ra),
        6 => Reduced::from_single(ReducedWord::one(&s1), &s1),
        _ => Reduced::from_double(ReducedDword::one(&d1), &d1),
    };
    match pair {
        // source single (other ring instance than a single target)
        2 | 4 | 6 => {
            let src = Reduced::from_single(ReducedWord(ws), &s2);
            t.clone_from(&src);
            assert!(vk_mc_is_single(&t, &s2, ws));
            assert!(vk_mc_is_single(&src, &s2, ws));
            assert!(t == src);
        }
        // source double
        0 | 5 | 7 => {
            let src = Reduced::from_double(ReducedDword(wd), &d2);
            t.clone_from(&src);
            assert!(vk_mc_is_double(&t, &d2, wd));
            assert!(vk_mc_is_double(&src, &d2, wd));
            assert!(t == src);
        }
        // source large
        _ => {
            let src = Reduced::from_large(vk_mc_elem3(wl), &ra);
            t.clone_from(&src);
            assert!(vk_mc_is_large(&t, &ra, &wl));
            assert!(vk_mc_is_large(&src, &ra, &wl));
            if let ReducedRepr::Large(raw, _) = t.repr_mut() {
                raw.0[2] = 0;
            }
            assert!(vk_mc_is_large(&src, &ra, &wl));
        }
    }
    cover();
}

// ---- clone(): same ring object, same words, independent storage --------------------------------------------------------
#[cfg_attr(kani, kani::proof)]
#[cfg_attr(kani, kani::unwind(6))]
#[cfg_attr(not(kani), test)]
fn vk_modclone_clone() {
    let s1 = vk_mc_single(1_000_003);
    let d1 = vk_mc_double(13);
    let ra = vk_mc_ring_a();
    let wl = vk_mc_any_words3();
    let ws: Word = 7 << s1.shift();
    let wd: DoubleWord = 11 << d1.shift();
    let s = Reduced::from_single(ReducedWord(ws), &s1);
    let d = Reduced::from_double(ReducedDword(wd), &d1);
    let l = Reduced::from_large(vk_mc_elem3(wl), &ra);
    let (sc, dc) = (s.clone(), d.clone());
    let mut lc = l.clone();
    assert!(vk_mc_is_single(&sc, &s1, ws) && vk_mc_is_single(&s, &s1, ws));
    assert!(vk_mc_is_double(&dc, &d1, wd) && vk_mc_is_double(&d, &d1, wd));
    assert!(vk_mc_is_large(&lc, &ra, &wl) && vk_mc_is_large(&l, &ra, &wl));
    if let ReducedRepr::Large(raw, _) = lc.repr_mut() {
        raw.0[1] = !wl[1];
    }
    assert!(vk_mc_is_large(&l, &ra, &wl));
    cover();
}
