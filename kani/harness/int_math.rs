// Kani harnesses for integer/src/math.rs (scalar, loop-free: complete proofs over the full domain).
use super::*;
include!("/verif/kani/harness/shim.rs");

#[cfg_attr(kani, kani::proof)]
#[cfg_attr(not(kani), test)]
fn vk_math_ones_word() {
    let n: u32 = any();
    assume(n <= WORD_BITS);
    let r = ones_word(n);
    // 2^n - 1, computed in a wider type
    let want = ((1u128 << n) - 1) as Word;
    assert!(r == want);
    cover();
}

#[cfg_attr(kani, kani::proof)]
#[cfg_attr(not(kani), test)]
fn vk_math_ones_dword() {
    let n: u32 = any();
    assume(n <= DWORD_BITS);
    let r = ones_dword(n);
    let want = if n == DWORD_BITS { DoubleWord::MAX } else { (1 as DoubleWord).wrapping_shl(n) - 1 };
    assert!(r == want);
    cover();
}

#[cfg_attr(kani, kani::proof)]
#[cfg_attr(not(kani), test)]
fn vk_math_shl_dword() {
    let dw: DoubleWord = any();
    let s: u32 = any();
    assume(s <= WORD_BITS);
    let (lo, mid, hi) = shl_dword(dw, s);
    // (lo, mid, hi) is dw * 2^s as a 3-word number: check by shifting back and by the dropped bits
    let lowmid = double_word(lo, mid);
    if s == 0 {
        assert!(lowmid == dw && hi == 0);
    } else if s == WORD_BITS {
        assert!(lo == 0 && double_word(mid, hi) == dw);
    } else {
        assert!(lowmid == dw << s);
        assert!(extend_word(hi) == dw >> (DWORD_BITS - s));
    }
    cover();
}

#[cfg_attr(kani, kani::proof)]
#[cfg_attr(not(kani), test)]
fn vk_math_shr_word() {
    let w: Word = any();
    let s: u32 = any();
    assume(s < WORD_BITS);
    let (r, c) = shr_word(w, s);
    assert!(r == w >> s);
    // shifted-out bits sit in the top bits of c
    if s == 0 {
        assert!(c == 0);
    } else {
        assert!(c == w << (WORD_BITS - s));
    }
    cover();
}
