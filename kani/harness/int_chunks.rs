// Kani harnesses for the bit-chunk codecs of integer/src/convert.rs (C07 "to/from bit chunks are mutually inverse";
// C17: the chunk buffers are hand-sized `Buffer`s written through `&mut [&mut [Word]]`, checked here under CBMC's
// pointer / bounds checks).
//
// Functions under test: words_to_chunks, chunks_to_words, TypedReprRef::to_chunks, Repr::from_chunks.
//
// Oracle (from the property statement / the documentation of UBig::to_chunks, from_chunks): the chunks c_0..c_{k-1} of x
// for a chunk size of b bits satisfy  k = ceil(bit_len(x) / b),  c_i < 2^b,  sum c_i * 2^(i*b) = x;  from_chunks returns
// sum c_i * 2^(i*b) for ARBITRARY chunks (also chunks wider than b bits).  Sums are formed limb-wise with explicit
// carries (5 limbs of 64 bits), shifts are by the concrete / small amounts i*b.
//
// Bound: magnitudes of at most 3 words.  Large (3-word) inputs have fully symbolic low words and a top word from a
// concrete palette, chunk sizes from {7, 63, 64, 65, 128, 200}: the control flow of the codecs depends only on the bit
// length and the chunk size, and a symbolic chunk count means a symbolic number of heap allocations (out of reach for
// CBMC; also avoids the known copy_from_slice-with-symbolic-offset bug).  Small inputs: see each harness.
use super::*;
include!("/verif/kani/harness/shim.rs");

const _: () = assert!(WORD_BITS == 64); // all Kani runs use force_bits = "64"

const VK_L: usize = 5;

/// limbs of a non-negative Repr (at most 4 words)
fn vk_repr_limbs(r: &Repr) -> [u64; VK_L] {
    let (sign, t) = r.as_sign_typed();
    assert!(sign == Positive);
    let mut m = [0u64; VK_L];
    match t {
        RefSmall(d) => {
            m[0] = d as u64;
            m[1] = (d >> 64) as u64;
        }
        RefLarge(ws) => {
            assert!(ws.len() <= 4);
            let mut i = 0;
            while i < 4 {
                if i < ws.len() {
                    m[i] = ws[i];
                }
                i += 1;
            }
        }
    }
    m
}

/// acc += c * 2^sh (must not overflow 5 limbs)
fn vk_add_shifted(acc: &mut [u64; VK_L], c: &[u64; VK_L], sh: usize) {
    let (ws, bs) = (sh / 64, (sh % 64) as u32);
    // c << sh, limb by limb
    let mut t = [0u64; VK_L];
    let mut k = 0;
    while k < VK_L {
        if c[k] != 0 {
            assert!(k + ws < VK_L);
            t[k + ws] |= c[k] << bs;
            if bs != 0 && (c[k] >> (64 - bs)) != 0 {
                assert!(k + ws + 1 < VK_L);
                t[k + ws + 1] |= c[k] >> (64 - bs);
            }
        }
        k += 1;
    }
    let mut carry: u128 = 0;
    let mut k = 0;
    while k < VK_L {
        let s = acc[k] as u128 + t[k] as u128 + carry;
        acc[k] = s as u64;
        carry = s >> 64;
        k += 1;
    }
    assert!(carry == 0);
}

/// c < 2^b
fn vk_below_pow2(c: &[u64; VK_L], b: usize) -> bool {
    let mut ok = true;
    let mut k = 0;
    while k < VK_L {
        if 64 * k >= b {
            ok &= c[k] == 0;
        } else if 64 * (k + 1) > b {
            ok &= c[k] >> (b - 64 * k) == 0;
        }
        k += 1;
    }
    ok
}

fn vk_limbs_eq(a: &[u64; VK_L], b: &[u64; VK_L]) -> bool {
    a[0] == b[0] && a[1] == b[1] && a[2] == b[2] && a[3] == b[3] && a[4] == b[4]
}

/// to_chunks(x, cb) against the oracle, then from_chunks on the result gives x back.  `bit_len` is the oracle's own
/// bit length of x (computed by the caller without the code under test); MAXC bounds the number of chunks.
fn vk_check_chunks<const MAXC: usize>(x: TypedReprRef<'_>, mag: [u64; VK_L], bit_len: usize, cb: usize) {
    let chunks = x.to_chunks(cb);
    let want = if bit_len == 0 { 0 } else { (bit_len - 1) / cb + 1 };
    assert!(chunks.len() == want && want <= MAXC);
    let mut acc = [0u64; VK_L];
    let mut i = 0;
    while i < MAXC {
        if i < chunks.len() {
            let c = vk_repr_limbs(&chunks[i]);
            assert!(vk_below_pow2(&c, cb));
            vk_add_shifted(&mut acc, &c, i * cb);
        }
        i += 1;
    }
    assert!(vk_limbs_eq(&acc, &mag));
    // the most significant chunk is not empty ("chunks_out.len() tightly fits all chunks")
    if want > 0 {
        let c = vk_repr_limbs(&chunks[want - 1]);
        assert!(!(c[0] == 0 && c[1] == 0 && c[2] == 0 && c[3] == 0));
    }
    // ... and back
    let empty: &[Word] = &[];
    let mut refs: [&[Word]; MAXC] = [empty; MAXC];
    let mut i = 0;
    while i < MAXC {
        if i < chunks.len() {
            refs[i] = chunks[i].as_slice();
        }
        i += 1;
    }
    let back = Repr::from_chunks(&refs[..want], cb);
    assert!(vk_limbs_eq(&vk_repr_limbs(&back), &mag));
}

// ---------------------------------------------------------------------------------------------------------------
// 3-word inputs: low words symbolic, top word and chunk size concrete

macro_rules! vk_chunks_large3 {
    ($name:ident, $cb:expr, $maxc:expr, $tops:expr) => {
        #[cfg_attr(kani, kani::proof)]
        #[cfg_attr(not(kani), test)]
        #[cfg_attr(kani, kani::unwind(36))]
        fn $name() {
            let lo: [Word; 2] = any();
            let tops: &[Word] = &$tops;
            let mut t = 0;
            while t < tops.len() {
                let w = [lo[0], lo[1], tops[t]];
                // oracle bit length of the concrete top word by repeated halving
                let mut bl = 128;
                let mut v = tops[t];
                while v != 0 {
                    bl += 1;
                    v >>= 1;
                }
                vk_check_chunks::<$maxc>(RefLarge(&w), [w[0], w[1], w[2], 0, 0], bl, $cb);
                t += 1;
            }
            cover();
        }
    };
}
// 128: 2 chunks (the word-aligned shortcut whose last chunk is shorter than the chunk size)
vk_chunks_large3!(vk_int_chunks_large3_cb128, 128, 2, [1, 1 << 63]);
// 64: 3 chunks, word-aligned shortcut
vk_chunks_large3!(vk_int_chunks_large3_cb64, 64, 3, [1, (1 << 63) | 5]);
// 65: 2 or 3 chunks, unaligned path (130 / 65 = 2 exactly: the last chunk ends at the bit length)
vk_chunks_large3!(vk_int_chunks_large3_cb65, 65, 3, [2, 4, 1 << 63]);
// 63: 3 or 4 chunks (189 = 3 * 63)
vk_chunks_large3!(vk_int_chunks_large3_cb63, 63, 4, [1 << 60, 1 << 61, u64::MAX]);
// 200: one chunk wider than the number
vk_chunks_large3!(vk_int_chunks_large3_cb200, 200, 1, [1, u64::MAX]);
// 7: 19..=28 chunks
vk_chunks_large3!(vk_int_chunks_large3_cb7, 7, 28, [1, 1 << 63]);

// ---------------------------------------------------------------------------------------------------------------
// 1..=2 word inputs (TypedReprRef::RefSmall): fully symbolic value below a concrete power of two, concrete chunk size,
// at most 13 chunks

/// bit length by 128 comparisons (oracle)
fn vk_bit_len_u128(x: u128) -> usize {
    let mut n = 0;
    let mut i = 0;
    while i < 128 {
        if (x >> i) != 0 {
            n = i + 1;
        }
        i += 1;
    }
    n
}

macro_rules! vk_chunks_small {
    ($name:ident, $cb:expr, $max_bits:expr) => {
        #[cfg_attr(kani, kani::proof)]
        #[cfg_attr(not(kani), test)]
        #[cfg_attr(kani, kani::unwind(130))]
        fn $name() {
            let x: DoubleWord = any();
            assume($max_bits == 128 || x >> ($max_bits % 128) == 0);
            let bl = vk_bit_len_u128(x);
            vk_check_chunks::<13>(RefSmall(x), [x as u64, (x >> 64) as u64, 0, 0, 0], bl, $cb);
            cover();
        }
    };
}
// (chunk size, bound on the bit length of x): at most 13 chunks
vk_chunks_small!(vk_int_chunks_small_cb1, 1, 13);
vk_chunks_small!(vk_int_chunks_small_cb7, 7, 90);
vk_chunks_small!(vk_int_chunks_small_cb63, 63, 128);
vk_chunks_small!(vk_int_chunks_small_cb64, 64, 128);
vk_chunks_small!(vk_int_chunks_small_cb65, 65, 128);
vk_chunks_small!(vk_int_chunks_small_cb127, 127, 128);
vk_chunks_small!(vk_int_chunks_small_cb128, 128, 128);
vk_chunks_small!(vk_int_chunks_small_cb129, 129, 128);

// ---------------------------------------------------------------------------------------------------------------
// from_chunks on ARBITRARY chunks ("it's allowed for each chunk to have more bits than chunk_bits"): three chunks of
// concrete lengths 2, 0, 1 words with symbolic contents, chunk sizes 1, 64, 65, 100
macro_rules! vk_chunks_from {
    ($name:ident, $cb:expr) => {
        #[cfg_attr(kani, kani::proof)]
        #[cfg_attr(not(kani), test)]
        #[cfg_attr(kani, kani::unwind(36))]
        fn $name() {
            let a: [Word; 2] = any();
            let c: [Word; 1] = any();
            let empty: [Word; 0] = [];
            let chunks: [&[Word]; 3] = [&a, &empty, &c];
            let r = Repr::from_chunks(&chunks, $cb);
            let mut acc = [0u64; VK_L];
            vk_add_shifted(&mut acc, &[a[0], a[1], 0, 0, 0], 0);
            vk_add_shifted(&mut acc, &[c[0], 0, 0, 0, 0], 2 * $cb);
            assert!(vk_limbs_eq(&vk_repr_limbs(&r), &acc));
            cover();
        }
    };
}
vk_chunks_from!(vk_int_chunks_from_cb1, 1);
vk_chunks_from!(vk_int_chunks_from_cb64, 64);
vk_chunks_from!(vk_int_chunks_from_cb65, 65);
vk_chunks_from!(vk_int_chunks_from_cb100, 100);

// no chunks at all: zero
#[cfg_attr(kani, kani::proof)]
#[cfg_attr(not(kani), test)]
fn vk_int_chunks_from_none() {
    let chunks: [&[Word]; 0] = [];
    let r = Repr::from_chunks(&chunks, 8);
    assert!(vk_limbs_eq(&vk_repr_limbs(&r), &[0; VK_L]));
    cover();
}
