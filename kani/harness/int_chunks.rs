// Kani harnesses for the bit-chunk codecs of integer/src/convert.rs (C07 "to/from bit chunks are mutually inverse";
// C17: the kernels write through `&mut [&mut [Word]]` / sub-slices with computed offsets, checked here under CBMC's
// pointer / bounds checks with buffers of exactly the sizes the callers allocate).
//
// Functions under test: words_to_chunks, chunks_to_words (3-word inputs), TypedReprRef::to_chunks on RefSmall,
// Repr::from_chunks on the empty list.
//
// Oracle (from the property statement / the documentation of UBig::to_chunks, from_chunks): the chunks c_0..c_{k-1} of x
// for a chunk size of b bits satisfy  k = ceil(bit_len(x) / b),  c_i < 2^b,  sum c_i * 2^(i*b) = x;  from_chunks returns
// sum c_i * 2^(i*b) for ARBITRARY chunks (also chunks wider than b bits).  Sums are formed limb-wise with explicit
// carries (5 limbs of 64 bits), shifts are by the literal amounts i*b.
//
// Bound: magnitudes of at most 3 words.  3-word inputs have two fully symbolic low words and a top word from a concrete
// palette, chunk sizes are literals from {7, 63, 64, 65, 128, 200}: the control flow of the codecs depends only on the
// bit length and the chunk size (and symbolic copy offsets hit the known copy_from_slice problem of CBMC).
// The Vec<Buffer> / Box<[&mut [Word]]> / in-place collect glue of to_chunks (RefLarge) and from_chunks is too slow for
// CBMC even with two chunks and symbolic data (> 6 min, > 14 GB): the kernel harnesses therefore own the chunk buffers
// (sized `ceil(chunk_bits / WORD_BITS) + 1` words each, exactly as to_chunks allocates them; result buffer
// `max_len + (n - 1) * chunk_bits / 64 + 2` words, at most what from_chunks allocates), the glue itself
// (chunk count = ceil(bit_len / chunk_bits), one buffer of that size per chunk) is NOT covered for RefLarge -- even on
// concrete numbers CBMC needs > 5 min and > 11 GB for it.
use super::*;
include!("/verif/kani/harness/shim.rs");

const _: () = assert!(WORD_BITS == 64); // all Kani runs use force_bits = "64"

const VK_L: usize = 5;

fn vk_slice_limbs(ws: &[Word]) -> [u64; VK_L] {
    let mut m = [0u64; VK_L];
    let mut i = 0;
    while i < VK_L {
        if i < ws.len() {
            m[i] = ws[i];
        }
        i += 1;
    }
    // nothing beyond 5 limbs
    let mut i = VK_L;
    while i < ws.len() {
        assert!(ws[i] == 0);
        i += 1;
    }
    m
}

/// limbs of a non-negative Repr (at most 5 words)
fn vk_repr_limbs(r: &Repr) -> [u64; VK_L] {
    let (sign, t) = r.as_sign_typed();
    assert!(sign == Positive);
    match t {
        RefSmall(d) => [d as u64, (d >> 64) as u64, 0, 0, 0],
        RefLarge(ws) => vk_slice_limbs(ws),
    }
}

/// acc += c * 2^sh (must not overflow 5 limbs)
fn vk_add_shifted(acc: &mut [u64; VK_L], c: &[u64; VK_L], sh: usize) {
    let (ws, bs) = (sh / 64, (sh % 64) as u32);
    // c << sh, limb by limb
    let mut t = [0u64; VK_L];
    let mut k = 0;
    while k < VK_L {
        if c[k] != 0 {
            assert!(k + ws < VK_L);
            t[k + ws] |= c[k] << bs;
            if bs != 0 && (c[k] >> (64 - bs)) != 0 {
                assert!(k + ws + 1 < VK_L);
                t[k + ws + 1] |= c[k] >> (64 - bs);
            }
        }
        k += 1;
    }
    let mut carry: u128 = 0;
    let mut k = 0;
    while k < VK_L {
        let s = acc[k] as u128 + t[k] as u128 + carry;
        acc[k] = s as u64;
        carry = s >> 64;
        k += 1;
    }
    assert!(carry == 0);
}

/// c < 2^b
fn vk_below_pow2(c: &[u64; VK_L], b: usize) -> bool {
    let mut ok = true;
    let mut k = 0;
    while k < VK_L {
        if 64 * k >= b {
            ok &= c[k] == 0;
        } else if 64 * (k + 1) > b {
            ok &= c[k] >> (b - 64 * k) == 0;
        }
        k += 1;
    }
    ok
}

fn vk_limbs_eq(a: &[u64; VK_L], b: &[u64; VK_L]) -> bool {
    a[0] == b[0] && a[1] == b[1] && a[2] == b[2] && a[3] == b[3] && a[4] == b[4]
}

fn vk_is_zero(a: &[u64; VK_L]) -> bool {
    a[0] == 0 && a[1] == 0 && a[2] == 0 && a[3] == 0 && a[4] == 0
}

/// bit length of a literal word by repeated halving (oracle; evaluated at compile time)
const fn vk_bit_len_word(mut v: u64) -> usize {
    let mut n = 0;
    while v != 0 {
        n += 1;
        v >>= 1;
    }
    n
}

// ---------------------------------------------------------------------------------------------------------------
// kernels on 3-word inputs: low words symbolic, top word and chunk size literal.
// NC = number of chunks (checked against ceil(bit_len / cb)), WPC = words per chunk buffer = ceil(cb / 64) + 1.

macro_rules! vk_chunks_kernel {
    ($name:ident, $cb:expr, $nc:expr, $wpc:expr, $top:expr, [$($b:ident),+]) => {
        #[cfg_attr(kani, kani::proof)]
        #[cfg_attr(not(kani), test)]
        #[cfg_attr(kani, kani::unwind(22))]
        fn $name() {
            const CB: usize = $cb;
            const NC: usize = $nc;
            const WPC: usize = $wpc;
            let lo: [Word; 2] = any();
            let w: [Word; 3] = [lo[0], lo[1], $top];
            let mag = [w[0], w[1], w[2], 0, 0];
            const BL: usize = 128 + vk_bit_len_word($top);
            const _: () = assert!(NC == (BL - 1) / CB + 1 && WPC == (CB - 1) / 64 + 2);
            // words -> chunks (one local buffer per chunk; array::from_fn / Vec here cost CBMC minutes)
            $(let mut $b = [0 as Word; WPC];)+
            {
                let mut refs: [&mut [Word]; NC] = [$(&mut $b[..]),+];
                words_to_chunks(&w, &mut refs, CB);
            }
            let refs: [&[Word]; NC] = [$(&$b[..]),+];
            let mut acc = [0u64; VK_L];
            let mut i = 0;
            while i < NC {
                let c = vk_slice_limbs(refs[i]);
                assert!(vk_below_pow2(&c, CB));
                vk_add_shifted(&mut acc, &c, i * CB);
                i += 1;
            }
            assert!(vk_limbs_eq(&acc, &mag));
            // "no empty chunk": the most significant chunk is not zero
            assert!(!vk_is_zero(&vk_slice_limbs(refs[NC - 1])));
            // chunks -> words (result and scratch buffers as from_chunks sizes them: see file header)
            const RL: usize = WPC + (NC - 1) * CB / 64 + 2;
            let mut out = [0 as Word; RL];
            let mut scratch = [0 as Word; WPC + 1];
            chunks_to_words(&mut out, &refs, CB, &mut scratch);
            assert!(vk_limbs_eq(&vk_slice_limbs(&out), &mag));
            cover();
        }
    };
}
// 128: 2 chunks, word-aligned shortcut whose last chunk is shorter than the chunk size (the repaired defect f5c9bbd)
vk_chunks_kernel!(vk_int_chunks_kernel_cb128_a, 128, 2, 3, 1, [b0, b1]);
vk_chunks_kernel!(vk_int_chunks_kernel_cb128_b, 128, 2, 3, 1 << 63, [b0, b1]);
// 64: 3 chunks, word-aligned shortcut
vk_chunks_kernel!(vk_int_chunks_kernel_cb64, 64, 3, 2, (1 << 63) | 5, [b0, b1, b2]);
// 65: 130 = 2 * 65 bits exactly (last chunk ends at the bit length), 131 and 192 bits: 3 chunks
vk_chunks_kernel!(vk_int_chunks_kernel_cb65_a, 65, 2, 3, 2, [b0, b1]);
vk_chunks_kernel!(vk_int_chunks_kernel_cb65_b, 65, 3, 3, 4, [b0, b1, b2]);
vk_chunks_kernel!(vk_int_chunks_kernel_cb65_c, 65, 3, 3, 1 << 63, [b0, b1, b2]);
// 63: 189 = 3 * 63 bits, 190 and 192 bits: 4 chunks
vk_chunks_kernel!(vk_int_chunks_kernel_cb63_a, 63, 3, 2, 1 << 60, [b0, b1, b2]);
vk_chunks_kernel!(vk_int_chunks_kernel_cb63_b, 63, 4, 2, 1 << 61, [b0, b1, b2, b3]);
vk_chunks_kernel!(vk_int_chunks_kernel_cb63_c, 63, 4, 2, u64::MAX, [b0, b1, b2, b3]);
// 200: a single chunk wider than the number
vk_chunks_kernel!(vk_int_chunks_kernel_cb200, 200, 1, 5, u64::MAX, [b0]);
// 33: 5 and 6 chunks, two chunks per word boundary
vk_chunks_kernel!(vk_int_chunks_kernel_cb33_a, 33, 5, 2, 1 << 4, [b0, b1, b2, b3, b4]);
vk_chunks_kernel!(vk_int_chunks_kernel_cb33_b, 33, 6, 2, 1 << 63, [b0, b1, b2, b3, b4, b5]);
// 7: 19 chunks
vk_chunks_kernel!(vk_int_chunks_kernel_cb7, 7, 19, 2, 1,
    [b0, b1, b2, b3, b4, b5, b6, b7, b8, b9, b10, b11, b12, b13, b14, b15, b16, b17, b18]);

// ---------------------------------------------------------------------------------------------------------------
// chunks_to_words on ARBITRARY chunks ("it's allowed for each chunk to have more bits than chunk_bits"): three chunks
// of 2, 0, 1 fully symbolic words, literal chunk size
macro_rules! vk_chunks_from {
    ($name:ident, $cb:expr) => {
        #[cfg_attr(kani, kani::proof)]
        #[cfg_attr(not(kani), test)]
        #[cfg_attr(kani, kani::unwind(12))]
        fn $name() {
            const CB: usize = $cb;
            let a: [Word; 2] = any();
            let c: [Word; 1] = any();
            let empty: [Word; 0] = [];
            let chunks: [&[Word]; 3] = [&a, &empty, &c];
            // max_len = 2: result max_len + 2 * CB / 64 + 2 words (<= what from_chunks allocates), scratch max_len + 1
            let mut out = [0 as Word; 2 + 2 * CB / 64 + 2];
            let mut scratch = [0 as Word; 3];
            chunks_to_words(&mut out, &chunks, CB, &mut scratch);
            let mut acc = [0u64; VK_L];
            vk_add_shifted(&mut acc, &[a[0], a[1], 0, 0, 0], 0);
            vk_add_shifted(&mut acc, &[c[0], 0, 0, 0, 0], 2 * CB);
            assert!(vk_limbs_eq(&vk_slice_limbs(&out), &acc));
            cover();
        }
    };
}
vk_chunks_from!(vk_int_chunks_from_cb1, 1);
vk_chunks_from!(vk_int_chunks_from_cb64, 64);
vk_chunks_from!(vk_int_chunks_from_cb65, 65);
vk_chunks_from!(vk_int_chunks_from_cb100, 100);

// ---------------------------------------------------------------------------------------------------------------
// 1..=2 word inputs (TypedReprRef::RefSmall::to_chunks): fully symbolic value, literal chunk size, at most 3 chunks.
// The Vec<Repr> of symbolic length costs CBMC ~4.5 min and 10-20 GB per instance with two or more chunks (instances for
// 63, 65 and 128 bits ran out of memory next to each other): three instances, thorough tier.

/// bit length of a symbolic u128 by binary search (oracle; no loop)
fn vk_bit_len_u128(x: u128) -> usize {
    let mut n = 0usize;
    let mut v = x;
    if v >> 64 != 0 {
        n += 64;
        v >>= 64;
    }
    if v >> 32 != 0 {
        n += 32;
        v >>= 32;
    }
    if v >> 16 != 0 {
        n += 16;
        v >>= 16;
    }
    if v >> 8 != 0 {
        n += 8;
        v >>= 8;
    }
    if v >> 4 != 0 {
        n += 4;
        v >>= 4;
    }
    if v >> 2 != 0 {
        n += 2;
        v >>= 2;
    }
    if v >> 1 != 0 {
        n += 1;
        v >>= 1;
    }
    if v != 0 {
        n += 1;
    }
    n
}

macro_rules! vk_chunks_small {
    ($name:ident, $cb:expr) => {
        #[cfg_attr(kani, kani::proof)]
        #[cfg_attr(not(kani), test)]
        #[cfg_attr(kani, kani::unwind(8))]
        fn $name() {
            const CB: usize = $cb;
            let x: DoubleWord = any();
            let mag = [x as u64, (x >> 64) as u64, 0, 0, 0];
            let bl = vk_bit_len_u128(x);
            let want = if bl == 0 { 0 } else { (bl - 1) / CB + 1 };
            let chunks = RefSmall(x).to_chunks(CB);
            assert!(chunks.len() == want && want <= 3);
            let mut acc = [0u64; VK_L];
            let mut i = 0;
            while i < 3 {
                if i < chunks.len() {
                    let c = vk_repr_limbs(&chunks[i]);
                    assert!(vk_below_pow2(&c, CB));
                    vk_add_shifted(&mut acc, &c, i * CB);
                    if i + 1 == want {
                        assert!(!vk_is_zero(&c));
                    }
                }
                i += 1;
            }
            assert!(vk_limbs_eq(&acc, &mag));
            cover();
        }
    };
}
vk_chunks_small!(vk_int_chunks_small_cb64, 64);
vk_chunks_small!(vk_int_chunks_small_cb127, 127);
vk_chunks_small!(vk_int_chunks_small_cb129, 129);

// ---------------------------------------------------------------------------------------------------------------
// no chunks at all: zero
#[cfg_attr(kani, kani::proof)]
#[cfg_attr(not(kani), test)]
#[cfg_attr(kani, kani::unwind(6))]
fn vk_int_chunks_glue_none() {
    let chunks: [&[Word]; 0] = [];
    let r = Repr::from_chunks(&chunks, 8);
    assert!(vk_is_zero(&vk_repr_limbs(&r)));
    cover();
}

