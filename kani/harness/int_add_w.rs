// Bounded witness harnesses for integer/src/add.rs (len <= 3, full 64-bit symbolic words).
// They restate the Verus postconditions numerically so that a failed Verus obligation can be given a concrete,
// natively replayable input. Reference arithmetic: schoolbook per-word u128 accumulation written here.
use super::*;
include!("/verif/kani/harness/shim.rs");

const N: usize = 3;

// value of up to 3 words + carry word as (low u128, high u128): v = lo + hi * 2^128
fn wval(w: &[Word]) -> (u128, u128) {
    let lo = (w.get(0).copied().unwrap_or(0) as u128) | ((w.get(1).copied().unwrap_or(0) as u128) << 64);
    let hi = (w.get(2).copied().unwrap_or(0) as u128) | ((w.get(3).copied().unwrap_or(0) as u128) << 64);
    (lo, hi)
}
fn wadd(a: (u128, u128), b: (u128, u128)) -> (u128, u128) {
    let (lo, c) = a.0.overflowing_add(b.0);
    (lo, a.1.wrapping_add(b.1).wrapping_add(c as u128))
}
fn wsub(a: (u128, u128), b: (u128, u128)) -> (u128, u128) {
    let (lo, c) = a.0.overflowing_sub(b.0);
    (lo, a.1.wrapping_sub(b.1).wrapping_sub(c as u128))
}
fn pw(n: usize) -> (u128, u128) {
    match n {
        0 => (1, 0),
        1 => (1u128 << 64, 0),
        2 => (0, 1),
        _ => (0, 1u128 << 64),
    }
}
fn any_len() -> usize {
    let n: usize = any();
    assume(n <= N);
    n
}

#[cfg_attr(kani, kani::proof)]
#[cfg_attr(kani, kani::unwind(5))]
#[cfg_attr(not(kani), test)]
fn vk_int_add_w_add_one() {
    let mut a: [Word; N] = any();
    let n = any_len();
    let before = wval(&a[..n]);
    let c = add_one_in_place(&mut a[..n]);
    let mut want = wadd(before, (1, 0));
    if c {
        want = wsub(want, pw(n));
    }
    assert!(wval(&a[..n]) == want);
    cover();
}

#[cfg_attr(kani, kani::proof)]
#[cfg_attr(kani, kani::unwind(5))]
#[cfg_attr(not(kani), test)]
fn vk_int_add_w_sub_one() {
    let mut a: [Word; N] = any();
    let n = any_len();
    let before = wval(&a[..n]);
    let b = sub_one_in_place(&mut a[..n]);
    let mut want = wsub(before, (1, 0));
    if b {
        want = wadd(want, pw(n));
    }
    assert!(wval(&a[..n]) == want);
    cover();
}

#[cfg_attr(kani, kani::proof)]
#[cfg_attr(kani, kani::unwind(5))]
#[cfg_attr(not(kani), test)]
fn vk_int_add_w_add_word_dword() {
    let mut a: [Word; N] = any();
    let mut a2 = a;
    let n = any_len();
    assume(n >= 2);
    let w: Word = any();
    let dw: DoubleWord = any();
    let before = wval(&a[..n]);
    let c = add_word_in_place(&mut a[..n], w);
    let mut want = wadd(before, (w as u128, 0));
    if c {
        want = wsub(want, pw(n));
    }
    assert!(wval(&a[..n]) == want);
    let c2 = add_dword_in_place(&mut a2[..n], dw);
    let mut want2 = wadd(before, (dw, 0));
    if c2 {
        want2 = wsub(want2, pw(n));
    }
    assert!(wval(&a2[..n]) == want2);
    cover();
}

#[cfg_attr(kani, kani::proof)]
#[cfg_attr(kani, kani::unwind(5))]
#[cfg_attr(not(kani), test)]
fn vk_int_add_w_sub_word_dword() {
    let mut a: [Word; N] = any();
    let mut a2 = a;
    let n = any_len();
    assume(n >= 2);
    let w: Word = any();
    let dw: DoubleWord = any();
    let before = wval(&a[..n]);
    let c = sub_word_in_place(&mut a[..n], w);
    let mut want = wsub(before, (w as u128, 0));
    if c {
        want = wadd(want, pw(n));
    }
    assert!(wval(&a[..n]) == want);
    let c2 = sub_dword_in_place(&mut a2[..n], dw);
    let mut want2 = wsub(before, (dw, 0));
    if c2 {
        want2 = wadd(want2, pw(n));
    }
    assert!(wval(&a2[..n]) == want2);
    cover();
}

#[cfg_attr(kani, kani::proof)]
#[cfg_attr(kani, kani::unwind(5))]
#[cfg_attr(not(kani), test)]
fn vk_int_add_w_add_sub_in_place() {
    let mut a: [Word; N] = any();
    let mut a2 = a;
    let b: [Word; N] = any();
    let n = any_len();
    let m = any_len();
    assume(m <= n);
    let before = wval(&a[..n]);
    let rhs = wval(&b[..m]);
    let c = add_in_place(&mut a[..n], &b[..m]);
    let mut want = wadd(before, rhs);
    if c {
        want = wsub(want, pw(n));
    }
    assert!(wval(&a[..n]) == want);
    let br = sub_in_place(&mut a2[..n], &b[..m]);
    let mut want2 = wsub(before, rhs);
    if br {
        want2 = wadd(want2, pw(n));
    }
    assert!(wval(&a2[..n]) == want2);
    cover();
}

#[cfg_attr(kani, kani::proof)]
#[cfg_attr(kani, kani::unwind(5))]
#[cfg_attr(not(kani), test)]
fn vk_int_add_w_same_len() {
    let mut a: [Word; N] = any();
    let mut a2 = a;
    let mut b: [Word; N] = any();
    let b0 = b;
    let n = any_len();
    let before = wval(&a[..n]);
    let rhs = wval(&b[..n]);
    let c = add_same_len_in_place(&mut a[..n], &b[..n]);
    let mut want = wadd(before, rhs);
    if c {
        want = wsub(want, pw(n));
    }
    assert!(wval(&a[..n]) == want);
    let br = sub_same_len_in_place(&mut a2[..n], &b[..n]);
    let mut want2 = wsub(before, rhs);
    if br {
        want2 = wadd(want2, pw(n));
    }
    assert!(wval(&a2[..n]) == want2);
    // swap: b = a0 - b
    let a0 = before;
    let mut a3: [Word; N] = [0; N];
    let (lo, hi) = a0;
    a3[0] = lo as Word;
    a3[1] = (lo >> 64) as Word;
    a3[2] = hi as Word;
    let br2 = sub_same_len_in_place_swap(&a3[..n], &mut b[..n]);
    let mut want3 = wsub(a0, wval(&b0[..n]));
    if br2 {
        want3 = wadd(want3, pw(n));
    }
    assert!(wval(&b[..n]) == want3);
    cover();
}

#[cfg_attr(kani, kani::proof)]
#[cfg_attr(kani, kani::unwind(5))]
#[cfg_attr(not(kani), test)]
fn vk_int_add_w_sub_with_sign() {
    let mut a: [Word; N] = any();
    let b: [Word; N] = any();
    let n = any_len();
    let m = any_len();
    assume(m <= n);
    let lhs = wval(&a[..n]);
    let rhs = wval(&b[..m]);
    // Kani 0.68 / CBMC 6.11 mis-model `copy_from_slice` on a sub-slice with a symbolic start offset (spurious
    // failures, probed: DESIGN.md §11), which is what the `Less` arm does: keep this witness to inputs where the
    // left operand has at least as many significant words as the right one (the Less arm is covered by the
    // unbounded Verus proof only).
    let mut sa = n;
    while sa > 0 && a[sa - 1] == 0 {
        sa -= 1;
    }
    let mut sb = m;
    while sb > 0 && b[sb - 1] == 0 {
        sb -= 1;
    }
    assume(sa >= sb);
    let sign = sub_in_place_with_sign(&mut a[..n], &b[..m]);
    let got = wval(&a[..n]);
    // lhs - rhs == sign * got, and the sign is Positive when the difference is zero
    let ge = lhs.1 > rhs.1 || (lhs.1 == rhs.1 && lhs.0 >= rhs.0);
    if ge {
        assert!(sign == Positive);
        assert!(got == wsub(lhs, rhs));
    } else {
        assert!(sign == Negative);
        assert!(got == wsub(rhs, lhs));
    }
    cover();
}
