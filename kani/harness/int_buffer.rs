// Kani harnesses for integer/src/buffer.rs (C17): every Buffer method, ONE operation on an ARBITRARY
// WELL-FORMED buffer (concrete capacity per harness instance, symbolic length and contents), checked under
// CBMC's pointer / bounds / dealloc-size / double-free checks.  "All histories" = induction over operations
// (pre wf_buffer => post wf_buffer + functional meaning).  The group runs with CBMC's --memory-leak-check:
// every harness frees what it owns at the end, so any allocation dropped on the floor by an operation is reported.
//
// The state is built directly from the fields (not through the methods under test); the oracle is a plain
// array model `m[..len]`.  Bound: capacities 1..=6 (8 for shrink_to_fit / clone_from), results <= 10 words.
use super::*;
include!("/verif/kani/harness/shim.rs");

const MAXW: usize = 10;

/// Documented bounds (buffer.rs: "2 + 0.125 * num_words extra space", "4 + 0.25 * num_words overhead").
fn spec_default_cap(n: usize) -> usize {
    n + n / 8 + 2
}
fn spec_max_compact(n: usize) -> usize {
    n + n / 4 + 4
}

/// Representation invariant of `Buffer` (the extent of the allocation itself is checked by `finish`).
fn wf_buffer(b: &Buffer) -> bool {
    b.capacity >= 1
        && b.capacity <= Buffer::MAX_CAPACITY
        && b.len <= b.capacity
        && (b.ptr.as_ptr() as usize) % mem::align_of::<Word>() == 0
}

/// A buffer with exactly `cap` words of storage holding m[..len] (spare words hold m[len..cap]: arbitrary).
fn build(cap: usize, len: usize, m: &[Word; MAXW]) -> Buffer {
    let layout = Layout::array::<Word>(cap).unwrap();
    let p = unsafe { alloc::alloc::alloc(layout) } as *mut Word;
    let ptr = NonNull::new(p).unwrap();
    let mut i = 0;
    while i < cap {
        unsafe { ptr::write(p.add(i), m[i]) };
        i += 1;
    }
    Buffer { ptr, len, capacity: cap }
}

/// Arbitrary well-formed buffer of concrete capacity: symbolic length <= cap, symbolic contents.
fn mk(cap: usize) -> (Buffer, [Word; MAXW], usize) {
    let m: [Word; MAXW] = any();
    let len: usize = any();
    assume(len <= cap);
    (build(cap, len, &m), m, len)
}

/// Contents check only.
fn same_words(b: &Buffer, want: &[Word; MAXW], want_len: usize) -> bool {
    if b.len != want_len || want_len > MAXW {
        return false;
    }
    let mut ok = true;
    let mut i = 0;
    while i < MAXW {
        if i < want_len && b[i] != want[i] {
            ok = false;
        }
        i += 1;
    }
    ok
}

/// Post-state check: invariant, length, contents, then use the whole extent and free it
/// (Kani's dealloc model asserts that the freed object's size equals capacity * 8; CBMC checks double free).
fn finish(b: Buffer, want: &[Word; MAXW], want_len: usize) {
    assert!(wf_buffer(&b));
    assert!(same_words(&b, want, want_len));
    assert!(b.capacity <= MAXW);
    // the owner may write every spare word
    let mut j = 0;
    while j < MAXW {
        if j >= b.len && j < b.capacity {
            unsafe { ptr::write(b.ptr.as_ptr().add(j), 0) };
        }
        j += 1;
    }
    drop(b);
}

macro_rules! per_cap {
    ($body:ident; $($name:ident = $cap:expr),* $(,)?) => {
        per_cap!($body, 12; $($name = $cap),*);
    };
    ($body:ident, $unw:expr; $($name:ident = $cap:expr),* $(,)?) => {$(
        #[cfg_attr(kani, kani::proof)]
        #[cfg_attr(kani, kani::unwind($unw))]
        #[cfg_attr(not(kani), test)]
        fn $name() {
            $body($cap);
            cover();
        }
    )*};
}
/// The operation must panic (documented "Panics if ...") and must not touch memory before it does.
/// `cover()` sits inside the body, before the panicking call.
macro_rules! per_cap_panics {
    ($body:ident; $($name:ident = $cap:expr),* $(,)?) => {$(
        #[cfg_attr(kani, kani::proof)]
        #[cfg_attr(kani, kani::unwind(12))]
        #[cfg_attr(kani, kani::should_panic)]
        #[cfg_attr(not(kani), test)]
        #[cfg_attr(not(kani), should_panic)]
        fn $name() {
            $body($cap);
        }
    )*};
}

// ---------------------------------------------------------------- allocate / allocate_exact
#[cfg_attr(kani, kani::proof)]
#[cfg_attr(kani, kani::unwind(12))]
#[cfg_attr(not(kani), test)]
fn vk_int_buffer_allocate() {
    let empty = [0 as Word; MAXW];
    let mut n = 0;
    while n <= 6 {
        let b = Buffer::allocate(n);
        assert!(b.capacity == spec_default_cap(n));
        assert!(b.capacity >= n && b.capacity <= spec_max_compact(n));
        finish(b, &empty, 0);
        n += 1;
    }
    cover();
}

#[cfg_attr(kani, kani::proof)]
#[cfg_attr(kani, kani::unwind(12))]
#[cfg_attr(not(kani), test)]
fn vk_int_buffer_allocate_exact() {
    let empty = [0 as Word; MAXW];
    let mut c = 1;
    while c <= 8 {
        let b = Buffer::allocate_exact(c);
        assert!(b.capacity == c);
        finish(b, &empty, 0);
        c += 1;
    }
    cover();
}

// a zero-sized allocation would be undefined behaviour: allocate_exact(0) must panic instead
#[cfg_attr(kani, kani::proof)]
#[cfg_attr(kani, kani::should_panic)]
#[cfg_attr(not(kani), test)]
#[cfg_attr(not(kani), should_panic)]
fn vk_int_buffer_allocate_exact_zero_panics() {
    cover();
    let _b = Buffer::allocate_exact(0);
}

// more than MAX_CAPACITY words (bit length would not fit usize): documented panic, no allocation
#[cfg_attr(kani, kani::proof)]
#[cfg_attr(kani, kani::should_panic)]
#[cfg_attr(not(kani), test)]
#[cfg_attr(not(kani), should_panic)]
fn vk_int_buffer_allocate_too_much_panics() {
    let c: usize = any();
    assume(c > usize::MAX / 64);
    cover();
    let _b = Buffer::allocate_exact(c);
}

// ---------------------------------------------------------------- ensure_capacity(_exact)
// Precondition "capacity >= 2 or no growth requested", derived from the call sites: the guard of
// ensure_capacity(_exact) is `n > self.capacity && n > 2`, so a capacity-1 buffer asked for 2 words is left at
// capacity 1 (and push_resizing on a full capacity-1 buffer panics in push).  Capacity 1 only arises from
// `allocate_exact(1)` (convert.rs from_chunks scratch buffer), which is never grown; every other constructor
// (`allocate`, `reallocate`, `clone`) yields capacity >= 2.  Latent, unreachable from the public API, safe panic.
fn body_ensure_capacity(cap: usize) {
    let (mut b, m, len) = mk(cap);
    let n: usize = any();
    assume(n <= 7);
    assume(!(cap < n && n <= 2));
    b.ensure_capacity(n);
    assert!(b.capacity >= n && b.capacity >= cap);
    assert!(b.capacity == cap || (n > cap && b.capacity <= spec_max_compact(n)));
    finish(b, &m, len);
}
per_cap!(body_ensure_capacity; vk_int_buffer_ensure_capacity_c1 = 1, vk_int_buffer_ensure_capacity_c2 = 2,
    vk_int_buffer_ensure_capacity_c3 = 3, vk_int_buffer_ensure_capacity_c4 = 4,
    vk_int_buffer_ensure_capacity_c5 = 5, vk_int_buffer_ensure_capacity_c6 = 6);

fn body_ensure_capacity_exact(cap: usize) {
    let (mut b, m, len) = mk(cap);
    let c: usize = any();
    assume(c <= 8);
    assume(!(cap < c && c <= 2));
    b.ensure_capacity_exact(c);
    assert!(b.capacity == if c > cap { c } else { cap });
    finish(b, &m, len);
}
per_cap!(body_ensure_capacity_exact; vk_int_buffer_ensure_capacity_exact_c1 = 1,
    vk_int_buffer_ensure_capacity_exact_c2 = 2, vk_int_buffer_ensure_capacity_exact_c3 = 3,
    vk_int_buffer_ensure_capacity_exact_c4 = 4, vk_int_buffer_ensure_capacity_exact_c5 = 5,
    vk_int_buffer_ensure_capacity_exact_c6 = 6);

// ---------------------------------------------------------------- shrink_to_fit
fn body_shrink_to_fit(cap: usize) {
    let (mut b, m, len) = mk(cap);
    b.shrink_to_fit();
    assert!(b.capacity >= len && b.capacity <= spec_max_compact(len) && b.capacity <= cap);
    // "Makes sure that the capacity is compact": an already compact buffer is left alone
    if cap <= spec_max_compact(len) {
        assert!(b.capacity == cap);
    }
    finish(b, &m, len);
}
per_cap!(body_shrink_to_fit; vk_int_buffer_shrink_to_fit_c1 = 1, vk_int_buffer_shrink_to_fit_c3 = 3,
    vk_int_buffer_shrink_to_fit_c4 = 4, vk_int_buffer_shrink_to_fit_c5 = 5, vk_int_buffer_shrink_to_fit_c6 = 6,
    vk_int_buffer_shrink_to_fit_c7 = 7, vk_int_buffer_shrink_to_fit_c8 = 8);

// ---------------------------------------------------------------- push
fn body_push(cap: usize) {
    let (mut b, mut m, len) = mk(cap);
    let w: Word = any();
    assume(len < cap);
    b.push(w);
    m[len] = w;
    assert!(b.capacity == cap);
    finish(b, &m, len + 1);
}
per_cap!(body_push; vk_int_buffer_push_c1 = 1, vk_int_buffer_push_c2 = 2, vk_int_buffer_push_c3 = 3,
    vk_int_buffer_push_c4 = 4, vk_int_buffer_push_c5 = 5, vk_int_buffer_push_c6 = 6);

fn body_push_full(cap: usize) {
    let (mut b, _m, len) = mk(cap);
    assume(len == cap);
    cover();
    b.push(any());
}
per_cap_panics!(body_push_full; vk_int_buffer_push_full_panics_c1 = 1, vk_int_buffer_push_full_panics_c3 = 3);

// ---------------------------------------------------------------- push_resizing
fn body_push_resizing(cap: usize) {
    let (mut b, mut m, len) = mk(cap);
    let w: Word = any();
    assume(!(cap == 1 && len == 1)); // precondition above: capacity >= 2 or no growth requested
    b.push_resizing(w);
    if w == 0 {
        assert!(b.capacity == cap);
        finish(b, &m, len);
    } else {
        m[len] = w;
        if len < cap {
            assert!(b.capacity == cap);
        } else {
            assert!(b.capacity >= len + 1 && b.capacity <= spec_max_compact(len + 1));
        }
        finish(b, &m, len + 1);
    }
}
per_cap!(body_push_resizing; vk_int_buffer_push_resizing_c1 = 1, vk_int_buffer_push_resizing_c2 = 2,
    vk_int_buffer_push_resizing_c3 = 3, vk_int_buffer_push_resizing_c4 = 4, vk_int_buffer_push_resizing_c5 = 5,
    vk_int_buffer_push_resizing_c6 = 6);

// ---------------------------------------------------------------- push_zeros
fn body_push_zeros(cap: usize) {
    let (mut b, mut m, len) = mk(cap);
    let n: usize = any();
    assume(n <= cap - len);
    b.push_zeros(n);
    let mut i = 0;
    while i < MAXW {
        if i >= len {
            m[i] = 0;
        }
        i += 1;
    }
    assert!(b.capacity == cap);
    finish(b, &m, len + n);
}
per_cap!(body_push_zeros; vk_int_buffer_push_zeros_c1 = 1, vk_int_buffer_push_zeros_c2 = 2,
    vk_int_buffer_push_zeros_c3 = 3, vk_int_buffer_push_zeros_c4 = 4, vk_int_buffer_push_zeros_c5 = 5,
    vk_int_buffer_push_zeros_c6 = 6);

fn body_push_zeros_over(cap: usize) {
    let (mut b, _m, len) = mk(cap);
    let n: usize = any();
    assume(n > cap - len);
    cover();
    b.push_zeros(n);
}
per_cap_panics!(body_push_zeros_over; vk_int_buffer_push_zeros_over_panics_c3 = 3);

// ---------------------------------------------------------------- push_zeros_front
fn body_push_zeros_front(cap: usize) {
    let (mut b, m, len) = mk(cap);
    let n: usize = any();
    assume(n <= cap - len);
    b.push_zeros_front(n);
    // old words move up by n, the low n words are zero
    let mut want = [0 as Word; MAXW];
    let mut i = 0;
    while i < MAXW {
        if i >= n && i < n + len {
            want[i] = m[i - n];
        }
        i += 1;
    }
    assert!(b.capacity == cap);
    finish(b, &want, len + n);
}
per_cap!(body_push_zeros_front; vk_int_buffer_push_zeros_front_c1 = 1, vk_int_buffer_push_zeros_front_c2 = 2,
    vk_int_buffer_push_zeros_front_c3 = 3, vk_int_buffer_push_zeros_front_c4 = 4,
    vk_int_buffer_push_zeros_front_c5 = 5, vk_int_buffer_push_zeros_front_c6 = 6);

fn body_push_zeros_front_over(cap: usize) {
    let (mut b, _m, len) = mk(cap);
    let n: usize = any();
    assume(n > cap - len);
    cover();
    b.push_zeros_front(n);
}
per_cap_panics!(body_push_zeros_front_over; vk_int_buffer_push_zeros_front_over_panics_c3 = 3);

// ---------------------------------------------------------------- push_slice
fn body_push_slice(cap: usize) {
    let (mut b, mut m, len) = mk(cap);
    let src: [Word; 6] = any();
    let k: usize = any();
    assume(k <= cap - len && k <= 6);
    b.push_slice(&src[..k]);
    let mut i = 0;
    while i < 6 {
        if i < k {
            m[len + i] = src[i];
        }
        i += 1;
    }
    assert!(b.capacity == cap);
    finish(b, &m, len + k);
}
per_cap!(body_push_slice; vk_int_buffer_push_slice_c1 = 1, vk_int_buffer_push_slice_c2 = 2,
    vk_int_buffer_push_slice_c3 = 3, vk_int_buffer_push_slice_c4 = 4, vk_int_buffer_push_slice_c5 = 5,
    vk_int_buffer_push_slice_c6 = 6);

fn body_push_slice_over(cap: usize) {
    let (mut b, _m, len) = mk(cap);
    let src: [Word; 6] = any();
    let k: usize = any();
    assume(k > cap - len && k <= 6);
    cover();
    b.push_slice(&src[..k]);
}
per_cap_panics!(body_push_slice_over; vk_int_buffer_push_slice_over_panics_c3 = 3);

// ---------------------------------------------------------------- pop_zeros
fn body_pop_zeros(cap: usize) {
    let (mut b, m, len) = mk(cap);
    b.pop_zeros();
    let n = b.len;
    assert!(n <= len);
    assert!(n == 0 || m[n - 1] != 0);
    let mut i = 0;
    while i < MAXW {
        if i >= n && i < len {
            assert!(m[i] == 0);
        }
        i += 1;
    }
    assert!(b.capacity == cap);
    finish(b, &m, n);
}
per_cap!(body_pop_zeros; vk_int_buffer_pop_zeros_c1 = 1, vk_int_buffer_pop_zeros_c2 = 2,
    vk_int_buffer_pop_zeros_c3 = 3, vk_int_buffer_pop_zeros_c4 = 4, vk_int_buffer_pop_zeros_c5 = 5,
    vk_int_buffer_pop_zeros_c6 = 6);

// ---------------------------------------------------------------- truncate
fn body_truncate(cap: usize) {
    let (mut b, m, len) = mk(cap);
    let n: usize = any();
    assume(n <= len);
    b.truncate(n);
    assert!(b.capacity == cap);
    finish(b, &m, n);
}
per_cap!(body_truncate; vk_int_buffer_truncate_c1 = 1, vk_int_buffer_truncate_c3 = 3,
    vk_int_buffer_truncate_c6 = 6);

fn body_truncate_over(cap: usize) {
    let (mut b, _m, len) = mk(cap);
    let n: usize = any();
    assume(n > len);
    cover();
    b.truncate(n);
}
per_cap_panics!(body_truncate_over; vk_int_buffer_truncate_over_panics_c3 = 3);

// ---------------------------------------------------------------- erase_front
fn body_erase_front(cap: usize) {
    let (mut b, m, len) = mk(cap);
    let n: usize = any();
    assume(n <= len);
    b.erase_front(n);
    let mut want = [0 as Word; MAXW];
    let mut i = 0;
    while i < MAXW {
        if i + n < len {
            want[i] = m[i + n];
        }
        i += 1;
    }
    assert!(b.capacity == cap);
    finish(b, &want, len - n);
}
per_cap!(body_erase_front; vk_int_buffer_erase_front_c1 = 1, vk_int_buffer_erase_front_c2 = 2,
    vk_int_buffer_erase_front_c3 = 3, vk_int_buffer_erase_front_c4 = 4, vk_int_buffer_erase_front_c5 = 5,
    vk_int_buffer_erase_front_c6 = 6);

fn body_erase_front_over(cap: usize) {
    let (mut b, _m, len) = mk(cap);
    let n: usize = any();
    assume(n > len);
    cover();
    b.erase_front(n);
}
per_cap_panics!(body_erase_front_over; vk_int_buffer_erase_front_over_panics_c3 = 3);

// ---------------------------------------------------------------- lowest_dword(_mut)
fn body_lowest_dword(cap: usize) {
    let (mut b, mut m, len) = mk(cap);
    assume(len >= 2);
    let dw = b.lowest_dword();
    assert!(dw == (m[0] as DoubleWord) | ((m[1] as DoubleWord) << 64));
    let (x, y): (Word, Word) = (any(), any());
    {
        let (lo, hi) = b.lowest_dword_mut();
        assert!(*lo == m[0] && *hi == m[1]);
        *lo = x;
        *hi = y;
    }
    m[0] = x;
    m[1] = y;
    assert!(b.capacity == cap);
    finish(b, &m, len);
}
per_cap!(body_lowest_dword; vk_int_buffer_lowest_dword_c2 = 2, vk_int_buffer_lowest_dword_c5 = 5);

fn body_lowest_dword_short(cap: usize) {
    let (b, _m, len) = mk(cap);
    assume(len < 2);
    cover();
    let _ = b.lowest_dword();
}
per_cap_panics!(body_lowest_dword_short; vk_int_buffer_lowest_dword_short_panics_c3 = 3);

// ---------------------------------------------------------------- clone
fn body_clone(cap: usize) {
    let (b, m, len) = mk(cap);
    let c = b.clone();
    // "new buffer will be sized as Buffer::allocate(self.len())"
    assert!(c.capacity == spec_default_cap(len));
    assert!(wf_buffer(&c) && same_words(&c, &m, len));
    assert!(c.ptr != b.ptr);
    // independence: finish() overwrites all spare words of one and frees it; the other is intact and is
    // freed separately (a shared allocation would be a double free)
    let mut c = c;
    let mut i = 0;
    while i < MAXW {
        if i < c.len {
            c[i] = !m[i];
        }
        i += 1;
    }
    assert!(same_words(&b, &m, len));
    drop(c);
    assert!(b.capacity == cap);
    finish(b, &m, len);
}
per_cap!(body_clone; vk_int_buffer_clone_c1 = 1, vk_int_buffer_clone_c2 = 2, vk_int_buffer_clone_c3 = 3,
    vk_int_buffer_clone_c4 = 4, vk_int_buffer_clone_c5 = 5, vk_int_buffer_clone_c6 = 6);

// ---------------------------------------------------------------- clone_from
// dst: arbitrary wf buffer of capacity `cap` (previous value arbitrary); src: capacity 6, any length 0..=6
// (only src.len / src.ptr are read).  Covers src.len <, ==, > dst.capacity and the "too large" branch.
fn body_clone_from(cap: usize) {
    let (mut d, _dm, _dlen) = mk(cap);
    let (s, sm, slen) = mk(6);
    d.clone_from(&s);
    assert!(d.capacity >= slen && d.capacity <= spec_max_compact(slen));
    // "reallocating if capacity is too small or too large"
    if cap >= slen && cap <= spec_max_compact(slen) {
        assert!(d.capacity == cap);
    }
    assert!(wf_buffer(&d) && same_words(&d, &sm, slen));
    assert!(d.ptr != s.ptr);
    let mut i = 0;
    while i < MAXW {
        if i < d.len {
            d[i] = !sm[i];
        }
        i += 1;
    }
    assert!(s.capacity == 6 && same_words(&s, &sm, slen));
    drop(d);
    finish(s, &sm, slen);
}
per_cap!(body_clone_from; vk_int_buffer_clone_from_c1 = 1, vk_int_buffer_clone_from_c2 = 2,
    vk_int_buffer_clone_from_c3 = 3, vk_int_buffer_clone_from_c4 = 4, vk_int_buffer_clone_from_c5 = 5,
    vk_int_buffer_clone_from_c6 = 6, vk_int_buffer_clone_from_c8 = 8);

// ---------------------------------------------------------------- clone_from_slice
fn body_clone_from_slice(cap: usize) {
    let (mut d, _dm, _dlen) = mk(cap);
    let src: [Word; MAXW] = any();
    let k: usize = any();
    assume(k <= 6);
    d.clone_from_slice(&src[..k]);
    if cap >= k {
        assert!(d.capacity == cap);
    } else {
        assert!(d.capacity >= k && d.capacity <= spec_max_compact(k));
    }
    finish(d, &src, k);
}
per_cap!(body_clone_from_slice; vk_int_buffer_clone_from_slice_c1 = 1, vk_int_buffer_clone_from_slice_c2 = 2,
    vk_int_buffer_clone_from_slice_c3 = 3, vk_int_buffer_clone_from_slice_c4 = 4,
    vk_int_buffer_clone_from_slice_c5 = 5, vk_int_buffer_clone_from_slice_c6 = 6);

// ---------------------------------------------------------------- into_boxed_slice
fn body_into_boxed_slice(cap: usize) {
    let (b, m, len) = mk(cap);
    let bx = b.into_boxed_slice();
    assert!(bx.len() == len);
    let mut i = 0;
    while i < MAXW {
        if i < len {
            assert!(bx[i] == m[i]);
        }
        i += 1;
    }
    drop(bx); // Box<[Word]> frees len * 8 bytes: must be the size of the (re)allocation
}
per_cap!(body_into_boxed_slice; vk_int_buffer_into_boxed_slice_c1 = 1, vk_int_buffer_into_boxed_slice_c2 = 2,
    vk_int_buffer_into_boxed_slice_c3 = 3, vk_int_buffer_into_boxed_slice_c4 = 4,
    vk_int_buffer_into_boxed_slice_c5 = 5, vk_int_buffer_into_boxed_slice_c6 = 6);

// ---------------------------------------------------------------- From<&[Word]>
#[cfg_attr(kani, kani::proof)]
#[cfg_attr(kani, kani::unwind(12))]
#[cfg_attr(not(kani), test)]
fn vk_int_buffer_from_slice() {
    let src: [Word; MAXW] = any();
    let k: usize = any();
    assume(k <= 6);
    let b = Buffer::from(&src[..k]);
    assert!(b.capacity >= k && b.capacity <= spec_max_compact(k));
    finish(b, &src, k);
    cover();
}

// ---------------------------------------------------------------- Deref / DerefMut / PartialEq / drop
fn body_deref_eq(cap: usize) {
    let (mut a, mut ma, la) = mk(cap);
    let (b, mb, lb) = mk(4);
    {
        let s: &[Word] = &a;
        assert!(s.len() == la);
    }
    let mut same = la == lb;
    let mut i = 0;
    while i < MAXW {
        if i < la && i < lb && ma[i] != mb[i] {
            same = false;
        }
        i += 1;
    }
    assert!((a == b) == same);
    // write through DerefMut
    if la > 0 {
        let w: Word = any();
        let s: &mut [Word] = &mut a;
        s[la - 1] = w;
        ma[la - 1] = w;
    }
    drop(b);
    finish(a, &ma, la);
}
// (slice == is a byte-wise memcmp: up to 48 bytes)
per_cap!(body_deref_eq, 52; vk_int_buffer_deref_eq_c1 = 1, vk_int_buffer_deref_eq_c4 = 4,
    vk_int_buffer_deref_eq_c6 = 6);

fn body_drop(cap: usize) {
    let (b, _m, _len) = mk(cap);
    assert!(wf_buffer(&b));
    drop(b);
}
per_cap!(body_drop; vk_int_buffer_drop_c1 = 1, vk_int_buffer_drop_c3 = 3, vk_int_buffer_drop_c6 = 6);
