// Kani harnesses for integer/src/bits.rs `mod repr`: `next_power_of_two_large` (iterator adaptor `skip_while` +
// `Option::and_then` closures: outside the Verus lowering rules, hence a bounded stand-in) and
// `TypedReprRef::is_power_of_two` / `bit_len` / `count_ones` on heap operands.
// C09: "... next_power_of_two/is_power_of_two ... behave as if the number were written in two's complement".
// Oracle: binary digits read from the words: is_power_of_two <=> exactly one digit is 1; next_power_of_two(x) = x if
// x is a power of two, else 2^(index of the highest 1 digit + 1).
// Bound: heap operands of exactly 3 and 4 words (full symbolic 64-bit words, top word non-zero).
use super::*;
include!("/verif/kani/harness/shim.rs");
use crate::{buffer::Buffer, repr::TypedRepr, repr::TypedReprRef, Sign};

fn vk_npot_check<const N: usize, const M: usize>() {
    let words: [Word; N] = any();
    assume(words[N - 1] != 0);
    // oracle on the digits
    let mut ones = 0usize;
    let mut top = 0usize;
    let mut i = 0usize;
    while i < N * 64 {
        if (words[i / 64] >> (i % 64)) & 1 == 1 {
            ones += 1;
            top = i;
        }
        i += 1;
    }
    let r = TypedReprRef::RefLarge(&words);
    assert!(r.is_power_of_two() == (ones == 1));
    assert!(r.bit_len() == top + 1);
    assert!(r.count_ones() == ones);

    let mut buf = Buffer::allocate(N);
    buf.push_slice(&words);
    let p = TypedRepr::Large(buf).next_power_of_two();
    let want_bit = if ones == 1 { top } else { top + 1 };
    let mut want = [0 as Word; M];
    want[want_bit / 64] = 1 << (want_bit % 64);
    let want_len = want_bit / 64 + 1;
    let (sign, out) = p.as_sign_slice();
    assert!(matches!(sign, Sign::Positive));
    assert!(out.len() == want_len);
    let mut j = 0usize;
    while j < M {
        if j < want_len {
            assert!(out[j] == want[j]);
        }
        j += 1;
    }
    cover();
}

#[cfg_attr(kani, kani::proof)]
#[cfg_attr(kani, kani::unwind(194))]
#[cfg_attr(not(kani), test)]
fn vk_npot_len3() {
    vk_npot_check::<3, 4>();
}

#[cfg_attr(kani, kani::proof)]
#[cfg_attr(kani, kani::unwind(258))]
#[cfg_attr(not(kani), test)]
fn vk_npot_len4() {
    vk_npot_check::<4, 5>();
}
