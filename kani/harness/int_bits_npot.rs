// Kani harnesses for integer/src/bits.rs `mod repr`: `next_power_of_two_large` (iterator adaptor `skip_while` +
// `Option::and_then` closures: outside the Verus lowering rules, hence a bounded stand-in) and
// `TypedReprRef::is_power_of_two` on heap operands.
// C09: "... next_power_of_two/is_power_of_two ... behave as if the number were written in two's complement".
// Oracle (loop-free, from the digits): x = [w0, .., w_top] with w_top != 0 is a power of two iff w_top is one and all
// lower words are 0; next_power_of_two(x) = x in that case, else 2^(64 * top + bit length of w_top).
// Bound: heap operands of exactly 3 words (full symbolic 64-bit words, top word non-zero).
use super::*;
include!("/verif/kani/harness/shim.rs");
use crate::{buffer::Buffer, repr::TypedRepr, repr::TypedReprRef, Sign};

#[cfg_attr(kani, kani::proof)]
#[cfg_attr(kani, kani::unwind(6))]
#[cfg_attr(not(kani), test)]
fn vk_npot_len3() {
    let words: [Word; 3] = any();
    let t = words[2];
    assume(t != 0);
    let is_pow = t & (t - 1) == 0 && words[0] == 0 && words[1] == 0;
    assert!(TypedReprRef::RefLarge(&words).is_power_of_two() == is_pow);

    let mut buf = Buffer::allocate(3);
    buf.push_slice(&words);
    let p = TypedRepr::Large(buf).next_power_of_two();
    let (sign, out) = p.as_sign_slice();
    assert!(matches!(sign, Sign::Positive));
    let blen = 64 - t.leading_zeros(); // 1..=64
    if is_pow {
        assert!(out.len() == 3 && out[0] == 0 && out[1] == 0 && out[2] == t);
    } else if blen == 64 {
        assert!(out.len() == 4 && out[0] == 0 && out[1] == 0 && out[2] == 0 && out[3] == 1);
    } else {
        assert!(out.len() == 3 && out[0] == 0 && out[1] == 0 && out[2] == 1 << blen);
    }
    cover();
}
