// Kani harnesses for integer/src/div/mod.rs: `fast_div_by_dword_in_place` (uses `rchunks_exact_mut`, which the
// Verus dialect cannot express). BOUNDED stand-in: slice lengths 2..=5 (no chunk / single-word rest / one chunk /
// chunk + rest), concrete divisors (so that num_modular's reciprocal is a constant), words from a palette with
// 4 symbolic bits each (2 bits for length 5) (never full-width symbolic multiplications, see engine/README.md).
// Contract checked (the one the Verus unit int_div_dword assumes for this function), C02:
//     value(old) == value(final) * rhs + ret   and   ret < rhs        where rhs = divisor >> shift.
use super::*;
include!("/verif/kani/harness/shim.rs");

const VK_DD_RHS: [DoubleWord; 3] = [
    0xfedc_ba98_7654_3210_0123_4567_89ab_cdef, // shift 0
    0x0000_0000_0000_0001_0000_0000_0000_0003, // shift 63
    0x0000_1234_5678_9abc_def0_0fed_cba9_8765, // shift 19
];

fn vk_dd_palette_word(fine: bool) -> Word {
    let sel: u8 = any();
    assume(fine || sel < 4);
    let base: Word = match sel & 3 {
        0 => 0,
        1 => Word::MAX,
        2 => 1 << (WORD_BITS - 1),
        _ => 0x0123_4567_89ab_cdef,
    };
    base ^ (((sel >> 2) & 3) as Word)
}

/// value(q) * rhs + rem, as N + 2 little-endian words, by schoolbook multiplication in u128
fn vk_dd_mul_add<const N: usize, const M: usize>(q: &[Word; N], rhs: DoubleWord, rem: DoubleWord) -> [Word; M] {
    let (r_lo, r_hi) = split_dword(rhs);
    let mut out = [0 as Word; M];
    let (m_lo, m_hi) = split_dword(rem);
    out[0] = m_lo;
    out[1] = m_hi;
    // out += q * r_lo
    let mut carry: DoubleWord = 0;
    let mut i = 0;
    while i < N {
        let t = extend_word(q[i]) * extend_word(r_lo) + extend_word(out[i]) + carry;
        let (lo, hi) = split_dword(t);
        out[i] = lo;
        carry = extend_word(hi);
        i += 1;
    }
    while i < M {
        let t = extend_word(out[i]) + carry;
        let (lo, hi) = split_dword(t);
        out[i] = lo;
        carry = extend_word(hi);
        i += 1;
    }
    assert!(carry == 0);
    // out += (q * r_hi) * B
    let mut carry: DoubleWord = 0;
    let mut i = 0;
    while i < N {
        let t = extend_word(q[i]) * extend_word(r_hi) + extend_word(out[i + 1]) + carry;
        let (lo, hi) = split_dword(t);
        out[i + 1] = lo;
        carry = extend_word(hi);
        i += 1;
    }
    while i + 1 < M {
        let t = extend_word(out[i + 1]) + carry;
        let (lo, hi) = split_dword(t);
        out[i + 1] = lo;
        carry = extend_word(hi);
        i += 1;
    }
    assert!(carry == 0);
    out
}

fn vk_dd_fast_div_check<const N: usize, const M: usize, const K: usize>() {
    let rhs = VK_DD_RHS[K];
    let shift = rhs.leading_zeros();
    let fast_div_rhs = FastDivideNormalized2::new(rhs << shift);
    let mut words = [0 as Word; N];
    let mut i = 0;
    while i < N {
        words[i] = vk_dd_palette_word(N <= 4);
        i += 1;
    }
    let old = words;
    let rem = fast_div_by_dword_in_place(&mut words, shift, fast_div_rhs);
    assert!(rem < rhs);
    let back: [Word; M] = vk_dd_mul_add::<N, M>(&words, rhs, rem);
    let mut i = 0;
    while i < N {
        assert!(back[i] == old[i]);
        i += 1;
    }
    assert!(back[N] == 0 && back[N + 1] == 0);
    cover();
}

macro_rules! vk_dd_harness {
    ($name:ident, $n:expr, $m:expr, $k:expr) => {
        #[cfg_attr(kani, kani::proof)]
        #[cfg_attr(not(kani), test)]
        fn $name() {
            vk_dd_fast_div_check::<$n, $m, $k>();
        }
    };
}
vk_dd_harness!(vk_dd_fast_div_len2_d0, 2, 4, 0);
vk_dd_harness!(vk_dd_fast_div_len2_d1, 2, 4, 1);
vk_dd_harness!(vk_dd_fast_div_len2_d2, 2, 4, 2);
vk_dd_harness!(vk_dd_fast_div_len3_d0, 3, 5, 0);
vk_dd_harness!(vk_dd_fast_div_len3_d1, 3, 5, 1);
vk_dd_harness!(vk_dd_fast_div_len3_d2, 3, 5, 2);
vk_dd_harness!(vk_dd_fast_div_len4_d0, 4, 6, 0);
vk_dd_harness!(vk_dd_fast_div_len4_d1, 4, 6, 1);
vk_dd_harness!(vk_dd_fast_div_len4_d2, 4, 6, 2);
vk_dd_harness!(vk_dd_fast_div_len5_d0, 5, 7, 0);
vk_dd_harness!(vk_dd_fast_div_len5_d1, 5, 7, 1);
vk_dd_harness!(vk_dd_fast_div_len5_d2, 5, 7, 2);
