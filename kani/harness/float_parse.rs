// Kani harnesses for float/src/parse.rs `Repr::<B>::from_str_native` (the implementation behind `FBig::from_str`):
// C08 "parsing a float string yields exactly the written value with the precision implied by the number of written
// digits", C16 "parsers return Err, never panic".
//
// Oracle (written from the documented grammar of `FBig::from_str_native`, one left-to-right scan, plain integers):
//   [sign] [0x|0X  -- base 2 only: hexadecimal digits, 4 bits each]  digits-and-'_' ['.' digits-and-'_']
//   [marker [sign] decimal digits]            marker: base 10 `e E @`; base 2 `b B @`; base 2 with 0x prefix `p P @`
//   value     = (integer formed by all written digits) * radix^(-number of fraction digits) * B^scale
//   precision = number of written digits ('_' not counted), 4 per hexadecimal digit
//   malformed: a character outside the alphabet of the position, two '.', no digit at all, an integer / fraction part
//   made only of '_', an empty or non-decimal scale.
// The result must be normalised (significand not divisible by B, zero = (0, 0)).
//
// Bound: strings of length 0..=N over a 16-symbol palette (see vk_fp_sym), base 2 and base 10.
use super::*;
use dashu_base::{Signed, UnsignedAbs};
use dashu_int::IBig;
include!("/verif/kani/harness/shim.rs");

/// the palette: digits valid in every base / in base 10 / in base 16 only, the radix point, the separator, the scale
/// markers of both bases, the prefix letter and both signs
fn vk_fp_sym(k: u8) -> u8 {
    match k & 15 {
        0 => b'0',
        1 => b'1',
        2 => b'5',
        3 => b'8',
        4 => b'a',
        5 => b'F',
        6 => b'x',
        7 => b'.',
        8 => b'_',
        9 => b'e',
        10 => b'p',
        11 => b'b',
        12 => b'@',
        13 => b'-',
        14 => b'+',
        _ => b'P',
    }
}

fn vk_fp_digit(c: u8) -> u32 {
    if c >= b'0' && c <= b'9' {
        (c - b'0') as u32
    } else if c >= b'a' && c <= b'z' {
        (c - b'a') as u32 + 10
    } else if c >= b'A' && c <= b'Z' {
        (c - b'A') as u32 + 10
    } else {
        99
    }
}

struct VkFp {
    bad: bool,    // malformed: the parser must return Err
    defect: bool, // inside a region of known findings (excluded from the main harness, asserted by the finding harnesses)
    neg: bool,
    mant: u64,
    exp: i64,
    ndigits: usize,
}

/// the documented grammar; `base` is 2 or 10
fn vk_fp_oracle<const N: usize>(t: &[u8; N], len: usize, base: u32) -> VkFp {
    let mut r = VkFp { bad: false, defect: false, neg: false, mant: 0, exp: 0, ndigits: 0 };
    let mut i = 0usize;
    if i < len && t[i] == b'-' {
        r.neg = true;
        i += 1;
    } else if i < len && t[i] == b'+' {
        i += 1;
    }
    let hex = base == 2 && i + 1 < len && t[i] == b'0' && (t[i + 1] == b'x' || t[i + 1] == b'X');
    if hex {
        i += 2;
    }
    let radix: u32 = if hex { 16 } else { base };
    let bits: usize = if hex { 4 } else { 1 };
    // 0 = integer part, 1 = fraction part, 2 = scale sign, 3 = scale digits
    let mut state = 0u8;
    let mut part_chars = 0usize; // characters seen in the current part
    let mut part_digits = 0usize;
    let mut mant_chars = 0usize; // digits and separators of both parts
    let mut int_digits = 0usize;
    let mut frac_digits = 0usize;
    let mut seen_dot = false;
    let mut scale: i64 = 0;
    let mut scale_neg = false;
    let mut scale_digits = 0usize;
    let mut k = 0usize;
    while k < N {
        if k >= i && k < len {
            let c = t[k];
            if state <= 1 {
                let marker = if base == 10 {
                    c == b'e' || c == b'E' || c == b'@'
                } else if hex {
                    c == b'p' || c == b'P' || c == b'@'
                } else {
                    c == b'b' || c == b'B' || c == b'@'
                };
                if marker {
                    if part_chars > 0 && part_digits == 0 {
                        r.bad = true; // a part made only of separators
                    }
                    state = 2;
                } else if c == b'.' {
                    if seen_dot {
                        r.bad = true;
                    }
                    if part_chars > 0 && part_digits == 0 {
                        r.bad = true;
                    }
                    seen_dot = true;
                    state = 1;
                    part_chars = 0;
                    part_digits = 0;
                } else if c == b'_' {
                    part_chars += 1;
                    mant_chars += 1;
                } else if vk_fp_digit(c) < radix {
                    r.mant = r.mant * radix as u64 + vk_fp_digit(c) as u64;
                    part_chars += 1;
                    mant_chars += 1;
                    part_digits += 1;
                    if state == 0 {
                        int_digits += 1;
                    } else {
                        frac_digits += 1;
                    }
                } else {
                    if c == b'+' && part_chars == 0 {
                        // KNOWN FINDING: a '+' at the start of the integer part (after the sign / prefix) or of the
                        // fraction part is accepted and counted as a digit position
                        r.defect = true;
                    }
                    r.bad = true;
                }
            } else if state == 2 && (c == b'-' || c == b'+') {
                scale_neg = c == b'-';
                state = 3;
            } else if c >= b'0' && c <= b'9' {
                scale = scale * 10 + (c - b'0') as i64;
                scale_digits += 1;
                state = 3;
            } else {
                r.bad = true;
            }
        }
        k += 1;
    }
    if state <= 1 && part_chars > 0 && part_digits == 0 {
        r.bad = true;
    }
    if int_digits + frac_digits == 0 {
        r.bad = true;
        if hex && seen_dot && mant_chars == 0 {
            // KNOWN FINDING: `0x.` (prefix, radix point, both parts empty) is accepted as zero
            r.defect = true;
        }
    }
    if state >= 2 && scale_digits == 0 {
        r.bad = true;
    }
    if scale_neg {
        scale = -scale;
    }
    r.exp = scale - (bits * frac_digits) as i64;
    r.ndigits = bits * (int_digits + frac_digits);
    r
}

/// |significand| as u128 and its sign (every value in these harnesses is far below 2^64)
fn vk_fp_sig(s: &IBig) -> (bool, u128) {
    let neg = s.sign() == Sign::Negative;
    let m: u128 = match u128::try_from(&s.clone().unsigned_abs()) {
        Ok(v) => v,
        Err(_) => {
            assert!(false);
            0
        }
    };
    (neg, m)
}

fn vk_fp_check<const B: Word, const N: usize>(t: &[u8; N], len: usize, main: bool) {
    // SAFETY: every byte comes from the ASCII palette, hence valid UTF-8
    let src = unsafe { core::str::from_utf8_unchecked(&t[..len]) };
    let want = vk_fp_oracle::<N>(t, len, B as u32);
    if main {
        assume(!want.defect);
    }
    match Repr::<B>::from_str_native(src) {
        Err(_) => {
            assert!(want.bad);
        }
        Ok((repr, nd)) => {
            assert!(!want.bad);
            assert!(nd == want.ndigits);
            let (neg, sig) = vk_fp_sig(&repr.significand);
            if want.mant == 0 {
                assert!(sig == 0 && repr.exponent == 0);
            } else {
                assert!(neg == want.neg);
                // normalised, and sig * B^e == mant * B^exp (e >= exp: normalisation only moves factors B upwards)
                assert!(sig % (B as u128) != 0);
                let d = repr.exponent as i64 - want.exp;
                assert!(d >= 0 && d <= 4 * N as i64);
                let mut scaled = sig;
                let mut j = 0i64;
                while j < 4 * N as i64 {
                    if j < d {
                        scaled *= B as u128;
                    }
                    j += 1;
                }
                assert!(scaled == want.mant as u128);
            }
        }
    }
}

macro_rules! vk_fp_main {
    ($name:ident, $b:expr, $n:expr, $unw:expr) => {
        #[cfg_attr(kani, kani::proof)]
        #[cfg_attr(not(kani), test)]
        #[cfg_attr(kani, kani::unwind($unw))]
        fn $name() {
            let sel: [u8; $n] = any();
            let len: usize = any();
            assume(len <= $n);
            let mut t = [0u8; $n];
            let mut i = 0;
            while i < $n {
                t[i] = vk_fp_sym(sel[i]);
                i += 1;
            }
            vk_fp_check::<$b, $n>(&t, len, true);
            cover();
        }
    };
}
vk_fp_main!(vk_float_parse_b2_n3, 2, 3, 34);
vk_fp_main!(vk_float_parse_b10_n3, 10, 3, 34);
