// Kani harnesses for the dashu-int items that Verus units only see through ASSUMED stub contracts and that no other
// unit / group checks end to end (see contracts/STUB_AUDIT.md).  Mounted on integer/src/lib.rs (crate root).
//
//  (1) storage:  `Buffer::from(&[Word])` exact capacity (repr_stubs.rs `From<&[Word]> for Buffer`), `Repr::is_one` /
//      `is_zero` on every storage class and sign (repr_stubs.rs; group int_repr checks is_one for one-word values only).
//  (2) the UBig / IBig API as the float and rational units see it (bigstub.rs, round_int_stubs.rs,
//      round_int_addsub_stubs.rs, ratio2_stubs.rs, round_ratio_stubs.rs, farith_*_stubs.rs ...): every operator there
//      is stated on the mathematical value `v()`.  The Verus units int_add_ops / int_mul_ops / int_div_ops /
//      int_shift_ops / int_pow / int_gcd_ops prove the value statement for the `TypedRepr`-level functions and
//      int_ops_sign / int_div_sign / int_bits_signed for the sign arms; what is NOT under any contract is the glue in
//      between: the forwarding macros of helper_macros.rs (`UBig(self.into_repr().op(rhs.into_repr()))`, ...), the
//      one-line wrappers of sign.rs / ibig.rs / cmp.rs, and the four-arm `match` of the TypedRepr `/ % div_rem`
//      dispatch (assumed by unit int_div_sign).  The harnesses below run the REAL public operators end to end and
//      compare the value of the result with a wide-integer oracle (u128 / i128 arithmetic written from the stub
//      contract): exactly the stub's postcondition, on bounded operands.
//
// BOUNDED.  Operands: one or two words (inline), symbolic words, both signs; three / four words (heap) where stated.
// The storage class (word count) and the sign of every operand are CONCRETE per call, the words symbolic: an operand is
// written straight from the documented `#[repr(C)]` layout of `Repr` ([lo, hi, capacity]; |capacity| = number of
// inline words, sign of capacity = sign of the number; heap: a `Buffer` {ptr, len, capacity}) -- after `from_dword` /
// `from_buffer` the class is a computed value and CBMC has to encode the multi-word arms of every operator over
// pointers made of the inline words (out of memory, see int_forms.rs).  Results are read back from the same layout
// (`vk_si_take`: no accessor of the library, no pointer followed) and must be inline and normalised.
// Multiplication / division operands are full symbolic words where the code and the oracle perform the same primitive
// operation (one u128 `*` / `/`), palette words otherwise.
use super::*;
use crate::{buffer::Buffer, repr::Repr};
use core::cmp::Ordering;
use dashu_base::{AbsOrd, BitTest, DivRem, Gcd, Signed, UnsignedAbs};
include!("/verif/kani/harness/shim.rs");

// ------------------------------------------------------------------------------------------------------------------
// construction / observation

/// well-formed Repr with c magnitude words (c = 1: may be zero, then positive; c = 2: w[1] != 0; c = 3, 4: heap,
/// top word != 0, capacity c + 2), sign as given.  c and neg must be concrete at the call site.
fn vk_si_repr(c: usize, neg: bool, w: &[Word; 4]) -> Repr {
    assume(c == 1 || w[c - 1] != 0);
    assume(!(neg && c == 1 && w[0] == 0));
    if c <= 2 {
        let cap = if neg { -(c as isize) } else { c as isize };
        let hi = if c == 2 { w[1] } else { 0 };
        unsafe { core::mem::transmute::<[u64; 3], Repr>([w[0], hi, cap as u64]) }
    } else {
        let mut b = Buffer::allocate_exact(c + 2);
        let mut i = 0;
        while i < c {
            b.push(w[i]);
            i += 1;
        }
        let r: Repr = unsafe { core::mem::transmute::<Buffer, Repr>(b) };
        if neg {
            r.neg()
        } else {
            r
        }
    }
}
fn vk_si_u(c: usize, w: &[Word; 4]) -> UBig {
    UBig(vk_si_repr(c, false, w))
}
fn vk_si_i(c: usize, neg: bool, w: &[Word; 4]) -> IBig {
    IBig(vk_si_repr(c, neg, w))
}
/// magnitude of the low two words
fn vk_si_mag(w: &[Word; 4]) -> u128 {
    (w[0] as u128) | ((w[1] as u128) << 64)
}
/// c-word operand with symbolic words (words above c are zero)
fn vk_si_words(c: usize) -> [Word; 4] {
    let a: [Word; 4] = any();
    let mut r = [0; 4];
    let mut i = 0;
    while i < 4 {
        if i < c {
            r[i] = a[i];
        }
        i += 1;
    }
    r
}
/// palette word: 3 symbolic bits
fn vk_si_pal() -> Word {
    let k: u8 = any();
    match k & 7 {
        0 => 0,
        1 => 1,
        2 => 1 << 63,
        3 => Word::MAX,
        4 => Word::MAX - 1,
        5 => (1 << 63) + 1,
        6 => 1 << 32,
        _ => 3,
    }
}

/// c-word operand with palette words (3 symbolic bits per word)
fn vk_si_pal_words(c: usize) -> [Word; 4] {
    let mut r = [0; 4];
    let mut i = 0;
    while i < 4 {
        if i < c {
            r[i] = vk_si_pal();
        }
        i += 1;
    }
    r
}

/// (negative?, magnitude) of a result that must be INLINE (|x| < 2^128) and normalised, read from the layout.
/// Consumes the value without dropping it.
fn vk_si_take(x: Repr) -> (bool, u128) {
    let r = unsafe { core::mem::transmute::<Repr, [u64; 3]>(x) };
    let cap = r[2] as i64;
    assert!(cap == 1 || cap == -1 || cap == 2 || cap == -2);
    assert!((cap == 2 || cap == -2) == (r[1] != 0));
    assert!(!(cap == -1 && r[0] == 0));
    (cap < 0, (r[0] as u128) | ((r[1] as u128) << 64))
}
/// x == sign * mag ?  (zero is +0 whatever `neg` says)
fn vk_si_is(x: Repr, neg: bool, mag: u128) -> bool {
    let (n, m) = vk_si_take(x);
    m == mag && (mag == 0 || n == neg)
}
/// x is the non-negative value mag (UBig results: the capacity must be positive)
fn vk_si_isu(x: UBig, mag: u128) -> bool {
    let (n, m) = vk_si_take(x.0);
    m == mag && !n
}

/// run `$body(sa, sb)` for the four sign combinations, each with concrete signs
macro_rules! vk_si_signs2 {
    ($name:ident, $unw:expr, $body:ident) => {
        #[cfg_attr(kani, kani::proof)]
        #[cfg_attr(kani, kani::unwind($unw))]
        #[cfg_attr(not(kani), test)]
        fn $name() {
            match (any::<bool>(), any::<bool>()) {
                (false, false) => $body(false, false),
                (false, true) => $body(false, true),
                (true, false) => $body(true, false),
                (true, true) => $body(true, true),
            }
            cover();
        }
    };
}
macro_rules! vk_si_signs1 {
    ($name:ident, $unw:expr, $body:ident $(, $arg:expr)*) => {
        #[cfg_attr(kani, kani::proof)]
        #[cfg_attr(kani, kani::unwind($unw))]
        #[cfg_attr(not(kani), test)]
        fn $name() {
            if any::<bool>() {
                $body(true $(, $arg)*);
            } else {
                $body(false $(, $arg)*);
            }
            cover();
        }
    };
}
macro_rules! vk_si_plain {
    ($name:ident, $unw:expr, $body:ident $(, $arg:expr)*) => {
        #[cfg_attr(kani, kani::proof)]
        #[cfg_attr(kani, kani::unwind($unw))]
        #[cfg_attr(not(kani), test)]
        fn $name() {
            $body($($arg),*);
            cover();
        }
    };
}

// ------------------------------------------------------------------------------------------------------------------
// (1) storage

// repr_stubs.rs  `impl From<&[Word]> for Buffer`:  ensures r@ == words@ && r.capacity() == default_capacity(len)
//   (default_capacity(n) = n + n / 8 + 2; group int_buffer asserts only `len <= capacity <= max_compact`)
fn vk_si_buffer_from(k: usize) {
    let src: [Word; 8] = any();
    let b = Buffer::from(&src[..k]);
    assert!(b.capacity() == k + k / 8 + 2);
    assert!(b.len() == k);
    let mut i = 0;
    while i < 8 {
        if i < k {
            assert!(b[i] == src[i]);
        }
        i += 1;
    }
}
#[cfg_attr(kani, kani::proof)]
#[cfg_attr(kani, kani::unwind(10))]
#[cfg_attr(not(kani), test)]
fn vk_stub_int_buffer_from_slice_cap() {
    vk_si_buffer_from(0);
    vk_si_buffer_from(1);
    vk_si_buffer_from(2);
    vk_si_buffer_from(3);
    vk_si_buffer_from(8);
    cover();
}

// repr_stubs.rs  `Repr::is_one`: ensures r == (v() == 1);  `Repr::is_zero`: ensures r == (v() == 0)
//   (and the wrappers UBig/IBig::is_zero / is_one of bigstub.rs, round_int_stubs.rs)
fn vk_si_is_one(neg: bool, c: usize) {
    let w = vk_si_words(c);
    let x = vk_si_i(c, neg, &w);
    let one = !neg && c == 1 && w[0] == 1;
    let zero = c == 1 && w[0] == 0;
    assert!(x.0.is_one() == one && x.0.is_zero() == zero);
    assert!(x.is_one() == one && x.is_zero() == zero);
    if !neg {
        let u = UBig(x.0);
        assert!(u.is_one() == one && u.is_zero() == zero);
    }
}
vk_si_signs1!(vk_stub_int_repr_is_one_i1, 8, vk_si_is_one, 1);
vk_si_signs1!(vk_stub_int_repr_is_one_i2, 8, vk_si_is_one, 2);
vk_si_signs1!(vk_stub_int_repr_is_one_h3, 8, vk_si_is_one, 3);

// ------------------------------------------------------------------------------------------------------------------
// (2a) sign / parts / magnitude comparison
// bigstub.rs / round_int_stubs.rs:
//   IBig::sign():        Negative iff v() < 0 (zero is Positive);     Signed::is_positive = (sign() == Positive)
//   IBig::into_parts():  (sign(), |v|);   IBig::from_parts(s, m): sgn(s) * m;   unsigned_abs(): |v|
//   Neg for UBig: -v;  From<UBig> for IBig: v;   Mul<Sign> for IBig / UBig (farith_add_stubs, ratio2_stubs): v * sgn(s)
fn vk_si_parts(neg: bool, c: usize) {
    let w = vk_si_words(c);
    let m = vk_si_mag(&w);
    let x = vk_si_i(c, neg, &w);
    assert!((x.sign() == Sign::Negative) == neg);
    assert!(x.is_positive() == !neg);
    let (s, u) = x.into_parts();
    assert!((s == Sign::Negative) == neg);
    assert!(vk_si_isu(u, m));
    assert!(vk_si_isu(vk_si_i(c, neg, &w).unsigned_abs(), m));
}
vk_si_signs1!(vk_stub_int_ibig_parts_c1, 8, vk_si_parts, 1);
vk_si_signs1!(vk_stub_int_ibig_parts_c2, 8, vk_si_parts, 2);

fn vk_si_from_parts(neg: bool, c: usize) {
    let w = vk_si_words(c);
    let m = vk_si_mag(&w);
    let s = if neg { Sign::Negative } else { Sign::Positive };
    assert!(vk_si_is(IBig::from_parts(s, vk_si_u(c, &w)).0, neg, m));
    assert!(vk_si_is((vk_si_u(c, &w) * s).0, neg, m));
    assert!(vk_si_is((-vk_si_u(c, &w)).0, true, m));
    assert!(vk_si_is(IBig::from(vk_si_u(c, &w)).0, false, m));
    // IBig * Sign with a negative operand (non-zero from here on)
    assert!(vk_si_is((vk_si_i(c, true, &w) * s).0, !neg, m));
}
vk_si_signs1!(vk_stub_int_ibig_from_parts_c1, 8, vk_si_from_parts, 1);
vk_si_signs1!(vk_stub_int_ibig_from_parts_c2, 8, vk_si_from_parts, 2);

/// heap magnitudes: the same statements, read through the public word accessors
fn vk_si_parts_heap(neg: bool) {
    let w = vk_si_words(3);
    let x = vk_si_i(3, neg, &w);
    assert!((x.sign() == Sign::Negative) == neg);
    let (s, u) = x.into_parts();
    assert!((s == Sign::Negative) == neg);
    {
        let ws = u.as_words();
        assert!(ws.len() == 3 && ws[0] == w[0] && ws[1] == w[1] && ws[2] == w[2]);
    }
    let y = IBig::from_parts(if neg { Sign::Positive } else { Sign::Negative }, u);
    {
        let (s2, ws) = y.as_sign_words();
        assert!((s2 == Sign::Negative) == !neg);
        assert!(ws.len() == 3 && ws[0] == w[0] && ws[1] == w[1] && ws[2] == w[2]);
    }
}
vk_si_signs1!(vk_stub_int_ibig_parts_h3, 8, vk_si_parts_heap);

// bigstub.rs / round_int_stubs.rs  `IBig::abs_cmp`: ensures r == cmp(|self|, |rhs|)     (signs are irrelevant)
fn vk_si_ord(a: &[Word; 4], b: &[Word; 4]) -> Ordering {
    let mut r = Ordering::Equal;
    let mut i = 0;
    while i < 4 {
        if a[i] < b[i] {
            r = Ordering::Less;
        } else if a[i] > b[i] {
            r = Ordering::Greater;
        }
        i += 1;
    }
    r
}
fn vk_si_abs_cmp(sa: bool, sb: bool, ca: usize, cb: usize) {
    let (wa, wb) = (vk_si_words(ca), vk_si_words(cb));
    let (a, b) = (vk_si_i(ca, sa, &wa), vk_si_i(cb, sb, &wb));
    assert!(a.abs_cmp(&b) == vk_si_ord(&wa, &wb));
}
fn vk_si_abs_cmp_1_1(sa: bool, sb: bool) {
    vk_si_abs_cmp(sa, sb, 1, 1)
}
fn vk_si_abs_cmp_2_2(sa: bool, sb: bool) {
    vk_si_abs_cmp(sa, sb, 2, 2)
}
fn vk_si_abs_cmp_2_1(sa: bool, sb: bool) {
    vk_si_abs_cmp(sa, sb, 2, 1)
}
fn vk_si_abs_cmp_3_3(sa: bool, sb: bool) {
    vk_si_abs_cmp(sa, sb, 3, 3)
}
fn vk_si_abs_cmp_2_3(sa: bool, sb: bool) {
    vk_si_abs_cmp(sa, sb, 2, 3)
}
vk_si_signs2!(vk_stub_int_abs_cmp_1_1, 40, vk_si_abs_cmp_1_1);
vk_si_signs2!(vk_stub_int_abs_cmp_2_2, 40, vk_si_abs_cmp_2_2);
vk_si_signs2!(vk_stub_int_abs_cmp_2_1, 40, vk_si_abs_cmp_2_1);
vk_si_signs2!(vk_stub_int_abs_cmp_3_3, 40, vk_si_abs_cmp_3_3);
vk_si_signs2!(vk_stub_int_abs_cmp_2_3, 40, vk_si_abs_cmp_2_3);

// ------------------------------------------------------------------------------------------------------------------
// (2b) + - *      (bigstub.rs, round_int_addsub_stubs.rs, farith_add_stubs.rs, farith_mul_stubs.rs, ratio2_stubs.rs ...):
//   ensures r.v() == self.v() op rhs.v()

/// signed sum of two sign-magnitude numbers with magnitudes < 2^127
fn vk_si_add_sm(sa: bool, a: u128, sb: bool, b: u128) -> (bool, u128) {
    if sa == sb {
        (sa, a + b)
    } else if a >= b {
        (sa, a - b)
    } else {
        (sb, b - a)
    }
}

/// UBig + UBig, - , one-/two-word operands (two-word: top bit clear so that the sum stays inline)
fn vk_si_ubig_addsub(c: usize) {
    let (wa, wb) = (vk_si_words(c), vk_si_words(c));
    let (a, b) = (vk_si_mag(&wa), vk_si_mag(&wb));
    assume(a < (1 << 127) && b < (1 << 127));
    assert!(vk_si_isu(vk_si_u(c, &wa) + vk_si_u(c, &wb), a + b));
    assert!(vk_si_isu(&vk_si_u(c, &wa) + &vk_si_u(c, &wb), a + b));
    if a >= b {
        assert!(vk_si_isu(vk_si_u(c, &wa) - vk_si_u(c, &wb), a - b));
        assert!(vk_si_isu(&vk_si_u(c, &wa) - &vk_si_u(c, &wb), a - b));
    }
}
vk_si_plain!(vk_stub_int_ubig_addsub_1_1, 8, vk_si_ubig_addsub, 1);
vk_si_plain!(vk_stub_int_ubig_addsub_2_2, 8, vk_si_ubig_addsub, 2);

fn vk_si_ibig_add(sa: bool, sb: bool, c: usize) {
    let (wa, wb) = (vk_si_words(c), vk_si_words(c));
    let (a, b) = (vk_si_mag(&wa), vk_si_mag(&wb));
    assume(a < (1 << 127) && b < (1 << 127));
    let (sn, sm) = vk_si_add_sm(sa, a, sb, b);
    assert!(vk_si_is((vk_si_i(c, sa, &wa) + vk_si_i(c, sb, &wb)).0, sn, sm));
}
fn vk_si_ibig_sub(sa: bool, sb: bool, c: usize) {
    let (wa, wb) = (vk_si_words(c), vk_si_words(c));
    let (a, b) = (vk_si_mag(&wa), vk_si_mag(&wb));
    assume(a < (1 << 127) && b < (1 << 127));
    // a - b = a + (-b); a zero b keeps its (positive) sign, which vk_si_add_sm ignores for a zero magnitude
    let (sn, sm) = vk_si_add_sm(sa, a, !sb, b);
    assert!(vk_si_is((vk_si_i(c, sa, &wa) - vk_si_i(c, sb, &wb)).0, sn, sm));
}
fn vk_si_ibig_add_1(sa: bool, sb: bool) {
    vk_si_ibig_add(sa, sb, 1)
}
fn vk_si_ibig_add_2(sa: bool, sb: bool) {
    vk_si_ibig_add(sa, sb, 2)
}
fn vk_si_ibig_sub_1(sa: bool, sb: bool) {
    vk_si_ibig_sub(sa, sb, 1)
}
fn vk_si_ibig_sub_2(sa: bool, sb: bool) {
    vk_si_ibig_sub(sa, sb, 2)
}
vk_si_signs2!(vk_stub_int_ibig_add_1_1, 8, vk_si_ibig_add_1);
vk_si_signs2!(vk_stub_int_ibig_add_2_2, 8, vk_si_ibig_add_2);
vk_si_signs2!(vk_stub_int_ibig_sub_1_1, 8, vk_si_ibig_sub_1);
vk_si_signs2!(vk_stub_int_ibig_sub_2_2, 8, vk_si_ibig_sub_2);

/// the `&IBig op IBig`, `IBig op &IBig`, `+=`, `-=` forms used by the float units (round_int_addsub_stubs.rs)
fn vk_si_ibig_addsub_forms(sa: bool, sb: bool) {
    let (wa, wb) = (vk_si_words(1), vk_si_words(1));
    let (a, b) = (vk_si_mag(&wa), vk_si_mag(&wb));
    let (sn, sm) = vk_si_add_sm(sa, a, sb, b);
    assert!(vk_si_is((&vk_si_i(1, sa, &wa) + vk_si_i(1, sb, &wb)).0, sn, sm));
    let mut x = vk_si_i(1, sa, &wa);
    x += vk_si_i(1, sb, &wb);
    assert!(vk_si_is(x.0, sn, sm));
    let (dn, dm) = vk_si_add_sm(sa, a, !sb, b);
    assert!(vk_si_is((vk_si_i(1, sa, &wa) - &vk_si_i(1, sb, &wb)).0, dn, dm));
    let mut y = vk_si_i(1, sa, &wa);
    y -= vk_si_i(1, sb, &wb);
    assert!(vk_si_is(y.0, dn, dm));
}
vk_si_signs2!(vk_stub_int_ibig_addsub_forms, 8, vk_si_ibig_addsub_forms);

/// mixed forms of the rational units (ratio2_stubs.rs): IBig + UBig, IBig - UBig, UBig - IBig
fn vk_si_mixed_addsub(sa: bool) {
    let (wa, wb) = (vk_si_words(1), vk_si_words(1));
    let (a, b) = (vk_si_mag(&wa), vk_si_mag(&wb));
    let (sn, sm) = vk_si_add_sm(sa, a, false, b);
    assert!(vk_si_is((vk_si_i(1, sa, &wa) + vk_si_u(1, &wb)).0, sn, sm));
    let (dn, dm) = vk_si_add_sm(sa, a, true, b);
    assert!(vk_si_is((vk_si_i(1, sa, &wa) - vk_si_u(1, &wb)).0, dn, dm));
    let (en, em) = vk_si_add_sm(false, b, !sa, a);
    assert!(vk_si_is((vk_si_u(1, &wb) - vk_si_i(1, sa, &wa)).0, en, em));
}
vk_si_signs1!(vk_stub_int_mixed_addsub_1_1, 8, vk_si_mixed_addsub);

/// one-word products, palette words
fn vk_si_ibig_mul(sa: bool, sb: bool) {
    let (wa, wb) = (vk_si_pal_words(1), vk_si_pal_words(1));
    let p = (wa[0] as u128) * (wb[0] as u128);
    assert!(vk_si_is((vk_si_i(1, sa, &wa) * vk_si_i(1, sb, &wb)).0, sa != sb, p));
    assert!(vk_si_is((&vk_si_i(1, sa, &wa) * &vk_si_i(1, sb, &wb)).0, sa != sb, p));
}
vk_si_signs2!(vk_stub_int_ibig_mul_1_1, 8, vk_si_ibig_mul);
fn vk_si_ubig_mul(sb: bool) {
    let (wa, wb) = (vk_si_pal_words(1), vk_si_pal_words(1));
    let p = (wa[0] as u128) * (wb[0] as u128);
    assert!(vk_si_isu(vk_si_u(1, &wa) * vk_si_u(1, &wb), p));
    assert!(vk_si_isu(vk_si_u(1, &wa).sqr(), (wa[0] as u128) * (wa[0] as u128)));
    // mixed forms of bigstub.rs: UBig * IBig, IBig * UBig
    assert!(vk_si_is((vk_si_u(1, &wa) * vk_si_i(1, sb, &wb)).0, sb, p));
    assert!(vk_si_is((vk_si_i(1, sb, &wb) * vk_si_u(1, &wa)).0, sb, p));
}
vk_si_signs1!(vk_stub_int_ubig_mul_1_1, 8, vk_si_ubig_mul);

// ------------------------------------------------------------------------------------------------------------------
// (2c) / % div_rem      (bigstub.rs, ratio2_stubs.rs, round_ratio_stubs.rs, fio_*):
//   UBig: floor quotient / remainder;  IBig (and IBig op UBig): TRUNCATING quotient, remainder with the sign of the
//   dividend:  a == q * b + r, |r| < |b|, r == 0 or sign(r) == sign(a)

/// UBig / % div_rem, operands of ca / cb inline words, palette words
fn vk_si_ubig_divrem(ca: usize, cb: usize) {
    let (wa, wb) = (vk_si_pal_words(ca), vk_si_pal_words(cb));
    let (a, b) = (vk_si_mag(&wa), vk_si_mag(&wb));
    assume(b != 0);
    assert!(vk_si_isu(vk_si_u(ca, &wa) / vk_si_u(cb, &wb), a / b));
    assert!(vk_si_isu(vk_si_u(ca, &wa) % vk_si_u(cb, &wb), a % b));
    let (q, r) = vk_si_u(ca, &wa).div_rem(vk_si_u(cb, &wb));
    assert!(vk_si_isu(q, a / b) && vk_si_isu(r, a % b));
}
vk_si_plain!(vk_stub_int_ubig_divrem_2_2, 8, vk_si_ubig_divrem, 2, 2);
vk_si_plain!(vk_stub_int_ubig_divrem_2_1, 8, vk_si_ubig_divrem, 2, 1);
vk_si_plain!(vk_stub_int_ubig_divrem_1_2, 8, vk_si_ubig_divrem, 1, 2);

fn vk_si_ibig_div(sa: bool, sb: bool) {
    let (wa, wb) = (vk_si_pal_words(2), vk_si_pal_words(1));
    let (a, b) = (vk_si_mag(&wa), vk_si_mag(&wb));
    assume(b != 0);
    assert!(vk_si_is((vk_si_i(2, sa, &wa) / vk_si_i(1, sb, &wb)).0, sa != sb, a / b));
}
fn vk_si_ibig_rem(sa: bool, sb: bool) {
    let (wa, wb) = (vk_si_pal_words(2), vk_si_pal_words(1));
    let (a, b) = (vk_si_mag(&wa), vk_si_mag(&wb));
    assume(b != 0);
    assert!(vk_si_is((vk_si_i(2, sa, &wa) % vk_si_i(1, sb, &wb)).0, sa, a % b));
}
fn vk_si_ibig_divrem(sa: bool, sb: bool) {
    let (wa, wb) = (vk_si_pal_words(2), vk_si_pal_words(2));
    let (a, b) = (vk_si_mag(&wa), vk_si_mag(&wb));
    assume(b != 0);
    let (q, r) = vk_si_i(2, sa, &wa).div_rem(vk_si_i(2, sb, &wb));
    assert!(vk_si_is(q.0, sa != sb, a / b) && vk_si_is(r.0, sa, a % b));
}
vk_si_signs2!(vk_stub_int_ibig_div_2_1, 8, vk_si_ibig_div);
vk_si_signs2!(vk_stub_int_ibig_rem_2_1, 8, vk_si_ibig_rem);
vk_si_signs2!(vk_stub_int_ibig_divrem_2_2, 8, vk_si_ibig_divrem);

/// IBig / UBig, IBig % UBig (owned and borrowed forms of bigstub.rs / ratio2_stubs.rs / round_ratio_stubs.rs)
fn vk_si_ibig_ubig_div(sa: bool) {
    let (wa, wb) = (vk_si_pal_words(1), vk_si_pal_words(1));
    let (a, b) = (vk_si_mag(&wa), vk_si_mag(&wb));
    assume(b != 0);
    assert!(vk_si_is((vk_si_i(1, sa, &wa) / vk_si_u(1, &wb)).0, sa, a / b));
    assert!(vk_si_is((vk_si_i(1, sa, &wa) % &vk_si_u(1, &wb)).0, sa, a % b));
    assert!(vk_si_is((&vk_si_i(1, sa, &wa) / &vk_si_u(1, &wb)).0, sa, a / b));
    assert!(vk_si_is((&vk_si_i(1, sa, &wa) % &vk_si_u(1, &wb)).0, sa, a % b));
}
vk_si_signs1!(vk_stub_int_ibig_ubig_divrem_1_1, 8, vk_si_ibig_ubig_div);

/// the TypedRepr `/ % div_rem` dispatch arms that need no division: shorter dividend => (0, dividend)
/// (assumed by unit int_div_sign: `impl Div/Rem/DivRem<TypedRepr> for TypedRepr` and the borrowed forms)
fn vk_si_div_short(ca: usize, cb: usize) {
    let (wa, wb) = (vk_si_words(ca), vk_si_words(cb));
    assert!(vk_si_isu(vk_si_u(ca, &wa) / vk_si_u(cb, &wb), 0));
    assert!(vk_si_isu(&vk_si_u(ca, &wa) / &vk_si_u(cb, &wb), 0));
    let r = vk_si_u(ca, &wa) % vk_si_u(cb, &wb);
    let (q2, r2) = vk_si_u(ca, &wa).div_rem(vk_si_u(cb, &wb));
    let (q3, r3) = (&vk_si_u(ca, &wa)).div_rem(&vk_si_u(cb, &wb));
    assert!(vk_si_isu(q2, 0) && vk_si_isu(q3, 0));
    if ca <= 2 {
        let a = vk_si_mag(&wa);
        assert!(vk_si_isu(r, a) && vk_si_isu(r2, a) && vk_si_isu(r3, a));
    } else {
        vk_si_same3(r, &wa);
        vk_si_same3(r2, &wa);
        vk_si_same3(r3, &wa);
    }
}
fn vk_si_same3(x: UBig, wa: &[Word; 4]) {
    {
        let ws = x.as_words();
        assert!(ws.len() == 3 && ws[0] == wa[0] && ws[1] == wa[1] && ws[2] == wa[2]);
    }
    core::mem::forget(x);
}
vk_si_plain!(vk_stub_int_div_dispatch_2_3, 8, vk_si_div_short, 2, 3);
vk_si_plain!(vk_stub_int_div_dispatch_1_3, 8, vk_si_div_short, 1, 3);
vk_si_plain!(vk_stub_int_div_dispatch_3_4, 8, vk_si_div_short, 3, 4);

/// multi-word dividend: a == q * b + r, r < b checked by multi-word arithmetic on palette words.
/// a: 3 words; b: cb words (1, 2 or 3); q: at most 3 words; r: at most cb words
fn vk_si_div_long(cb: usize) {
    let wa = [vk_si_pal(), vk_si_pal(), vk_si_pal(), 0];
    let wb = vk_si_pal_words(cb);
    assume(cb >= 2 || wb[0] != 0);
    vk_si_div_long_at(wa, wb, cb)
}
fn vk_si_div_long_at(wa: [Word; 4], wb: [Word; 4], cb: usize) {
    let (q, r) = vk_si_u(3, &wa).div_rem(vk_si_u(cb, &wb));
    let mut qw = [0 as Word; 4];
    let mut rw = [0 as Word; 4];
    {
        let (qs, rs) = (q.as_words(), r.as_words());
        assert!(qs.len() <= 3 && rs.len() <= cb);
        let mut i = 0;
        while i < 3 {
            if i < qs.len() {
                qw[i] = qs[i];
            }
            if i < rs.len() {
                rw[i] = rs[i];
            }
            i += 1;
        }
    }
    core::mem::forget(q);
    core::mem::forget(r);
    // r < b
    assert!(vk_si_ord(&rw, &wb) == Ordering::Less);
    // q * b + r == a   (schoolbook, 6 result words; everything above word 2 must vanish)
    let mut acc = [0u128; 7];
    let mut i = 0;
    while i < 3 {
        let mut j = 0;
        while j < 3 {
            let p = (qw[i] as u128) * (wb[j] as u128);
            acc[i + j] += p & (Word::MAX as u128);
            acc[i + j + 1] += p >> 64;
            j += 1;
        }
        i += 1;
    }
    let mut carry: u128 = 0;
    let mut k = 0;
    while k < 7 {
        let t = acc[k] + carry + if k < 3 { rw[k] as u128 } else { 0 };
        let want = if k < 3 { wa[k] } else { 0 };
        assert!(t as Word == want);
        carry = t >> 64;
        k += 1;
    }
    assert!(carry == 0);
}
vk_si_plain!(vk_stub_int_div_long_3_1, 12, vk_si_div_long, 1);
/// two- and three-word divisors (Knuth division with the real reciprocal divider): PINNED operands (the divisor words
/// are `any()` + `assume(== literal)`: CBMC 6.11's constant folder crashes on num_modular's reciprocal of a literal)
fn vk_si_pin(v: Word) -> Word {
    let x: Word = any();
    assume(x == v);
    x
}
#[cfg_attr(kani, kani::proof)]
#[cfg_attr(kani, kani::unwind(12))]
#[cfg_attr(not(kani), test)]
fn vk_stub_int_div_long_3_2_pinned() {
    vk_si_div_long_at(
        [5, 0x8000_0000_0000_0000, 0x0123_4567_89ab_cdef, 0],
        [vk_si_pin(0xffff_ffff_0000_0001), vk_si_pin(0x7000_0000_0000_0003), 0, 0],
        2,
    );
    cover();
}
#[cfg_attr(kani, kani::proof)]
#[cfg_attr(kani, kani::unwind(12))]
#[cfg_attr(not(kani), test)]
fn vk_stub_int_div_long_3_3_pinned() {
    vk_si_div_long_at(
        [Word::MAX, Word::MAX - 1, 0x8000_0000_0000_0001, 0],
        [vk_si_pin(3), vk_si_pin(9), vk_si_pin(0x4000_0000_0000_0000), 0],
        3,
    );
    cover();
}

// ------------------------------------------------------------------------------------------------------------------
// (2d) << >>     (round_int_stubs.rs, bigstub.rs, conv_ratio_stubs.rs, gcdo_*):
//   UBig << n: v * 2^n;  UBig >> n: floor(v / 2^n);  IBig << n: v * 2^n;  IBig >> n: floor(v / 2^n) (towards -inf)
//   (IBig >> n on negative values is PROVED by unit int_bits_signed :: ibig_shr and spot-checked by group
//    int_bits_signed; a symbolic harness through `-IBig(mag >> n) - IBig::from(b)` is out of CBMC's reach)
fn vk_si_shifts(neg: bool, n: usize) {
    let w = vk_si_words(1);
    let m = w[0] as u128;
    assert!(vk_si_isu(vk_si_u(1, &w) << n, m << n));
    assert!(vk_si_isu(&vk_si_u(1, &w) << n, m << n));
    assert!(vk_si_is((vk_si_i(1, neg, &w) << n).0, neg, m << n));
    let w2 = vk_si_words(2);
    let m2 = vk_si_mag(&w2);
    assert!(vk_si_isu(vk_si_u(2, &w2) >> n, m2 >> n));
    assert!(vk_si_isu(&vk_si_u(2, &w2) >> n, m2 >> n));
    assert!(vk_si_is((vk_si_i(2, false, &w2) >> n).0, false, m2 >> n));
}
vk_si_signs1!(vk_stub_int_shifts_n1, 8, vk_si_shifts, 1);
vk_si_signs1!(vk_stub_int_shifts_n64, 8, vk_si_shifts, 64);
vk_si_signs1!(vk_stub_int_shifts_n37, 8, vk_si_shifts, 37);

// ------------------------------------------------------------------------------------------------------------------
// (2e) pow / gcd / bit_len / trailing_zeros      (round_int_stubs.rs `UBig::pow`, bigstub.rs Gcd, trailing_zeros ...)

/// UBig::pow / IBig::pow: r == v^exp (0^0 == 1).  CONCRETE bases and exponents, symbolic sign (the code strips the
/// factors of two, runs a square-and-multiply loop and shifts back: symbolic bases are out of CBMC's reach)
fn vk_si_pow(neg: bool, be: (Word, usize)) {
    let (b, exp) = be;
    let mut w = [0 as Word; 4];
    w[0] = b;
    let mut want: u128 = 1;
    let mut i = 0;
    while i < exp {
        want *= b as u128;
        i += 1;
    }
    assert!(vk_si_isu(vk_si_u(1, &w).pow(exp), want));
    assert!(vk_si_is(vk_si_i(1, neg && b != 0, &w).pow(exp).0, neg && exp % 2 == 1, want));
}
macro_rules! vk_si_pow_list {
    ($name:ident, [$($p:expr),*]) => {
        #[cfg_attr(kani, kani::proof)]
        #[cfg_attr(kani, kani::unwind(130))]
        #[cfg_attr(not(kani), test)]
        fn $name() {
            if any::<bool>() {
                $(vk_si_pow(true, $p);)*
            } else {
                $(vk_si_pow(false, $p);)*
            }
            cover();
        }
    };
}
vk_si_pow_list!(vk_stub_int_pow_a, [(0, 0), (0, 3), (1, 5), (7, 0), (7, 1)]);
vk_si_pow_list!(vk_stub_int_pow_b, [(3, 5), (10, 19), (12, 7), (6, 20)]);
vk_si_pow_list!(vk_stub_int_pow_c, [(0xffff_ffff, 3), (2, 127), (48, 11)]);

/// gcd by divisibility (bigstub.rs gcd_post): g > 0, g | a, g | b, every common divisor d divides g.
/// CONCRETE magnitudes (binary gcd loop on u128), all sign combinations and forms, symbolic candidate divisor d
fn vk_si_gcd_check(g: UBig, x: u64, y: u64) {
    let (gn, gm) = vk_si_take(g.0);
    assert!(!gn && gm >= 1 && gm <= u64::MAX as u128);
    let gv = gm as u64;
    assert!(x % gv == 0 && y % gv == 0);
    let d: u16 = any();
    assume(d >= 1);
    if x % (d as u64) == 0 && y % (d as u64) == 0 {
        assert!(gv % (d as u64) == 0);
    }
}
fn vk_si_gcd(sa: bool, sb: bool, xy: (u64, u64)) {
    let (x, y) = xy;
    let (mut wa, mut wb) = ([0 as Word; 4], [0 as Word; 4]);
    wa[0] = x;
    wb[0] = y;
    vk_si_gcd_check((&vk_si_i(1, sa && x != 0, &wa)).gcd(&vk_si_i(1, sb && y != 0, &wb)), x, y);
    if !sa {
        vk_si_gcd_check((&vk_si_u(1, &wa)).gcd(&vk_si_i(1, sb && y != 0, &wb)), x, y);
    }
    if !sb {
        vk_si_gcd_check((&vk_si_i(1, sa && x != 0, &wa)).gcd(&vk_si_u(1, &wb)), x, y);
    }
    if !sa && !sb {
        vk_si_gcd_check((&vk_si_u(1, &wa)).gcd(&vk_si_u(1, &wb)), x, y);
        vk_si_gcd_check(vk_si_u(1, &wa).gcd(&vk_si_u(1, &wb)), x, y);
    }
}
macro_rules! vk_si_gcd_list {
    ($name:ident, [$($p:expr),*]) => {
        #[cfg_attr(kani, kani::proof)]
        #[cfg_attr(kani, kani::unwind(140))]
        #[cfg_attr(not(kani), test)]
        fn $name() {
            match (any::<bool>(), any::<bool>()) {
                (false, false) => { $(vk_si_gcd(false, false, $p);)* }
                (false, true) => { $(vk_si_gcd(false, true, $p);)* }
                (true, false) => { $(vk_si_gcd(true, false, $p);)* }
                (true, true) => { $(vk_si_gcd(true, true, $p);)* }
            }
            cover();
        }
    };
}
vk_si_gcd_list!(vk_stub_int_gcd_a, [(12, 18), (0, 7), (7, 0)]);
vk_si_gcd_list!(vk_stub_int_gcd_b, [(1, 1), (48, 180), (17, 31)]);
vk_si_gcd_list!(vk_stub_int_gcd_c, [(1 << 40, 3 << 20), (600851475143, 71 * 839)]);

/// BitTest::bit_len, trailing_zeros of UBig (one / two words)
fn vk_si_bits(c: usize) {
    let w = vk_si_words(c);
    let m = vk_si_mag(&w);
    let u = vk_si_u(c, &w);
    assert!(u.bit_len() == (128 - m.leading_zeros()) as usize);
    assert!(u.trailing_zeros() == if m == 0 { None } else { Some(m.trailing_zeros() as usize) });
}
vk_si_plain!(vk_stub_int_ubig_bits_1, 8, vk_si_bits, 1);
vk_si_plain!(vk_stub_int_ubig_bits_2, 8, vk_si_bits, 2);
/// heap magnitudes (3 words): bit_len from the top word, trailing_zeros = index of the lowest set bit
fn vk_si_bits_heap() {
    let w = vk_si_words(3);
    let u = vk_si_u(3, &w);
    assert!(u.bit_len() == 192 - w[2].leading_zeros() as usize);
    let want = if w[0] != 0 {
        w[0].trailing_zeros() as usize
    } else if w[1] != 0 {
        64 + w[1].trailing_zeros() as usize
    } else {
        128 + w[2].trailing_zeros() as usize
    };
    assert!(u.trailing_zeros() == Some(want));
}
vk_si_plain!(vk_stub_int_ubig_bits_3, 8, vk_si_bits_heap);
