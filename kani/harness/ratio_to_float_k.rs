// Kani harnesses for rational/src/convert.rs: rational -> f32/f64 (`Repr::to_f32`, `Repr::to_f64`, behind
// `RBig::to_f32/to_f64` and `Relaxed::to_f32/to_f64`).  BOUNDED: numerator and denominator are small symbolic integers
// (optionally moved to a concrete binary exponent); the big-integer division inside the code is never given
// full-width symbolic operands.
//
// Oracle (C06): the result is the IEEE round-to-nearest, ties-to-even float of the rational x = num / den, `Exact` iff x
// is representable, otherwise `Inexact(sign of result - x)`.  The float that came back is decoded from its *bit
// pattern* (sign / biased exponent / fraction) into m * 2^q and compared with x, and with the midpoints to its two
// neighbours, by exact integer cross-multiplication (x = n / d * 2^e  =>  compare n * 2^e with (m * d) * 2^q in u128).
// No float arithmetic, no call of the code under test.
//
// HISTORY (both repaired in /repo; the harnesses now check the full property without assumed-away regions):
//  (R1) double rounding: the code first rounded x / 2^s (s = bitlen(num) - bitlen(den) - 24 resp. 53) to an integer Q'
//       and then let `encode` round Q' * 2^s again: (7 * 2^24 + 10) / 7 = 16777217.43 -> 16777216.0 instead of
//       16777218.0; the former region predicate `vk_rf_tie_region` is kept below for reference (unused).
//  (R2) f64 only: the underflow cut-off `shift < -1074 - 53` forgot that the quotient can have 54 bits (3 / 2^1076 -> 0.0).
// Out of reach of these harnesses (operands beyond 128 bits, see the stubs below): subnormal results, f64 overflow;
// these ranges are covered by the Verus unit ratio_to_float (unbounded).
use super::*;
include!("/verif/kani/harness/shim.rs");

// ------------------------------------------------------------------------------------------------------------
// oracle

fn vk_rf_bitlen(a: u128) -> i32 {
    128 - a.leading_zeros() as i32
}

/// sign(a * 2^ea - b * 2^eb), decided exactly (any a, b < 2^128, small exponents).
fn vk_rf_cmp(a: u128, ea: i32, b: u128, eb: i32) -> i8 {
    if a == 0 || b == 0 {
        return if a == b {
            0
        } else if a == 0 {
            -1
        } else {
            1
        };
    }
    // a * 2^ea lies in [2^(la-1), 2^la)
    let la = vk_rf_bitlen(a) + ea;
    let lb = vk_rf_bitlen(b) + eb;
    if la > lb {
        return 1;
    }
    if la < lb {
        return -1;
    }
    // same top bit position: aligning the shorter operand to the longer one cannot overflow
    let d = ea - eb; // == bitlen(b) - bitlen(a), |d| < 128
    let (x, y) = if d >= 0 { (a << (d as u32), b) } else { (a, b << ((-d) as u32)) };
    if x < y {
        -1
    } else if x > y {
        1
    } else {
        0
    }
}

/// "`bits` (an IEEE binary format with `p` fraction bits and `w` exponent bits) is the round-to-nearest-even value of
/// x = (-1)^neg * (n / d) * 2^e, and (`exact`, `err_pos`) report truthfully whether it is exact / the sign of
/// result - x."   Requires n < 2^64, 0 < d < 2^16 (so that every product below stays under 2^128).
fn vk_rf_rne_ok(neg: bool, n: u128, d: u128, e: i32, p: u32, w: u32, bits: u64, exact: bool, err_pos: bool) -> bool {
    let emaxb: u64 = (1u64 << w) - 1;
    let bias: i32 = (1i32 << (w - 1)) - 1;
    let sbit = (bits >> (p + w)) == 1;
    let eb = (bits >> p) & emaxb;
    let frac = bits & ((1u64 << p) - 1);
    if n == 0 {
        return bits == 0 && exact; // zero is +0.0, exact
    }
    if sbit != neg {
        return false;
    }
    // overflow threshold: the midpoint (2^(p+2) - 1) * 2^(q_top - 1) between the largest finite value and 2^(emax+1);
    // the tie goes to infinity (the largest finite significand is odd)
    let q_top: i32 = (emaxb as i32 - 1) - bias - p as i32;
    let thr: u128 = (1u128 << (p + 2)) - 1;
    if eb == emaxb {
        return frac == 0 && vk_rf_cmp(n, e, thr * d, q_top - 1) >= 0 && !exact && (err_pos != neg);
    }
    // finite candidate y = m * 2^q
    let m: u128 = (if eb == 0 { frac } else { frac | (1u64 << p) }) as u128;
    let q: i32 = (if eb == 0 { 1 } else { eb as i32 }) - bias - p as i32;
    let c = vk_rf_cmp(n, e, m * d, q); // sign(|x| - y)
    if c == 0 {
        return exact;
    }
    if exact {
        return false;
    }
    // sign(result - x) is sign(y - |x|) for positive x and the opposite for negative x
    if err_pos != ((c < 0) != neg) {
        return false;
    }
    if c > 0 {
        // |x| above y: not beyond the midpoint (2m + 1) * 2^(q-1) to the next float up; on the tie m must be even
        let t = vk_rf_cmp(n, e, (2 * m + 1) * d, q - 1);
        t < 0 || (t == 0 && m % 2 == 0)
    } else {
        // |x| below y (so m > 0): the next float down is (m - 1) * 2^q, except at the bottom of a normal binade above
        // the first one, where it is (2m - 1) * 2^(q-1)
        let (mid, mq) = if eb > 1 && frac == 0 { (4 * m - 1, q - 2) } else { (2 * m - 1, q - 1) };
        let t = vk_rf_cmp(n, e, mid * d, mq);
        t > 0 || (t == 0 && m % 2 == 0)
    }
}

/// s = bitlen(num) - bitlen(den) - (p + 1) for num = n * 2^e1, den = d * 2^e2, e = e1 - e2: the scale at which
/// floor(x / 2^s) has p+1 or p+2 bits.
fn vk_rf_scale(n: u128, d: u128, e: i32, p: u32) -> i32 {
    vk_rf_bitlen(n) + e - vk_rf_bitlen(d) - (p as i32 + 1)
}

/// Known finding (R1) as a predicate over the inputs: "x lies within half a unit of the intermediate quotient of a
/// rounding boundary of the format, but not on it", precisely
///     exists mu: mu is the midpoint of two neighbouring values of the format (including the pairs (0, smallest
///     subnormal) and (largest finite, 2^(emax+1))), mu is a multiple of 2^s, and 0 < |x - mu| < 2^(s-1), or
///     |x - mu| == 2^(s-1) with mu / 2^s even                                   [s = `vk_rf_scale`]
/// (<=> x / 2^s is not an integer and its nearest integer, ties to even, times 2^s is such a midpoint).
/// Evaluated for the (at most two) midpoints next to the float that came back: if x is in the region, those are the only
/// candidates unless the float is not even one of the two neighbours of x - and then the main harness fails anyway.
/// Requires 0 < n < 2^64, 0 < d < 2^16.
#[allow(dead_code)]
fn vk_rf_tie_region(n: u128, d: u128, e: i32, p: u32, w: u32, bits: u64) -> bool {
    let emaxb: u64 = (1u64 << w) - 1;
    let bias: i32 = (1i32 << (w - 1)) - 1;
    let eb = (bits >> p) & emaxb;
    let frac = bits & ((1u64 << p) - 1);
    let s = vk_rf_scale(n, d, e, p);
    let m: u128 = (if eb == 0 { frac } else { frac | (1u64 << p) }) as u128;
    let q: i32 = (if eb == 0 { 1 } else { eb as i32 }) - bias - p as i32;
    if eb == emaxb {
        // infinity: the only boundary next to it is the overflow threshold (2^(p+2) - 1) * 2^(q_top - 1)
        let q_top: i32 = (emaxb as i32 - 1) - bias - p as i32;
        return frac == 0 && vk_rf_near(n, d, e, s, (1u128 << (p + 2)) - 1, q_top - 1);
    }
    let up = vk_rf_near(n, d, e, s, 2 * m + 1, q - 1);
    let down = if m == 0 {
        false
    } else if eb > 1 && frac == 0 {
        vk_rf_near(n, d, e, s, 4 * m - 1, q - 2)
    } else {
        vk_rf_near(n, d, e, s, 2 * m - 1, q - 1)
    };
    up || down
}

/// mu = mid * 2^mq (mid odd) is a multiple of 2^s and 0 < |n / d * 2^e - mu| <(=) 2^(s-1) as specified above.
fn vk_rf_near(n: u128, d: u128, e: i32, s: i32, mid: u128, mq: i32) -> bool {
    let k = mq - s;
    if k < 0 || k > 54 {
        return false; // not a multiple of 2^s / further away than any x of this scale
    }
    // everything times d, in units of 2^(s-1):  mu * d = a,  2^(s-1) * d = d
    let a = (mid * d) << ((k + 1) as u32);
    let c = vk_rf_cmp(n, e, a, s - 1);
    let lo = vk_rf_cmp(n, e, a - d, s - 1);
    let hi = vk_rf_cmp(n, e, a + d, s - 1);
    c != 0 && ((lo > 0 && hi < 0) || ((lo == 0 || hi == 0) && k >= 1))
}

fn vk_rf_flat32(r: Approximation<f32, Sign>) -> (u64, bool, bool) {
    match r {
        Exact(f) => (f.to_bits() as u64, true, false),
        Inexact(f, s) => (f.to_bits() as u64, false, s == Sign::Positive),
    }
}

fn vk_rf_flat64(r: Approximation<f64, Sign>) -> (u64, bool, bool) {
    match r {
        Exact(f) => (f.to_bits(), true, false),
        Inexact(f, s) => (f.to_bits(), false, s == Sign::Positive),
    }
}

/// The rational (-1)^neg * (n * 2^e1) / (d * 2^e2) as an (unreduced) `Repr`.
fn vk_rf_repr(neg: bool, n: u64, e1: usize, d: u16, e2: usize) -> Repr {
    // (the concrete shifts are only applied when non-zero: no symbolic execution of the shift code otherwise)
    let num = if e1 == 0 { IBig::from(n) } else { &IBig::from(n) << e1 };
    let den = if e2 == 0 { UBig::from(d) } else { &UBig::from(d) << e2 };
    Repr {
        numerator: if neg { -num } else { num },
        denominator: den,
    }
}

// ------------------------------------------------------------------------------------------------------------
// Stubs (Kani only) for the four dashu-int operations `to_f32`/`to_f64` apply to their operands.  dashu-int is not the
// code under test here (its shifts and divisions belong to the C09/C02 units).  Each stub is the *inline-operand arm of
// the real operation* (`shift_ops::repr::shl_dword` first arm; `div_ops::repr::div_rem_dword`), with every heap-operand
// arm replaced by a panic, i.e. by the proof obligation that the arm is unreachable for the inputs of the harness (all
// operands and results < 2^128).  Why: the inline/heap tag and the shift amount of a shifted operand are not constants
// for CBMC (they come from `leading_zeros` of symbolic data), so without the stubs it symbolically executes the
// multi-word division (divide-and-conquer, Karatsuba, Toom-3: > 40 min in symex, never finished) and the spilling shifts
// (allocations of symbolic size: > 13 GB, out of memory) although they are unreachable.
// Trusted: that these bodies are the inline arms of the real operations (read off integer/src/shift_ops.rs, div_ops.rs).
#[cfg(kani)]
fn vk_rf_stub_div_rem<'r>(lhs: UBig, rhs: &'r UBig) -> (UBig, UBig)
where
    'r: 'r, // early-bound like the lifetime parameter of the impl (Kani compares the number of generics)
{
    let a: u128 = lhs.try_into().unwrap(); // a heap operand fails the harness
    let b: u128 = rhs.try_into().unwrap();
    match a.checked_div(b) {
        Some(res) => (UBig::from(res), UBig::from(a % b)),
        None => panic!(),
    }
}
/// The same at word width (a 64-bit instead of a 128-bit divider circuit): an operand >= 2^64 fails the harness.
#[cfg(kani)]
fn vk_rf_stub_div_rem_word<'r>(lhs: UBig, rhs: &'r UBig) -> (UBig, UBig)
where
    'r: 'r,
{
    let a: u64 = lhs.try_into().unwrap();
    let b: u64 = rhs.try_into().unwrap();
    match a.checked_div(b) {
        Some(res) => (UBig::from(res), UBig::from(a % b)),
        None => panic!(),
    }
}
#[cfg(kani)]
fn vk_rf_shl_inline(a: u128, rhs: usize) -> u128 {
    if a == 0 {
        return 0;
    }
    assert!(rhs <= a.leading_zeros() as usize); // a spilling shift fails the harness
    a << rhs
}
#[cfg(kani)]
fn vk_rf_stub_shl_ubig(x: UBig, rhs: usize) -> UBig {
    let a: u128 = x.try_into().unwrap();
    UBig::from(vk_rf_shl_inline(a, rhs))
}
#[cfg(kani)]
fn vk_rf_stub_shl_ubig_ref<'a>(x: &'a UBig, rhs: usize) -> UBig
where
    'a: 'a,
{
    let a: u128 = x.try_into().unwrap();
    UBig::from(vk_rf_shl_inline(a, rhs))
}
#[cfg(kani)]
fn vk_rf_stub_shl_ibig_ref<'a>(x: &'a IBig, rhs: usize) -> IBig
where
    'a: 'a,
{
    let a: u128 = x.unsigned_abs().try_into().unwrap();
    IBig::from_parts(x.sign(), UBig::from(vk_rf_shl_inline(a, rhs)))
}

/// `$div` = vk_rf_stub_div_rem (dword) or vk_rf_stub_div_rem_word.  unwind(1): no loop may be entered at all.
macro_rules! vk_rf_harness {
    ($name:ident, $div:ident, $body:block) => {
        #[cfg_attr(kani, kani::proof)]
        #[cfg_attr(kani, kani::unwind(1))]
        #[cfg_attr(kani, kani::stub(<UBig as DivRem<&UBig>>::div_rem, $div))]
        #[cfg_attr(kani, kani::stub(<UBig as core::ops::Shl<usize>>::shl, vk_rf_stub_shl_ubig))]
        #[cfg_attr(kani, kani::stub(<&UBig as core::ops::Shl<usize>>::shl, vk_rf_stub_shl_ubig_ref))]
        #[cfg_attr(kani, kani::stub(<&IBig as core::ops::Shl<usize>>::shl, vk_rf_stub_shl_ibig_ref))]
        #[cfg_attr(not(kani), test)]
        fn $name() {
            $body;
            cover();
        }
    };
}

// ------------------------------------------------------------------------------------------------------------
// checks

/// (History: until the double rounding of `Repr::to_f32/to_f64` was repaired -- the quotient was rounded to an integer and
/// `encode` rounded again -- the main harnesses assumed the region `vk_rf_tie_region` away and two 'finding' harnesses
/// checked the property inside it.  The code now lets `encode` do the only rounding: one mode, no assumption.)
#[derive(Clone, Copy, PartialEq)]
enum VkRfMode {
    /// the full property on every input of the harness
    Main,
}

fn vk_rf_check32(mode: VkRfMode, neg: bool, n: u64, e1: usize, d: u16, e2: usize) {
    let (nn, dd, e) = (n as u128, d as u128, e1 as i32 - e2 as i32);
    let (bits, exact, pos) = vk_rf_flat32(vk_rf_repr(neg, n, e1, d, e2).to_f32());
    let _ = mode;
    assert!(vk_rf_rne_ok(neg, nn, dd, e, 23, 8, bits, exact, pos));
}

fn vk_rf_check64(mode: VkRfMode, neg: bool, n: u64, e1: usize, d: u16, e2: usize) {
    let (nn, dd, e) = (n as u128, d as u128, e1 as i32 - e2 as i32);
    let (bits, exact, pos) = vk_rf_flat64(vk_rf_repr(neg, n, e1, d, e2).to_f64());
    let _ = mode;
    assert!(vk_rf_rne_ok(neg, nn, dd, e, 52, 11, bits, exact, pos));
}

// ------------------------------------------------------------------------------------------------------------
// inputs.  CBMC copes with about 14 symbolic bits here (a 32-bit symbolic numerator over the constant 7: > 15 min), so
// the numerators are bit palettes: the bits that decide the rounding are symbolic, the rest is fixed.

/// den = any of 1..=15
fn vk_rf_den15() -> u16 {
    let d: u8 = any();
    assume(d >= 1 && d <= 15);
    d as u16
}

/// "Critical" numerators for a quotient of `prec` or `prec + 1` bits: n = 2^t + hi * 2^(t-3) + lo with
/// t = bitlen(d) + prec - 1 + (0 | 1), hi < 8 (the three bits below the top one), lo < 32: the quotient floor(x / 2^s)
/// takes both lengths, both parities, and every remainder 0 <= r < d << max(s, 0) occurs; s in -1..=1.
fn vk_rf_num_critical(d: u16, prec: u32) -> u64 {
    let sel: u8 = any();
    let lo: u8 = any();
    assume(sel < 16 && lo < 32);
    let t = (16 - d.leading_zeros()) + prec - 1 + (sel & 1) as u32;
    (1u64 << t) | (((sel >> 1) as u64) << (t - 3)) | lo as u64
}

// f32 ----------------------------------------------------------------------------------------------------------

vk_rf_harness!(vk_ratio_to_float_k_f32_critical, vk_rf_stub_div_rem_word, {
    let d = vk_rf_den15();
    let n = vk_rf_num_critical(d, 24);
    vk_rf_check32(VkRfMode::Main, false, n, 0, d, 0);
});

// small numerators (the numerator is shifted up by 16..=27 bits), either sign, zero included
vk_rf_harness!(vk_ratio_to_float_k_f32_small_num, vk_rf_stub_div_rem_word, {
    let d = vk_rf_den15();
    let n: u8 = any();
    let neg: bool = any();
    vk_rf_check32(VkRfMode::Main, neg, n as u64, 0, d, 0);
});

// big numerators (the denominator is shifted up by 35..=38 bits; the low numerator bits only matter as "sticky")
vk_rf_harness!(vk_ratio_to_float_k_f32_big_num, vk_rf_stub_div_rem_word, {
    let d = vk_rf_den15();
    let sel: u8 = any();
    let lo: u8 = any();
    assume(sel < 8 && lo < 8);
    // 2^62 + three bits below the top + three bits around the rounding position (bit 62 - 24 = 38) + three lowest bits
    let mid: u8 = any();
    assume(mid < 8);
    let n: u64 = (1u64 << 62) | ((sel as u64) << 59) | ((mid as u64) << 37) | lo as u64;
    vk_rf_check32(VkRfMode::Main, false, n, 0, d, 0);
});

// around the overflow threshold (2^25 - 1) * 2^103 (den = 1 is forced by num < 2^128): num = (2^25 - 1 - a) * 2^103
// + six bits below, a < 4; both +-inf and the largest finite value come back
vk_rf_harness!(vk_ratio_to_float_k_f32_overflow, vk_rf_stub_div_rem, {
    let a: u8 = any();
    let lo: u8 = any();
    let neg: bool = any();
    assume(a < 4 && lo < 64);
    let n: u64 = ((((1u64 << 25) - 1) - a as u64) << 6) | lo as u64;
    vk_rf_check32(VkRfMode::Main, neg, n, 97, 1, 0);
});

// f64 ----------------------------------------------------------------------------------------------------------

vk_rf_harness!(vk_ratio_to_float_k_f64_critical, vk_rf_stub_div_rem_word, {
    let d = vk_rf_den15();
    let n = vk_rf_num_critical(d, 53);
    vk_rf_check64(VkRfMode::Main, false, n, 0, d, 0);
});

vk_rf_harness!(vk_ratio_to_float_k_f64_small_num, vk_rf_stub_div_rem_word, {
    let d = vk_rf_den15();
    let n: u8 = any();
    let neg: bool = any();
    vk_rf_check64(VkRfMode::Main, neg, n as u64, 0, d, 0);
});

// num = 2^63 + ..., the denominator is shifted up by 7..=10 bits
vk_rf_harness!(vk_ratio_to_float_k_f64_big_num, vk_rf_stub_div_rem_word, {
    let d = vk_rf_den15();
    let sel: u8 = any();
    let lo: u16 = any();
    assume(sel < 8 && lo < 4096);
    let n: u64 = (1u64 << 63) | ((sel as u64) << 60) | lo as u64;
    vk_rf_check64(VkRfMode::Main, false, n, 0, d, 0);
});

// ============================================================================================================
// TryFrom<Repr> for UBig / IBig (rational -> integer) and TryFrom<RBig> for f32 / f64 (lossless only).
// C06: the conversion succeeds only with exactly the source value, otherwise it returns an error (it never panics);
// converting an integer / a float into a rational and back yields the original, so it must succeed whenever the target
// can hold the value.  No stubs here (no division, only concrete shifts).
//
// (History: `TryFrom<Repr> for UBig` tested `numerator.is_one()` where it meant `denominator.is_one()`: 5 ->
// Err(LossOfPrecision), 0 -> Err(LossOfPrecision), 1/2 -> Ok(1); fixed in /repo, `vk_ratio_to_float_k_to_ubig` fails on it.)
//
// KNOWN FINDING on the unchanged tree ('finding' harnesses, expected to FAIL):
//  (R4) `TryFrom<RBig> for f32/f64` does `numerator.try_into().unwrap()` into i32 / i64 after a bound check on the *top
//       bit* only: every numerator that does not fit the mantissa type panics (2^31 -> panic although it is an f32;
//       2^31 + 1 -> panic instead of Err(LossOfPrecision)).

/// den > 1 implies that n / den is not an integer (|n| < 2^15: a 16-bit remainder circuit)
fn vk_rf_int_inputs() -> (i16, u8) {
    let n: i16 = any();
    let d: u8 = any();
    assume(n != i16::MIN && d >= 1 && d <= 15);
    assume(d == 1 || n % (d as i16) != 0);
    (n, d)
}

#[cfg_attr(kani, kani::proof)]
#[cfg_attr(kani, kani::unwind(3))]
#[cfg_attr(not(kani), test)]
fn vk_ratio_to_float_k_to_ubig() {
    let (n, d) = vk_rf_int_inputs();
    let r = Repr { numerator: IBig::from(n), denominator: UBig::from(d) };
    // (results are compared as primitives: `==` on UBig/IBig runs a byte loop)
    match UBig::try_from(r) {
        Ok(v) => assert!(d == 1 && n >= 0 && u16::try_from(v) == Ok(n as u16)),
        Err(ConversionError::OutOfBounds) => assert!(n < 0),
        Err(ConversionError::LossOfPrecision) => assert!(d != 1),
    }
    cover();
}

#[cfg_attr(kani, kani::proof)]
#[cfg_attr(kani, kani::unwind(3))]
#[cfg_attr(not(kani), test)]
fn vk_ratio_to_float_k_to_ibig() {
    let (n, d) = vk_rf_int_inputs();
    let r = Repr { numerator: IBig::from(n), denominator: UBig::from(d) };
    match IBig::try_from(r) {
        Ok(v) => assert!(d == 1 && i16::try_from(v) == Ok(n)),
        Err(e) => assert!(d != 1 && e == ConversionError::LossOfPrecision),
    }
    cover();
}

/// "(-1)^neg * a / 2^k (a odd or k == 0, a != 0) is a value of the IEEE format with `p` fraction / `w` exponent bits":
/// a = a' * 2^tz with a' odd; the value is a' * 2^(tz - k); it needs bitlen(a') <= p + 1 significant bits, a lowest bit
/// at position >= emin - p and a top bit at position <= emax.
fn vk_rf_representable(a: u128, k: i32, p: u32, w: u32) -> bool {
    let bias: i32 = (1i32 << (w - 1)) - 1;
    let tz = a.trailing_zeros() as i32;
    let len = vk_rf_bitlen(a) - tz;
    let e = tz - k;
    len <= p as i32 + 1 && e >= 1 - bias - p as i32 && len + e <= bias + 1
}

/// `r` is what a lossless conversion of x = (-1)^neg * a / 2^k into the format must return.
fn vk_rf_lossless_ok(neg: bool, a: u128, k: i32, p: u32, w: u32, r: Result<u64, ConversionError>) -> bool {
    if a == 0 {
        return r == Ok(0);
    }
    match r {
        Ok(bits) => {
            // an exactly rounded result with the `Exact` flag is the value itself
            vk_rf_representable(a, k, p, w) && vk_rf_rne_ok(neg, a, 1, -k, p, w, bits, true, false)
        }
        Err(_) => !vk_rf_representable(a, k, p, w),
    }
}

fn vk_rf_check_try_f32(n: i64, k: usize) {
    assume(n != i64::MIN && (k == 0 || n % 2 != 0)); // canonical: reduced
    let r = RBig(Repr { numerator: IBig::from(n), denominator: UBig::ONE << k });
    let res = f32::try_from(r).map(|f| f.to_bits() as u64);
    assert!(vk_rf_lossless_ok(n < 0, n.unsigned_abs() as u128, k as i32, 23, 8, res));
}

fn vk_rf_check_try_f64(n: i128, k: usize) {
    assume(n != i128::MIN && n.unsigned_abs() < (1u128 << 64) && (k == 0 || n % 2 != 0));
    let r = RBig(Repr { numerator: IBig::from(n), denominator: UBig::ONE << k });
    let res = f64::try_from(r).map(|f| f.to_bits());
    assert!(vk_rf_lossless_ok(n < 0, n.unsigned_abs(), k as i32, 52, 11, res));
}

// numerators that fit the mantissa type (i32 / i64), denominators 2^k for a palette of k reaching down to the subnormals
#[cfg_attr(kani, kani::proof)]
#[cfg_attr(kani, kani::unwind(20))]
#[cfg_attr(not(kani), test)]
fn vk_ratio_to_float_k_try_f32() {
    let n: i32 = any();
    vk_rf_check_try_f32(n as i64, 0);
    vk_rf_check_try_f32(n as i64, 1);
    vk_rf_check_try_f32(n as i64, 126);
    vk_rf_check_try_f32(n as i64, 149);
    vk_rf_check_try_f32(n as i64, 150);
    vk_rf_check_try_f32(n as i64, 181);
    cover();
}

#[cfg_attr(kani, kani::proof)]
#[cfg_attr(kani, kani::unwind(20))]
#[cfg_attr(not(kani), test)]
fn vk_ratio_to_float_k_try_f64() {
    let n: i64 = any();
    vk_rf_check_try_f64(n as i128, 0);
    vk_rf_check_try_f64(n as i128, 1);
    vk_rf_check_try_f64(n as i128, 64);
    cover();
}

/// numerators beyond i32, denominator 1 (on the original tree `numerator.try_into().unwrap()` panicked here: fixed by
/// moving the trailing zeros of the numerator into the exponent)
#[cfg_attr(kani, kani::proof)]
#[cfg_attr(kani, kani::unwind(20))]
#[cfg_attr(not(kani), test)]
fn vk_ratio_to_float_k_try_f32_wide_num() {
    let n: i64 = any();
    assume(n < i32::MIN as i64 || n > i32::MAX as i64);
    vk_rf_check_try_f32(n, 0);
    cover();
}

/// numerators beyond i64 (|n| < 2^64), denominator 1 (same history)
#[cfg_attr(kani, kani::proof)]
#[cfg_attr(kani, kani::unwind(20))]
#[cfg_attr(not(kani), test)]
fn vk_ratio_to_float_k_try_f64_wide_num() {
    let n: i128 = any();
    assume(n < i64::MIN as i128 || n > i64::MAX as i128);
    vk_rf_check_try_f64(n, 0);
    cover();
}
