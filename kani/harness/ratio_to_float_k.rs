// Kani harnesses for rational/src/convert.rs: rational -> f32/f64 (`Repr::to_f32`, `Repr::to_f64`, behind
// `RBig::to_f32/to_f64` and `Relaxed::to_f32/to_f64`).  BOUNDED: numerator and denominator are small symbolic integers
// (optionally moved to a concrete binary exponent); the big-integer division inside the code is never given
// full-width symbolic operands.
//
// Oracle (C06): the result is the IEEE round-to-nearest, ties-to-even float of the rational x = num / den, `Exact` iff x
// is representable, otherwise `Inexact(sign of result - x)`.  The float that came back is decoded from its *bit
// pattern* (sign / biased exponent / fraction) into m * 2^q and compared with x, and with the midpoints to its two
// neighbours, by exact integer cross-multiplication (x = n / d * 2^e  =>  compare n * 2^e with (m * d) * 2^q in u128).
// No float arithmetic, no call of the code under test.
//
// KNOWN FINDINGS on the unchanged tree (see the `_finding_` harnesses at the end, kind 'finding' = expected to FAIL):
//  (R1) double rounding: the code first rounds x / 2^s (s = bitlen(num) - bitlen(den) - 24 resp. 53) to an integer Q'
//       (nearest, ties to even) and then lets `encode` round Q' * 2^s to the float format.  Whenever Q' is *not* x / 2^s
//       and Q' * 2^s sits exactly half-way between two neighbouring floats, `encode` breaks the tie without knowing on
//       which side x was: (7 * 2^24 + 10) / 7 = 16777217.43 -> 16777216.0 instead of 16777218.0.
//       Region `vk_rf_tie_region` (a predicate over the harness inputs only).
//  (R2) f64 only: the underflow cut-off `shift < -1074 - 53` forgets that the quotient can have 54 bits: every x with
//       s == -1128 is flushed to 0.0 although 2^-1075 < x < 2^-1074 must round to 2^-1074 (3 / 2^1076 -> 0.0).
//       Region `vk_rf_cutoff_region`.
// The main harnesses `assume` exactly these regions away, so that every other violation still fails.
use super::*;
include!("/verif/kani/harness/shim.rs");

// ------------------------------------------------------------------------------------------------------------
// oracle

fn vk_rf_bitlen(a: u128) -> i32 {
    128 - a.leading_zeros() as i32
}

/// sign(a * 2^ea - b * 2^eb), decided exactly (any a, b < 2^128, small exponents).
fn vk_rf_cmp(a: u128, ea: i32, b: u128, eb: i32) -> i8 {
    if a == 0 || b == 0 {
        return if a == b {
            0
        } else if a == 0 {
            -1
        } else {
            1
        };
    }
    // a * 2^ea lies in [2^(la-1), 2^la)
    let la = vk_rf_bitlen(a) + ea;
    let lb = vk_rf_bitlen(b) + eb;
    if la > lb {
        return 1;
    }
    if la < lb {
        return -1;
    }
    // same top bit position: aligning the shorter operand to the longer one cannot overflow
    let d = ea - eb; // == bitlen(b) - bitlen(a), |d| < 128
    let (x, y) = if d >= 0 { (a << (d as u32), b) } else { (a, b << ((-d) as u32)) };
    if x < y {
        -1
    } else if x > y {
        1
    } else {
        0
    }
}

/// "`bits` (an IEEE binary format with `p` fraction bits and `w` exponent bits) is the round-to-nearest-even value of
/// x = (-1)^neg * (n / d) * 2^e, and (`exact`, `err_pos`) report truthfully whether it is exact / the sign of
/// result - x."   Requires n < 2^64, 0 < d < 2^16 (so that every product below stays under 2^128).
fn vk_rf_rne_ok(neg: bool, n: u128, d: u128, e: i32, p: u32, w: u32, bits: u64, exact: bool, err_pos: bool) -> bool {
    let emaxb: u64 = (1u64 << w) - 1;
    let bias: i32 = (1i32 << (w - 1)) - 1;
    let sbit = (bits >> (p + w)) == 1;
    let eb = (bits >> p) & emaxb;
    let frac = bits & ((1u64 << p) - 1);
    if n == 0 {
        return bits == 0 && exact; // zero is +0.0, exact
    }
    if sbit != neg {
        return false;
    }
    // overflow threshold: the midpoint (2^(p+2) - 1) * 2^(q_top - 1) between the largest finite value and 2^(emax+1);
    // the tie goes to infinity (the largest finite significand is odd)
    let q_top: i32 = (emaxb as i32 - 1) - bias - p as i32;
    let thr: u128 = (1u128 << (p + 2)) - 1;
    if eb == emaxb {
        return frac == 0 && vk_rf_cmp(n, e, thr * d, q_top - 1) >= 0 && !exact && (err_pos != neg);
    }
    // finite candidate y = m * 2^q
    let m: u128 = (if eb == 0 { frac } else { frac | (1u64 << p) }) as u128;
    let q: i32 = (if eb == 0 { 1 } else { eb as i32 }) - bias - p as i32;
    let c = vk_rf_cmp(n, e, m * d, q); // sign(|x| - y)
    if c == 0 {
        return exact;
    }
    if exact {
        return false;
    }
    // sign(result - x) is sign(y - |x|) for positive x and the opposite for negative x
    if err_pos != ((c < 0) != neg) {
        return false;
    }
    if c > 0 {
        // |x| above y: not beyond the midpoint (2m + 1) * 2^(q-1) to the next float up; on the tie m must be even
        let t = vk_rf_cmp(n, e, (2 * m + 1) * d, q - 1);
        t < 0 || (t == 0 && m % 2 == 0)
    } else {
        // |x| below y (so m > 0): the next float down is (m - 1) * 2^q, except at the bottom of a normal binade above
        // the first one, where it is (2m - 1) * 2^(q-1)
        let (mid, mq) = if eb > 1 && frac == 0 { (4 * m - 1, q - 2) } else { (2 * m - 1, q - 1) };
        let t = vk_rf_cmp(n, e, mid * d, mq);
        t > 0 || (t == 0 && m % 2 == 0)
    }
}

/// s = bitlen(num) - bitlen(den) - (p + 1) for num = n * 2^e1, den = d * 2^e2, e = e1 - e2: the scale at which
/// floor(x / 2^s) has p+1 or p+2 bits.
fn vk_rf_scale(n: u128, d: u128, e: i32, p: u32) -> i32 {
    vk_rf_bitlen(n) + e - vk_rf_bitlen(d) - (p as i32 + 1)
}

/// Known finding (R1) as a predicate over the inputs: "x lies within half a unit of the intermediate quotient of a
/// rounding boundary of the format, but not on it", precisely
///     exists mu: mu is the midpoint of two neighbouring values of the format (including the pairs (0, smallest
///     subnormal) and (largest finite, 2^(emax+1))), mu is a multiple of 2^s, and 0 < |x - mu| < 2^(s-1), or
///     |x - mu| == 2^(s-1) with mu / 2^s even                                   [s = `vk_rf_scale`]
/// (<=> x / 2^s is not an integer and its nearest integer, ties to even, times 2^s is such a midpoint).
/// Evaluated for the (at most two) midpoints next to the float that came back: if x is in the region, those are the only
/// candidates unless the float is not even one of the two neighbours of x - and then the main harness fails anyway.
/// Requires 0 < n < 2^64, 0 < d < 2^16.
fn vk_rf_tie_region(n: u128, d: u128, e: i32, p: u32, w: u32, bits: u64) -> bool {
    let emaxb: u64 = (1u64 << w) - 1;
    let bias: i32 = (1i32 << (w - 1)) - 1;
    let eb = (bits >> p) & emaxb;
    let frac = bits & ((1u64 << p) - 1);
    let s = vk_rf_scale(n, d, e, p);
    let m: u128 = (if eb == 0 { frac } else { frac | (1u64 << p) }) as u128;
    let q: i32 = (if eb == 0 { 1 } else { eb as i32 }) - bias - p as i32;
    if eb == emaxb {
        // infinity: the only boundary next to it is the overflow threshold (2^(p+2) - 1) * 2^(q_top - 1)
        let q_top: i32 = (emaxb as i32 - 1) - bias - p as i32;
        return frac == 0 && vk_rf_near(n, d, e, s, (1u128 << (p + 2)) - 1, q_top - 1);
    }
    let up = vk_rf_near(n, d, e, s, 2 * m + 1, q - 1);
    let down = if m == 0 {
        false
    } else if eb > 1 && frac == 0 {
        vk_rf_near(n, d, e, s, 4 * m - 1, q - 2)
    } else {
        vk_rf_near(n, d, e, s, 2 * m - 1, q - 1)
    };
    up || down
}

/// mu = mid * 2^mq (mid odd) is a multiple of 2^s and 0 < |n / d * 2^e - mu| <(=) 2^(s-1) as specified above.
fn vk_rf_near(n: u128, d: u128, e: i32, s: i32, mid: u128, mq: i32) -> bool {
    let k = mq - s;
    if k < 0 || k > 54 {
        return false; // not a multiple of 2^s / further away than any x of this scale
    }
    // everything times d, in units of 2^(s-1):  mu * d = a,  2^(s-1) * d = d
    let a = (mid * d) << ((k + 1) as u32);
    let c = vk_rf_cmp(n, e, a, s - 1);
    let lo = vk_rf_cmp(n, e, a - d, s - 1);
    let hi = vk_rf_cmp(n, e, a + d, s - 1);
    c != 0 && ((lo > 0 && hi < 0) || ((lo == 0 || hi == 0) && k >= 1))
}

/// Known finding (R2), f64 only: s == -1074 - 54 and x > 2^-1075 (the code returns 0.0, the nearest f64 is 2^-1074).
fn vk_rf_cutoff_region(n: u128, d: u128, e: i32) -> bool {
    vk_rf_scale(n, d, e, 52) == -1074 - 54 && vk_rf_cmp(n, e, d, -1075) > 0
}

fn vk_rf_flat32(r: Approximation<f32, Sign>) -> (u64, bool, bool) {
    match r {
        Exact(f) => (f.to_bits() as u64, true, false),
        Inexact(f, s) => (f.to_bits() as u64, false, s == Sign::Positive),
    }
}

fn vk_rf_flat64(r: Approximation<f64, Sign>) -> (u64, bool, bool) {
    match r {
        Exact(f) => (f.to_bits(), true, false),
        Inexact(f, s) => (f.to_bits(), false, s == Sign::Positive),
    }
}

/// The rational (-1)^neg * (n * 2^e1) / (d * 2^e2) as an (unreduced) `Repr`.
fn vk_rf_repr(neg: bool, n: u64, e1: usize, d: u16, e2: usize) -> Repr {
    // (the concrete shifts are only applied when non-zero: no symbolic execution of the shift code otherwise)
    let num = if e1 == 0 { IBig::from(n) } else { IBig::from(n) << e1 };
    let den = if e2 == 0 { UBig::from(d) } else { UBig::from(d) << e2 };
    Repr {
        numerator: if neg { -num } else { num },
        denominator: den,
    }
}

// Stubs (Kani only) for the four dashu-int operations `to_f32`/`to_f64` call on their operands.  dashu-int is not the
// code under test here (its shifts and divisions are the subject of C09/C02 units).  Each stub is the *inline-operand
// arm of the real operation, verbatim* (`shift_ops::repr::shl_dword` first arm, `div_ops::repr::div_rem_dword`), with
// every heap-operand arm replaced by a panic, i.e. by the proof obligation that the arm is unreachable for the inputs
// of the harness (all operands and results < 2^128).  Why: the inline/heap tag and the shift amount of a shifted operand
// are not constants for CBMC (they come from `leading_zeros` of symbolic data), so without the stubs it symbolically
// executes the multi-word division (divide-and-conquer, Karatsuba, Toom-3: > 40 min in symex, never finished) and the
// spilling shifts (allocations of symbolic size: > 13 GB, out of memory) although they are unreachable.
// Trusted: that these bodies are the inline arms of the real operations (read off integer/src/shift_ops.rs, div_ops.rs).
#[cfg(kani)]
fn vk_rf_stub_div_rem<'r>(lhs: UBig, rhs: &'r UBig) -> (UBig, UBig)
where
    'r: 'r, // early-bound like the lifetime parameter of the impl (Kani compares the number of generics)
{
    let a: u64 = lhs.try_into().unwrap(); // an operand of more than one word fails the harness
    let b: u64 = rhs.try_into().unwrap();
    match a.checked_div(b) {
        Some(res) => (UBig::from(res), UBig::from(a % b)),
        None => panic!(),
    }
}
#[cfg(kani)]
fn vk_rf_shl_inline(a: u128, rhs: usize) -> u128 {
    if a == 0 {
        return 0;
    }
    assert!(rhs <= a.leading_zeros() as usize); // a spilling shift fails the harness
    a << rhs
}
#[cfg(kani)]
fn vk_rf_stub_shl_ubig(x: UBig, rhs: usize) -> UBig {
    let a: u128 = x.try_into().unwrap();
    UBig::from(vk_rf_shl_inline(a, rhs))
}
#[cfg(kani)]
fn vk_rf_stub_shl_ubig_ref<'a>(x: &'a UBig, rhs: usize) -> UBig
where
    'a: 'a,
{
    let a: u128 = x.try_into().unwrap();
    UBig::from(vk_rf_shl_inline(a, rhs))
}
#[cfg(kani)]
fn vk_rf_stub_shl_ibig_ref<'a>(x: &'a IBig, rhs: usize) -> IBig
where
    'a: 'a,
{
    let a: u128 = x.unsigned_abs().try_into().unwrap();
    IBig::from_parts(x.sign(), UBig::from(vk_rf_shl_inline(a, rhs)))
}

/// Which part of the input space a harness looks at.
#[derive(Clone, Copy, PartialEq)]
enum VkRfMode {
    /// outside the known-finding regions: the full property
    Main,
    /// inside (R1): the full property (expected to FAIL)
    FindingTie,
    /// inside (R2): the full property (expected to FAIL)
    FindingCutoff,
}

fn vk_rf_check32(mode: VkRfMode, neg: bool, n: u64, e1: usize, d: u16, e2: usize) {
    assume(d != 0);
    let (nn, dd, e) = (n as u128, d as u128, e1 as i32 - e2 as i32);
    let (bits, exact, pos) = vk_rf_flat32(vk_rf_repr(neg, n, e1, d, e2).to_f32());
    let tie = n != 0 && vk_rf_tie_region(nn, dd, e, 23, 8, bits);
    match mode {
        VkRfMode::Main => assume(!tie),
        _ => assume(tie),
    }
    assert!(vk_rf_rne_ok(neg, nn, dd, e, 23, 8, bits, exact, pos));
}

fn vk_rf_check64(mode: VkRfMode, neg: bool, n: u64, e1: usize, d: u16, e2: usize) {
    assume(d != 0);
    let (nn, dd, e) = (n as u128, d as u128, e1 as i32 - e2 as i32);
    let (bits, exact, pos) = vk_rf_flat64(vk_rf_repr(neg, n, e1, d, e2).to_f64());
    let tie = n != 0 && vk_rf_tie_region(nn, dd, e, 52, 11, bits);
    let cut = n != 0 && vk_rf_cutoff_region(nn, dd, e);
    match mode {
        VkRfMode::Main => assume(!tie && !cut),
        VkRfMode::FindingTie => assume(tie && !cut),
        VkRfMode::FindingCutoff => assume(cut),
    }
    assert!(vk_rf_rne_ok(neg, nn, dd, e, 52, 11, bits, exact, pos));
}

// ------------------------------------------------------------------------------------------------------------
// normal range, everything inline (one DoubleWord): num = any u32 (either sign), den = any non-zero u8

#[cfg_attr(kani, kani::proof)]
#[cfg_attr(kani, kani::unwind(1))]
#[cfg_attr(not(kani), test)]
fn vk_ratio_to_float_k_f32_u32_u8() {
    let n: u32 = any();
    let d: u8 = any();
    vk_rf_check32(VkRfMode::Main, false, n as u64, 0, d as u16, 0);
    cover();
}

#[cfg_attr(kani, kani::proof)]
#[cfg_attr(kani, kani::unwind(1))]
#[cfg_attr(kani, kani::stub(<UBig as DivRem<&UBig>>::div_rem, vk_rf_stub_div_rem))]
#[cfg_attr(kani, kani::stub(<UBig as core::ops::Shl<usize>>::shl, vk_rf_stub_shl_ubig))]
#[cfg_attr(kani, kani::stub(<&UBig as core::ops::Shl<usize>>::shl, vk_rf_stub_shl_ubig_ref))]
#[cfg_attr(kani, kani::stub(<&IBig as core::ops::Shl<usize>>::shl, vk_rf_stub_shl_ibig_ref))]
#[cfg_attr(not(kani), test)]
fn vk_ratio_to_float_k_probe_u16() {
    let n: u32 = any();
    vk_rf_check32(VkRfMode::Main, false, n as u64, 0, 7, 0);
    cover();
}

// TEMPORARY native self-test (removed before delivery)
#[cfg(not(kani))]
#[test]
fn vk_rf_selftest_tmp() {
    extern crate std;
    use std::println;
    let mut seed: u64 = 0x9e3779b97f4a7c15;
    let mut rnd = move || {
        seed ^= seed << 13;
        seed ^= seed >> 7;
        seed ^= seed << 17;
        seed
    };
    // 1. oracle against hardware RNE for d = 2^k
    for _ in 0..200000 {
        let bitsn = (rnd() % 64) as u32 + 1;
        let n = rnd() >> (64 - bitsn);
        let k = (rnd() % 16) as u32;
        let f = n as f32; // RNE
        let ex = f as u64 == n && (f as f64) == (n as f64) && (n as f32 as f64 as u128 == n as u128);
        let _ = ex;
        let y = f.to_bits() as u64 - ((k as u64) << 23); // divide by 2^k (normal range)
        if n == 0 { continue; }
        let exact = (f as f64 as u128) == n as u128 && (f as f64) < 1.9e19;
        let exact = if f as f64 >= 1.8446744073709552e19 { false } else { exact };
        let pos = (f as f64) > 0.0 && ((f as f64 as u128) > n as u128 || f as f64 >= 1.8446744073709552e19);
        assert!(vk_rf_rne_ok(false, n as u128, 1u128 << k, 0, 23, 8, y, exact, pos), "n={n} k={k}");
        assert!(!vk_rf_rne_ok(false, n as u128, 1u128 << k, 0, 23, 8, y + 1, false, true), "n={n} k={k} +1");
        assert!(!vk_rf_rne_ok(false, n as u128, 1u128 << k, 0, 23, 8, y - 1, false, false), "n={n} k={k} -1");
        let g = n as f64;
        let y = g.to_bits() - ((k as u64) << 52);
        let exact = (g as u128) == n as u128 && g < 1.8446744073709552e19;
        let pos = g >= 1.8446744073709552e19 || (g as u128) > n as u128;
        assert!(vk_rf_rne_ok(false, n as u128, 1u128 << k, 0, 52, 11, y, exact, pos), "64 n={n} k={k}");
        assert!(!vk_rf_rne_ok(false, n as u128, 1u128 << k, 0, 52, 11, y + 1, false, true));
        assert!(!vk_rf_rne_ok(false, n as u128, 1u128 << k, 0, 52, 11, y - 1, false, false));
    }
    // 2. the code against the oracle: where does it fail?
    let (mut fail32, mut fail32_in, mut in32, mut tot) = (0u64, 0u64, 0u64, 0u64);
    let (mut fail64, mut fail64_in, mut in64) = (0u64, 0u64, 0u64);
    for it in 0..400000u64 {
        let bitsn = (rnd() % 64) as u32 + 1;
        let mut n = rnd() >> (64 - bitsn);
        let bitsd = (rnd() % 16) as u32 + 1;
        let d = ((rnd() >> (64 - bitsd)) as u16).max(1);
        let neg = rnd() & 1 == 1;
        // exponents: normal range, f32 subnormal / overflow, f64 subnormal / overflow
        let (e1, e2): (usize, usize) = match it % 8 {
            0 | 1 | 2 => (0, 0),
            3 => (0, 100 + (rnd() % 130) as usize),
            4 => (40 + (rnd() % 100) as usize, 0),
            5 => (0, 1000 + (rnd() % 150) as usize),
            6 => (900 + (rnd() % 150) as usize, 0),
            _ => ((rnd() % 64) as usize, (rnd() % 64) as usize),
        };
        if it % 5 == 0 {
            // steer towards a 25-bit / 54-bit quotient near a midpoint
            let dd = d as u64;
            let base: u64 = if it % 10 == 0 { (1 << 24) + 2 * (rnd() % 1000) + 1 } else { (1u64 << 53) + 2 * (rnd() % 1000) + 1 };
            if let Some(v) = base.checked_mul(dd) {
                n = v.wrapping_add(rnd() % dd).wrapping_sub(rnd() % dd);
            }
        }
        let (nn, dd, e) = (n as u128, d as u128, e1 as i32 - e2 as i32);
        tot += 1;
        let r = vk_rf_repr(neg, n, e1, d, e2);
        let (bits, exact, pos) = vk_rf_flat32(r.to_f32());
        let ok = vk_rf_rne_ok(neg, nn, dd, e, 23, 8, bits, exact, pos);
        let tie = n != 0 && vk_rf_tie_region(nn, dd, e, 23, 8, bits);
        in32 += tie as u64;
        if !ok {
            fail32 += 1;
            fail32_in += tie as u64;
            if !tie {
                println!("f32 FAIL outside region: neg={neg} n={n} e1={e1} d={d} e2={e2} bits={bits:#x} exact={exact} pos={pos}");
            }
        }
        let (bits, exact, pos) = vk_rf_flat64(r.to_f64());
        let ok = vk_rf_rne_ok(neg, nn, dd, e, 52, 11, bits, exact, pos);
        let tie = n != 0 && vk_rf_tie_region(nn, dd, e, 52, 11, bits);
        let cut = n != 0 && vk_rf_cutoff_region(nn, dd, e);
        in64 += (tie || cut) as u64;
        if !ok {
            fail64 += 1;
            fail64_in += (tie || cut) as u64;
            if !(tie || cut) {
                println!("f64 FAIL outside region: neg={neg} n={n} e1={e1} d={d} e2={e2} bits={bits:#x} exact={exact} pos={pos}");
            }
        }
    }
    println!("total {tot}: f32 fails {fail32} (in region {fail32_in}, region size {in32}); f64 fails {fail64} (in region {fail64_in}, region size {in64})");
}
