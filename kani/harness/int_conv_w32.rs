// Kani harnesses for integer/src/convert.rs built with 32-bit machine words (RUSTFLAGS --cfg force_bits="32"):
// conversions between UBig/IBig and the 64/128-bit primitives take the multi-word paths (`unsigned_from_words`,
// `Repr::from_unsigned`) that a 64-bit build never reaches (C19: results must not depend on the word size).
use super::*;
include!("/verif/kani/harness/shim.rs");
use core::convert::TryFrom;

#[cfg_attr(kani, kani::proof)]
#[cfg_attr(kani, kani::unwind(6))]
#[cfg_attr(not(kani), test)]
fn vk_int_conv_w32_u128_round_trip() {
    let v: u128 = any();
    let x = UBig::from(v);
    // exact and lossless: every u128 comes back, whatever the number of 32-bit words it needs
    assert!(u128::try_from(&x) == Ok(v));
    // narrower targets succeed exactly when the value fits
    let r64 = u64::try_from(&x);
    if v <= u64::MAX as u128 {
        assert!(r64 == Ok(v as u64));
    } else {
        assert!(r64.is_err());
    }
    let r32 = u32::try_from(&x);
    if v <= u32::MAX as u128 {
        assert!(r32 == Ok(v as u32));
    } else {
        assert!(r32.is_err());
    }
    cover();
}

#[cfg_attr(kani, kani::proof)]
#[cfg_attr(kani, kani::unwind(6))]
#[cfg_attr(not(kani), test)]
fn vk_int_conv_w32_i128_round_trip() {
    let v: i128 = any();
    let x = IBig::from(v);
    assert!(i128::try_from(&x) == Ok(v));
    let r64 = i64::try_from(&x);
    if v >= i64::MIN as i128 && v <= i64::MAX as i128 {
        assert!(r64 == Ok(v as i64));
    } else {
        assert!(r64.is_err());
    }
    let ru = u128::try_from(&x);
    if v >= 0 {
        assert!(ru == Ok(v as u128));
    } else {
        assert!(ru.is_err());
    }
    cover();
}
