// NOT REGISTERED (no verdict comes from this file): CBMC cannot digest these harnesses on this image. With symbolic
// (u64, f32 bits) each harness grew past 14 GB of memory; with a concrete float exponent, and even with a 12-bit palette
// (u8 integer, 3 mantissa bits), symbolic execution of the UBig shift / compare / drop paths did not finish in 5 min,
// while a fully concrete call takes 2 s.  Kept for the oracle and for native replay.
//
// Kani harnesses for integer/src/third_party/num_order.rs: NumOrd between UBig / IBig and f32 (both directions).
// BOUNDED: the integer is built from a symbolic u64 / i64 (inline representation, |v| < 2^64); the float ranges over
// all 2^32 bit patterns.
//
// Oracle (C14): the ordering of the exact values.  The float is decoded from its bit pattern into
// (-1)^s * m * 2^q (m < 2^24, -149 <= q <= 104); NaN is incomparable (None), +-inf lie beyond every integer; otherwise
// signs are compared first and equal-sign magnitudes |v| and m * 2^q are compared exactly in u128 after aligning the
// exponents (case split: |q| >= 64 decides by itself).
use super::*;
include!("/verif/kani/harness/shim.rs");

/// sign(a - m * 2^q) for a < 2^64, m < 2^24, decided exactly
fn vk_no_cmp_mag(a: u64, m: u32, q: i32) -> i8 {
    if a == 0 || m == 0 {
        return if a == 0 && m == 0 {
            0
        } else if a == 0 {
            -1
        } else {
            1
        };
    }
    let (x, y): (u128, u128) = if q >= 64 {
        return -1; // m * 2^q >= 2^64 > a
    } else if q <= -64 {
        return 1; // m * 2^q < 2^24 * 2^-64 < 1 <= a
    } else if q >= 0 {
        (a as u128, (m as u128) << (q as u32))
    } else {
        ((a as u128) << ((-q) as u32), m as u128)
    };
    if x < y {
        -1
    } else if x > y {
        1
    } else {
        0
    }
}

/// exact comparison of the integer (-1)^neg * a with the float `bits`: None for NaN, else Some(sign(int - float))
fn vk_no_oracle(neg: bool, a: u64, bits: u32) -> Option<i8> {
    let fneg = bits >> 31 == 1;
    let eb = (bits >> 23) & 0xff;
    let frac = bits & 0x7fffff;
    if eb == 0xff {
        if frac != 0 {
            return None;
        }
        return Some(if fneg { 1 } else { -1 }); // -inf < every integer < +inf
    }
    let m: u32 = if eb == 0 { frac } else { frac | 0x800000 };
    let q: i32 = (if eb == 0 { 1 } else { eb as i32 }) - 150;
    let int_neg = neg && a != 0;
    let flt_neg = fneg && m != 0;
    Some(if int_neg != flt_neg {
        // different signs (zero counts as non-negative): the negative one is smaller, unless both are zero
        if a == 0 && m == 0 {
            0
        } else if int_neg {
            -1
        } else if flt_neg {
            1
        } else {
            vk_no_cmp_mag(a, m, q)
        }
    } else if int_neg {
        -vk_no_cmp_mag(a, m, q) // both negative: larger magnitude is smaller
    } else {
        vk_no_cmp_mag(a, m, q)
    })
}

fn vk_no_code(o: Option<Ordering>) -> Option<i8> {
    match o {
        None => None,
        Some(Ordering::Less) => Some(-1),
        Some(Ordering::Equal) => Some(0),
        Some(Ordering::Greater) => Some(1),
    }
}

#[cfg_attr(kani, kani::proof)]
#[cfg_attr(not(kani), test)]
#[cfg_attr(kani, kani::unwind(4))]
fn vk_int_num_order_ubig_f32() {
    let a: u64 = any();
    let bits: u32 = any();
    let f = f32::from_bits(bits);
    let v = UBig::from(a);
    let want = vk_no_oracle(false, a, bits);
    assert!(vk_no_code(v.num_partial_cmp(&f)) == want);
    assert!(vk_no_code(f.num_partial_cmp(&v)) == want.map(|c| -c));
    cover();
}

#[cfg_attr(kani, kani::proof)]
#[cfg_attr(not(kani), test)]
#[cfg_attr(kani, kani::unwind(4))]
fn vk_int_num_order_ibig_f32() {
    let x: i64 = any();
    let bits: u32 = any();
    let a = x.unsigned_abs();
    let f = f32::from_bits(bits);
    let v = IBig::from(x);
    let want = vk_no_oracle(x < 0, a, bits);
    assert!(vk_no_code(v.num_partial_cmp(&f)) == want);
    assert!(vk_no_code(f.num_partial_cmp(&v)) == want.map(|c| -c));
    cover();
}
