// Kani harness for integer/src/gcd_ops.rs: `UBig::gcd_ext` on two multi-word operands (Lehmer's algorithm in
// integer/src/gcd/lehmer.rs + the post-processing of gcd_ext_large).  BOUNDED stand-in on CONCRETE points only (the Lehmer
// loops are out of reach of symbolic exploration): operands of 3 and 4 words whose gcd is ONE full machine word, so that the
// Lehmer loop ends with the single-word divisor y dividing x exactly and the final word-level gcd_ext returns the cofactor
// pair (0, 1) -- the region where the sign bookkeeping `swapped ^= (cx < 0) || (cx == 0 && cy > 0)` matters.
// Contract checked (C12): g divides both operands and s*a + t*b == g, evaluated with the crate's own (separately verified)
// multiplication / addition / remainder.
use super::*;
use crate::ops::ExtendedGcd as _;
include!("/verif/kani/harness/shim.rs");

fn vk_gcdo_gcd_ext_check(m: u128, n_hi: u64, n_lo: u128, g: u64) {
    // a = g * m  (3 words),  b = g * (n_hi * 2^128 + n_lo)  (4 words)
    let g_big = UBig::from(g);
    let a = UBig::from(m) * &g_big;
    let b = ((UBig::from(n_hi) << 128) + UBig::from(n_lo)) * &g_big;
    let (d, s, t) = (&a).gcd_ext(&b);
    assert!((&a % &d).is_zero() && (&b % &d).is_zero());
    assert!(s * IBig::from(a.clone()) + t * IBig::from(b.clone()) == IBig::from(d));
    cover();
}

#[cfg_attr(kani, kani::proof)]
#[cfg_attr(not(kani), test)]
fn vk_gcdo_gcd_ext_word_gcd_p1() {
    // m = 2^100 + 277 (prime), n = 2^150 + 67 (odd, coprime to m), g = largest prime below 2^64
    vk_gcdo_gcd_ext_check((1u128 << 100) + 277, 1 << 22, 67, 0xffff_ffff_ffff_ffc5);
}
