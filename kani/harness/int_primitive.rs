// Kani harnesses for integer/src/primitive.rs (scalar helpers; complete proofs unless stated otherwise).
// Oracles: the mathematical value of the operands computed in a wider type (i128/u128) or, for the 128-bit
// instances, by an explicit case split on the single value that has no wider representation.
use super::*;
include!("/verif/kani/harness/shim.rs");

// ---------------------------------------------------------------------------------------------------------------
// to_sign_magnitude / try_from_sign_magnitude: (sign, mag) <-> sign * mag, Ok iff the value fits the signed type.

macro_rules! vk_prim_sign_mag_small {
    ($to:ident, $from:ident, $rt:ident, $t:ty, $u:ty) => {
        #[cfg_attr(kani, kani::proof)]
        #[cfg_attr(not(kani), test)]
        fn $to() {
            let x: $t = any();
            let (s, mag) = x.to_sign_magnitude();
            let v = x as i128;
            let want: i128 = if v < 0 { -v } else { v };
            assert!(mag as i128 == want);
            assert!((s == Negative) == (v < 0));
            cover();
        }

        #[cfg_attr(kani, kani::proof)]
        #[cfg_attr(not(kani), test)]
        fn $from() {
            let neg: bool = any();
            let mag: $u = any();
            let v: i128 = if neg { -(mag as i128) } else { mag as i128 };
            let fits = v >= <$t>::MIN as i128 && v <= <$t>::MAX as i128;
            match <$t>::try_from_sign_magnitude(if neg { Negative } else { Positive }, mag) {
                Ok(r) => assert!(fits && r as i128 == v),
                Err(err) => assert!(!fits && matches!(err, ConversionError::OutOfBounds)),
            }
            cover();
        }

        #[cfg_attr(kani, kani::proof)]
        #[cfg_attr(not(kani), test)]
        fn $rt() {
            let x: $t = any();
            let (s, mag) = x.to_sign_magnitude();
            assert!(matches!(<$t>::try_from_sign_magnitude(s, mag), Ok(r) if r == x));
            cover();
        }
    };
}

vk_prim_sign_mag_small!(vk_int_primitive_to_sm_i8, vk_int_primitive_from_sm_i8, vk_int_primitive_rt_sm_i8, i8, u8);
vk_prim_sign_mag_small!(vk_int_primitive_to_sm_i16, vk_int_primitive_from_sm_i16, vk_int_primitive_rt_sm_i16, i16, u16);
vk_prim_sign_mag_small!(vk_int_primitive_to_sm_i32, vk_int_primitive_from_sm_i32, vk_int_primitive_rt_sm_i32, i32, u32);
vk_prim_sign_mag_small!(vk_int_primitive_to_sm_i64, vk_int_primitive_from_sm_i64, vk_int_primitive_rt_sm_i64, i64, u64);
vk_prim_sign_mag_small!(
    vk_int_primitive_to_sm_isize,
    vk_int_primitive_from_sm_isize,
    vk_int_primitive_rt_sm_isize,
    isize,
    usize
);

// i128 has no wider type: |x| is x or -x except for i128::MIN, whose magnitude is 2^127.
#[cfg_attr(kani, kani::proof)]
#[cfg_attr(not(kani), test)]
fn vk_int_primitive_to_sm_i128() {
    let x: i128 = any();
    let (s, mag) = x.to_sign_magnitude();
    let want: u128 = if x == i128::MIN {
        1u128 << 127
    } else if x < 0 {
        (-x) as u128
    } else {
        x as u128
    };
    assert!(mag == want);
    assert!((s == Negative) == (x < 0));
    cover();
}

#[cfg_attr(kani, kani::proof)]
#[cfg_attr(not(kani), test)]
fn vk_int_primitive_from_sm_i128() {
    let neg: bool = any();
    let mag: u128 = any();
    let top = 1u128 << 127;
    // value sign * mag fits i128 iff mag < 2^127, or mag == 2^127 with a negative sign
    let fits = mag < top || (neg && mag == top);
    match i128::try_from_sign_magnitude(if neg { Negative } else { Positive }, mag) {
        Ok(r) => {
            assert!(fits);
            if mag == top {
                assert!(r == i128::MIN);
            } else if neg {
                assert!(r == -(mag as i128));
            } else {
                assert!(r == mag as i128);
            }
        }
        Err(err) => assert!(!fits && matches!(err, ConversionError::OutOfBounds)),
    }
    cover();
}

#[cfg_attr(kani, kani::proof)]
#[cfg_attr(not(kani), test)]
fn vk_int_primitive_rt_sm_i128() {
    let x: i128 = any();
    let (s, mag) = x.to_sign_magnitude();
    assert!(matches!(i128::try_from_sign_magnitude(s, mag), Ok(r) if r == x));
    cover();
}

// ---------------------------------------------------------------------------------------------------------------
// word <-> double word: value(lo, hi) = lo + hi * 2^WORD_BITS

#[cfg_attr(kani, kani::proof)]
#[cfg_attr(not(kani), test)]
fn vk_int_primitive_double_word() {
    let lo: Word = any();
    let hi: Word = any();
    let base: DoubleWord = (1 as DoubleWord) << WORD_BITS;
    let dw = double_word(lo, hi);
    assert!(dw == hi as DoubleWord * base + lo as DoubleWord);
    assert!(extend_word(lo) == lo as DoubleWord && extend_word(lo) < base);
    assert!(split_dword(dw) == (lo, hi));
    cover();
}

#[cfg_attr(kani, kani::proof)]
#[cfg_attr(not(kani), test)]
fn vk_int_primitive_split_dword() {
    let dw: DoubleWord = any();
    let base: DoubleWord = (1 as DoubleWord) << WORD_BITS;
    let (lo, hi) = split_dword(dw);
    // quotient and remainder by the base (division by a constant power of two)
    assert!(lo as DoubleWord == dw % base && hi as DoubleWord == dw / base);
    assert!(double_word(lo, hi) == dw);
    match shrink_dword(dw) {
        Some(w) => assert!(dw < base && w as DoubleWord == dw),
        None => assert!(dw >= base),
    }
    cover();
}

#[cfg_attr(kani, kani::proof)]
#[cfg_attr(not(kani), test)]
fn vk_int_primitive_signed_dword() {
    let dw: SignedDoubleWord = any();
    let base: SignedDoubleWord = (1 as SignedDoubleWord) << WORD_BITS;
    let (lo, hi) = split_signed_dword(dw);
    // dw == hi * 2^W + lo with 0 <= lo < 2^W: no overflow since |hi| <= 2^(W-1)
    assert!(hi as SignedDoubleWord * base + lo as SignedDoubleWord == dw);
    let w: Word = any();
    let sw = signed_extend_word(w);
    assert!(sw >= 0 && sw < base && sw as DoubleWord == w as DoubleWord);
    cover();
}

// ---------------------------------------------------------------------------------------------------------------
// slice accessors (bounded: slices of at most 4 words taken from a symbolic array)

#[cfg_attr(kani, kani::proof)]
#[cfg_attr(not(kani), test)]
#[cfg_attr(kani, kani::unwind(6))]
fn vk_int_primitive_slice_accessors() {
    let arr: [Word; 4] = any();
    let n: usize = any();
    assume(n >= 2 && n <= 4);
    let words = &arr[..n];
    let base: DoubleWord = (1 as DoubleWord) << WORD_BITS;
    assert!(lowest_dword(words) == arr[1] as DoubleWord * base + arr[0] as DoubleWord);
    assert!(highest_dword(words) == arr[n - 1] as DoubleWord * base + arr[n - 2] as DoubleWord);
    let (hi, rest) = split_hi_word(words);
    assert!(hi == arr[n - 1] && rest.len() == n - 1 && rest.as_ptr() == arr.as_ptr());
    cover();
}

#[cfg_attr(kani, kani::proof)]
#[cfg_attr(not(kani), test)]
#[cfg_attr(kani, kani::unwind(6))]
fn vk_int_primitive_locate_top_word() {
    let arr: [Word; 4] = any();
    let n: usize = any();
    assume(n <= 4);
    let k = locate_top_word_plus_one(&arr[..n]);
    // k is the least index such that all words at positions >= k are zero
    assert!(k <= n);
    assert!(k == 0 || arr[k - 1] != 0);
    let mut i = 0;
    while i < 4 {
        if i >= k && i < n {
            assert!(arr[i] == 0);
        }
        i += 1;
    }
    cover();
}

// ---------------------------------------------------------------------------------------------------------------
// partial byte imports: the value of the little/big-endian byte string, padded with 0x00 / 0xff bytes to the full width

/// sum of byte(i) * 256^i over all `width` positions; byte(i) is the i-th least significant input byte or the pad
fn vk_prim_bytes_value(bytes: &[u8; 16], len: usize, width: usize, pad: u8, big_endian: bool) -> u128 {
    let mut v: u128 = 0;
    let mut i = 0;
    while i < 16 {
        if i < width {
            let b = if i < len {
                if big_endian {
                    bytes[len - 1 - i]
                } else {
                    bytes[i]
                }
            } else {
                pad
            };
            v |= (b as u128) << (8 * i);
        }
        i += 1;
    }
    v
}

#[cfg_attr(kani, kani::proof)]
#[cfg_attr(not(kani), test)]
#[cfg_attr(kani, kani::unwind(18))]
fn vk_int_primitive_word_from_bytes_partial() {
    let bytes: [u8; 16] = any();
    let len: usize = any();
    assume(len <= WORD_BYTES);
    let s = &bytes[..len];
    assert!(word_from_le_bytes_partial::<false>(s) as u128 == vk_prim_bytes_value(&bytes, len, WORD_BYTES, 0, false));
    assert!(word_from_le_bytes_partial::<true>(s) as u128 == vk_prim_bytes_value(&bytes, len, WORD_BYTES, 0xff, false));
    assert!(word_from_be_bytes_partial::<false>(s) as u128 == vk_prim_bytes_value(&bytes, len, WORD_BYTES, 0, true));
    assert!(word_from_be_bytes_partial::<true>(s) as u128 == vk_prim_bytes_value(&bytes, len, WORD_BYTES, 0xff, true));
    cover();
}

#[cfg_attr(kani, kani::proof)]
#[cfg_attr(not(kani), test)]
#[cfg_attr(kani, kani::unwind(18))]
fn vk_int_primitive_dword_from_bytes_partial() {
    let bytes: [u8; 16] = any();
    let len: usize = any();
    assume(len <= DWORD_BYTES);
    let s = &bytes[..len];
    assert!(dword_from_le_bytes_partial::<false>(s) as u128 == vk_prim_bytes_value(&bytes, len, DWORD_BYTES, 0, false));
    assert!(dword_from_le_bytes_partial::<true>(s) as u128 == vk_prim_bytes_value(&bytes, len, DWORD_BYTES, 0xff, false));
    assert!(dword_from_be_bytes_partial::<false>(s) as u128 == vk_prim_bytes_value(&bytes, len, DWORD_BYTES, 0, true));
    assert!(dword_from_be_bytes_partial::<true>(s) as u128 == vk_prim_bytes_value(&bytes, len, DWORD_BYTES, 0xff, true));
    cover();
}
