// Shared by every harness file via include!(). Under `cfg(kani)` values are symbolic; under
// `cfg(dashu_verif_replay)` they are read from the byte vectors recorded by Kani's concrete playback
// (file named by env VERIF_REPLAY: one line per kani::any() call, comma-separated bytes).
#[allow(dead_code)]
mod vshim {
    #[cfg(kani)]
    pub fn any<T: kani::Arbitrary>() -> T {
        kani::any()
    }
    #[cfg(kani)]
    pub fn assume(b: bool) {
        kani::assume(b)
    }
    #[cfg(kani)]
    pub fn cover() {
        kani::cover!(true);
    }

    /// "Control must not get here" inside a should_panic harness: `kani::should_panic` only demands that SOME
    /// panic is reachable, so a harness that has to show that EVERY input panics calls this after the operation.
    /// Under Kani it fails a non-panic (pointer) check, which makes a should_panic harness fail; natively it does
    /// nothing (`#[should_panic]` already fails the test when nothing panicked).
    #[cfg(kani)]
    pub fn must_not_return() {
        let p = 8usize as *const u8;
        let _ = unsafe { core::ptr::read_volatile(p) };
    }
    #[cfg(not(kani))]
    pub fn must_not_return() {}

    #[cfg(not(kani))]
    extern crate std;
    #[cfg(not(kani))]
    use std::{cell::RefCell, string::String, vec::Vec};
    #[cfg(not(kani))]
    std::thread_local! {
        static QUEUE: RefCell<Option<Vec<Vec<u8>>>> = RefCell::new(None);
    }
    #[cfg(not(kani))]
    fn next_bytes() -> Vec<u8> {
        QUEUE.with(|q| {
            let mut q = q.borrow_mut();
            if q.is_none() {
                let path = std::env::var("VERIF_REPLAY").expect("VERIF_REPLAY not set");
                let txt: String = std::fs::read_to_string(path).expect("cannot read replay file");
                let mut v: Vec<Vec<u8>> = txt
                    .lines()
                    .filter(|l| !l.trim_start().starts_with('#'))
                    .map(|l| l.split(',').filter(|s| !s.trim().is_empty()).map(|s| s.trim().parse::<u8>().unwrap()).collect())
                    .collect();
                v.reverse();
                *q = Some(v);
            }
            q.as_mut().unwrap().pop().expect("replay file exhausted")
        })
    }
    #[cfg(not(kani))]
    pub trait Replay: Sized {
        fn from_replay() -> Self;
    }
    #[cfg(not(kani))]
    macro_rules! impl_replay_int {
        ($($t:ty)*) => {$(
            impl Replay for $t {
                fn from_replay() -> Self {
                    let b = next_bytes();
                    let mut a = [0u8; core::mem::size_of::<$t>()];
                    a.copy_from_slice(&b[..core::mem::size_of::<$t>()]);
                    <$t>::from_le_bytes(a)
                }
            }
        )*};
    }
    #[cfg(not(kani))]
    impl_replay_int!(u8 u16 u32 u64 u128 usize i8 i16 i32 i64 i128 isize);
    #[cfg(not(kani))]
    impl Replay for bool {
        fn from_replay() -> Self {
            next_bytes()[0] != 0
        }
    }
    #[cfg(not(kani))]
    impl Replay for f32 {
        fn from_replay() -> Self {
            f32::from_bits(u32::from_replay())
        }
    }
    #[cfg(not(kani))]
    impl Replay for f64 {
        fn from_replay() -> Self {
            f64::from_bits(u64::from_replay())
        }
    }
    #[cfg(not(kani))]
    impl<T: Replay + Copy + Default, const N: usize> Replay for [T; N] {
        fn from_replay() -> Self {
            let mut a = [T::default(); N];
            for x in a.iter_mut() {
                *x = T::from_replay();
            }
            a
        }
    }
    #[cfg(not(kani))]
    pub fn any<T: Replay>() -> T {
        T::from_replay()
    }
    #[cfg(not(kani))]
    pub fn assume(b: bool) {
        if !b {
            panic!("REPLAY-ASSUMPTION-VIOLATED");
        }
    }
    #[cfg(not(kani))]
    pub fn cover() {}
}
#[allow(unused_imports)]
use vshim::{any, assume, cover, must_not_return};
