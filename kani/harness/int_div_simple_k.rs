// Kani harnesses for integer/src/div/simple.rs (Knuth's algorithm D): `div_rem_in_place` on the REAL crate, with the
// real num_modular reciprocal (the Verus unit int_div_simple proves the algorithm for all sizes but only ASSUMES the
// documented meaning of `Normalized3by2Divisor::div_rem_3by2`, `highest_dword` and `cmp_same_len`; here they run).
// BOUNDED stand-in: dividend of 3..=5 words drawn from an 8-value palette (3 symbolic bits per word), divisor one of
// 4 concrete normalized 3-word values (a symbolic divisor would put the reciprocal's 128-bit division into the SAT
// problem, see engine/README.md). Contract checked (C02):
//     value(old lhs) == (value(lhs[3..]) + carry * B^(len-3)) * value(rhs) + value(lhs[..3]),  value(lhs[..3]) < value(rhs)
// The reference product is computed here by schoolbook multiply-add in u128.
use super::*;
include!("/verif/kani/harness/shim.rs");

const VK_DS_TOP: Word = 1 << (Word::BITS - 1);

const VK_DS_RHS: [[Word; 3]; 4] = [
    [Word::MAX, 0, VK_DS_TOP],        // low part large, top two words minimal: estimate one too large, add-back
    [0, 0, VK_DS_TOP],                // smallest normalized divisor
    [0x0123_4567_89ab_cdef, 0xfedc_ba98_7654_3210, 0xc000_0000_0000_0001], // generic bit pattern (a divisor with top
    // words all ones crashes CBMC: SIGFPE, status 136, in its expression simplifier)
    [1, Word::MAX, VK_DS_TOP],        // running remainder can reach the divisor's top word (estimate MAX)
];

fn vk_ds_palette_word() -> Word {
    let sel: u8 = any();
    assume(sel < 8);
    match sel {
        0 => 0,
        1 => 1,
        2 => VK_DS_TOP,
        3 => Word::MAX - 1,
        4 => Word::MAX,
        5 => VK_DS_TOP - 1,
        6 => VK_DS_TOP + 1,
        _ => 2,
    }
}

/// acc += q * rhs * B^i  (little-endian words, u128 column arithmetic)
fn vk_ds_add_mul(acc: &mut [Word; 8], q: Word, rhs: &[Word; 3], i: usize) {
    let mut carry: u128 = 0;
    let mut j = 0;
    while j < 3 {
        let t = (q as u128) * (rhs[j] as u128) + (acc[i + j] as u128) + carry;
        acc[i + j] = t as Word;
        carry = t >> Word::BITS;
        j += 1;
    }
    let mut k = i + 3;
    while k < 8 {
        let t = (acc[k] as u128) + carry;
        acc[k] = t as Word;
        carry = t >> Word::BITS;
        k += 1;
    }
    assert!(carry == 0);
}

fn vk_ds_check<const N: usize, const K: usize>() {
    let rhs = VK_DS_RHS[K];
    let fast_div_rhs_top = FastDivideNormalized2::new(highest_dword(&rhs));
    let mut lhs = [0 as Word; N];
    let mut i = 0;
    while i < N {
        lhs[i] = vk_ds_palette_word();
        i += 1;
    }
    let orig = lhs;

    let carry = div_rem_in_place(&mut lhs, &rhs, fast_div_rhs_top);

    // remainder below the divisor (compare from the top word down)
    let r = [lhs[0], lhs[1], lhs[2]];
    let less = r[2] < rhs[2] || (r[2] == rhs[2] && (r[1] < rhs[1] || (r[1] == rhs[1] && r[0] < rhs[0])));
    assert!(less);

    // a == q * b + r
    let mut acc = [0 as Word; 8];
    acc[0] = r[0];
    acc[1] = r[1];
    acc[2] = r[2];
    let mut i = 0;
    while i + 3 < N {
        vk_ds_add_mul(&mut acc, lhs[i + 3], &rhs, i);
        i += 1;
    }
    vk_ds_add_mul(&mut acc, carry as Word, &rhs, N - 3);
    let mut i = 0;
    while i < 8 {
        let expect = if i < N { orig[i] } else { 0 };
        assert!(acc[i] == expect);
        i += 1;
    }
    cover();
}

macro_rules! vk_ds_harness {
    ($name:ident, $n:expr, $k:expr) => {
        #[cfg_attr(kani, kani::proof)]
        #[cfg_attr(not(kani), test)]
        #[cfg_attr(kani, kani::unwind(10))]
        fn $name() {
            vk_ds_check::<$n, $k>();
        }
    };
}

vk_ds_harness!(vk_int_div_simple_k_len3_d0, 3, 0);
vk_ds_harness!(vk_int_div_simple_k_len3_d1, 3, 1);
vk_ds_harness!(vk_int_div_simple_k_len3_d2, 3, 2);
vk_ds_harness!(vk_int_div_simple_k_len3_d3, 3, 3);
vk_ds_harness!(vk_int_div_simple_k_len4_d0, 4, 0);
vk_ds_harness!(vk_int_div_simple_k_len4_d1, 4, 1);
vk_ds_harness!(vk_int_div_simple_k_len4_d2, 4, 2);
vk_ds_harness!(vk_int_div_simple_k_len4_d3, 4, 3);
vk_ds_harness!(vk_int_div_simple_k_len5_d0, 5, 0);
vk_ds_harness!(vk_int_div_simple_k_len5_d1, 5, 1);
vk_ds_harness!(vk_int_div_simple_k_len5_d2, 5, 2);
vk_ds_harness!(vk_int_div_simple_k_len5_d3, 5, 3);
