// Kani harnesses for the SIGNED bit operations of integer/src/bits.rs and shift_ops.rs (property C09):
//   `&`, `|`, `^` (macro arms impl_ibig_bitand / impl_ibig_bitor / impl_ibig_bitxor and the mixed UBig/IBig arms),
//   `Not for IBig`, `Shr<usize> for IBig` (floor division by 2^n, incl. are_low_bits_nonzero), `BitTest for IBig`,
//   `IBig::trailing_zeros` / `trailing_ones` (trailing_ones_neg).
// C09: "... behave as if the number were written in two's complement with infinitely many sign bits."
//
// Oracle.  (a) inline magnitudes: operands are built from a symbolic i128; the primitive operators of i128 ARE
// two's complement with the sign bit repeated, so `a & b`, `a | b`, `a ^ b`, `!a`, `a >> min(n, 127)` are the
// expected values.  The result of the library is read back through `as_sign_words()` (sign + magnitude words) and
// compared with the expected i128 by `is_val` -- the library's own `==` / `From` are not used to judge.
// (b) heap magnitudes (3 words): the oracle encodes sign + magnitude into 4 two's-complement words (`tc_enc`:
// negate = complement + 1 with carry), applies the operator word by word, and decodes (`tc_dec`).
//
// Bounds: (a) |x| < 2^126 for & | ^ ! (all inline), full i128 (incl. magnitude exactly 2^127) for >>, bit,
// trailing_*; n <= 130 for shifts and bit tests.  (b) magnitudes of exactly 3 words, each word drawn from a
// palette with 3 symbolic bits {0, 1, 2^63, MAX, MAX-1, 2^63+1, 2^32, !2^32}.
use super::*;
include!("/verif/kani/harness/shim.rs");
use crate::{arch::word::DoubleWord, ibig::IBig, ubig::UBig, Sign};
use dashu_base::BitTest as _;

const LIM: i128 = 1i128 << 126;

/// does `x` hold exactly the value `want`? (sign + magnitude read from the representation; zero must be +0)
fn is_val(x: &IBig, want: i128) -> bool {
    let (sign, words) = x.as_sign_words();
    let mag: u128 = match words.len() {
        0 => 0,
        1 => words[0] as u128,
        2 => (words[0] as u128) | ((words[1] as u128) << 64),
        _ => return false,
    };
    if words.len() == 2 && words[1] == 0 {
        return false; // not normalised
    }
    let neg = matches!(sign, Sign::Negative);
    mag == want.unsigned_abs() && neg == (want < 0)
}

fn mk(a: i128) -> IBig {
    IBig::from_parts_const(if a < 0 { Sign::Negative } else { Sign::Positive }, a.unsigned_abs())
}

fn any_small() -> i128 {
    let a: i128 = any();
    assume(a > -LIM && a < LIM);
    a
}

// ---- (a) inline magnitudes ---------------------------------------------------------------------------------

#[cfg_attr(kani, kani::proof)]
#[cfg_attr(kani, kani::unwind(3))]
#[cfg_attr(not(kani), test)]
fn vk_bsig_and_inline() {
    let (a, b) = (any_small(), any_small());
    assert!(is_val(&(mk(a) & mk(b)), a & b));
    assert!(is_val(&(&mk(a) & &mk(b)), a & b));
    cover();
}

#[cfg_attr(kani, kani::proof)]
#[cfg_attr(kani, kani::unwind(3))]
#[cfg_attr(not(kani), test)]
fn vk_bsig_or_inline() {
    let (a, b) = (any_small(), any_small());
    assert!(is_val(&(mk(a) | mk(b)), a | b));
    assert!(is_val(&(&mk(a) | &mk(b)), a | b));
    cover();
}

#[cfg_attr(kani, kani::proof)]
#[cfg_attr(kani, kani::unwind(3))]
#[cfg_attr(not(kani), test)]
fn vk_bsig_xor_inline() {
    let (a, b) = (any_small(), any_small());
    assert!(is_val(&(mk(a) ^ mk(b)), a ^ b));
    assert!(is_val(&(&mk(a) ^ &mk(b)), a ^ b));
    cover();
}

#[cfg_attr(kani, kani::proof)]
#[cfg_attr(kani, kani::unwind(3))]
#[cfg_attr(not(kani), test)]
fn vk_bsig_not_inline() {
    let a = any_small();
    assert!(is_val(&!mk(a), !a));
    assert!(is_val(&!&mk(a), !a));
    cover();
}

/// mixed forms: UBig op IBig / IBig op UBig give the value of converting both to IBig first
#[cfg_attr(kani, kani::proof)]
#[cfg_attr(kani, kani::unwind(3))]
#[cfg_attr(not(kani), test)]
fn vk_bsig_mixed_inline() {
    let u: u128 = any();
    assume(u < LIM as u128);
    let b = any_small();
    let ui = u as i128;
    let ub = || UBig::from(u);
    // `&` with an unsigned operand is unsigned (the result is never negative)
    assert!(is_val(&IBig::from(ub() & mk(b)), ui & b));
    assert!(is_val(&IBig::from(mk(b) & ub()), ui & b));
    assert!(is_val(&(ub() | mk(b)), ui | b));
    assert!(is_val(&(mk(b) | ub()), ui | b));
    assert!(is_val(&(ub() ^ mk(b)), ui ^ b));
    assert!(is_val(&(mk(b) ^ ub()), ui ^ b));
    cover();
}

/// `>> n` on IBig is floor division by 2^n for every n (also n >= the bit length); magnitude 2^127 included
#[cfg_attr(kani, kani::proof)]
#[cfg_attr(kani, kani::unwind(3))]
#[cfg_attr(not(kani), test)]
fn vk_bsig_shr_inline() {
    let a: i128 = any();
    let n: usize = any();
    assume(n <= 130);
    let want = a >> (if n > 127 { 127 } else { n });
    assert!(is_val(&(mk(a) >> n), want));
    assert!(is_val(&(&mk(a) >> n), want));
    cover();
}

/// the known corner: -2^127 >> 128 (all low 128 bits of the magnitude matter) is -1, and the neighbours
#[cfg_attr(kani, kani::proof)]
#[cfg_attr(kani, kani::unwind(3))]
#[cfg_attr(not(kani), test)]
fn vk_bsig_shr_min_128() {
    assert!(is_val(&(mk(i128::MIN) >> 128usize), -1));
    assert!(is_val(&(mk(i128::MIN) >> 127usize), -1));
    assert!(is_val(&(mk(i128::MIN) >> 126usize), -2));
    assert!(is_val(&(mk(i128::MIN) >> 129usize), -1));
    assert!(is_val(&(mk(i128::MIN + 1) >> 128usize), -1));
    cover();
}

#[cfg_attr(kani, kani::proof)]
#[cfg_attr(kani, kani::unwind(3))]
#[cfg_attr(not(kani), test)]
fn vk_bsig_bit_inline() {
    let a: i128 = any();
    let n: usize = any();
    assume(n <= 130);
    let want = (a >> (if n > 127 { 127 } else { n })) & 1 == 1;
    assert!(mk(a).bit(n) == want);
    cover();
}

#[cfg_attr(kani, kani::proof)]
#[cfg_attr(kani, kani::unwind(3))]
#[cfg_attr(not(kani), test)]
fn vk_bsig_trailing_inline() {
    let a: i128 = any();
    let tz = mk(a).trailing_zeros();
    let to = mk(a).trailing_ones();
    if a == 0 {
        assert!(tz.is_none());
    } else {
        assert!(tz == Some(a.trailing_zeros() as usize));
    }
    if a == -1 {
        assert!(to.is_none());
    } else {
        assert!(to == Some(a.trailing_ones() as usize));
    }
    cover();
}

// ---- (b) heap magnitudes: 3 words, two's complement on 4 words as oracle ---------------------------------------

fn pal() -> Word {
    let k: u8 = any();
    match k & 7 {
        0 => 0,
        1 => 1,
        2 => 1 << 63,
        3 => Word::MAX,
        4 => Word::MAX - 1,
        5 => (1 << 63) + 1,
        6 => 1 << 32,
        _ => !(1 << 32),
    }
}

/// sign + 3-word magnitude (top word non-zero) -> value and its 4-word two's complement
fn any_heap() -> (IBig, [Word; 4]) {
    let neg: bool = any();
    let m = [pal(), pal(), pal()];
    assume(m[2] != 0);
    let x = IBig::from_parts(if neg { Sign::Negative } else { Sign::Positive }, UBig::from_words(&m));
    (x, tc_enc(neg, [m[0], m[1], m[2], 0]))
}

/// two's complement of a sign-magnitude number (magnitude < 2^255): -m = !m + 1
fn tc_enc(neg: bool, m: [Word; 4]) -> [Word; 4] {
    if !neg {
        return m;
    }
    let mut r = [0; 4];
    let mut carry = true;
    let mut i = 0;
    while i < 4 {
        let (s, c) = (!m[i]).overflowing_add(carry as Word);
        r[i] = s;
        carry = c;
        i += 1;
    }
    r
}

/// inverse: the sign is the top bit; magnitude of a negative number = !t + 1
fn tc_dec(t: [Word; 4]) -> (bool, [Word; 4]) {
    let neg = t[3] >> 63 == 1;
    (neg, tc_enc(neg, t))
}

/// does x hold the value whose 4-word two's complement is `t`?
fn is_tc(x: &IBig, t: [Word; 4]) -> bool {
    let (neg, m) = tc_dec(t);
    let (sign, words) = x.as_sign_words();
    let mut len = 4;
    while len > 0 && m[len - 1] == 0 {
        len -= 1;
    }
    if words.len() != len {
        return false;
    }
    let mut i = 0;
    while i < 4 {
        if i < len && words[i] != m[i] {
            return false;
        }
        i += 1;
    }
    matches!(sign, Sign::Negative) == neg
}

#[cfg_attr(kani, kani::proof)]
#[cfg_attr(kani, kani::unwind(6))]
#[cfg_attr(not(kani), test)]
fn vk_bsig_and_heap() {
    let ((x, tx), (y, ty)) = (any_heap(), any_heap());
    let want = [tx[0] & ty[0], tx[1] & ty[1], tx[2] & ty[2], tx[3] & ty[3]];
    assert!(is_tc(&(x & y), want));
    cover();
}

#[cfg_attr(kani, kani::proof)]
#[cfg_attr(kani, kani::unwind(6))]
#[cfg_attr(not(kani), test)]
fn vk_bsig_or_heap() {
    let ((x, tx), (y, ty)) = (any_heap(), any_heap());
    let want = [tx[0] | ty[0], tx[1] | ty[1], tx[2] | ty[2], tx[3] | ty[3]];
    assert!(is_tc(&(x | y), want));
    cover();
}

#[cfg_attr(kani, kani::proof)]
#[cfg_attr(kani, kani::unwind(6))]
#[cfg_attr(not(kani), test)]
fn vk_bsig_xor_heap() {
    let ((x, tx), (y, ty)) = (any_heap(), any_heap());
    let want = [tx[0] ^ ty[0], tx[1] ^ ty[1], tx[2] ^ ty[2], tx[3] ^ ty[3]];
    assert!(is_tc(&(x ^ y), want));
    cover();
}

#[cfg_attr(kani, kani::proof)]
#[cfg_attr(kani, kani::unwind(6))]
#[cfg_attr(not(kani), test)]
fn vk_bsig_not_heap() {
    let (x, tx) = any_heap();
    assert!(is_tc(&!x, [!tx[0], !tx[1], !tx[2], !tx[3]]));
    cover();
}

/// heap operand with an inline one (the lowest_dword / and_not_large_dword paths)
#[cfg_attr(kani, kani::proof)]
#[cfg_attr(kani, kani::unwind(6))]
#[cfg_attr(not(kani), test)]
fn vk_bsig_heap_inline_mix() {
    let (x, tx) = any_heap();
    let neg: bool = any();
    let m = [pal(), pal()];
    let y = IBig::from_parts_const(
        if neg { Sign::Negative } else { Sign::Positive },
        (m[0] as DoubleWord) | ((m[1] as DoubleWord) << 64),
    );
    let ty = tc_enc(neg, [m[0], m[1], 0, 0]);
    let op: u8 = any();
    assume(op < 3);
    match op {
        0 => assert!(is_tc(&(&x & &y), [tx[0] & ty[0], tx[1] & ty[1], tx[2] & ty[2], tx[3] & ty[3]])),
        1 => assert!(is_tc(&(&y | &x), [tx[0] | ty[0], tx[1] | ty[1], tx[2] | ty[2], tx[3] | ty[3]])),
        _ => assert!(is_tc(&(&x ^ &y), [tx[0] ^ ty[0], tx[1] ^ ty[1], tx[2] ^ ty[2], tx[3] ^ ty[3]])),
    }
    cover();
}

/// arithmetic shift of the 4-word two's complement by n < 256 (sign bits shifted in)
fn tc_sar(t: [Word; 4], n: usize) -> [Word; 4] {
    let fill: Word = if t[3] >> 63 == 1 { Word::MAX } else { 0 };
    let (wq, bq) = (n / 64, (n % 64) as u32);
    let mut r = [0; 4];
    let mut i = 0;
    while i < 4 {
        let lo = if i + wq < 4 { t[i + wq] } else { fill };
        let hi = if i + wq + 1 < 4 { t[i + wq + 1] } else { fill };
        r[i] = if bq == 0 { lo } else { (lo >> bq) | (hi << (64 - bq)) };
        i += 1;
    }
    r
}

#[cfg_attr(kani, kani::proof)]
#[cfg_attr(kani, kani::unwind(6))]
#[cfg_attr(not(kani), test)]
fn vk_bsig_shr_heap() {
    let (x, tx) = any_heap();
    let n: usize = any();
    assume(n <= 200);
    assert!(is_tc(&(x >> n), tc_sar(tx, n)));
    cover();
}

#[cfg_attr(kani, kani::proof)]
#[cfg_attr(kani, kani::unwind(6))]
#[cfg_attr(not(kani), test)]
fn vk_bsig_bit_heap() {
    let (x, tx) = any_heap();
    let n: usize = any();
    assume(n <= 260);
    let want = if n >= 256 { tx[3] >> 63 == 1 } else { (tx[n / 64] >> (n % 64)) & 1 == 1 };
    assert!(x.bit(n) == want);
    cover();
}

#[cfg_attr(kani, kani::proof)]
#[cfg_attr(kani, kani::unwind(260))]
#[cfg_attr(not(kani), test)]
fn vk_bsig_trailing_heap() {
    let (x, tx) = any_heap();
    // least clear / least set bit position of the two's complement (exists below 256: the value is not 0 / -1)
    let (mut tz, mut to) = (256usize, 256usize);
    let mut i = 256usize;
    while i > 0 {
        i -= 1;
        if (tx[i / 64] >> (i % 64)) & 1 == 1 {
            tz = i;
        } else {
            to = i;
        }
    }
    assert!(x.trailing_zeros() == Some(tz));
    assert!(x.trailing_ones() == Some(to));
    cover();
}
