// Kani harnesses for the SIGNED bit operations of integer/src/bits.rs and shift_ops.rs (property C09):
//   `Not for IBig`, `Shr<usize> for IBig` (floor division by 2^n, incl. are_low_bits_nonzero), `BitTest for IBig`,
//   `IBig::trailing_zeros` / `trailing_ones` (trailing_ones_neg).
// C09: "... behave as if the number were written in two's complement with infinitely many sign bits."
// (The sign-case arms of `&`, `|`, `^`, and `!`, `>>` are PROVED for all magnitudes by the Verus unit int_bits_signed;
//  symbolic Kani harnesses through `IBig & IBig` etc. were tried and dropped: every intermediate `Repr` has a symbolic
//  inline/heap tag, and the unreachable heap arms (reallocation with a symbolic size) make CBMC run out of memory.)
//
// Oracle.  (a) inline magnitudes: operands are built from a symbolic i128; the primitive operators of i128 ARE
// two's complement with the sign bit repeated, so `!a`, `a >> min(n, 127)`, `(a >> min(n, 127)) & 1`,
// `a.trailing_zeros()` / `a.trailing_ones()` are the expected values.  Results are read back through
// `as_sign_words()` (sign + magnitude words) by `is_val` -- the library's own `==` / `From` are not used to judge.
// (b) heap magnitudes (3 words): the oracle encodes sign + magnitude into 4 two's-complement words (`tc_enc`:
// negate = complement + 1 with carry) and reads the digits from them.
//
// Bounds: (a) full i128 (|x| <= 2^127, i.e. every inline magnitude up to and including exactly 2^127) for bit and
// trailing_*; |x| < 2^126 for `!`; n <= 130; `>>` on concrete corner values only (see vk_bsig_shr_corners).
// (b) magnitudes of exactly 3 words, each word drawn from a palette with 3 symbolic bits
// {0, 1, 2^63, MAX, MAX-1, 2^63+1, 2^32, !2^32}.
use super::*;
include!("/verif/kani/harness/shim.rs");
use crate::{ibig::IBig, ubig::UBig, Sign};
use dashu_base::BitTest as _;

const LIM: i128 = 1i128 << 126;

/// does `x` hold exactly the value `want`? (sign + magnitude read from the representation; zero must be +0)
fn is_val(x: &IBig, want: i128) -> bool {
    let (sign, words) = x.as_sign_words();
    let mag: u128 = match words.len() {
        0 => 0,
        1 => words[0] as u128,
        2 => (words[0] as u128) | ((words[1] as u128) << 64),
        _ => return false,
    };
    if words.len() == 2 && words[1] == 0 {
        return false; // not normalised
    }
    let neg = matches!(sign, Sign::Negative);
    mag == want.unsigned_abs() && neg == (want < 0)
}

fn mk(a: i128) -> IBig {
    IBig::from_parts_const(if a < 0 { Sign::Negative } else { Sign::Positive }, a.unsigned_abs())
}

// ---- (a) inline magnitudes ---------------------------------------------------------------------------------

#[cfg_attr(kani, kani::proof)]
#[cfg_attr(kani, kani::unwind(3))]
#[cfg_attr(not(kani), test)]
fn vk_bsig_not_inline() {
    let a: i128 = any();
    assume(a > -LIM && a < LIM);
    assert!(is_val(&!mk(a), !a));
    assert!(is_val(&!&mk(a), !a));
    cover();
}

/// the known corner: -2^127 >> 128 (all low 128 bits of the magnitude matter) is -1, and the neighbours
#[cfg_attr(kani, kani::proof)]
#[cfg_attr(kani, kani::unwind(3))]
#[cfg_attr(not(kani), test)]
fn vk_bsig_shr_min_128() {
    assert!(is_val(&(mk(i128::MIN) >> 128usize), -1));
    assert!(is_val(&(mk(i128::MIN) >> 127usize), -1));
    assert!(is_val(&(mk(i128::MIN) >> 126usize), -2));
    assert!(is_val(&(mk(i128::MIN) >> 129usize), -1));
    assert!(is_val(&(mk(i128::MIN + 1) >> 128usize), -1));
    cover();
}

/// `>> n` is floor division by 2^n: concrete corner magnitudes (2^64 boundary, exactly 2^127, the design-phase
/// witness -(2^100 + 2^65) >> 70) x corner shifts (word and double-word boundaries and beyond)
#[cfg_attr(kani, kani::proof)]
#[cfg_attr(kani, kani::unwind(12))]
#[cfg_attr(not(kani), test)]
fn vk_bsig_shr_corners() {
    const A: [i128; 8] =
        [-1, -2, -3, -(1 << 64), -(1 << 64) - 1, i128::MIN, i128::MIN + 1, -(1 << 100) - (1 << 65)];
    const N: [usize; 9] = [0, 1, 63, 64, 65, 70, 127, 128, 130];
    let mut i = 0;
    while i < 8 {
        let mut j = 0;
        while j < 9 {
            let want = A[i] >> (if N[j] > 127 { 127 } else { N[j] });
            assert!(is_val(&(mk(A[i]) >> N[j]), want));
            assert!(is_val(&(mk(-(A[i] + 1)) >> N[j]), (-(A[i] + 1)) >> (if N[j] > 127 { 127 } else { N[j] })));
            j += 1;
        }
        i += 1;
    }
    cover();
}

#[cfg_attr(kani, kani::proof)]
#[cfg_attr(kani, kani::unwind(3))]
#[cfg_attr(not(kani), test)]
fn vk_bsig_bit_inline() {
    let a: i128 = any();
    let n: usize = any();
    assume(n <= 130);
    let want = (a >> (if n > 127 { 127 } else { n })) & 1 == 1;
    assert!(mk(a).bit(n) == want);
    cover();
}

#[cfg_attr(kani, kani::proof)]
#[cfg_attr(kani, kani::unwind(3))]
#[cfg_attr(not(kani), test)]
fn vk_bsig_trailing_inline() {
    let a: i128 = any();
    let tz = mk(a).trailing_zeros();
    let to = mk(a).trailing_ones();
    if a == 0 {
        assert!(tz.is_none());
    } else {
        assert!(tz == Some(a.trailing_zeros() as usize));
    }
    if a == -1 {
        assert!(to.is_none());
    } else {
        assert!(to == Some(a.trailing_ones() as usize));
    }
    cover();
}

// ---- (b) heap magnitudes: 3 words, two's complement on 4 words as oracle ---------------------------------------

fn pal() -> Word {
    let k: u8 = any();
    match k & 7 {
        0 => 0,
        1 => 1,
        2 => 1 << 63,
        3 => Word::MAX,
        4 => Word::MAX - 1,
        5 => (1 << 63) + 1,
        6 => 1 << 32,
        _ => !(1 << 32),
    }
}

/// sign + 3-word magnitude (top word non-zero) -> value and its 4-word two's complement
fn any_heap() -> (IBig, [Word; 4]) {
    let neg: bool = any();
    let m = [pal(), pal(), pal()];
    assume(m[2] != 0);
    let x = IBig::from_parts(if neg { Sign::Negative } else { Sign::Positive }, UBig::from_words(&m));
    (x, tc_enc(neg, [m[0], m[1], m[2], 0]))
}

/// two's complement of a sign-magnitude number (magnitude < 2^255): -m = !m + 1
fn tc_enc(neg: bool, m: [Word; 4]) -> [Word; 4] {
    if !neg {
        return m;
    }
    let mut r = [0; 4];
    let mut carry = true;
    let mut i = 0;
    while i < 4 {
        let (s, c) = (!m[i]).overflowing_add(carry as Word);
        r[i] = s;
        carry = c;
        i += 1;
    }
    r
}

#[cfg_attr(kani, kani::proof)]
#[cfg_attr(kani, kani::unwind(6))]
#[cfg_attr(not(kani), test)]
fn vk_bsig_bit_heap() {
    let (x, tx) = any_heap();
    let n: usize = any();
    assume(n <= 260);
    let want = if n >= 256 { tx[3] >> 63 == 1 } else { (tx[n / 64] >> (n % 64)) & 1 == 1 };
    assert!(x.bit(n) == want);
    cover();
}

#[cfg_attr(kani, kani::proof)]
#[cfg_attr(kani, kani::unwind(260))]
#[cfg_attr(not(kani), test)]
fn vk_bsig_trailing_heap() {
    let (x, tx) = any_heap();
    // least clear / least set bit position of the two's complement (exists below 256: the value is not 0 / -1)
    let (mut tz, mut to) = (256usize, 256usize);
    let mut i = 256usize;
    while i > 0 {
        i -= 1;
        if (tx[i / 64] >> (i % 64)) & 1 == 1 {
            tz = i;
        } else {
            to = i;
        }
    }
    assert!(x.trailing_zeros() == Some(tz));
    assert!(x.trailing_ones() == Some(to));
    cover();
}
