// Kani harnesses for integer/src/shift_ops.rs, the inline (at most two words) arms of `>>` at the typed
// representation level: COMPLETE proofs (loop-free, every DoubleWord value x every usize shift count, including
// counts >= 2^32 and usize::MAX).  C09: `x >> n` is floor(x / 2^n) (0 once n >= 128) (`<<` with a symbolic count does not finish in CBMC; it is proved in the Verus
// units int_shift_ops / int_shift_ops_dword).  The result is read back with `as_typed()`; the oracle is plain u128 arithmetic.
use super::*;
use crate::{
    arch::word::DoubleWord,
    repr::{TypedRepr, TypedReprRef},
};
include!("/verif/kani/harness/shim.rs");

fn vk_shs_expect_shr(x: DoubleWord, n: usize) -> DoubleWord {
    if n >= 128 {
        0
    } else {
        x >> (n as u32)
    }
}

#[cfg_attr(kani, kani::proof)]
#[cfg_attr(not(kani), test)]
fn vk_shift_small_shr_owned() {
    let x: DoubleWord = any();
    let n: usize = any();
    let r = TypedRepr::Small(x) >> n;
    match r.as_typed() {
        TypedReprRef::RefSmall(v) => assert!(v == vk_shs_expect_shr(x, n)),
        TypedReprRef::RefLarge(_) => assert!(false),
    }
    cover();
}

#[cfg_attr(kani, kani::proof)]
#[cfg_attr(not(kani), test)]
fn vk_shift_small_shr_ref() {
    let x: DoubleWord = any();
    let n: usize = any();
    let r = TypedReprRef::RefSmall(x) >> n;
    match r.as_typed() {
        TypedReprRef::RefSmall(v) => assert!(v == vk_shs_expect_shr(x, n)),
        TypedReprRef::RefLarge(_) => assert!(false),
    }
    cover();
}
