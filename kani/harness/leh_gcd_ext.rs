// Kani harnesses for integer/src/gcd/lehmer.rs gcd_ext_in_place (C12) on the REAL crate -- BOUNDED stand-in for the one Lehmer
// routine that is not under a Verus contract (gcd_in_place, lehmer_guess(_dword), lehmer_step, lehmer_ext_step and the
// leading-word extraction are proved unbounded in the units int_leh_*).
// Contract checked (the one lib/gcdo_ops_stubs.rs ASSUMES): g = gcd(lhs, rhs) is left in rhs[..ret.0], |b| in lhs[..ret.1] and
//     a * lhs + (ret.2 * |b|) * rhs == g   for some integer a,   i.e.   (ret.2 * |b|) * rhs == g  (mod lhs).
// To keep the oracle free of wide divisions the left operand is a power of two, lhs = 2^k: then gcd(lhs, rhs) is the lowest
// set bit of rhs and the congruence is a mask of a wrapping product.  rhs ranges over a palette of concrete values chosen
// to reach: the tail with `cx == 0 && cy > 0` (the last single-word y divides x), the tail with cx < 0 / cx > 0, the early
// return `y.is_empty()`, a successful Lehmer guess (lehmer_step + lehmer_ext_step) and the Euclidean step with q_top == 0.
use super::*;
use crate::memory::MemoryAllocation;
include!("/verif/kani/harness/shim.rs");

const VK_LEH_TOP: Word = 1 << (Word::BITS - 1);

/// value of up to two words
fn vk_leh_val2(w: &[Word], len: usize) -> u128 {
    let mut v: u128 = 0;
    if len >= 1 {
        v |= w[0] as u128;
    }
    if len >= 2 {
        v |= (w[1] as u128) << Word::BITS;
    }
    v
}

/// lhs = 2^(BITS+1) (two words), rhs = B + r0 (two words, r0 from the palette)
fn vk_leh_case_2w(r0: Word) {
    let mut lhs: [Word; 2] = [0, 2];
    let mut rhs: [Word; 2] = [r0, 1];
    let r_val = vk_leh_val2(&rhs, 2);
    let mut allocation = MemoryAllocation::new(memory_requirement_ext_up_to(2, 2));
    let (g_len, b_len, sign) = gcd_ext_in_place(&mut lhs, &mut rhs, &mut allocation.memory());
    assert!(g_len >= 1 && g_len <= 2 && b_len <= 2);
    let g = vk_leh_val2(&rhs, g_len);
    let b = vk_leh_val2(&lhs, b_len);
    // gcd(2^(BITS+1), r) == lowest set bit of r   (r < 2^(BITS+1))
    assert!(g == (r_val & r_val.wrapping_neg()));
    // (sign * b) * r == g   (mod 2^(BITS+1))
    let prod = b.wrapping_mul(r_val);
    let signed = match sign {
        Sign::Positive => prod,
        Sign::Negative => prod.wrapping_neg(),
    };
    let mask: u128 = (1u128 << (Word::BITS + 1)) - 1;
    assert!((signed.wrapping_sub(g)) & mask == 0);
}

macro_rules! vk_leh_point {
    ($name:ident, $r0:expr) => {
        #[cfg_attr(kani, kani::proof)]
        #[cfg_attr(not(kani), test)]
        #[cfg_attr(kani, kani::unwind(140))]
        fn $name() {
            // a literal operand: CBMC's symbolic execution then runs the algorithm by constant propagation (a value pinned through
            // `assume` leaves every loop condition symbolic: > 10 min for one point)
            vk_leh_case_2w($r0);
            cover();
        }
    };
}
// x = 3*2^(BITS-1), last y = 2^(BITS-1) divides it: primitive gcd_ext(0, y) = (y, 0, 1), the `cx == 0 && cy > 0` arm
vk_leh_point!(vk_leh_gcd_ext_2w_cx0, VK_LEH_TOP);
// rhs = B + 1 (odd): gcd 1
vk_leh_point!(vk_leh_gcd_ext_2w_odd, 1);
// rhs = B + 6
vk_leh_point!(vk_leh_gcd_ext_2w_six, 6);
// rhs = 2B - 2
vk_leh_point!(vk_leh_gcd_ext_2w_max, Word::MAX - 1);
// rhs = B + 2^(BITS-2) + 5
vk_leh_point!(vk_leh_gcd_ext_2w_mid, (VK_LEH_TOP >> 1) + 5);
