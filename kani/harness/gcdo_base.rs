// Kani harness for base/src/ring/gcd.rs: size of the Bezout cofactors returned by ExtendedGcd::gcd_ext on primitives.
// Complements kani/harness/base_gcd.rs (g | a, g | b, s*a + t*b == g): the multi-word code in integer/src/gcd/mod.rs
// (gcd_ext_word / gcd_ext_dword) rebuilds |b| = q*|t| + |s| in place and needs it to fit below the large operand:
//   a, b > 0      ==>  |s| <= b  and  |t| <= a
//   a > b > 0     ==>  |t| < a
// (what lib/gcdo_stubs.rs ASSUMES for the Word / DoubleWord instances of the same macro body.)
// u8: complete (all pairs; Euclid on 8-bit operands needs at most 12 division steps, unwinding assertions on).
use super::*;
include!("/verif/kani/harness/shim.rs");

#[cfg_attr(kani, kani::proof)]
#[cfg_attr(not(kani), test)]
#[cfg_attr(kani, kani::unwind(14))]
fn vk_gcdo_base_gcd_ext_bound_u8() {
    let a: u8 = any();
    let b: u8 = any();
    assume(a != 0 && b != 0);
    let (g, s, t) = a.gcd_ext(b);
    let (aw, bw, gw, sw, tw) = (a as i32, b as i32, g as i32, s as i32, t as i32);
    // the identity itself (restated so that the bound is not checked on a wrapped coefficient)
    assert!(sw * aw + tw * bw == gw);
    assert!(-bw <= sw && sw <= bw);
    assert!(-aw <= tw && tw <= aw);
    if a > b {
        assert!(-aw < tw && tw < aw);
    }
    cover();
}
