// Kani harnesses for integer/src/root.rs: `sqrt_rem` (Karatsuba square root on word slices) and `sqrt_rem_42`.
// BOUNDED stand-in (the recursion, the multi-word division and the squaring are out of reach of an unbounded proof here):
// inputs of 4, 6 and 8 words (roots of 2, 3, 4 words: sqrt_rem_42 alone / one recursion level with an odd root length,
// `split == 1` squaring and `2 * split < n` / one level with an even root length, sqr::sqr), words from a palette with
// 2 symbolic bits each (never full-width symbolic multiplications, see engine/README.md); the normalization the function
// requires (top two bits of the input not both zero) is assumed.
// Contract checked (C12; the one the Verus unit int_root_ops ASSUMES for this function):
//     value(a0) == s^2 + r,  r <= 2*s        with s = value(b'), r = value(a'[..n]) + carry * B^n
// computed by schoolbook arithmetic on words in u128 (never by the function under test).
use super::*;
use crate::memory::MemoryAllocation;
include!("/verif/kani/harness/shim.rs");

fn vk_gcdo_root_palette_word() -> Word {
    let sel: u8 = any();
    assume(sel < 4);
    match sel {
        0 => 0,
        1 => Word::MAX,
        2 => 1 << (WORD_BITS - 2),
        _ => 0x0123_4567_89ab_cdef,
    }
}

/// s*s + r as 2N little-endian words (r has N words + the carry bit), schoolbook in u128
fn vk_gcdo_root_sq_add<const N: usize, const M: usize>(s: &[Word; N], r: &[Word; M], r_top: bool) -> [Word; M] {
    let mut out = [0 as Word; M];
    let mut i = 0;
    while i < N {
        out[i] = r[i];
        i += 1;
    }
    out[N] = r_top as Word;
    let mut i = 0;
    while i < N {
        let mut carry: DoubleWord = 0;
        let mut j = 0;
        while j < N {
            let t = extend_word(s[i]) * extend_word(s[j]) + extend_word(out[i + j]) + carry;
            let (lo, hi) = split_dword(t);
            out[i + j] = lo;
            carry = extend_word(hi);
            j += 1;
        }
        let mut k = i + N;
        while k < M {
            let t = extend_word(out[k]) + carry;
            let (lo, hi) = split_dword(t);
            out[k] = lo;
            carry = extend_word(hi);
            k += 1;
        }
        assert!(carry == 0);
        i += 1;
    }
    out
}

fn vk_gcdo_root_check<const N: usize, const M: usize>(ones_from: usize) {
    // words below `ones_from` come from the palette, the words from `ones_from` up are all ones (the `q_top` region: the
    // normalized upper part is B^k - 1, its root remainder carries, and the quotient estimate reaches B^split)
    // (the all-ones words are symbolic values constrained by `assume`: with literal constants CBMC 6.11 crashes -- status 136 --
    // while constant-folding the 128-bit divisions)
    let mut a = [0 as Word; M];
    let mut i = 0;
    while i < M {
        if i < ones_from {
            a[i] = vk_gcdo_root_palette_word();
        } else {
            let w: Word = any();
            assume(w == Word::MAX);
            a[i] = w;
        }
        i += 1;
    }
    // normalized: the top two bits are not both zero
    assume(a[M - 1] >> (WORD_BITS - 2) != 0);
    let a0 = a;
    let mut b = [0 as Word; N];
    let mut allocation = MemoryAllocation::new(memory_requirement_sqrt_rem(N));
    let r_top = sqrt_rem(&mut b, &mut a, &mut allocation.memory());

    // value(a0) == s^2 + r
    let back = vk_gcdo_root_sq_add::<N, M>(&b, &a, r_top);
    let mut i = 0;
    while i < M {
        assert!(back[i] == a0[i]);
        i += 1;
    }
    // r <= 2*s:  compare (r_top, a[N-1], .., a[0]) with 2*s from the top word down
    let mut two_s = [0 as Word; N];
    let mut carry: Word = 0;
    let mut i = 0;
    while i < N {
        two_s[i] = b[i] << 1 | carry;
        carry = b[i] >> (WORD_BITS - 1);
        i += 1;
    }
    let mut le = true; // r <= 2s so far (equal prefixes)
    let mut decided = false;
    if (r_top as Word) != carry {
        decided = true;
        le = (r_top as Word) < carry;
    }
    let mut i = N;
    while i > 0 {
        i -= 1;
        if !decided && a[i] != two_s[i] {
            decided = true;
            le = a[i] < two_s[i];
        }
    }
    assert!(le);
    cover();
}

#[cfg_attr(kani, kani::proof)]
#[cfg_attr(not(kani), test)]
#[cfg_attr(kani, kani::unwind(10))]
fn vk_gcdo_root_sqrt_rem_4w() {
    vk_gcdo_root_check::<2, 4>(4);
}

#[cfg_attr(kani, kani::proof)]
#[cfg_attr(not(kani), test)]
#[cfg_attr(kani, kani::unwind(10))]
fn vk_gcdo_root_sqrt_rem_6w() {
    vk_gcdo_root_check::<3, 6>(6);
}

// quick-tier slice of the 6-word domain: upper four words all ones (r1_top / q_top handling, `2 * split < n`), the two low
// words from the palette
#[cfg_attr(kani, kani::proof)]
#[cfg_attr(not(kani), test)]
#[cfg_attr(kani, kani::unwind(10))]
fn vk_gcdo_root_sqrt_rem_6w_qtop() {
    vk_gcdo_root_check::<3, 6>(2);
}

#[cfg_attr(kani, kani::proof)]
#[cfg_attr(not(kani), test)]
#[cfg_attr(kani, kani::unwind(10))]
fn vk_gcdo_root_sqrt_rem_8w() {
    vk_gcdo_root_check::<4, 8>(8);
}
