// Kani harnesses for integer/src/convert.rs: integer -> f32/f64 for values held inline (`to_f32_small`,
// `to_f64_small`, reached through `TypedReprRef::RefSmall(..).to_f32()/to_f64()`).  Loop-free, all u128: complete proofs.
// (A harness through `IBig::to_f32/to_f64` was tried and dropped: the unreachable heap path makes CBMC time out.)
//
// Oracle (C06): the result is the IEEE round-to-nearest, ties-to-even float of the integer, `Exact` iff the integer is
// representable, otherwise `Inexact(sign of result - integer)`.  The float that came back is decoded from its bit
// pattern (sign / biased exponent / fraction) and its exact value m * 2^q is compared with the integer, and with the
// midpoints to its neighbours, in u128 arithmetic; +inf is specified directly by the overflow threshold.
use super::*;
include!("/verif/kani/harness/shim.rs");

/// sign(a - m * 2^q) for an integer a < 2^128 and m < 2^60, decided exactly.
fn vk_cs_cmp(a: u128, m: u64, q: i32) -> i8 {
    if m == 0 {
        return if a == 0 { 0 } else { 1 };
    }
    let (x, y): (u128, u128) = if q >= 0 {
        if q >= 128 {
            return -1; // m * 2^q >= 2^128 > a
        }
        let y = (m as u128) << (q as u32);
        if (y >> (q as u32)) != m as u128 {
            return -1; // m * 2^q does not fit 128 bits: above every a
        }
        (a, y)
    } else {
        let d = (-q) as u32;
        if d >= 64 {
            // 0 < m * 2^q < 2^60 * 2^-64 < 1
            return if a == 0 { -1 } else { 1 };
        }
        if (a >> 64) != 0 {
            return 1; // a * 2^d >= 2^64 > m
        }
        (a << d, m as u128)
    };
    if x < y {
        -1
    } else if x > y {
        1
    } else {
        0
    }
}

/// "`bits` (IEEE binary format, `p` fraction bits, `w` exponent bits) is the RNE value of the non-negative integer `a`
/// and (`exact`, `err_pos`) say truthfully whether it is exact / whether result - a is positive."
fn vk_cs_rne_ok(a: u128, p: u32, w: u32, bits: u64, exact: bool, err_pos: bool) -> bool {
    let emaxb: u64 = (1u64 << w) - 1;
    let bias: i32 = (1i32 << (w - 1)) - 1;
    if (bits >> (p + w)) != 0 {
        return false; // sign bit set
    }
    let eb = (bits >> p) & emaxb;
    let frac = bits & ((1u64 << p) - 1);
    if a == 0 {
        return bits == 0 && exact;
    }
    let q_top: i32 = (emaxb as i32 - 1) - bias - p as i32;
    if eb == emaxb {
        // +inf: only from the midpoint between the largest finite value and 2^(emax+1) upwards
        let thr: u64 = (1u64 << (p + 2)) - 1;
        return frac == 0 && vk_cs_cmp(a, thr, q_top - 1) >= 0 && !exact && err_pos;
    }
    let m: u64 = if eb == 0 { frac } else { frac | (1u64 << p) };
    let q: i32 = (if eb == 0 { 1 } else { eb as i32 }) - bias - p as i32;
    let c = vk_cs_cmp(a, m, q); // sign(a - y)
    if c == 0 {
        return exact;
    }
    if exact || err_pos != (c < 0) {
        return false;
    }
    if c > 0 {
        // a above y: at most the midpoint (2m + 1) * 2^(q-1) to the next float up, the tie only for even m
        let t = vk_cs_cmp(a, 2 * m + 1, q - 1);
        t < 0 || (t == 0 && m % 2 == 0)
    } else {
        // a below y: the next float down is (m - 1) * 2^q, or (2m - 1) * 2^(q-1) at the bottom of a binade
        let (mid, mq) = if eb > 1 && frac == 0 { (4 * m - 1, q - 2) } else { (2 * m - 1, q - 1) };
        let t = vk_cs_cmp(a, mid, mq);
        t > 0 || (t == 0 && m % 2 == 0)
    }
}

fn vk_cs_flat32(r: Approximation<f32, Sign>) -> (u64, bool, bool) {
    match r {
        Exact(f) => (f.to_bits() as u64, true, false),
        Inexact(f, s) => (f.to_bits() as u64, false, s == Sign::Positive),
    }
}

fn vk_cs_flat64(r: Approximation<f64, Sign>) -> (u64, bool, bool) {
    match r {
        Exact(f) => (f.to_bits(), true, false),
        Inexact(f, s) => (f.to_bits(), false, s == Sign::Positive),
    }
}

#[cfg_attr(kani, kani::proof)]
#[cfg_attr(not(kani), test)]
fn vk_int_convert_small_to_f32() {
    let x: DoubleWord = any();
    let (bits, exact, pos) = vk_cs_flat32(RefSmall(x).to_f32());
    assert!(vk_cs_rne_ok(x as u128, 23, 8, bits, exact, pos));
    cover();
}

#[cfg_attr(kani, kani::proof)]
#[cfg_attr(not(kani), test)]
fn vk_int_convert_small_to_f64() {
    let x: DoubleWord = any();
    let (bits, exact, pos) = vk_cs_flat64(RefSmall(x).to_f64());
    assert!(vk_cs_rne_ok(x as u128, 52, 11, bits, exact, pos));
    cover();
}
