// Kani harness for float/src/third_party/num_order.rs: `NumHash for Repr<B>` (value mod M127 = 2^127 - 1).
// BOUNDED stand-in (concrete points only: the body goes through IBig % i128 and num_modular's Mersenne arithmetic, which
// CBMC can only follow on concrete values; see engine/README.md): bases 2, 10 and 16, significands of both signs (two of
// them above M127; two-word inline values: heap significands make CBMC 6.11 crash with status 136), exponents on both
// sides of 127 (where the base-2 shortcut `exponent mod 127` applies and where it must NOT be applied for other bases) and,
// for base 2, a negative exponent.
// Contract checked (C14: numerically equal numbers produce the same NumHash; num-order's definition
//   hash(p/q) = sgn * (|p| mod M127) * (|q| mod M127)^-1 mod M127):
//   exponent >= 0:  h == sgn(s) * ((|s| * B^e) mod M127)
//   exponent <  0:  |h| < M127, sign of h = sign of s (or h == 0), and |h| * B^(-e) == |s|  (mod M127)
// with the oracle written from this definition in plain u128 arithmetic (double-and-add, square-and-multiply).
use super::*;
include!("/verif/kani/harness/shim.rs");

const VK_M: u128 = i128::MAX as u128;

/// records the last i128 fed to the hasher (`i128::hash` -> `write_i128` -> `write(&to_ne_bytes())`)
struct VkRecorder {
    bytes: [u8; 16],
    calls: usize,
}
impl core::hash::Hasher for VkRecorder {
    fn finish(&self) -> u64 {
        0
    }
    fn write(&mut self, bytes: &[u8]) {
        assert!(bytes.len() == 16);
        let mut i = 0;
        while i < 16 {
            self.bytes[i] = bytes[i];
            i += 1;
        }
        self.calls += 1;
    }
}

fn vk_gcdo_addmod(a: u128, b: u128) -> u128 {
    // a, b < M < 2^127: no overflow
    let s = a + b;
    if s >= VK_M {
        s - VK_M
    } else {
        s
    }
}
fn vk_gcdo_mulmod(a: u128, mut b: u128) -> u128 {
    let mut acc: u128 = 0;
    let mut x = a % VK_M;
    while b > 0 {
        if b & 1 == 1 {
            acc = vk_gcdo_addmod(acc, x);
        }
        x = vk_gcdo_addmod(x, x);
        b >>= 1;
    }
    acc
}
fn vk_gcdo_powmod(base: u128, mut e: u128) -> u128 {
    let mut acc: u128 = 1;
    let mut x = base % VK_M;
    while e > 0 {
        if e & 1 == 1 {
            acc = vk_gcdo_mulmod(acc, x);
        }
        x = vk_gcdo_mulmod(x, x);
        e >>= 1;
    }
    acc
}

/// significand = sign * (hi * 2^64 + lo)
fn vk_gcdo_numhash_check<const B: Word>(neg: bool, hi: u128, lo: u64, exp: isize) {
    let mag = (UBig::from(hi) << 64) + UBig::from(lo);
    let signif = if neg { -IBig::from(mag) } else { IBig::from(mag) };
    let repr = Repr::<B>::new(signif, exp);
    let mut rec = VkRecorder { bytes: [0; 16], calls: 0 };
    repr.num_hash(&mut rec);
    assert!(rec.calls == 1);
    let h = i128::from_ne_bytes(rec.bytes);

    // |s| mod M from the two halves: hi * 2^64 + lo
    let s_mod = vk_gcdo_addmod(vk_gcdo_mulmod(hi % VK_M, 1u128 << 64), lo as u128);
    let h_abs = h.unsigned_abs();
    assert!(h_abs < VK_M);
    if exp >= 0 {
        let want = vk_gcdo_mulmod(s_mod, vk_gcdo_powmod(B as u128, exp as u128));
        assert!(h_abs == want);
    } else {
        let back = vk_gcdo_mulmod(h_abs, vk_gcdo_powmod(B as u128, exp.unsigned_abs() as u128));
        assert!(back == s_mod);
    }
    assert!(h == 0 || (h < 0) == neg);
    cover();
}

macro_rules! vk_gcdo_numhash_points {
    ($name:ident, $b:expr, $neg:expr, $hi:expr, $lo:expr, $exp:expr) => {
        #[cfg_attr(kani, kani::proof)]
        #[cfg_attr(not(kani), test)]
        fn $name() {
            vk_gcdo_numhash_check::<$b>($neg, $hi, $lo, $exp);
        }
    };
}
// base 2: the shortcut 2^e = 2^(e mod 127) (mod M127) on both sides of 127 and for negative exponents
vk_gcdo_numhash_points!(vk_gcdo_numhash_b2_e3, 2, false, 0, 5, 3);
vk_gcdo_numhash_points!(vk_gcdo_numhash_b2_e127, 2, true, 0, 5, 127);
vk_gcdo_numhash_points!(vk_gcdo_numhash_b2_e300, 2, false, 1u128 << 63, 12345, 300);
vk_gcdo_numhash_points!(vk_gcdo_numhash_b2_em130, 2, true, 0, 7, -130);
// base 10 / 16: the exponent must NOT be reduced mod 127
vk_gcdo_numhash_points!(vk_gcdo_numhash_b10_e2, 10, false, 0, 3, 2);
vk_gcdo_numhash_points!(vk_gcdo_numhash_b10_e130, 10, true, 0, 3, 130);
// (a negative exponent with a non-binary base goes through MInt::inv, on which CBMC 6.11 crashes with status 136: not covered)
vk_gcdo_numhash_points!(vk_gcdo_numhash_b16_e127, 16, false, 0, 9, 127);
