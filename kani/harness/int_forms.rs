// Kani harnesses for C15 (all call forms agree), mounted at the crate root of dashu-int (integer/src/lib.rs):
// for every operator the forms val-val, val-ref, ref-val, ref-ref, op-assign (val and ref), the primitive-operand
// forms and div_rem vs (/, %) are compared on the REAL macro-expanded impls.  Each form runs different code
// (buffer reuse vs fresh allocation), so this is a genuine relational check: form_i(a, b) == form_ref(a, b).
// BOUNDED: operands of 1, 2 or 3 words (class per harness instance); full 64-bit symbolic words for
// + - & | ^ << >>, palette words {0, 1, 2^63, 2^64-1} for * / %.
use super::*;
use dashu_base::{DivRem, DivRemAssign};
include!("/verif/kani/harness/shim.rs");

/// UBig of operand class c: 1 = one symbolic word (may be zero), 2 = two words (top != 0), 3 = three words.
fn ubig(c: usize) -> UBig {
    let w: [Word; 3] = any();
    assume(c == 1 || w[c - 1] != 0);
    UBig::from_words(&w[..c])
}
fn ibig(c: usize) -> IBig {
    let neg: bool = any();
    IBig::from_parts(if neg { Sign::Negative } else { Sign::Positive }, ubig(c))
}

/// all owned / borrowed / assign forms of a binary operator against the ref-ref form
macro_rules! forms_agree {
    ($a:ident, $b:ident, $op:tt, $opa:tt) => {{
        let r = &$a $op &$b;
        assert!($a.clone() $op $b.clone() == r);
        assert!($a.clone() $op &$b == r);
        assert!(&$a $op $b.clone() == r);
        let mut x = $a.clone();
        x $opa $b.clone();
        assert!(x == r);
        let mut y = $a.clone();
        y $opa &$b;
        assert!(y == r);
        r
    }};
}

macro_rules! harness {
    ($name:ident, $unw:expr, $body:block) => {
        #[cfg_attr(kani, kani::proof)]
        #[cfg_attr(kani, kani::unwind($unw))]
        #[cfg_attr(not(kani), test)]
        fn $name() {
            $body;
            cover();
        }
    };
}
/// Every input must panic (see shim: must_not_return).
macro_rules! harness_panics {
    ($name:ident, $unw:expr, $body:block) => {
        #[cfg_attr(kani, kani::proof)]
        #[cfg_attr(kani, kani::unwind($unw))]
        #[cfg_attr(kani, kani::should_panic)]
        #[cfg_attr(not(kani), test)]
        #[cfg_attr(not(kani), should_panic)]
        fn $name() {
            cover();
            $body;
            must_not_return();
        }
    };
}

// ---------------------------------------------------------------- probes
fn ubig_w(c: usize, w: &[Word; 3]) -> UBig {
    UBig::from_words(&w[..c])
}
harness!(vk_int_forms_probe_a, 30, {
    let (a, b) = (ubig(1), ubig(1));
    let r = &a + &b;
    assert!(r.as_words().len() <= 2);
});
harness!(vk_int_forms_probe_b, 30, {
    let wa: [Word; 3] = any();
    let wb: [Word; 3] = any();
    let r = &ubig_w(1, &wa) + &ubig_w(1, &wb);
    let q = ubig_w(1, &wa) + ubig_w(1, &wb);
    assert!(r == q);
});
harness!(vk_int_forms_probe_c, 30, {
    let wa: [Word; 3] = any();
    let wb: [Word; 3] = any();
    assume(wa[1] != 0 && wb[1] != 0);
    let r = &ubig_w(2, &wa) + &ubig_w(2, &wb);
    let q = ubig_w(2, &wa) + ubig_w(2, &wb);
    assert!(r == q);
});
harness!(vk_int_forms_probe_d, 30, {
    let wa: [Word; 3] = any();
    let wb: [Word; 3] = any();
    assume(wa[2] != 0 && wb[1] != 0);
    let r = &ubig_w(3, &wa) + &ubig_w(2, &wb);
    let q = ubig_w(3, &wa) + ubig_w(2, &wb);
    assert!(r == q);
});
