// Kani harnesses for C15 (all call forms agree), mounted at the crate root of dashu-int (integer/src/lib.rs):
// for every operator the forms val-val, val-ref, ref-val, ref-ref, op-assign (val and ref), the primitive-operand
// forms and div_rem vs (/, %) are compared on the REAL macro-expanded impls.  Each form runs different code
// (buffer reuse vs fresh allocation), so this is a genuine relational check: form_i(a, b) == form_ref(a, b).
// BOUNDED: operands of 1, 2 or 3 words (class per harness instance); full 64-bit symbolic words for
// + - & | ^ << >>, palette words {0, 1, 2^63, 2^64-1} for * / %.
use super::*;
use dashu_base::{DivRem, DivRemAssign};
include!("/verif/kani/harness/shim.rs");

/// A well-formed Repr of operand class c built straight from the documented `#[repr(C)]` layout
/// ([lo, hi, capacity] inline; Buffer {ptr, len, capacity} on the heap), NOT through the constructors: after
/// `from_dword` / `from_buffer` the inline/heap discriminant is a computed value for CBMC, which then has to
/// encode the multi-word branches of every operator over pointers made of the inline words (out of memory).
/// c = 1: one word (may be zero), c = 2: two words (top != 0), c = 3: three words in a heap buffer.
fn repr_of(c: usize, neg: bool, w: &[Word; 3]) -> crate::repr::Repr {
    use crate::{buffer::Buffer, repr::Repr};
    assume(c == 1 || w[c - 1] != 0);
    assume(!(neg && c == 1 && w[0] == 0)); // zero is never negative
    if c <= 2 {
        let cap = if neg { -(c as isize) } else { c as isize };
        let hi = if c == 2 { w[1] } else { 0 };
        unsafe { core::mem::transmute::<[u64; 3], Repr>([w[0], hi, cap as u64]) }
    } else {
        let mut b = Buffer::allocate_exact(5);
        b.push(w[0]);
        b.push(w[1]);
        b.push(w[2]);
        let r: Repr = unsafe { core::mem::transmute::<Buffer, Repr>(b) };
        if neg {
            r.neg()
        } else {
            r
        }
    }
}
fn ubig_w(c: usize, w: &[Word; 3]) -> UBig {
    UBig(repr_of(c, false, w))
}
fn ibig_w(c: usize, neg: bool, w: &[Word; 3]) -> IBig {
    IBig(repr_of(c, neg, w))
}

/// observable value of a result: sign, words (absent words 0) and length, read once through the public accessors
#[derive(Clone, Copy)]
struct Obs {
    neg: bool,
    w: [Word; 5],
    len: usize,
}
fn obs_words(neg: bool, s: &[Word]) -> Obs {
    let mut r = Obs { neg, w: [0; 5], len: s.len() };
    assert!(s.len() <= 5);
    let mut i = 0;
    while i < 5 {
        if i < s.len() {
            r.w[i] = s[i];
        }
        i += 1;
    }
    r
}
fn obs_u(x: &UBig) -> Obs {
    obs_words(false, x.as_words())
}
fn obs_i(x: &IBig) -> Obs {
    let (s, w) = x.as_sign_words();
    obs_words(s == Sign::Negative, w)
}
/// (not `==` on arrays: that is a byte-wise memcmp loop for CBMC)
fn same(a: Obs, b: Obs) -> bool {
    a.neg == b.neg
        && a.len == b.len
        && a.w[0] == b.w[0]
        && a.w[1] == b.w[1]
        && a.w[2] == b.w[2]
        && a.w[3] == b.w[3]
        && a.w[4] == b.w[4]
}

/// Observe a result and forget it: results are not dropped (memory management is C17's business, groups
/// int_buffer / int_repr); a result whose inline/heap class is symbolic makes `drop` a `free` of a pointer made
/// of the inline words under an infeasible guard, which CBMC still has to encode against every live object.
macro_rules! ob {
    ($obs:ident, $e:expr) => {{
        let t = core::mem::ManuallyDrop::new($e);
        $obs(&t)
    }};
}
/// Owned / borrowed / assign forms of a binary operator against the ref-ref form; the operands are rebuilt
/// from the same words for every form (A, B are expressions) and every result is observed once.
macro_rules! forms_val {
    ($obs:ident, $A:expr, $B:expr, $op:tt) => {{
        let r = ob!($obs, &$A $op &$B);
        assert!(same(ob!($obs, $A $op $B), r));
        assert!(same(ob!($obs, $A $op &$B), r));
        assert!(same(ob!($obs, &$A $op $B), r));
    }};
}
macro_rules! forms_assign {
    ($obs:ident, $A:expr, $B:expr, $op:tt, $opa:tt) => {{
        let r = ob!($obs, &$A $op &$B);
        let mut x = $A;
        x $opa $B;
        assert!(same(ob!($obs, x), r));
        let mut y = $A;
        y $opa &$B;
        assert!(same(ob!($obs, y), r));
    }};
}

macro_rules! harness {
    ($name:ident, $unw:expr, $body:block) => {
        #[cfg_attr(kani, kani::proof)]
        #[cfg_attr(kani, kani::solver(minisat))]
        #[cfg_attr(kani, kani::unwind($unw))]
        #[cfg_attr(not(kani), test)]
        fn $name() {
            $body;
            cover();
        }
    };
}
/// Every input must panic (see shim: must_not_return).
macro_rules! harness_panics {
    ($name:ident, $unw:expr, $body:block) => {
        #[cfg_attr(kani, kani::proof)]
        #[cfg_attr(kani, kani::solver(minisat))]
        #[cfg_attr(kani, kani::unwind($unw))]
        #[cfg_attr(kani, kani::should_panic)]
        #[cfg_attr(not(kani), test)]
        #[cfg_attr(not(kani), should_panic)]
        fn $name() {
            cover();
            $body;
            must_not_return();
        }
    };
}

// ---------------------------------------------------------------- probes
macro_rules! forms_all {
    ($obs:ident, $A:expr, $B:expr, $op:tt, $opa:tt) => {{
        let r = ob!($obs, &$A $op &$B);
        assert!(same(ob!($obs, $A $op $B), r));
        assert!(same(ob!($obs, $A $op &$B), r));
        assert!(same(ob!($obs, &$A $op $B), r));
        let mut x = $A;
        x $opa $B;
        assert!(same(ob!($obs, x), r));
        let mut y = $A;
        y $opa &$B;
        assert!(same(ob!($obs, y), r));
    }};
}
harness!(vk_int_forms_probe_a, 7, {
    let wa: [Word; 3] = any();
    let wb: [Word; 3] = any();
    forms_all!(obs_u, ubig_w(2, &wa), ubig_w(2, &wb), +, +=);
});
harness!(vk_int_forms_probe_b, 7, {
    let wa: [Word; 3] = any();
    let wb: [Word; 3] = any();
    forms_all!(obs_u, ubig_w(3, &wa), ubig_w(2, &wb), +, +=);
});
harness!(vk_int_forms_probe_c, 7, {
    let wa: [Word; 3] = any();
    let wb: [Word; 3] = any();
    forms_all!(obs_u, ubig_w(1, &wa), ubig_w(1, &wb), +, +=);
});
harness!(vk_int_forms_probe_d, 7, {
    let wa: [Word; 3] = any();
    let wb: [Word; 3] = any();
    forms_all!(obs_u, ubig_w(3, &wa), ubig_w(3, &wb), +, +=);
});
