// Kani harnesses for C15 (all call forms agree), mounted at the crate root of dashu-int (integer/src/lib.rs):
// for every operator the forms val-val, val-ref, ref-val, ref-ref, op-assign (val and ref), the primitive-operand
// forms and div_rem vs (/, %) are compared on the REAL macro-expanded impls.  Each form runs different code
// (buffer reuse vs fresh allocation), so this is a genuine relational check: form_i(a, b) == form_ref(a, b).
// BOUNDED: operands of 1, 2 or 3 words (class per harness instance); full 64-bit symbolic words for
// + - & | ^ << >>, palette words {0, 1, 2^63, 2^64-1} for * / %.
use super::*;
use dashu_base::{DivRem, DivRemAssign};
include!("/verif/kani/harness/shim.rs");

/// A well-formed Repr of operand class c built straight from the documented `#[repr(C)]` layout
/// ([lo, hi, capacity] inline; Buffer {ptr, len, capacity} on the heap), NOT through the constructors: after
/// `from_dword` / `from_buffer` the inline/heap discriminant is a computed value for CBMC, which then has to
/// encode the multi-word branches of every operator over pointers made of the inline words (out of memory).
/// c = 1: one word (may be zero), c = 2: two words (top != 0), c = 3: three words in a heap buffer.
fn repr_of(c: usize, neg: bool, w: &[Word; 3]) -> crate::repr::Repr {
    use crate::{buffer::Buffer, repr::Repr};
    assume(c == 1 || w[c - 1] != 0);
    assume(!(neg && c == 1 && w[0] == 0)); // zero is never negative
    if c <= 2 {
        let cap = if neg { -(c as isize) } else { c as isize };
        let hi = if c == 2 { w[1] } else { 0 };
        unsafe { core::mem::transmute::<[u64; 3], Repr>([w[0], hi, cap as u64]) }
    } else {
        let mut b = Buffer::allocate_exact(5);
        b.push(w[0]);
        b.push(w[1]);
        b.push(w[2]);
        let r: Repr = unsafe { core::mem::transmute::<Buffer, Repr>(b) };
        if neg {
            r.neg()
        } else {
            r
        }
    }
}
fn ubig_w(c: usize, w: &[Word; 3]) -> UBig {
    UBig(repr_of(c, false, w))
}
fn ibig_w(c: usize, neg: bool, w: &[Word; 3]) -> IBig {
    IBig(repr_of(c, neg, w))
}

/// observable value of a result: sign, words (absent words 0) and length, read once through the public accessors
#[derive(Clone, Copy)]
struct Obs {
    neg: bool,
    w: [Word; 6],
    len: usize,
}
fn obs_words(neg: bool, s: &[Word]) -> Obs {
    let mut r = Obs { neg, w: [0; 6], len: s.len() };
    assert!(s.len() <= 6);
    let mut i = 0;
    while i < 6 {
        if i < s.len() {
            r.w[i] = s[i];
        }
        i += 1;
    }
    r
}
fn obs_u(x: &UBig) -> Obs {
    obs_words(false, x.as_words())
}
fn obs_i(x: &IBig) -> Obs {
    let (s, w) = x.as_sign_words();
    obs_words(s == Sign::Negative, w)
}
/// (not `==` on arrays: that is a byte-wise memcmp loop for CBMC)
fn same(a: Obs, b: Obs) -> bool {
    a.neg == b.neg
        && a.len == b.len
        && a.w[0] == b.w[0]
        && a.w[1] == b.w[1]
        && a.w[2] == b.w[2]
        && a.w[3] == b.w[3]
        && a.w[4] == b.w[4]
        && a.w[5] == b.w[5]
}

/// Observe a result and forget it: results are not dropped (memory management is C17's business, groups
/// int_buffer / int_repr); a result whose inline/heap class is symbolic makes `drop` a `free` of a pointer made
/// of the inline words under an infeasible guard, which CBMC still has to encode against every live object.
macro_rules! ob {
    ($obs:ident, $e:expr) => {{
        let t = core::mem::ManuallyDrop::new($e);
        $obs(&t)
    }};
}
/// All owned / borrowed / assign forms of a binary operator against the ref-ref form; the operands are
/// rebuilt from the same words for every form (A, B are expressions) and every result is observed once.
macro_rules! forms_val {
    ($obs:ident, $A:expr, $B:expr, $op:tt) => {{
        let r = ob!($obs, &$A $op &$B);
        assert!(same(ob!($obs, $A $op $B), r));
        assert!(same(ob!($obs, $A $op &$B), r));
        assert!(same(ob!($obs, &$A $op $B), r));
    }};
}
macro_rules! forms_assign {
    ($obs:ident, $A:expr, $B:expr, $op:tt, $opa:tt) => {{
        let r = ob!($obs, &$A $op &$B);
        let mut x = $A;
        x $opa $B;
        assert!(same(ob!($obs, x), r));
        let mut y = $A;
        y $opa &$B;
        assert!(same(ob!($obs, y), r));
    }};
}
macro_rules! forms_all {
    ($obs:ident, $A:expr, $B:expr, $op:tt, $opa:tt) => {{
        forms_val!($obs, $A, $B, $op);
        let r = ob!($obs, &$A $op &$B);
        let mut x = $A;
        x $opa $B;
        assert!(same(ob!($obs, x), r));
        let mut y = $A;
        y $opa &$B;
        assert!(same(ob!($obs, y), r));
    }};
}

macro_rules! harness {
    ($name:ident, $unw:expr, $body:block) => {
        #[cfg_attr(kani, kani::proof)]
        #[cfg_attr(kani, kani::solver(minisat))]
        #[cfg_attr(kani, kani::unwind($unw))]
        #[cfg_attr(not(kani), test)]
        fn $name() {
            $body;
            cover();
        }
    };
}
/// Every input must panic (see shim: must_not_return).
macro_rules! harness_panics {
    ($name:ident, $unw:expr, $body:block) => {
        #[cfg_attr(kani, kani::proof)]
        #[cfg_attr(kani, kani::solver(minisat))]
        #[cfg_attr(kani, kani::unwind($unw))]
        #[cfg_attr(kani, kani::should_panic)]
        #[cfg_attr(not(kani), test)]
        #[cfg_attr(not(kani), should_panic)]
        fn $name() {
            cover();
            $body;
            must_not_return();
        }
    };
}

/// full-width symbolic words / palette words (for * / %: few symbolic bits per word)
fn full3() -> [Word; 3] {
    any()
}
fn pal() -> Word {
    match any::<u8>() & 3 {
        0 => 0,
        1 => 1,
        2 => 1 << 63,
        _ => Word::MAX,
    }
}
fn pal3() -> [Word; 3] {
    [pal(), pal(), pal()]
}
/// value order of two 3-word numbers (absent words must be zero)
fn ge3(a: &[Word; 3], b: &[Word; 3]) -> bool {
    a[2] > b[2] || (a[2] == b[2] && (a[1] > b[1] || (a[1] == b[1] && a[0] >= b[0])))
}
/// the words of an operand of class c (words above the class are zero)
fn cls(c: usize, w: [Word; 3]) -> [Word; 3] {
    [w[0], if c >= 2 { w[1] } else { 0 }, if c >= 3 { w[2] } else { 0 }]
}

// ================================================================ UBig: + - & | ^ (full-width words)
macro_rules! ubig_binop {
    ($op:tt, $opa:tt; $($name:ident = ($ca:expr, $cb:expr, $which:ident)),* $(,)?) => {$(
        harness!($name, 8, {
            let (wa, wb) = (full3(), full3());
            $which!(obs_u, ubig_w($ca, &wa), ubig_w($cb, &wb), $op, $opa);
        });
    )*};
}
macro_rules! fv {
    ($obs:ident, $A:expr, $B:expr, $op:tt, $opa:tt) => {
        forms_val!($obs, $A, $B, $op)
    };
}
ubig_binop!(+, +=; vk_int_forms_ubig_add_1_1 = (1, 1, forms_all), vk_int_forms_ubig_add_2_2_val = (2, 2, fv),
    vk_int_forms_ubig_add_2_2_assign = (2, 2, forms_assign), vk_int_forms_ubig_add_3_2 = (3, 2, forms_all),
    vk_int_forms_ubig_add_1_3 = (1, 3, forms_all), vk_int_forms_ubig_add_3_3 = (3, 3, forms_all));
ubig_binop!(&, &=; vk_int_forms_ubig_and_2_2_val = (2, 2, fv), vk_int_forms_ubig_and_2_2_assign = (2, 2, forms_assign),
    vk_int_forms_ubig_and_3_2 = (3, 2, forms_all), vk_int_forms_ubig_and_3_3 = (3, 3, forms_all));
ubig_binop!(|, |=; vk_int_forms_ubig_or_2_2_val = (2, 2, fv), vk_int_forms_ubig_or_2_2_assign = (2, 2, forms_assign),
    vk_int_forms_ubig_or_2_3 = (2, 3, forms_all), vk_int_forms_ubig_or_3_3 = (3, 3, forms_all));
ubig_binop!(^, ^=; vk_int_forms_ubig_xor_2_2_val = (2, 2, fv), vk_int_forms_ubig_xor_2_2_assign = (2, 2, forms_assign),
    vk_int_forms_ubig_xor_3_2 = (3, 2, forms_all), vk_int_forms_ubig_xor_3_3 = (3, 3, forms_all));

// subtraction: minuend >= subtrahend (the other region: vk_int_forms_ubig_sub_below_zero_panics)
macro_rules! ubig_sub {
    ($($name:ident = ($ca:expr, $cb:expr, $which:ident)),* $(,)?) => {$(
        harness!($name, 8, {
            let (wa, wb) = (full3(), full3());
            assume(ge3(&cls($ca, wa), &cls($cb, wb)));
            $which!(obs_u, ubig_w($ca, &wa), ubig_w($cb, &wb), -, -=);
        });
    )*};
}
ubig_sub!(vk_int_forms_ubig_sub_1_1 = (1, 1, forms_all), vk_int_forms_ubig_sub_2_2_val = (2, 2, fv),
    vk_int_forms_ubig_sub_2_2_assign = (2, 2, forms_assign), vk_int_forms_ubig_sub_3_2 = (3, 2, forms_all),
    vk_int_forms_ubig_sub_3_3 = (3, 3, forms_all));

// unsigned subtraction below zero: EVERY form panics (k selects the form; must_not_return after it)
harness_panics!(vk_int_forms_ubig_sub_below_zero_panics, 8, {
    let (wa, wb) = (full3(), full3());
    let k: u8 = any();
    // a has one word, b has one or two: a < b
    let cb = if any::<bool>() { 2 } else { 1 };
    assume(!ge3(&cls(1, wa), &cls(cb, wb)));
    let (a, b) = (ubig_w(1, &wa), ubig_w(cb, &wb));
    match k {
        0 => {
            let _ = a - b;
        }
        1 => {
            let _ = a - &b;
        }
        2 => {
            let _ = &a - b;
        }
        3 => {
            let _ = &a - &b;
        }
        4 => {
            let mut x = a;
            x -= b;
        }
        _ => {
            let mut x = a;
            x -= &b;
        }
    }
});

// ================================================================ UBig: << >>
// shl: the result length (allocation size) depends on the amount, so the amount is a literal per instance
// (suffix _nK); shr: fully symbolic amount < 130.
macro_rules! ubig_shift {
    ($op:tt, $opa:tt; $($name:ident = ($ca:expr, $n:expr)),* $(,)?) => {$(
        harness!($name, 8, {
            let wa = full3();
            let n: usize = $n;
            let r = ob!(obs_u, &ubig_w($ca, &wa) $op n);
            assert!(same(ob!(obs_u, ubig_w($ca, &wa) $op n), r));
            assert!(same(ob!(obs_u, ubig_w($ca, &wa) $op &n), r));
            assert!(same(ob!(obs_u, &ubig_w($ca, &wa) $op &n), r));
            let mut x = ubig_w($ca, &wa);
            x $opa n;
            assert!(same(ob!(obs_u, x), r));
            let mut y = ubig_w($ca, &wa);
            y $opa &n;
            assert!(same(ob!(obs_u, y), r));
        });
    )*};
}
fn shift_any() -> usize {
    let n: usize = any();
    assume(n < 130);
    n
}
ubig_shift!(<<, <<=; vk_int_forms_ubig_shl_1_n0 = (1, 0), vk_int_forms_ubig_shl_1_n1 = (1, 1), vk_int_forms_ubig_shl_1_n63 = (1, 63), vk_int_forms_ubig_shl_1_n64 = (1, 64), vk_int_forms_ubig_shl_1_n129 = (1, 129), vk_int_forms_ubig_shl_2_n1 = (2, 1), vk_int_forms_ubig_shl_2_n63 = (2, 63), vk_int_forms_ubig_shl_2_n64 = (2, 64), vk_int_forms_ubig_shl_2_n129 = (2, 129), vk_int_forms_ubig_shl_3_n0 = (3, 0), vk_int_forms_ubig_shl_3_n63 = (3, 63), vk_int_forms_ubig_shl_3_n64 = (3, 64), vk_int_forms_ubig_shl_3_n65 = (3, 65), vk_int_forms_ubig_shl_3_n129 = (3, 129));
ubig_shift!(>>, >>=; vk_int_forms_ubig_shr_1 = (1, shift_any()), vk_int_forms_ubig_shr_2 = (2, shift_any()),
    vk_int_forms_ubig_shr_3_n65 = (3, 65));

// ================================================================ UBig: * / % div_rem (palette words)
macro_rules! ubig_mul {
    ($($name:ident = ($ca:expr, $cb:expr, $which:ident)),* $(,)?) => {$(
        harness!($name, 8, {
            let (wa, wb) = (pal3(), pal3());
            $which!(obs_u, ubig_w($ca, &wa), ubig_w($cb, &wb), *, *=);
        });
    )*};
}
ubig_mul!(vk_int_forms_ubig_mul_1_1 = (1, 1, forms_all), vk_int_forms_ubig_mul_2_2_val = (2, 2, fv),
    vk_int_forms_ubig_mul_2_2_assign = (2, 2, forms_assign));

macro_rules! ubig_div {
    ($op:tt, $opa:tt; $($name:ident = ($ca:expr, $cb:expr, $which:ident)),* $(,)?) => {$(
        harness!($name, 8, {
            let (wa, wb) = (pal3(), pal3());
            assume($cb > 1 || wb[0] != 0); // divisor != 0 (the other region: vk_int_forms_ubig_div_zero_panics)
            $which!(obs_u, ubig_w($ca, &wa), ubig_w($cb, &wb), $op, $opa);
        });
    )*};
}
ubig_div!(/, /=; vk_int_forms_ubig_div_2_1 = (2, 1, forms_all), vk_int_forms_ubig_div_2_2_val = (2, 2, fv),
    vk_int_forms_ubig_div_2_2_assign = (2, 2, forms_assign), vk_int_forms_ubig_div_3_1 = (3, 1, forms_all));
ubig_div!(%, %=; vk_int_forms_ubig_rem_2_1 = (2, 1, forms_all), vk_int_forms_ubig_rem_2_2_val = (2, 2, fv),
    vk_int_forms_ubig_rem_2_2_assign = (2, 2, forms_assign), vk_int_forms_ubig_rem_3_1 = (3, 1, forms_all), vk_int_forms_ubig_rem_3_3 = (3, 3, forms_all));

// (3-word / 2- or 3-word operands, i.e. the Knuth division path, do not finish even with palette words: only
// rem_3_3 is kept, in the thorough tier)
// div_rem in every form == (/, %); div_rem_assign leaves the quotient and returns the remainder
macro_rules! ubig_div_rem {
    ($($name:ident = ($ca:expr, $cb:expr)),* $(,)?) => {$(
        harness!($name, 8, {
            let (wa, wb) = (pal3(), pal3());
            assume($cb > 1 || wb[0] != 0);
            let q = ob!(obs_u, &ubig_w($ca, &wa) / &ubig_w($cb, &wb));
            let r = ob!(obs_u, &ubig_w($ca, &wa) % &ubig_w($cb, &wb));
            let k: u8 = any();
            let (q1, r1) = match k {
                0 => (&ubig_w($ca, &wa)).div_rem(&ubig_w($cb, &wb)),
                1 => ubig_w($ca, &wa).div_rem(ubig_w($cb, &wb)),
                2 => ubig_w($ca, &wa).div_rem(&ubig_w($cb, &wb)),
                3 => (&ubig_w($ca, &wa)).div_rem(ubig_w($cb, &wb)),
                4 => {
                    let mut x = ubig_w($ca, &wa);
                    let r = x.div_rem_assign(ubig_w($cb, &wb));
                    (x, r)
                }
                _ => {
                    let mut x = ubig_w($ca, &wa);
                    let r = x.div_rem_assign(&ubig_w($cb, &wb));
                    (x, r)
                }
            };
            assert!(same(ob!(obs_u, q1), q));
            assert!(same(ob!(obs_u, r1), r));
        });
    )*};
}
ubig_div_rem!(vk_int_forms_ubig_div_rem_2_1 = (2, 1), vk_int_forms_ubig_div_rem_2_2 = (2, 2));

// division by zero: EVERY form of / % div_rem panics
harness_panics!(vk_int_forms_ubig_div_zero_panics, 8, {
    let wa = pal3();
    let k: u8 = any();
    let ca = if any::<bool>() { 3 } else { 1 };
    let a = ubig_w(ca, &wa);
    let z = ubig_w(1, &[0, 0, 0]);
    match k {
        0 => {
            let _ = a / z;
        }
        1 => {
            let _ = a / &z;
        }
        2 => {
            let _ = &a / z;
        }
        3 => {
            let _ = &a / &z;
        }
        4 => {
            let mut x = a;
            x /= z;
        }
        5 => {
            let _ = a % z;
        }
        6 => {
            let _ = a % &z;
        }
        7 => {
            let _ = &a % z;
        }
        8 => {
            let _ = &a % &z;
        }
        9 => {
            let mut x = a;
            x %= &z;
        }
        10 => {
            let _ = a.div_rem(z);
        }
        11 => {
            let _ = (&a).div_rem(&z);
        }
        12 => {
            let mut x = a;
            let _ = x.div_rem_assign(z);
        }
        13 => {
            let _ = a / 0u8;
        }
        14 => {
            let _ = &a % 0u64;
        }
        _ => {
            let _ = a.div_rem(0u8);
        }
    }
});

// ================================================================ UBig with a primitive operand == the UBig form
// Every primitive form converts the primitive with `UBig::from`, whose inline capacity is a computed value for
// CBMC (see repr_of); forms whose multi-word branch then copies a buffer of unknown length (+, *, /, % with a
// primitive: 24 GB / > 15 min per harness) are NOT covered; -, |, & with a primitive are.
macro_rules! ubig_prim {
    ($t:ty, $op:tt, $opa:tt, $words:ident, $pre:expr; $($name:ident = $ca:expr),* $(,)?) => {$(
        harness!($name, 8, {
            let wa = $words();
            let p: $t = any();
            let pre: fn(&[Word; 3], $t) -> bool = $pre;
            assume(pre(&cls($ca, wa), p));
            let r = ob!(obs_u, &ubig_w($ca, &wa) $op &UBig::from(p));
            match any::<u8>() {
                0 => assert!(same(ob!(obs_u, ubig_w($ca, &wa) $op p), r)),
                1 => assert!(same(ob!(obs_u, &ubig_w($ca, &wa) $op p), r)),
                2 => assert!(same(ob!(obs_u, ubig_w($ca, &wa) $op &p), r)),
                3 => assert!(same(ob!(obs_u, &ubig_w($ca, &wa) $op &p), r)),
                4 => {
                    let mut x = ubig_w($ca, &wa);
                    x $opa p;
                    assert!(same(ob!(obs_u, x), r));
                }
                _ => {
                    let mut y = ubig_w($ca, &wa);
                    y $opa &p;
                    assert!(same(ob!(obs_u, y), r));
                }
            }
        });
    )*};
}
ubig_prim!(u8, -, -=, full3, |w, p| w[1] != 0 || w[2] != 0 || w[0] >= p as Word; vk_int_forms_ubig_sub_u8_1 = 1,
    vk_int_forms_ubig_sub_u8_3 = 3);
ubig_prim!(u8, |, |=, full3, |_, _| true; vk_int_forms_ubig_or_u8_2 = 2);

// & with a primitive returns the primitive
harness!(vk_int_forms_ubig_and_u8_2, 8, {
    let wa = full3();
    let p: u8 = any();
    let m = ob!(obs_u, &ubig_w(2, &wa) & &UBig::from(p));
    let m1: u8 = ubig_w(2, &wa) & p;
    let m2: u8 = p & &ubig_w(2, &wa);
    assert!(m1 == m2 && same(ob!(obs_u, UBig::from(m1)), m));
});

// ================================================================ IBig
// Signs are CONCRETE per harness instance (suffix p = non-negative, n = negative): |capacity| of an inline value
// with symbolic sign is not a constant for CBMC, and a symbolic pair of signs multiplies the work by four.
macro_rules! ibig_binop {
    ($op:tt, $opa:tt, $words:ident, $pre:expr; $($name:ident = ($ca:expr, $na:expr, $cb:expr, $nb:expr, $which:ident)),* $(,)?) => {$(
        harness!($name, 8, {
            let (wa, wb) = ($words(), $words());
            let pre: fn(usize, &[Word; 3]) -> bool = $pre;
            assume(pre($cb, &wb));
            assume(!($na && $ca == 1 && wa[0] == 0) && !($nb && $cb == 1 && wb[0] == 0));
            $which!(obs_i, ibig_w($ca, $na, &wa), ibig_w($cb, $nb, &wb), $op, $opa);
        });
    )*};
}
ibig_binop!(+, +=, full3, |_, _| true;
    vk_int_forms_ibig_add_1p_1n = (1, false, 1, true, forms_all), vk_int_forms_ibig_add_1n_1n = (1, true, 1, true, fv),
    vk_int_forms_ibig_add_2n_2p = (2, true, 2, false, fv), vk_int_forms_ibig_add_3n_2p = (3, true, 2, false, forms_all), vk_int_forms_ibig_add_3n_3n = (3, true, 3, true, fv));
ibig_binop!(-, -=, full3, |_, _| true;
    vk_int_forms_ibig_sub_1p_1p = (1, false, 1, false, forms_all), vk_int_forms_ibig_sub_1n_1p = (1, true, 1, false, fv),
    vk_int_forms_ibig_sub_2n_2n = (2, true, 2, true, fv), vk_int_forms_ibig_sub_2p_3p = (2, false, 3, false, forms_all));
ibig_binop!(&, &=, full3, |_, _| true;
    vk_int_forms_ibig_and_1n_1p = (1, true, 1, false, forms_all), vk_int_forms_ibig_and_3p_2n = (3, false, 2, true, fv));
ibig_binop!(*, *=, pal3, |_, _| true;
    vk_int_forms_ibig_mul_1n_1p = (1, true, 1, false, forms_all), vk_int_forms_ibig_mul_2n_2n = (2, true, 2, true, fv));
ibig_binop!(/, /=, pal3, |c, w| c > 1 || w[0] != 0;
    vk_int_forms_ibig_div_2n_1p = (2, true, 1, false, forms_all), vk_int_forms_ibig_div_2p_2n = (2, false, 2, true, fv),
    vk_int_forms_ibig_div_3n_1n = (3, true, 1, true, fv));
ibig_binop!(%, %=, pal3, |c, w| c > 1 || w[0] != 0;
    vk_int_forms_ibig_rem_2n_1p = (2, true, 1, false, forms_all), vk_int_forms_ibig_rem_2n_2n = (2, true, 2, true, fv),
    vk_int_forms_ibig_rem_3n_1p = (3, true, 1, false, fv));

macro_rules! ibig_div_rem {
    ($($name:ident = ($ca:expr, $na:expr, $cb:expr, $nb:expr)),* $(,)?) => {$(
        harness!($name, 8, {
            let (wa, wb) = (pal3(), pal3());
            assume($cb > 1 || wb[0] != 0);
            assume(!($na && $ca == 1 && wa[0] == 0));
            let q = ob!(obs_i, &ibig_w($ca, $na, &wa) / &ibig_w($cb, $nb, &wb));
            let r = ob!(obs_i, &ibig_w($ca, $na, &wa) % &ibig_w($cb, $nb, &wb));
            let k: u8 = any();
            let (q1, r1) = match k {
                0 => (&ibig_w($ca, $na, &wa)).div_rem(&ibig_w($cb, $nb, &wb)),
                1 => ibig_w($ca, $na, &wa).div_rem(ibig_w($cb, $nb, &wb)),
                2 => ibig_w($ca, $na, &wa).div_rem(&ibig_w($cb, $nb, &wb)),
                3 => (&ibig_w($ca, $na, &wa)).div_rem(ibig_w($cb, $nb, &wb)),
                _ => {
                    let mut x = ibig_w($ca, $na, &wa);
                    let r = x.div_rem_assign(&ibig_w($cb, $nb, &wb));
                    (x, r)
                }
            };
            assert!(same(ob!(obs_i, q1), q));
            assert!(same(ob!(obs_i, r1), r));
        });
    )*};
}
ibig_div_rem!(vk_int_forms_ibig_div_rem_2n_1p = (2, true, 1, false), vk_int_forms_ibig_div_rem_2p_2n = (2, false, 2, true));

macro_rules! ibig_shift {
    ($op:tt, $opa:tt; $($name:ident = ($ca:expr, $na:expr, $n:expr)),* $(,)?) => {$(
        harness!($name, 8, {
            let wa = full3();
            let n: usize = $n;
            assume(!($na && $ca == 1 && wa[0] == 0));
            let r = ob!(obs_i, &ibig_w($ca, $na, &wa) $op n);
            assert!(same(ob!(obs_i, ibig_w($ca, $na, &wa) $op n), r));
            assert!(same(ob!(obs_i, ibig_w($ca, $na, &wa) $op &n), r));
            assert!(same(ob!(obs_i, &ibig_w($ca, $na, &wa) $op &n), r));
            let mut x = ibig_w($ca, $na, &wa);
            x $opa n;
            assert!(same(ob!(obs_i, x), r));
            let mut y = ibig_w($ca, $na, &wa);
            y $opa &n;
            assert!(same(ob!(obs_i, y), r));
        });
    )*};
}
ibig_shift!(<<, <<=; vk_int_forms_ibig_shl_1n_n1 = (1, true, 1), vk_int_forms_ibig_shl_1n_n64 = (1, true, 64),
    vk_int_forms_ibig_shl_2n_n65 = (2, true, 65), vk_int_forms_ibig_shl_3n_n1 = (3, true, 1),
    vk_int_forms_ibig_shl_3n_n64 = (3, true, 64), vk_int_forms_ibig_shl_3p_n129 = (3, false, 129));
// >> of a NEGATIVE IBig goes through `IBig::from(bool)` (computed inline capacity, see repr_of) and does not finish;
// only non-negative values are covered
ibig_shift!(>>, >>=; vk_int_forms_ibig_shr_1p = (1, false, shift_any()), vk_int_forms_ibig_shr_2p = (2, false, shift_any()),
    vk_int_forms_ibig_shr_3p_n65 = (3, false, 65));

// IBig with a (signed / unsigned) primitive operand == the IBig form
macro_rules! ibig_prim {
    ($t:ty, $op:tt, $opa:tt, $words:ident, $pre:expr; $($name:ident = ($ca:expr, $na:expr)),* $(,)?) => {$(
        harness!($name, 8, {
            let wa = $words();
            let p: $t = any();
            let pre: fn($t) -> bool = $pre;
            assume(pre(p));
            assume(!($na && $ca == 1 && wa[0] == 0));
            let r = ob!(obs_i, &ibig_w($ca, $na, &wa) $op &IBig::from(p));
            match any::<u8>() {
                0 => assert!(same(ob!(obs_i, ibig_w($ca, $na, &wa) $op p), r)),
                1 => assert!(same(ob!(obs_i, &ibig_w($ca, $na, &wa) $op p), r)),
                2 => assert!(same(ob!(obs_i, &ibig_w($ca, $na, &wa) $op &p), r)),
                _ => {
                    let mut x = ibig_w($ca, $na, &wa);
                    x $opa p;
                    assert!(same(ob!(obs_i, x), r));
                }
            }
        });
    )*};
}
ibig_prim!(i8, /, /=, pal3, |p| p != 0; vk_int_forms_ibig_div_i8_2n = (2, true));

// `IBig % primitive` returns the primitive (signed primitive: any dividend).  For an unsigned primitive only the
// finding below is kept (the non-negative main harness does not finish, see above).
harness!(vk_int_forms_ibig_rem_i8_2n, 8, {
    let wa = pal3();
    let p: i8 = any();
    assume(p != 0);
    let r1: i8 = ibig_w(2, true, &wa) % p;
    match any::<u8>() {
        0 => {
            let r = ob!(obs_i, &ibig_w(2, true, &wa) % &IBig::from(p));
            assert!(same(ob!(obs_i, IBig::from(r1)), r));
        }
        1 => {
            let r2: i8 = &ibig_w(2, true, &wa) % &p;
            assert!(r1 == r2);
        }
        _ => {
            let (_q3, r3) = ibig_w(2, true, &wa).div_rem(p);
            assert!(r3 == r1);
        }
    }
});
// FINDING: "IBig % u8 does not panic for a non-zero divisor" fails for negative dividends whose remainder is
// non-zero: the macro converts the (negative) IBig remainder with `.try_into().unwrap()`.
harness!(vk_int_forms_finding_ibig_rem_u8_negative, 8, {
    let wa = pal3();
    let p: u8 = any();
    assume(p != 0 && wa[0] != 0);
    let _r: u8 = ibig_w(1, true, &wa) % p;
});
