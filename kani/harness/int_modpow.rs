// Kani harnesses for integer/src/modular/pow.rs: exponentiation in a SINGLE-WORD ring (`single::pow`, `pow_word`,
// `pow_helper`: left-to-right binary method).  BOUNDED stand-in (C13, clause "pow(e)"):
//   * modulus 2^61 - 1 (Mersenne prime, normalisation shift 3), pinned by `assume` (see vk_mp_pinned);
//   * bases from the palette  k  or  m - k  with k < 8 (k < 4 in the quick harness), sign symbolic;
//   * exponent: one word, e < 16 (e < 6 in the quick harness), symbolic.
// The oracle is written from the property statement ("reducing then operating equals operating then reducing", residue
// in [0, m)) in plain integer arithmetic and never calls the ring: for |x| = k < 8 and e < 16, k^e < 2^45 < m is computed
// exactly and the sign (-1)^e applied.
// NOT covered (tried, CBMC out of memory): two-word exponents -- `pow_helper(.., WORD_BITS)` runs 64 squarings through
// num_modular's reciprocal multiplication, and the reciprocal cannot be a compile-time constant (vk_mp_pinned), so
// nothing is constant-folded.  The windowed method of `large::pow` is not covered either.
use super::*;
use crate::arch::word::DoubleWord;
include!("/verif/kani/harness/shim.rs");

const VK_MP_M61: Word = (1 << 61) - 1;

/// The modulus is pinned through `assume` instead of being a compile-time constant: CBMC 6.11 crashes (SIGFPE in its
/// constant folder, probed) on num_modular's reciprocal `u128::MAX / d` with a literal d.
fn vk_mp_pinned(m: Word) -> Word {
    let v: Word = any();
    assume(v == m);
    v
}

fn vk_mp_elem(ring: &ConstSingleDivisor, x: Word) -> ReducedWord {
    ReducedWord(ring.rem_word(x))
}

/// k^e for k < 8, e < 16 (exact: below 2^45)
fn vk_mp_small_pow(k: Word, e: Word) -> Word {
    let mut acc: Word = 1;
    let mut i: Word = 0;
    while i < 15 {
        if i < e {
            acc *= k;
        }
        i += 1;
    }
    acc
}

#[cfg_attr(kani, kani::proof)]
#[cfg_attr(kani, kani::unwind(17))]
#[cfg_attr(not(kani), test)]
fn vk_modpow_single_word_exp() {
    let m = vk_mp_pinned(VK_MP_M61);
    let ring = ConstSingleDivisor::new(m);
    let k: Word = any();
    let neg: bool = any();
    let e: Word = any();
    assume(k < 8 && e < 16);
    let x = if neg && k != 0 { m - k } else { k };
    let got = single::pow(&ring, vk_mp_elem(&ring, x), &UBig::from_word(e)).residue(&ring);
    // oracle: (+-k)^e mod m
    let mag = vk_mp_small_pow(k, e);
    let want = if neg && k != 0 && e % 2 == 1 { m - mag } else { mag };
    assert!(got < m);
    assert!(got == want);
    cover();
}

/// the same contract on a smaller palette (quick tier)
#[cfg_attr(kani, kani::proof)]
#[cfg_attr(kani, kani::unwind(17))]
#[cfg_attr(not(kani), test)]
fn vk_modpow_single_word_exp_small() {
    let m = vk_mp_pinned(VK_MP_M61);
    let ring = ConstSingleDivisor::new(m);
    let k: Word = any();
    let neg: bool = any();
    let e: Word = any();
    assume(k < 4 && e < 6);
    let x = if neg && k != 0 { m - k } else { k };
    let got = single::pow(&ring, vk_mp_elem(&ring, x), &UBig::from_word(e)).residue(&ring);
    let mag = vk_mp_small_pow(k, e);
    let want = if neg && k != 0 && e % 2 == 1 { m - mag } else { mag };
    assert!(got < m);
    assert!(got == want);
    cover();
}
