// Kani harnesses for integer/src/bits.rs: "are any of the low n bits set" (used by the floor correction of
// `IBig >> n` and by the float conversions).
// `are_dword_low_bits_nonzero` / `are_slice_low_bits_nonzero` are private to `mod repr`; they are reached through
// the (inline, dispatch-only) public method `TypedReprRef::are_low_bits_nonzero`, which calls them directly.
// Oracle (C09): the number written in binary; bit i of a little-endian word sequence is bit (i % WORD_BITS) of
// word (i / WORD_BITS); "low n bits non-zero" = some bit position i < n holds a 1.
use super::*;
include!("/verif/kani/harness/shim.rs");
use crate::{arch::word::DoubleWord, primitive::WORD_BITS_USIZE, repr::TypedReprRef};

#[cfg_attr(kani, kani::proof)]
#[cfg_attr(kani, kani::unwind(130))]
#[cfg_attr(not(kani), test)]
fn vk_bits_dword_low_bits() {
    let dword: DoubleWord = any();
    let n: usize = any();
    let got = TypedReprRef::RefSmall(dword).are_low_bits_nonzero(n);
    let mut want = false;
    let mut i: usize = 0;
    while i < 128 {
        if i < n && (dword >> i) & 1 == 1 {
            want = true;
        }
        i += 1;
    }
    assert!(got == want);
    cover();
}

fn vk_bits_slice_low_bits_check<const N: usize>() {
    let words: [Word; N] = any();
    let n: usize = any();
    // representation invariant of a heap value: the top word is non-zero
    assume(words[N - 1] != 0);
    let got = TypedReprRef::RefLarge(&words).are_low_bits_nonzero(n);
    let mut want = false;
    let mut i: usize = 0;
    while i < N * WORD_BITS_USIZE {
        if i < n && (words[i / WORD_BITS_USIZE] >> (i % WORD_BITS_USIZE)) & 1 == 1 {
            want = true;
        }
        i += 1;
    }
    assert!(got == want);
    cover();
}

#[cfg_attr(kani, kani::proof)]
#[cfg_attr(kani, kani::unwind(66))]
#[cfg_attr(not(kani), test)]
fn vk_bits_slice_low_bits_len1() {
    vk_bits_slice_low_bits_check::<1>();
}

#[cfg_attr(kani, kani::proof)]
#[cfg_attr(kani, kani::unwind(130))]
#[cfg_attr(not(kani), test)]
fn vk_bits_slice_low_bits_len2() {
    vk_bits_slice_low_bits_check::<2>();
}

#[cfg_attr(kani, kani::proof)]
#[cfg_attr(kani, kani::unwind(194))]
#[cfg_attr(not(kani), test)]
fn vk_bits_slice_low_bits_len3() {
    vk_bits_slice_low_bits_check::<3>();
}
