// Kani harnesses for integer/src/shift.rs: the raw-pointer kernel `shr_in_place_one_word`
// (bounded: slice lengths 1..=4, all word values; includes Kani's pointer/memory-safety checks).
// Meaning (C09): `>> WORD_BITS` is floor division by B = 2^WORD_BITS; the remainder (the lowest word) is
// returned:   value(final) * B + ret == value(old)   and the length is unchanged.
// This is the contract the Verus unit int_shift assumes for this function.
use super::*;
include!("/verif/kani/harness/shim.rs");

/// value of up to 5 little-endian words as three 128-bit limbs (lo, mid, hi); plain positional arithmetic
fn vk_shift_value5(d: &[Word; 5]) -> (u128, u128, u128) {
    let lo = (d[0] as u128) + ((d[1] as u128) << WORD_BITS);
    let mid = (d[2] as u128) + ((d[3] as u128) << WORD_BITS);
    (lo, mid, d[4] as u128)
}

fn vk_shift_one_word_check<const N: usize>() {
    let mut a: [Word; N] = any();
    let old = a;
    let ret = shr_in_place_one_word(&mut a);
    // lhs = value(final) * B + ret : multiplying by B moves every word one position up
    let mut lhs = [0 as Word; 5];
    lhs[0] = ret;
    let mut i = 0;
    while i < N {
        lhs[i + 1] = a[i];
        i += 1;
    }
    // rhs = value(old)
    let mut rhs = [0 as Word; 5];
    let mut i = 0;
    while i < N {
        rhs[i] = old[i];
        i += 1;
    }
    assert!(vk_shift_value5(&lhs) == vk_shift_value5(&rhs));
    // floor division by B, stated directly for the sizes that fit a u128
    if N == 1 {
        assert!(a[0] == 0 && ret == old[0]);
    }
    if N == 2 {
        let v = (old[0] as u128) + ((old[1] as u128) << WORD_BITS);
        let q = v >> WORD_BITS; // v / 2^WORD_BITS
        assert!((a[0] as u128) + ((a[1] as u128) << WORD_BITS) == q);
        assert!(ret as u128 == v - (q << WORD_BITS));
    }
    cover();
}

#[cfg_attr(kani, kani::proof)]
#[cfg_attr(not(kani), test)]
fn vk_shift_one_word_len1() {
    vk_shift_one_word_check::<1>();
}

#[cfg_attr(kani, kani::proof)]
#[cfg_attr(not(kani), test)]
fn vk_shift_one_word_len2() {
    vk_shift_one_word_check::<2>();
}

#[cfg_attr(kani, kani::proof)]
#[cfg_attr(not(kani), test)]
fn vk_shift_one_word_len3() {
    vk_shift_one_word_check::<3>();
}

#[cfg_attr(kani, kani::proof)]
#[cfg_attr(not(kani), test)]
fn vk_shift_one_word_len4() {
    vk_shift_one_word_check::<4>();
}
