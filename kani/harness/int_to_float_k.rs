// Kani harnesses for integer/src/convert.rs: integer -> f32/f64 for HEAP magnitudes (`UBig::to_f32/to_f64`,
// `IBig::to_f32/to_f64` -> `TypedReprRef::to_f32/to_f64` -> `to_f32_nontrivial` / `to_f64_nontrivial`).
// Bounded companion (on the real code) of the Verus unit for the same functions; the inline (<= 2 words) magnitudes
// are covered completely by the group int_convert_small.
//
// Oracle (C06): "the result is the IEEE-754 round-to-nearest, ties-to-even float of the integer, `Exact` iff the
// integer is representable, otherwise `Inexact(sign of result - integer)`."  Written from the statement on the words
// of the magnitude x = sum w[i] * 2^(64 i), top word non-zero, n = bit length (2^(n-1) <= x < 2^n, n >= 129):
//   f64:  q = n - 53;  t = floor(x / 2^q)  (the 53 leading bits, 2^52 <= t < 2^53);  r = bit q-1 of x (x is at or above the
//         midpoint between t 2^q and (t+1) 2^q);  s = "some bit below q-1 is set" (x is not exactly at t 2^q / the midpoint).
//         x is representable iff r = 0 and s = 0.  RNE picks (t+1) 2^q iff r and (s or t odd), else t 2^q.  If t+1 = 2^53
//         the result is 2^n (next binade, fraction 0).  The biased exponent of a value in [2^k, 2^(k+1)) is k + 1023, the
//         fraction field is the significand without its leading bit (k = 1024, reachable only with 16 words: +inf).
//         result - x > 0 iff rounded up.  For a negative IBig the float is the negated one and the error sign flips.
//   f32:  x >= 2^128 > f32::MAX + ulp/2 = 2^128 - 2^103, so the result is +inf, Inexact, result - x > 0 (mirrored for negatives).
//   n > 1024 (f64): x >= 2^1024 > f64::MAX + ulp/2: +inf, Inexact, Positive.
// No float arithmetic and no `as f64` in the oracle: the expected *bit pattern* is assembled and compared with `to_bits()`.
use super::*;
include!("/verif/kani/harness/shim.rs");

/// 64 bits of the little-endian number `w` starting at bit position `pos` (bits beyond the top word read as 0).
fn vk_itf_window<const N: usize>(w: &[Word; N], pos: usize) -> u64 {
    let idx = pos / 64;
    let sh = (pos % 64) as u32;
    let lo = if idx < N { w[idx] } else { 0 };
    let hi = if idx + 1 < N { w[idx + 1] } else { 0 };
    if sh == 0 {
        lo
    } else {
        (lo >> sh) | (hi << (64 - sh))
    }
}

/// "some bit of `w` at a position < pos is set"
fn vk_itf_any_below<const N: usize>(w: &[Word; N], pos: usize) -> bool {
    let mut found = false;
    let mut i = 0;
    while i < N {
        let base = i * 64;
        if base + 64 <= pos {
            if w[i] != 0 {
                found = true;
            }
        } else if base < pos {
            // 0 < pos - base < 64
            if w[i] & ((1u64 << (pos - base)) - 1) != 0 {
                found = true;
            }
        }
        i += 1;
    }
    found
}

/// Expected (bit pattern, exact, result - x > 0) of the RNE conversion of the N-word magnitude `w` (top word non-zero,
/// 2 <= N <= 16, i.e. x < 2^1024) to f64.  (N = 16: if rounding carries to 2^1024 the assembled pattern - biased exponent
/// 2047, fraction 0 - is +infinity, which is what RNE prescribes from the midpoint 2^1024 - 2^970 upwards.)
fn vk_itf_expect64<const N: usize>(w: &[Word; N]) -> (u64, bool, bool) {
    let n = N * 64 - w[N - 1].leading_zeros() as usize; // bit length
    let q = n - 53; // >= 12 for N >= 2
    let t = vk_itf_window(w, q) & ((1u64 << 53) - 1); // floor(x / 2^q): the window's upper 11 bits are above bit n-1 .. masked
    let r = vk_itf_window(w, q - 1) & 1 == 1;
    let s = vk_itf_any_below(w, q - 1);
    let up = r && (s || t & 1 == 1);
    let mut m = t + up as u64;
    let mut k = (n - 1) as u64; // result in [2^k, 2^(k+1))
    if m == 1u64 << 53 {
        m = 1u64 << 52;
        k += 1;
    }
    let bits = ((k + 1023) << 52) | (m & ((1u64 << 52) - 1));
    (bits, !r && !s, up)
}

fn vk_itf_flat32(r: Approximation<f32, Sign>) -> (u32, bool, bool) {
    match r {
        Exact(f) => (f.to_bits(), true, false),
        Inexact(f, s) => (f.to_bits(), false, s == Sign::Positive),
    }
}

fn vk_itf_flat64(r: Approximation<f64, Sign>) -> (u64, bool, bool) {
    match r {
        Exact(f) => (f.to_bits(), true, false),
        Inexact(f, s) => (f.to_bits(), false, s == Sign::Positive),
    }
}

/// (got bits, got exact, got err_pos) against the expectation for the magnitude, mirrored for a negative number
fn vk_itf_check64(got: (u64, bool, bool), want: (u64, bool, bool), neg: bool) {
    let (bits, exact, pos) = got;
    let (wbits, wexact, wup) = want;
    assert!(bits == if neg { wbits | (1u64 << 63) } else { wbits });
    assert!(exact == wexact);
    if !wexact {
        assert!(pos == (wup != neg));
    }
}

const VK_ITF_INF32: u32 = 0x7f80_0000;
const VK_ITF_INF64: u64 = 0x7ff0_0000_0000_0000;

// ---- how the magnitudes are built ---------------------------------------------------------------------------------
// `to_f*_nontrivial` computes `self >> (bit_len - 63)`; the number of words that survive this shift depends on the
// leading-zero count of the top word.  With a symbolic top word that count is symbolic and CBMC has to encode the
// (in fact unreachable) heap arm of `shr_large_ref` with a symbolic allocation size / symbolic memcpy, which does not
// terminate in reasonable time (probed: > 6 min / out of memory even for to_f32, where the shift is never executed).
// A symbolic sign has the same effect (the sign lives in the capacity field that drives the inline/heap dispatch and
// the deallocation size: > 20 GB).  So the TOP word and the sign of every value are concrete - swept over a palette
// that covers every leading-zero count - and all lower words are fully symbolic 64-bit values shared by the sweep.
// Symbolic execution costs ~1 s per concrete top word, which is why the sweeps are cut into slices of 16.
//
// Top-word palettes (k = 0..=63 is the position of the leading one):
//   POW2  2^k                   the smallest top word of that length
//   ONES  2^(k+1) - 1           all ones: with an all-ones middle word rounding carries into the next binade
//   TIE   k >= 53 (f64: the round bit lies inside the top word):
//         2^k + 2^(k-53)        round bit = lowest set bit of the top word (tie iff the lower words are zero; even)
//         2^k + 3 * 2^(k-53)    the same with an odd 53-bit significand (the tie rounds up)
//   FIXED six patterns: alternating bits (2), 2^63 + 1, 53 / 54 leading ones, 53 ones with a hole at the round bit
//   SIGNED (IBig harnesses, each with both signs): 1, 2^10, 2^11, 2^52, 2^53 + 1, 2^63, 2^63 + 1, u64::MAX

const VK_ITF_FIXED_TOPS: [Word; 6] = [
    0xAAAA_AAAA_AAAA_AAAA,
    0x5555_5555_5555_5555,
    0x8000_0000_0000_0001,
    0xFFFF_FFFF_FFFF_F800,
    0xFFFF_FFFF_FFFF_FC00,
    0xFFFF_FFFF_FFFF_FBFF,
];

const VK_ITF_SIGNED_TOPS: [Word; 8] = [1, 1 << 10, 1 << 11, 1 << 52, (1 << 53) + 1, 1 << 63, (1 << 63) + 1, Word::MAX];

/// one magnitude (top word concrete, lower words symbolic) through UBig::to_f64 (`neg` = None) or IBig::to_f64
fn vk_itf_case64<const N: usize>(w: [Word; N], neg: Option<bool>) {
    let want = vk_itf_expect64(&w);
    let x = UBig::from_words(&w);
    match neg {
        None => vk_itf_check64(vk_itf_flat64(x.to_f64()), want, false),
        Some(true) => vk_itf_check64(vk_itf_flat64(IBig::from_parts(Sign::Negative, x).to_f64()), want, true),
        Some(false) => vk_itf_check64(vk_itf_flat64(IBig::from_parts(Sign::Positive, x).to_f64()), want, false),
    }
}

/// the same for to_f32: every integer of >= 3 words is >= 2^128 > f32::MAX + half an ulp (= 2^128 - 2^103):
/// infinity, inexact, result - x > 0 (mirrored for negative numbers)
fn vk_itf_case32<const N: usize>(w: [Word; N], neg: Option<bool>) {
    let x = UBig::from_words(&w);
    let ((bits, exact, pos), neg) = match neg {
        None => (vk_itf_flat32(x.to_f32()), false),
        Some(true) => (vk_itf_flat32(IBig::from_parts(Sign::Negative, x).to_f32()), true),
        Some(false) => (vk_itf_flat32(IBig::from_parts(Sign::Positive, x).to_f32()), false),
    };
    assert!(bits == if neg { VK_ITF_INF32 | (1 << 31) } else { VK_ITF_INF32 });
    assert!(!exact && pos == !neg);
}

// ---- 3 words (129..=192 bits), UBig::to_f64 -----------------------------------------------------------------------

macro_rules! vk_itf_ubig_f64_w3_sweep {
    ($($name:ident = ($klo:expr, $khi:expr, $top:expr)),* $(,)?) => {$(
        #[cfg_attr(kani, kani::proof)]
        #[cfg_attr(kani, kani::unwind(20))]
        #[cfg_attr(not(kani), test)]
        fn $name() {
            let (w0, w1): (Word, Word) = (any(), any());
            let f: fn(u32) -> Word = $top;
            let mut k: u32 = $klo;
            while k < $khi {
                vk_itf_case64([w0, w1, f(k)], None);
                k += 1;
            }
            cover();
        }
    )*};
}

vk_itf_ubig_f64_w3_sweep!(
    vk_int_to_float_k_ubig_f64_w3_pow2_a = (0, 16, |k| 1 << k),
    vk_int_to_float_k_ubig_f64_w3_pow2_b = (16, 32, |k| 1 << k),
    vk_int_to_float_k_ubig_f64_w3_pow2_c = (32, 48, |k| 1 << k),
    vk_int_to_float_k_ubig_f64_w3_pow2_d = (48, 64, |k| 1 << k),
    vk_int_to_float_k_ubig_f64_w3_ones_a = (0, 16, |k| Word::MAX >> (63 - k)),
    vk_int_to_float_k_ubig_f64_w3_ones_b = (16, 32, |k| Word::MAX >> (63 - k)),
    vk_int_to_float_k_ubig_f64_w3_ones_c = (32, 48, |k| Word::MAX >> (63 - k)),
    vk_int_to_float_k_ubig_f64_w3_ones_d = (48, 64, |k| Word::MAX >> (63 - k)),
    vk_int_to_float_k_ubig_f64_w3_tie_even = (53, 64, |k| (1 << k) | (1 << (k - 53))),
    vk_int_to_float_k_ubig_f64_w3_tie_odd = (53, 64, |k| (1 << k) | (3 << (k - 53))),
    vk_int_to_float_k_ubig_f64_w3_fixed = (0, 6, |k| VK_ITF_FIXED_TOPS[k as usize]),
);

// ---- 3 words, IBig::to_f64 (both signs) ---------------------------------------------------------------------------

#[cfg_attr(kani, kani::proof)]
#[cfg_attr(kani, kani::unwind(20))]
#[cfg_attr(not(kani), test)]
fn vk_int_to_float_k_ibig_f64_w3() {
    let (w0, w1): (Word, Word) = (any(), any());
    let mut i = 0;
    while i < VK_ITF_SIGNED_TOPS.len() {
        vk_itf_case64([w0, w1, VK_ITF_SIGNED_TOPS[i]], Some(false));
        vk_itf_case64([w0, w1, VK_ITF_SIGNED_TOPS[i]], Some(true));
        i += 1;
    }
    cover();
}

// ---- 3 words, to_f32 -----------------------------------------------------------------------------------------------

#[cfg_attr(kani, kani::proof)]
#[cfg_attr(kani, kani::unwind(30))]
#[cfg_attr(not(kani), test)]
fn vk_int_to_float_k_ubig_f32_w3() {
    let (w0, w1): (Word, Word) = (any(), any());
    let mut k = 0;
    while k < 64 {
        vk_itf_case32([w0, w1, 1 << k], None);
        k += 3; // 0, 3, .., 63
    }
    vk_itf_case32([w0, w1, Word::MAX], None);
    cover();
}

#[cfg_attr(kani, kani::proof)]
#[cfg_attr(kani, kani::unwind(20))]
#[cfg_attr(not(kani), test)]
fn vk_int_to_float_k_ibig_f32_w3() {
    let (w0, w1): (Word, Word) = (any(), any());
    let mut i = 0;
    while i < VK_ITF_SIGNED_TOPS.len() {
        vk_itf_case32([w0, w1, VK_ITF_SIGNED_TOPS[i]], Some(false));
        vk_itf_case32([w0, w1, VK_ITF_SIGNED_TOPS[i]], Some(true));
        i += 1;
    }
    cover();
}

// ---- 4 words (193..=256 bits): three symbolic lower words ---------------------------------------------------------

#[cfg_attr(kani, kani::proof)]
#[cfg_attr(kani, kani::unwind(20))]
#[cfg_attr(not(kani), test)]
fn vk_int_to_float_k_ubig_f64_w4() {
    let (w0, w1, w2): (Word, Word, Word) = (any(), any(), any());
    let mut k = 7;
    while k < 64 {
        vk_itf_case64([w0, w1, w2, 1 << k], None);
        k += 8; // 7, 15, .., 63
    }
    vk_itf_case64([w0, w1, w2, 1], None);
    vk_itf_case64([w0, w1, w2, Word::MAX], None);
    cover();
}

// ---- 16 and 17 words: the top of the f64 range ------------------------------------------------------------------
// (`UBig::from_words` of 16+ symbolic words exhausts CBMC's memory - probed: > 20 GB - so these two go through the
// borrowed representation `TypedReprRef::RefLarge`, which is what `UBig::to_f64` forwards to for a heap value.)

/// 961..=1024 bits: the last finite binades; from 2^1024 - 2^970 (the midpoint above f64::MAX) on, RNE overflows to
/// infinity - the generic expectation yields exactly that (carry into k = 1024: biased exponent 2047, fraction 0).
#[cfg_attr(kani, kani::proof)]
#[cfg_attr(kani, kani::unwind(20))]
#[cfg_attr(not(kani), test)]
fn vk_int_to_float_k_ref_f64_w16() {
    let l: [Word; 15] = any();
    let tops: [Word; 3] = [1, 1 << 63, Word::MAX];
    let mut i = 0;
    while i < 3 {
        let w: [Word; 16] =
            [l[0], l[1], l[2], l[3], l[4], l[5], l[6], l[7], l[8], l[9], l[10], l[11], l[12], l[13], l[14], tops[i]];
        vk_itf_check64(vk_itf_flat64(RefLarge(&w).to_f64()), vk_itf_expect64(&w), false);
        i += 1;
    }
    cover();
}

/// 1025..=1088 bits: x >= 2^1024 > f64::MAX + half an ulp: infinity, inexact, result - x > 0
#[cfg_attr(kani, kani::proof)]
#[cfg_attr(kani, kani::unwind(20))]
#[cfg_attr(not(kani), test)]
fn vk_int_to_float_k_ref_w17_inf() {
    let l: [Word; 16] = any();
    let tops: [Word; 3] = [1, 1 << 63, Word::MAX];
    let mut i = 0;
    while i < 3 {
        let w: [Word; 17] =
            [l[0], l[1], l[2], l[3], l[4], l[5], l[6], l[7], l[8], l[9], l[10], l[11], l[12], l[13], l[14], l[15], tops[i]];
        let (bits, exact, pos) = vk_itf_flat64(RefLarge(&w).to_f64());
        assert!(bits == VK_ITF_INF64 && !exact && pos);
        let (bits, exact, pos) = vk_itf_flat32(RefLarge(&w).to_f32());
        assert!(bits == VK_ITF_INF32 && !exact && pos);
        i += 1;
    }
    cover();
}
