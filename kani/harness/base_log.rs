// Kani harnesses for base/src/math/log.rs, built with `--no-default-features` (the table-driven no_std estimator):
// `log2_fp8`, `ceil_log2_fp8`, `u8/u16/u32/u64::log2_bounds`, and `next_up` / `next_down` (present in every build).
//
// Oracle (C12/C19): the bounds enclose the true logarithm, 2^lb <= x <= 2^ub.  No floating-point logarithm is used:
// the harness derives, with integer arithmetic only, certified enclosures lo[f] <= 2^(f/256) * 2^60 <= hi[f]
// (f = 0..=256) from eight integer square roots of 2 and repeated multiplication, rounding down for lo and up for hi.
// A fixed-point estimate L = 256 k + f then satisfies 2^(L/256) <= n if hi[f] * 2^k <= n * 2^60, and
// n <= 2^(U/256) if n * 2^60 <= lo[f] * 2^k (exact integer comparisons in u128; sufficient conditions, never weaker
// than the property).  The table computation is concrete, so CBMC folds it; natively it is plain arithmetic.
use super::*;
include!("/verif/kani/harness/shim.rs");

const VK_BL_S: u32 = 60;

/// floor(sqrt(v)), bit by bit (64 steps; t < 2^64 so t * t fits u128)
fn vk_bl_isqrt(v: u128) -> u128 {
    let mut r: u128 = 0;
    let mut bit: u128 = 1 << 63;
    while bit != 0 {
        let t = r | bit;
        if t * t <= v {
            r = t;
        }
        bit >>= 1;
    }
    r
}

/// certified enclosures of 2^(2^-i) * 2^S for i = 0..=levels (levels <= 24): (lo[i], hi[i])
fn vk_bl_root_chain(levels: usize) -> ([u128; 25], [u128; 25]) {
    let mut lo = [0u128; 25];
    let mut hi = [0u128; 25];
    lo[0] = 2u128 << VK_BL_S;
    hi[0] = 2u128 << VK_BL_S;
    let mut i = 0;
    while i < levels {
        // sqrt(x * 2^-S) * 2^S = sqrt(x * 2^S): floor is a lower bound, floor + 1 an upper bound
        lo[i + 1] = vk_bl_isqrt(lo[i] << VK_BL_S);
        hi[i + 1] = vk_bl_isqrt(hi[i] << VK_BL_S) + 1;
        i += 1;
    }
    (lo, hi)
}

/// certified enclosures of 2^(f/256) * 2^S for f = 0..=256
fn vk_bl_table() -> ([u128; 257], [u128; 257]) {
    let (rlo, rhi) = vk_bl_root_chain(8);
    let (clo, chi) = (rlo[8], rhi[8]); // 2^(1/256)
    let mut lo = [0u128; 257];
    let mut hi = [0u128; 257];
    lo[0] = 1u128 << VK_BL_S;
    hi[0] = 1u128 << VK_BL_S;
    let mut f = 0;
    while f < 256 {
        lo[f + 1] = (lo[f] * clo) >> VK_BL_S;
        hi[f + 1] = ((hi[f] * chi) >> VK_BL_S) + 1;
        f += 1;
    }
    // self-check of the table: 2^(256/256) = 2 must lie inside the last enclosure, which must be narrow
    assert!(lo[256] <= (2u128 << VK_BL_S) && (2u128 << VK_BL_S) <= hi[256]);
    assert!(hi[256] - lo[256] < 1 << 20);
    (lo, hi)
}

/// sufficient for 2^(l/256) <= v  (v < 2^64, l/256 <= 64)
fn vk_bl_pow2_le(hi: &[u128; 257], l: u32, v: u128) -> bool {
    let (k, f) = (l >> 8, (l & 255) as usize);
    k <= 64 && (hi[f] << k) <= (v << VK_BL_S)
}

/// sufficient for v <= 2^(u/256)  (v < 2^64)
fn vk_bl_le_pow2(lo: &[u128; 257], u: u32, v: u128) -> bool {
    let (k, f) = (u >> 8, (u & 255) as usize);
    k > 64 || (v << VK_BL_S) <= (lo[f] << k)
}

#[cfg_attr(kani, kani::proof)]
#[cfg_attr(not(kani), test)]
#[cfg_attr(kani, kani::unwind(260))]
fn vk_base_log_log2_fp8() {
    let (_lo, hi) = vk_bl_table();
    let n: u16 = any();
    assume(n > 0xff);
    let l = log2_fp8(n);
    assert!(vk_bl_pow2_le(&hi, l as u32, n as u128));
    cover();
}

#[cfg_attr(kani, kani::proof)]
#[cfg_attr(not(kani), test)]
#[cfg_attr(kani, kani::unwind(260))]
fn vk_base_log_ceil_log2_fp8() {
    let (lo, _hi) = vk_bl_table();
    let n: u16 = any();
    assume(n > 0xff && !n.is_power_of_two());
    let u = ceil_log2_fp8(n);
    assert!(vk_bl_le_pow2(&lo, u as u32, n as u128));
    cover();
}

/// value of a finite non-negative f32 times 1024, rounded up / down to an integer (exact integer decoding of the bits)
fn vk_bl_f32_times_1024(x: f32, round_up: bool) -> u64 {
    let bits = x.to_bits();
    assert!(bits >> 31 == 0 && (bits >> 23) & 0xff != 0xff);
    let eb = ((bits >> 23) & 0xff) as i32;
    let m: u64 = if eb == 0 { (bits & 0x7fffff) as u64 } else { ((bits & 0x7fffff) | 0x800000) as u64 };
    let e = (if eb == 0 { 1 } else { eb }) - 150 + 10; // x * 1024 = m * 2^e
    if e >= 0 {
        assert!(e < 30);
        m << e
    } else {
        let d = (-e) as u32;
        if d >= 40 {
            (round_up && m != 0) as u64
        } else {
            let q = m >> d;
            if round_up && (q << d) != m {
                q + 1
            } else {
                q
            }
        }
    }
}

/// 2^lb <= x <= 2^ub, decided on the 1/1024 grid: lb is rounded UP and ub DOWN to a multiple of 1/1024 (which only
/// strengthens the claim), then 2^(L/1024) <= x  <=>  2^(L/256) <= x^4 is compared through the table.
fn vk_bl_bounds_ok(lo: &[u128; 257], hi: &[u128; 257], x: u16, lb: f32, ub: f32) -> bool {
    let l = vk_bl_f32_times_1024(lb, true);
    let u = vk_bl_f32_times_1024(ub, false);
    let x2 = x as u128 * x as u128;
    let x4 = x2 * x2;
    l < (1 << 20) && u < (1 << 20) && vk_bl_pow2_le(hi, l as u32, x4) && vk_bl_le_pow2(lo, u as u32, x4)
}

#[cfg_attr(kani, kani::proof)]
#[cfg_attr(not(kani), test)]
#[cfg_attr(kani, kani::unwind(260))]
fn vk_base_log_log2_bounds_u16() {
    let (lo, hi) = vk_bl_table();
    let x: u16 = any();
    assume(x != 3); // the hard-wired constants for 3 are finer than the 1/1024 grid: see the next harness
    let (lb, ub) = x.log2_bounds();
    if x == 0 {
        assert!(lb == f32::NEG_INFINITY && ub == f32::NEG_INFINITY);
    } else {
        assert!(vk_bl_bounds_ok(&lo, &hi, x, lb, ub));
    }
    cover();
}

#[cfg_attr(kani, kani::proof)]
#[cfg_attr(not(kani), test)]
#[cfg_attr(kani, kani::unwind(260))]
fn vk_base_log_log2_bounds_u8() {
    let (lo, hi) = vk_bl_table();
    let x: u8 = any();
    assume(x != 3);
    let (lb, ub) = x.log2_bounds();
    if x == 0 {
        assert!(lb == f32::NEG_INFINITY && ub == f32::NEG_INFINITY);
    } else {
        assert!(vk_bl_bounds_ok(&lo, &hi, x as u16, lb, ub));
    }
    cover();
}

/// The same claim for the wide types (x < 2^64).  Their bounds are `next_down(L/256 + shift)` / `next_up(U/256 + shift)`;
/// rounding lb UP and ub DOWN to the 1/1024 grid (a strengthening) lands on multiples of 1/256, which are compared with x
/// itself: 2^(l/1024) <= x  <=>  2^((l/4)/256) <= x.  Bounds off the 1/256 grid only occur for x < 2^16 (the u8 paths
/// divide by 2 or 4) and are compared through x^4 as before.
fn vk_bl_bounds_ok_wide(lo: &[u128; 257], hi: &[u128; 257], x: u64, lb: f32, ub: f32) -> bool {
    let l = vk_bl_f32_times_1024(lb, true);
    let u = vk_bl_f32_times_1024(ub, false);
    if l >= (1 << 20) || u >= (1 << 20) {
        return false;
    }
    let small = x <= 0xffff;
    let xs = if small { x as u128 } else { 0 };
    let x4 = (xs * xs) * (xs * xs);
    let low_ok = if l % 4 == 0 {
        vk_bl_pow2_le(hi, (l / 4) as u32, x as u128)
    } else {
        small && vk_bl_pow2_le(hi, l as u32, x4)
    };
    let up_ok = if u % 4 == 0 {
        vk_bl_le_pow2(lo, (u / 4) as u32, x as u128)
    } else {
        small && vk_bl_le_pow2(lo, u as u32, x4)
    };
    low_ok && up_ok
}

// u32 / u64 (impl_log2_bounds_for_uint!): the top 16 bits go through the u16 estimator, the shift is added, and the
// low bits are covered by the ceiling of the top part (+ 1 when the top part is exactly 0x8000).
#[cfg_attr(kani, kani::proof)]
#[cfg_attr(not(kani), test)]
#[cfg_attr(kani, kani::unwind(260))]
fn vk_base_log_log2_bounds_u32() {
    let (lo, hi) = vk_bl_table();
    let x: u32 = any();
    assume(x != 3);
    let (lb, ub) = x.log2_bounds();
    if x == 0 {
        assert!(lb == f32::NEG_INFINITY && ub == f32::NEG_INFINITY);
    } else {
        assert!(vk_bl_bounds_ok_wide(&lo, &hi, x as u64, lb, ub));
    }
    cover();
}

#[cfg_attr(kani, kani::proof)]
#[cfg_attr(not(kani), test)]
#[cfg_attr(kani, kani::unwind(260))]
fn vk_base_log_log2_bounds_u64() {
    let (lo, hi) = vk_bl_table();
    let x: u64 = any();
    assume(x != 3);
    let (lb, ub) = x.log2_bounds();
    if x == 0 {
        assert!(lb == f32::NEG_INFINITY && ub == f32::NEG_INFINITY);
    } else {
        assert!(vk_bl_bounds_ok_wide(&lo, &hi, x, lb, ub));
    }
    cover();
}

/// certified enclosure of 2^(frac / 2^23) * 2^S for a 23-bit fraction: product of the factors 2^(2^-i) of its set bits
fn vk_bl_pow2_frac(frac: u32) -> (u128, u128) {
    let (rlo, rhi) = vk_bl_root_chain(23);
    let mut lo: u128 = 1 << VK_BL_S;
    let mut hi: u128 = 1 << VK_BL_S;
    let mut i = 1;
    while i <= 23 {
        if (frac >> (23 - i)) & 1 == 1 {
            lo = (lo * rlo[i]) >> VK_BL_S;
            hi = ((hi * rhi[i]) >> VK_BL_S) + 1;
        }
        i += 1;
    }
    (lo, hi)
}

// x = 3: (1.5849625, 1.5849626) as f32 are 1 + frac / 2^23; 2^lb = 2 * 2^(frac_lb / 2^23) <= 3 <= 2 * 2^(frac_ub / 2^23)
#[cfg_attr(kani, kani::proof)]
#[cfg_attr(not(kani), test)]
#[cfg_attr(kani, kani::unwind(70))]
fn vk_base_log_log2_bounds_three() {
    let (lb, ub) = 3u8.log2_bounds();
    let (lb16, ub16) = 3u16.log2_bounds();
    assert!(lb.to_bits() == lb16.to_bits() && ub.to_bits() == ub16.to_bits());
    // both in [1, 2): biased exponent 127
    assert!(lb.to_bits() >> 23 == 127 && ub.to_bits() >> 23 == 127);
    let (_, hi_l) = vk_bl_pow2_frac(lb.to_bits() & 0x7fffff);
    let (lo_u, _) = vk_bl_pow2_frac(ub.to_bits() & 0x7fffff);
    assert!(2 * hi_l <= 3u128 << VK_BL_S);
    assert!(3u128 << VK_BL_S <= 2 * lo_u);
    cover();
}

// ---------------------------------------------------------------------------------------------------------------
// next_up / next_down: the neighbouring float.  Floats are ordered by the key sign-magnitude -> integer
// (both zeros map to 0); +-inf are the neighbours of +-MAX.

fn vk_bl_key(bits: u32) -> i64 {
    let mag = (bits & 0x7fff_ffff) as i64;
    if bits >> 31 == 1 {
        -mag
    } else {
        mag
    }
}

#[cfg_attr(kani, kani::proof)]
#[cfg_attr(not(kani), test)]
fn vk_base_log_next_up_down() {
    let bits: u32 = any();
    assume((bits >> 23) & 0xff != 0xff); // finite
    let f = f32::from_bits(bits);
    let up = next_up(f);
    let down = next_down(f);
    assert!(vk_bl_key(up.to_bits()) == vk_bl_key(bits) + 1);
    assert!(vk_bl_key(down.to_bits()) == vk_bl_key(bits) - 1);
    // and in float terms: strictly ordered, never NaN
    assert!(down < f && f < up);
    cover();
}

#[cfg_attr(kani, kani::proof)]
#[cfg_attr(kani, kani::should_panic)]
#[cfg_attr(not(kani), test)]
#[cfg_attr(not(kani), should_panic)]
fn vk_base_log_next_up_nonfinite_panics() {
    let bits: u32 = any();
    assume((bits >> 23) & 0xff == 0xff);
    let _ = next_up(f32::from_bits(bits));
}

#[cfg_attr(kani, kani::proof)]
#[cfg_attr(kani, kani::should_panic)]
#[cfg_attr(not(kani), test)]
#[cfg_attr(not(kani), should_panic)]
fn vk_base_log_next_down_nonfinite_panics() {
    let bits: u32 = any();
    assume((bits >> 23) & 0xff == 0xff);
    let _ = next_down(f32::from_bits(bits));
}
