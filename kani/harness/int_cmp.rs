// Kani harnesses for integer/src/cmp.rs + the PartialEq / Hash impls of Repr (C05): `==` holds exactly when
// the values are equal, `cmp` is the order of the values and is Equal exactly when `==`, equal values feed
// identical data to a Hasher.  Bounded: magnitudes of at most 3 words (4 for TypedReprRef), full 64-bit
// symbolic words (comparisons only).  The oracle compares the VALUES (all words, top down, absent words = 0).
use super::*;
use crate::{buffer::Buffer, repr::Repr, Sign};
use core::hash::{Hash, Hasher};
include!("/verif/kani/harness/shim.rs");

const NW: usize = 4;

/// Order of the values sum w[i] * 2^(64 i): explicit top-down comparison of all NW words.
fn ord_val(a: &[Word; NW], b: &[Word; NW]) -> Ordering {
    let mut r = Ordering::Equal;
    let mut i = 0;
    while i < NW {
        // lower words only matter while everything above is equal: scan upwards and overwrite
        if a[i] < b[i] {
            r = Ordering::Less;
        } else if a[i] > b[i] {
            r = Ordering::Greater;
        }
        i += 1;
    }
    r
}

/// the low n words of w, the rest zero
fn low(w: &[Word; NW], n: usize) -> [Word; NW] {
    let mut r = [0; NW];
    let mut i = 0;
    while i < NW {
        if i < n {
            r[i] = w[i];
        }
        i += 1;
    }
    r
}

fn rev(o: Ordering) -> Ordering {
    match o {
        Ordering::Less => Ordering::Greater,
        Ordering::Equal => Ordering::Equal,
        Ordering::Greater => Ordering::Less,
    }
}

/// Order of the signed values (-1)^neg * mag (zero is never negative in a model).
fn ord_signed(an: bool, a: &[Word; NW], bn: bool, b: &[Word; NW]) -> Ordering {
    match (an, bn) {
        (false, false) => ord_val(a, b),
        (false, true) => Ordering::Greater,
        (true, false) => Ordering::Less,
        (true, true) => ord_val(b, a),
    }
}

// ---------------------------------------------------------------- cmp_same_len
#[cfg_attr(kani, kani::proof)]
#[cfg_attr(kani, kani::unwind(6))]
#[cfg_attr(not(kani), test)]
fn vk_int_cmp_same_len() {
    let a: [Word; NW] = any();
    let b: [Word; NW] = any();
    let n: usize = any();
    assume(n <= 3);
    let got = cmp_same_len(&a[..n], &b[..n]);
    assert!(got == ord_val(&low(&a, n), &low(&b, n)));
    // cross-check of the oracle itself for two words against u128
    if n == 2 {
        let x = (a[0] as u128) | ((a[1] as u128) << 64);
        let y = (b[0] as u128) | ((b[1] as u128) << 64);
        assert!(got == x.cmp(&y));
    }
    cover();
}

// ---------------------------------------------------------------- cmp_in_place
#[cfg_attr(kani, kani::proof)]
#[cfg_attr(kani, kani::unwind(6))]
#[cfg_attr(not(kani), test)]
fn vk_int_cmp_in_place() {
    let a: [Word; NW] = any();
    let b: [Word; NW] = any();
    let (la, lb): (usize, usize) = (any(), any());
    assume(la >= 1 && la <= 3 && lb >= 1 && lb <= 3);
    assume(a[la - 1] != 0 && b[lb - 1] != 0); // documented precondition: no leading zero word
    let got = cmp_in_place(&a[..la], &b[..lb]);
    assert!(got == ord_val(&low(&a, la), &low(&b, lb)));
    cover();
}

// ---------------------------------------------------------------- Ord / PartialEq for TypedReprRef
// arbitrary well-formed refs: RefSmall(any dword) or RefLarge(3..=4 words, top word non-zero)
#[cfg_attr(kani, kani::proof)]
#[cfg_attr(kani, kani::unwind(40))]
#[cfg_attr(not(kani), test)]
fn vk_int_cmp_typed_ref() {
    let wa: [Word; NW] = any();
    let wb: [Word; NW] = any();
    let (la, lb): (usize, usize) = (any(), any());
    let (sa, sb): (bool, bool) = (any(), any());
    assume(la >= 3 && la <= 4 && lb >= 3 && lb <= 4);
    assume(wa[la - 1] != 0 && wb[lb - 1] != 0);
    let (a, va) = if sa {
        (RefSmall((wa[0] as u128) | ((wa[1] as u128) << 64)), low(&wa, 2))
    } else {
        (RefLarge(&wa[..la]), low(&wa, la))
    };
    let (b, vb) = if sb {
        (RefSmall((wb[0] as u128) | ((wb[1] as u128) << 64)), low(&wb, 2))
    } else {
        (RefLarge(&wb[..lb]), low(&wb, lb))
    };
    let want = ord_val(&va, &vb);
    assert!(a.cmp(&b) == want);
    assert!(a.partial_cmp(&b) == Some(want));
    assert!((a == b) == (want == Ordering::Equal));
    cover();
}

// ---------------------------------------------------------------- Repr / UBig / IBig: ==, cmp, hash
/// Everything fed to the hasher, in order.
struct Rec {
    buf: [u8; 64],
    n: usize,
}
impl Hasher for Rec {
    fn finish(&self) -> u64 {
        0
    }
    fn write(&mut self, bytes: &[u8]) {
        let mut i = 0;
        while i < bytes.len() {
            assert!(self.n < 64);
            self.buf[self.n] = bytes[i];
            self.n += 1;
            i += 1;
        }
    }
}
fn rec_eq(a: &Rec, b: &Rec) -> bool {
    let mut ok = a.n == b.n;
    let mut i = 0;
    while i < 64 {
        if i < a.n && a.buf[i] != b.buf[i] {
            ok = false;
        }
        i += 1;
    }
    ok
}

/// A well-formed Repr made by the constructors (proved to establish wf_repr by group int_repr) and its value.
/// class 1: one word (or zero); class 2: two words; class c >= 3: three words in a heap buffer of capacity c
/// (same value, different capacities/histories must be indistinguishable).
fn mk_val(class: usize) -> (Repr, bool, [Word; NW]) {
    let w: [Word; NW] = any();
    let neg: bool = any();
    let sign = if neg { Sign::Negative } else { Sign::Positive };
    if class == 1 {
        assume(!(neg && w[0] == 0));
        (Repr::from_word(w[0]).with_sign(sign), neg, low(&w, 1))
    } else if class == 2 {
        assume(w[1] != 0);
        (Repr::from_dword((w[0] as u128) | ((w[1] as u128) << 64)).with_sign(sign), neg, low(&w, 2))
    } else {
        assume(w[2] != 0);
        let mut b = Buffer::allocate_exact(class);
        b.push(w[0]);
        b.push(w[1]);
        b.push(w[2]);
        (Repr::from_buffer(b).with_sign(sign), neg, low(&w, 3))
    }
}

fn body_repr(ca: usize, cb: usize) {
    let (a, an, va) = mk_val(ca);
    let (b, bn, vb) = mk_val(cb);
    let same = an == bn && ord_val(&va, &vb) == Ordering::Equal;
    // PartialEq for Repr
    assert!((a == b) == same);
    // Hash for Repr: equal values feed identical data
    let mut ha = Rec { buf: [0; 64], n: 0 };
    let mut hb = Rec { buf: [0; 64], n: 0 };
    a.hash(&mut ha);
    b.hash(&mut hb);
    if same {
        assert!(rec_eq(&ha, &hb));
    }
    // IBig: == / cmp / hash go through the same Repr
    let (x, y) = (IBig(a), IBig(b));
    let want = ord_signed(an, &va, bn, &vb);
    assert!(x.cmp(&y) == want);
    assert!(x.partial_cmp(&y) == Some(want));
    assert!((x == y) == same);
    assert!((want == Ordering::Equal) == same);
    // UBig (non-negative values)
    if !an && !bn {
        let (p, q) = (UBig(x.0), UBig(y.0));
        assert!(p.cmp(&q) == ord_val(&va, &vb));
        assert!((p == q) == same);
        assert!(p.abs_cmp(&q) == ord_val(&va, &vb));
    } else {
        // |x| vs |y|
        assert!(x.abs_cmp(&y) == ord_val(&va, &vb));
        assert!(x.abs_eq(&y) == (ord_val(&va, &vb) == Ordering::Equal));
    }
}

macro_rules! per_class2 {
    ($($name:ident = ($a:expr, $b:expr)),* $(,)?) => {$(
        #[cfg_attr(kani, kani::proof)]
        #[cfg_attr(kani, kani::unwind(66))]
        #[cfg_attr(not(kani), test)]
        fn $name() {
            body_repr($a, $b);
            cover();
        }
    )*};
}
per_class2!(vk_int_cmp_repr_1_1 = (1, 1), vk_int_cmp_repr_1_2 = (1, 2), vk_int_cmp_repr_2_1 = (2, 1),
    vk_int_cmp_repr_2_2 = (2, 2), vk_int_cmp_repr_1_h3 = (1, 3), vk_int_cmp_repr_h3_2 = (3, 2),
    vk_int_cmp_repr_h3_h3 = (3, 3), vk_int_cmp_repr_h3_h5 = (3, 5), vk_int_cmp_repr_h6_h4 = (6, 4));
