// Kani harnesses for integer/src/cmp.rs (C05): `cmp_same_len`, `cmp_in_place` and Ord / PartialEq for
// TypedReprRef compute the order of the VALUES, and Equal exactly when `==`.  (`==` / Hash for Repr and Ord for
// UBig / IBig on arbitrary well-formed Repr states are in group int_repr: vk_int_repr_eq_cmp_hash_*, where the
// states can be built from the fields.)  Bounded: magnitudes of at most 3 words (4 for TypedReprRef), full
// 64-bit symbolic words (comparisons only).  The oracle compares all words, absent words = 0.
use super::*;
include!("/verif/kani/harness/shim.rs");

const NW: usize = 4;

/// Order of the values sum w[i] * 2^(64 i): explicit top-down comparison of all NW words.
fn ord_val(a: &[Word; NW], b: &[Word; NW]) -> Ordering {
    let mut r = Ordering::Equal;
    let mut i = 0;
    while i < NW {
        // lower words only matter while everything above is equal: scan upwards and overwrite
        if a[i] < b[i] {
            r = Ordering::Less;
        } else if a[i] > b[i] {
            r = Ordering::Greater;
        }
        i += 1;
    }
    r
}

/// the low n words of w, the rest zero
fn low(w: &[Word; NW], n: usize) -> [Word; NW] {
    let mut r = [0; NW];
    let mut i = 0;
    while i < NW {
        if i < n {
            r[i] = w[i];
        }
        i += 1;
    }
    r
}

// ---------------------------------------------------------------- cmp_same_len
#[cfg_attr(kani, kani::proof)]
#[cfg_attr(kani, kani::unwind(6))]
#[cfg_attr(not(kani), test)]
fn vk_int_cmp_same_len() {
    let a: [Word; NW] = any();
    let b: [Word; NW] = any();
    let n: usize = any();
    assume(n <= 3);
    let got = cmp_same_len(&a[..n], &b[..n]);
    assert!(got == ord_val(&low(&a, n), &low(&b, n)));
    // cross-check of the oracle itself for two words against u128
    if n == 2 {
        let x = (a[0] as u128) | ((a[1] as u128) << 64);
        let y = (b[0] as u128) | ((b[1] as u128) << 64);
        assert!(got == x.cmp(&y));
    }
    cover();
}

// ---------------------------------------------------------------- cmp_in_place
#[cfg_attr(kani, kani::proof)]
#[cfg_attr(kani, kani::unwind(6))]
#[cfg_attr(not(kani), test)]
fn vk_int_cmp_in_place() {
    let a: [Word; NW] = any();
    let b: [Word; NW] = any();
    let (la, lb): (usize, usize) = (any(), any());
    assume(la >= 1 && la <= 3 && lb >= 1 && lb <= 3);
    assume(a[la - 1] != 0 && b[lb - 1] != 0); // documented precondition: no leading zero word
    let got = cmp_in_place(&a[..la], &b[..lb]);
    assert!(got == ord_val(&low(&a, la), &low(&b, lb)));
    cover();
}

// ---------------------------------------------------------------- Ord / PartialEq for TypedReprRef
// arbitrary well-formed refs: RefSmall(any dword) (class 0) or RefLarge(3 or 4 words, top word non-zero);
// one call per pair of classes so that every slice has a concrete length
fn typed_case(ca: usize, cb: usize) {
    let wa: [Word; NW] = any();
    let wb: [Word; NW] = any();
    let (la, lb) = (if ca == 0 { 2 } else { ca }, if cb == 0 { 2 } else { cb });
    assume(ca == 0 || wa[la - 1] != 0);
    assume(cb == 0 || wb[lb - 1] != 0);
    let a = if ca == 0 { RefSmall((wa[0] as u128) | ((wa[1] as u128) << 64)) } else { RefLarge(&wa[..la]) };
    let b = if cb == 0 { RefSmall((wb[0] as u128) | ((wb[1] as u128) << 64)) } else { RefLarge(&wb[..lb]) };
    let want = ord_val(&low(&wa, la), &low(&wb, lb));
    assert!(a.cmp(&b) == want);
    assert!(a.partial_cmp(&b) == Some(want));
    assert!((a == b) == (want == Ordering::Equal));
}

#[cfg_attr(kani, kani::proof)]
#[cfg_attr(kani, kani::unwind(40))]
#[cfg_attr(not(kani), test)]
fn vk_int_cmp_typed_ref() {
    let k: u8 = any();
    match k {
        0 => typed_case(0, 0),
        1 => typed_case(0, 3),
        2 => typed_case(0, 4),
        3 => typed_case(3, 0),
        4 => typed_case(4, 0),
        5 => typed_case(3, 3),
        6 => typed_case(3, 4),
        7 => typed_case(4, 3),
        _ => typed_case(4, 4),
    }
    cover();
}
