// Kani harnesses for the byte codecs of integer/src/convert.rs (C07 "to/from little- and big-endian bytes (two's
// complement for IBig) ... are mutually inverse"; C17: every run is under CBMC's pointer / bounds checks of the
// Vec / Buffer code the codecs drive).
//
// Functions under test: words_to_le_bytes, words_to_be_bytes, TypedReprRef::{to_le_bytes, to_be_bytes,
// to_signed_le_bytes, to_signed_be_bytes}, Repr::{from_le_bytes, from_be_bytes, from_signed_le_bytes,
// from_signed_be_bytes, from_le_bytes_large, from_be_bytes_large}.
//
// Oracle (written from the property statement, never calling the code under test): a byte string b_0..b_{n-1}
// (little endian; big endian = the same string reversed) MEANS the integer  sum b_i * 256^i  minus 256^n if the string
// is signed and the top bit of b_{n-1} is set; the empty string means 0.  Since every value here is below 2^200 in
// magnitude, that integer is compared through its 256-bit two's-complement image (four u64 limbs):
//   * image of a byte string: its bytes, continued with 0x00 / 0xff (sign extension) up to 32 bytes;
//   * image of (sign, magnitude): the magnitude, or its limb-wise complement plus one with explicit carries.
// Two integers in (-2^255, 2^255) are equal iff their images are.
//
// "Mutually inverse": (A) value -> bytes harnesses show that the printed bytes MEAN the value; (B) bytes -> value
// harnesses show for EVERY byte string of length <= 25 (not only printed ones) that the parsed value is what the string
// means.  Hence from(to(x)) = x for every x in the bound of (A); (C) executes the composition on a concrete palette.
// (The symbolic composition is not run: a Vec of symbolic length as parser input makes CBMC run out of memory.)
// be == reversed le: unsigned forms by (A) for both byte orders + equal lengths; signed forms see vk_int_bytes_sbe_ctop_*.
//
// Bound: magnitudes of at most 3 words (TypedReprRef::RefSmall with every DoubleWord, RefLarge with exactly 3 fully
// symbolic words, top word non-zero, which is the invariant of a large Repr), byte strings of at most 25 bytes.
use super::*;
include!("/verif/kani/harness/shim.rs");

const _: () = assert!(WORD_BITS == 64); // all Kani runs use force_bits = "64"

const VK_N: usize = 32;

/// the produced bytes, copied to a fixed array (every later index is into this array, not into the heap object)
fn vk_copy(v: &[u8]) -> ([u8; VK_N], usize) {
    let mut a = [0u8; VK_N];
    let len = v.len();
    assert!(len < VK_N);
    let mut i = 0;
    while i < VK_N {
        if i < len {
            a[i] = v[i];
        }
        i += 1;
    }
    (a, len)
}

/// 256-bit two's-complement image of the byte string a[..len] (see file header)
fn vk_bytes_image(a: &[u8; VK_N], len: usize, big_endian: bool, signed: bool) -> [u64; 4] {
    let top: u8 = if len == 0 {
        0
    } else if big_endian {
        a[0]
    } else {
        a[len - 1]
    };
    let fill: u8 = if signed && top >= 0x80 { 0xff } else { 0 };
    let mut w = [0u64; 4];
    let mut i = 0;
    while i < VK_N {
        let b = if i < len {
            if big_endian {
                a[len - 1 - i]
            } else {
                a[i]
            }
        } else {
            fill
        };
        w[i / 8] |= (b as u64) << (8 * (i % 8));
        i += 1;
    }
    w
}

/// 256-bit two's-complement image of sign * magnitude (magnitude < 2^255)
fn vk_sign_mag_image(neg: bool, mag: [u64; 4]) -> [u64; 4] {
    if !neg {
        return mag;
    }
    let mut out = [0u64; 4];
    let mut carry: u128 = 1;
    let mut i = 0;
    while i < 4 {
        let t = (!mag[i]) as u128 + carry;
        out[i] = t as u64;
        carry = t >> 64;
        i += 1;
    }
    out
}

fn vk_img_eq(a: [u64; 4], b: [u64; 4]) -> bool {
    a[0] == b[0] && a[1] == b[1] && a[2] == b[2] && a[3] == b[3]
}

/// (is negative, magnitude limbs) read from a Repr; also checks that it holds at most 4 words and that zero is positive
fn vk_repr_sign_mag(r: &Repr) -> (bool, [u64; 4]) {
    let (sign, t) = r.as_sign_typed();
    let mut m = [0u64; 4];
    match t {
        RefSmall(d) => {
            m[0] = d as u64;
            m[1] = (d >> 64) as u64;
        }
        RefLarge(ws) => {
            assert!(ws.len() <= 4);
            let mut i = 0;
            while i < 4 {
                if i < ws.len() {
                    m[i] = ws[i];
                }
                i += 1;
            }
        }
    }
    let neg = sign == Negative;
    assert!(!(neg && m[0] == 0 && m[1] == 0 && m[2] == 0 && m[3] == 0));
    (neg, m)
}

/// b is a reversed
fn vk_is_reverse(a: &[u8; VK_N], alen: usize, b: &[u8; VK_N], blen: usize) -> bool {
    let mut ok = alen == blen;
    let mut i = 0;
    while i < VK_N {
        if ok && i < alen && a[i] != b[blen - 1 - i] {
            ok = false;
        }
        i += 1;
    }
    ok
}

// ---------------------------------------------------------------------------------------------------------------
// (A) value -> bytes: the produced bytes mean the value

/// which: 0 = to_le_bytes, 1 = to_be_bytes (unsigned, neg must be false), 2 = to_signed_le_bytes, 3 = to_signed_be_bytes
fn vk_check_to_bytes(x: TypedReprRef<'_>, mag: [u64; 4], neg: bool, which: u8, max_len: usize) {
    let v = match which {
        0 => x.to_le_bytes(),
        1 => x.to_be_bytes(),
        2 => x.to_signed_le_bytes(neg),
        _ => x.to_signed_be_bytes(neg),
    };
    let (a, len) = vk_copy(&v);
    assert!(len <= max_len + (which >= 2) as usize);
    let img = vk_bytes_image(&a, len, which == 1 || which == 3, which >= 2);
    assert!(vk_img_eq(img, vk_sign_mag_image(neg, mag)));
    // C19 "identical across word sizes": the form is canonical = minimal; the most significant byte is never a
    // redundant zero (unsigned) resp. a redundant sign extension (signed)
    if len >= 1 {
        let big_endian = which == 1 || which == 3;
        let top = if big_endian { a[0] } else { a[len - 1] };
        if which < 2 {
            assert!(top != 0);
        } else if len >= 2 {
            let next = if big_endian { a[1] } else { a[len - 2] };
            assert!(!((top == 0 && next < 0x80) || (top == 0xff && next >= 0x80)));
        } else {
            assert!(top != 0);
        }
    }
}

macro_rules! vk_bytes_to {
    ($small:ident, $large:ident, $which:expr, $neg:expr) => {
        #[cfg_attr(kani, kani::proof)]
        #[cfg_attr(not(kani), test)]
        #[cfg_attr(kani, kani::unwind(34))]
        fn $small() {
            let x: DoubleWord = any();
            // a zero IBig is positive (as_sign_repr never reports a negative zero)
            assume(!($neg && x == 0));
            vk_check_to_bytes(RefSmall(x), [x as u64, (x >> 64) as u64, 0, 0], $neg, $which, 16);
            cover();
        }

        #[cfg_attr(kani, kani::proof)]
        #[cfg_attr(not(kani), test)]
        #[cfg_attr(kani, kani::unwind(34))]
        fn $large() {
            let w: [Word; 3] = any();
            assume(w[2] != 0);
            vk_check_to_bytes(RefLarge(&w), [w[0], w[1], w[2], 0], $neg, $which, 24);
            cover();
        }
    };
}
vk_bytes_to!(vk_int_bytes_to_small_le, vk_int_bytes_to_large3_le, 0, false);
vk_bytes_to!(vk_int_bytes_to_small_be, vk_int_bytes_to_large3_be, 1, false);
vk_bytes_to!(vk_int_bytes_to_small_sle_pos, vk_int_bytes_to_large3_sle_pos, 2, false);
vk_bytes_to!(vk_int_bytes_to_small_sle_neg, vk_int_bytes_to_large3_sle_neg, 2, true);

// to_signed_be_bytes: `bytes.insert(0, sign byte)` on a Vec of SYMBOLIC length (a memmove of symbolic size after a
// possible reallocation) exhausts CBMC (> 14 GB, no result in 500 s), with RefSmall as well as with RefLarge inputs.
// The big-endian signed form is therefore checked with a CONCRETE top word (palette) and fully symbolic low words:
// for a positive number every length is then concrete.  Checked: the meaning of the bytes (oracle) and be == reversed le.
macro_rules! vk_bytes_sbe_ctop {
    ($name:ident, $neg:expr, $tops:expr) => {
        #[cfg_attr(kani, kani::proof)]
        #[cfg_attr(not(kani), test)]
        #[cfg_attr(kani, kani::unwind(34))]
        fn $name() {
            let lo: [Word; 2] = any();
            let tops: &[Word] = &$tops;
            let mut t = 0;
            while t < tops.len() {
                let w = [lo[0], lo[1], tops[t]];
                let (b, blen) = vk_copy(&RefLarge(&w).to_signed_be_bytes($neg));
                assert!(blen <= 25);
                let img = vk_bytes_image(&b, blen, true, true);
                assert!(vk_img_eq(img, vk_sign_mag_image($neg, [w[0], w[1], w[2], 0])));
                let (a, alen) = vk_copy(&RefLarge(&w).to_signed_le_bytes($neg));
                assert!(vk_is_reverse(&a, alen, &b, blen));
                t += 1;
            }
            cover();
        }
    };
}
vk_bytes_sbe_ctop!(vk_int_bytes_sbe_ctop_pos, false, [1, 0x7f, 0x80, 0x1234, 1 << 63, u64::MAX]);
// NEGATIVE numbers: even with a literal top word the borrow out of the symbolic low words keeps the length symbolic
// (no result in 300 s): literal values only -- at every shape of the borrow / sign-byte decision
#[cfg_attr(kani, kani::proof)]
#[cfg_attr(not(kani), test)]
#[cfg_attr(kani, kani::unwind(34))]
fn vk_int_bytes_sbe_concrete_neg() {
    let vals: [[Word; 3]; 7] = [
        [0, 0, 1],                     // -(2^128): magnitude - 1 loses its top word
        [0, 0, 0x80],                  // magnitude - 1 = 0x7f..: no sign byte needed
        [0, 0, 0x100],                 // magnitude - 1 loses a byte
        [0, 0, 1 << 63],
        [1, 0, 1],                     // no borrow into the top word
        [u64::MAX, u64::MAX, 0x7f],
        [0, 5, 0x81],
    ];
    let mut t = 0;
    while t < 7 {
        let w = vals[t];
        let (b, blen) = vk_copy(&RefLarge(&w).to_signed_be_bytes(true));
        assert!(blen <= 25);
        let img = vk_bytes_image(&b, blen, true, true);
        assert!(vk_img_eq(img, vk_sign_mag_image(true, [w[0], w[1], w[2], 0])));
        let (a, alen) = vk_copy(&RefLarge(&w).to_signed_le_bytes(true));
        assert!(vk_is_reverse(&a, alen, &b, blen));
        t += 1;
    }
    cover();
}

// ---------------------------------------------------------------------------------------------------------------
// (B) bytes -> value on ARBITRARY byte strings (not only those the library prints: non-minimal encodings, leading
// 0x00 / 0xff bytes): the result is the integer the string means.

/// which: 0 = from_le_bytes, 1 = from_be_bytes, 2 = from_signed_le_bytes, 3 = from_signed_be_bytes
fn vk_check_from_bytes(a: &[u8; VK_N], len: usize, which: u8) {
    let bytes = &a[..len];
    let r = match which {
        0 => Repr::from_le_bytes(bytes),
        1 => Repr::from_be_bytes(bytes),
        2 => Repr::from_signed_le_bytes(bytes),
        _ => Repr::from_signed_be_bytes(bytes),
    };
    let (n, m) = vk_repr_sign_mag(&r);
    assert!(which >= 2 || !n);
    assert!(vk_img_eq(vk_sign_mag_image(n, m), vk_bytes_image(a, len, which == 1 || which == 3, which >= 2)));
}

// Every length is a LITERAL inside the harness (a loop over concrete lengths): a symbolic length gives symbolic
// allocation sizes and symbolic copy offsets (`bytes[N - len..].copy_from_slice`, the known CBMC problem).
macro_rules! vk_bytes_from {
    ($name:ident, $lo:expr, $hi:expr, $which:expr) => {
        #[cfg_attr(kani, kani::proof)]
        #[cfg_attr(not(kani), test)]
        #[cfg_attr(kani, kani::unwind(34))]
        fn $name() {
            let a: [u8; VK_N] = any();
            let mut len = $lo;
            while len <= $hi {
                vk_check_from_bytes(&a, len, $which);
                len += 1;
            }
            cover();
        }
    };
}
// fast path (dword_from_*_bytes_partial): lengths 0..=16
vk_bytes_from!(vk_int_bytes_from_le_0_16, 0, 16, 0);
vk_bytes_from!(vk_int_bytes_from_be_0_16, 0, 16, 1);
vk_bytes_from!(vk_int_bytes_from_sle_0_16, 0, 16, 2);
vk_bytes_from!(vk_int_bytes_from_sbe_0_16, 0, 16, 3);
// from_*_bytes_large: lengths 17..=25 (3 words, 3 words + partial word, 4 words incl. the sign byte)
vk_bytes_from!(vk_int_bytes_from_le_17_25, 17, 25, 0);
vk_bytes_from!(vk_int_bytes_from_be_17_25, 17, 25, 1);
vk_bytes_from!(vk_int_bytes_from_sle_17_25, 17, 25, 2);
vk_bytes_from!(vk_int_bytes_from_sbe_17_25, 17, 25, 3);

// ---------------------------------------------------------------------------------------------------------------
// (C) the composition from(to(x)) executed on a small concrete palette (carries / borrows / sign bytes at word and
// byte boundaries), through the signed and (for positive values) the unsigned codecs.
fn vk_roundtrip_one(mag: [u64; 4], neg: bool) {
    let w3 = [mag[0], mag[1], mag[2]];
    let x = if mag[2] != 0 {
        RefLarge(&w3)
    } else {
        RefSmall(mag[0] as DoubleWord | (mag[1] as DoubleWord) << 64)
    };
    let (n, m) = vk_repr_sign_mag(&Repr::from_signed_le_bytes(&x.to_signed_le_bytes(neg)));
    assert!(n == neg && vk_img_eq(m, mag));
    let (n, m) = vk_repr_sign_mag(&Repr::from_signed_be_bytes(&x.to_signed_be_bytes(neg)));
    assert!(n == neg && vk_img_eq(m, mag));
    if !neg {
        let (n, m) = vk_repr_sign_mag(&Repr::from_le_bytes(&x.to_le_bytes()));
        assert!(!n && vk_img_eq(m, mag));
        let (n, m) = vk_repr_sign_mag(&Repr::from_be_bytes(&x.to_be_bytes()));
        assert!(!n && vk_img_eq(m, mag));
    }
}

#[cfg_attr(kani, kani::proof)]
#[cfg_attr(not(kani), test)]
#[cfg_attr(kani, kani::unwind(34))]
fn vk_int_bytes_roundtrip_concrete_large() {
    vk_roundtrip_one([0, 0, 1, 0], true); // -(2^128): magnitude - 1 loses its top word
    vk_roundtrip_one([0, 0, 1 << 56, 0], true); // -(2^184)
    vk_roundtrip_one([0, 0, 1 << 63, 0], false); // 2^191: needs a 0x00 sign byte
    vk_roundtrip_one([u64::MAX, u64::MAX, u64::MAX, 0], true);
    vk_roundtrip_one([1, 0, 0x80, 0], true);
    cover();
}

#[cfg_attr(kani, kani::proof)]
#[cfg_attr(not(kani), test)]
#[cfg_attr(kani, kani::unwind(34))]
fn vk_int_bytes_roundtrip_concrete_small() {
    vk_roundtrip_one([0x80, 0, 0, 0], true); // -128
    vk_roundtrip_one([0, 1, 0, 0], true); // -(2^64)
    vk_roundtrip_one([u64::MAX, u64::MAX, 0, 0], false); // 2^128 - 1
    vk_roundtrip_one([0, 1 << 63, 0, 0], true); // -(2^127)
    vk_roundtrip_one([0x7f, 0, 0, 0], false);
    vk_roundtrip_one([0x80, 0, 0, 0], false); // 128: needs a 0x00 sign byte
    vk_roundtrip_one([0x100, 0, 0, 0], true); // -256
    cover();
}
