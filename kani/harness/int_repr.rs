// Kani harnesses for integer/src/repr.rs (C17, C05 constructors, C15 clone/clone_from): ONE operation on an
// ARBITRARY WELL-FORMED Repr (class per harness instance: inline, or heap with a concrete capacity; symbolic
// length, sign and contents), asserting the representation invariant `wf_repr` on every result plus the value
// (sign + word sequence read directly from the fields), under CBMC's pointer / bounds / dealloc-size /
// double-free checks and --memory-leak-check (every harness frees what it owns before it returns, so an old
// buffer that an operation forgets to release is reported).  Bound: heap capacities 3..=9, lengths <= 7
// (ones: n <= 200).
use super::*;
#[allow(unused_imports)]
use alloc::boxed::Box;
include!("/verif/kani/harness/shim.rs");

const MAXW: usize = 10;

fn spec_max_compact(n: usize) -> usize {
    n + n / 4 + 4
}

/// Documented invariant of `Repr` (field docs of `capacity`, buffer.rs compactness bound):
/// |capacity| = 1: inline, high word 0, and zero is positive; |capacity| = 2: inline, high word != 0;
/// |capacity| >= 3: heap, 3 <= len <= |capacity| <= max_compact_capacity(len), top word != 0.
fn wf_repr(r: &Repr) -> bool {
    if r.capacity.get().unsigned_abs() <= 2 {
        wf_inline(r)
    } else {
        wf_heap(r)
    }
}
fn wf_inline(r: &Repr) -> bool {
    let c = r.capacity.get();
    let a = c.unsigned_abs();
    unsafe {
        (a == 1 && r.data.inline[1] == 0 && !(c < 0 && r.data.inline[0] == 0)) || (a == 2 && r.data.inline[1] != 0)
    }
}
fn wf_heap(r: &Repr) -> bool {
    let a = r.capacity.get().unsigned_abs();
    unsafe {
        let (p, len) = r.data.heap;
        a >= 3
            && !p.is_null()
            && (p as usize) % mem::align_of::<Word>() == 0
            && len >= 3
            && len <= a
            && a <= spec_max_compact(len)
            && a <= usize::MAX / 64
            && *p.add(len - 1) != 0
    }
}

/// The value: sign and little-endian words without leading zero.
#[derive(Clone, Copy)]
struct Model {
    neg: bool,
    w: [Word; MAXW],
    len: usize,
}

fn model_eq(a: &Model, b: &Model) -> bool {
    let mut ok = a.neg == b.neg && a.len == b.len && a.len <= MAXW;
    let mut i = 0;
    while i < MAXW {
        if i < a.len && a.w[i] != b.w[i] {
            ok = false;
        }
        i += 1;
    }
    ok
}

fn words_match(s: &[Word], m: &Model) -> bool {
    let mut ok = s.len() == m.len && m.len <= MAXW;
    let mut i = 0;
    while i < MAXW {
        if ok && i < m.len && s[i] != m.w[i] {
            ok = false;
        }
        i += 1;
    }
    ok
}

/// Read the value of a well-formed Repr straight from its fields.
fn model_of(r: &Repr) -> Model {
    if r.capacity.get().unsigned_abs() <= 2 {
        model_inline(r)
    } else {
        model_heap(r)
    }
}
fn model_inline(r: &Repr) -> Model {
    let c = r.capacity.get();
    let mut m = Model { neg: c < 0, w: [0; MAXW], len: 0 };
    unsafe {
        m.w[0] = r.data.inline[0];
        if c.unsigned_abs() == 1 {
            m.len = if m.w[0] != 0 { 1 } else { 0 };
        } else {
            m.w[1] = r.data.inline[1];
            m.len = 2;
        }
    }
    m
}
fn model_heap(r: &Repr) -> Model {
    let c = r.capacity.get();
    let mut m = Model { neg: c < 0, w: [0; MAXW], len: 0 };
    unsafe {
        let (p, len) = r.data.heap;
        assert!(len <= MAXW);
        m.len = len;
        let mut i = 0;
        while i < MAXW {
            if i < len {
                m.w[i] = *p.add(i);
            }
            i += 1;
        }
    }
    m
}

fn model_dword(m: &Model) -> DoubleWord {
    let lo = if m.len >= 1 { m.w[0] } else { 0 };
    let hi = if m.len >= 2 { m.w[1] } else { 0 };
    (lo as DoubleWord) | ((hi as DoubleWord) << 64)
}

fn sign_of(neg: bool) -> Sign {
    if neg {
        Sign::Negative
    } else {
        Sign::Positive
    }
}

fn raw_cap(cap: usize, neg: bool) -> NonZeroIsize {
    NonZeroIsize::new(if neg { -(cap as isize) } else { cap as isize }).unwrap()
}

/// Arbitrary well-formed inline Repr of capacity class `cap` (1: at most one word, zero positive; 2: two words),
/// any sign.  (One class per harness instance: with a symbolic inline/heap discriminant CBMC has to encode the
/// heap branch of every accessor over a pointer made from the inline words, which is 50x slower.)
fn mk_inline(cap: usize, neg: bool) -> (Repr, Model) {
    let lo: Word = any();
    let hi: Word = if cap == 2 { any() } else { 0 };
    assume(!(lo == 0 && hi == 0 && neg));
    assume((cap == 2) == (hi != 0));
    let r = Repr { data: ReprData { inline: [lo, hi] }, capacity: raw_cap(cap, neg) };
    let mut m = Model { neg, w: [0; MAXW], len: 0 };
    m.w[0] = lo;
    m.w[1] = hi;
    m.len = if hi != 0 {
        2
    } else if lo != 0 {
        1
    } else {
        0
    };
    (r, m)
}

/// Arbitrary well-formed heap Repr with concrete capacity `cap`: symbolic length, sign, contents.
fn mk_heap(cap: usize, neg: bool) -> (Repr, Model) {
    let len: usize = any();
    mk_heap_len(cap, len, neg)
}
/// The same with the length given by the caller (symbolic or concrete).
fn mk_heap_len(cap: usize, len: usize, neg: bool) -> (Repr, Model) {
    let w: [Word; MAXW] = any();
    assume(len >= 3 && len <= cap && cap <= spec_max_compact(len));
    assume(w[len - 1] != 0);
    let layout = alloc::alloc::Layout::array::<Word>(cap).unwrap();
    let p = unsafe { alloc::alloc::alloc(layout) } as *mut Word;
    assert!(!p.is_null());
    let mut i = 0;
    while i < cap {
        unsafe { ptr::write(p.add(i), w[i]) };
        i += 1;
    }
    let r = Repr { data: ReprData { heap: (p, len) }, capacity: raw_cap(cap, neg) };
    (r, Model { neg, w, len })
}

/// kind 1, 2: inline with that capacity; kind c >= 3: heap with capacity c.
/// For the inline kinds the harness macros pass a *concrete* sign (they branch on a symbolic bool and run the
/// body once per sign): |capacity| of an inline value with symbolic sign is not a constant for CBMC, which then
/// also encodes the heap branch of every accessor over a pointer made of the inline words (50x slower).
fn mk(kind: usize, neg: bool) -> (Repr, Model) {
    if kind <= 2 {
        mk_inline(kind, neg)
    } else {
        mk_heap(kind, neg)
    }
}

/// Expected storage class of a result, when the harness knows it statically (same reason as above: the
/// checks then never touch the other union variant).  ANY = decided from the capacity field.
const ANY: usize = 0;
const INLINE: usize = 1;
const HEAP: usize = 2;
fn class_of(kind: usize) -> usize {
    if kind <= 2 {
        INLINE
    } else {
        HEAP
    }
}

/// wf_repr + value of `r`.
fn check(r: &Repr, want: &Model, class: usize) {
    let a = r.capacity.get().unsigned_abs();
    if class == INLINE {
        assert!(a <= 2 && wf_inline(r));
        assert!(model_eq(&model_inline(r), want));
    } else if class == HEAP {
        assert!(a >= 3 && wf_heap(r));
        assert!(model_eq(&model_heap(r), want));
    } else {
        assert!(wf_repr(r));
        assert!(model_eq(&model_of(r), want));
    }
    // inline iff at most two words
    assert!((a <= 2) == (want.len <= 2));
}

/// Post-state: invariant + value, then exercise the whole allocation and free it (dealloc-size check).
fn finish_k(r: Repr, want: &Model, class: usize) {
    check(&r, want, class);
    let a = r.capacity.get().unsigned_abs();
    if class != INLINE && a > 2 {
        assert!(a <= MAXW);
        unsafe {
            let (p, len) = r.data.heap;
            let mut j = 0;
            while j < MAXW {
                if j >= len && j < a {
                    ptr::write(p.add(j), 0);
                }
                j += 1;
            }
        }
    }
    drop(r);
}
fn finish(r: Repr, want: &Model) {
    finish_k(r, want, ANY)
}

fn finish_buffer(b: Buffer, want: &Model) {
    assert!(b.len() <= b.capacity() && b.capacity() >= 1);
    assert!(words_match(&b, want));
    drop(b);
}

macro_rules! per_kind {
    ($body:ident; $($name:ident = $k:expr),* $(,)?) => {$(
        #[cfg_attr(kani, kani::proof)]
        #[cfg_attr(kani, kani::unwind(12))]
        #[cfg_attr(not(kani), test)]
        fn $name() {
            let neg: bool = any();
            if $k > 2 {
                $body($k, neg);
            } else if neg {
                $body($k, true);
            } else {
                $body($k, false);
            }
            cover();
        }
    )*};
}
macro_rules! per_n {
    ($body:ident; $($name:ident = $k:expr),* $(,)?) => {$(
        #[cfg_attr(kani, kani::proof)]
        #[cfg_attr(kani, kani::unwind(12))]
        #[cfg_attr(not(kani), test)]
        fn $name() {
            $body($k);
            cover();
        }
    )*};
}
macro_rules! per_kind2_u {
    ($body:ident, $unw:expr; $($name:ident = ($k:expr, $j:expr)),* $(,)?) => {$(
        #[cfg_attr(kani, kani::proof)]
        #[cfg_attr(kani, kani::unwind($unw))]
        #[cfg_attr(not(kani), test)]
        fn $name() {
            let dn: bool = any();
            let sn: bool = any();
            if $k <= 2 && $j <= 2 {
                match (dn, sn) {
                    (false, false) => $body($k, false, $j, false),
                    (false, true) => $body($k, false, $j, true),
                    (true, false) => $body($k, true, $j, false),
                    (true, true) => $body($k, true, $j, true),
                }
            } else if $k <= 2 {
                if dn {
                    $body($k, true, $j, sn)
                } else {
                    $body($k, false, $j, sn)
                }
            } else if $j <= 2 {
                if sn {
                    $body($k, dn, $j, true)
                } else {
                    $body($k, dn, $j, false)
                }
            } else {
                $body($k, dn, $j, sn)
            }
            cover();
        }
    )*};
}

// ---------------------------------------------------------------- from_word / from_dword / constants
#[cfg_attr(kani, kani::proof)]
#[cfg_attr(kani, kani::unwind(12))]
#[cfg_attr(not(kani), test)]
fn vk_int_repr_from_word() {
    let w: Word = any();
    let mut m = Model { neg: false, w: [0; MAXW], len: if w != 0 { 1 } else { 0 } };
    m.w[0] = w;
    let r = Repr::from_word(w);
    assert!(r.len() == m.len && r.sign() == Sign::Positive && r.is_zero() == (w == 0) && r.is_one() == (w == 1));
    finish_k(r, &m, INLINE);
    cover();
}

#[cfg_attr(kani, kani::proof)]
#[cfg_attr(kani, kani::unwind(12))]
#[cfg_attr(not(kani), test)]
fn vk_int_repr_from_dword() {
    let lo: Word = any();
    let hi: Word = any();
    let mut m = Model { neg: false, w: [0; MAXW], len: 0 };
    m.w[0] = lo;
    m.w[1] = hi;
    m.len = if hi != 0 {
        2
    } else if lo != 0 {
        1
    } else {
        0
    };
    let r = Repr::from_dword((lo as DoubleWord) | ((hi as DoubleWord) << 64));
    assert!(r.len() == m.len && r.sign() == Sign::Positive);
    finish_k(r, &m, INLINE);
    cover();
}

#[cfg_attr(kani, kani::proof)]
#[cfg_attr(kani, kani::unwind(12))]
#[cfg_attr(not(kani), test)]
fn vk_int_repr_consts() {
    let mut m = Model { neg: false, w: [0; MAXW], len: 0 };
    finish_k(Repr::zero(), &m, INLINE);
    m.w[0] = 1;
    m.len = 1;
    finish_k(Repr::one(), &m, INLINE);
    m.neg = true;
    finish_k(Repr::neg_one(), &m, INLINE);
    cover();
}

// ---------------------------------------------------------------- from_buffer
// buffer of concrete capacity, symbolic length (<= 7) and contents, leading zeros allowed
fn body_from_buffer(cap: usize) {
    let w: [Word; MAXW] = any();
    let len: usize = any();
    assume(len <= cap && len <= 7);
    let mut b = Buffer::allocate_exact(cap);
    let mut i = 0;
    while i < MAXW {
        if i < len {
            b.push(w[i]);
        }
        i += 1;
    }
    // value of the word sequence: strip leading zero words
    let mut n = len;
    let mut k = 0;
    while k < MAXW {
        if n > 0 && w[n - 1] == 0 {
            n -= 1;
        }
        k += 1;
    }
    let r = Repr::from_buffer(b);
    // inline iff at most two words (finish_k asserts the class)
    let want = Model { neg: false, w, len: n };
    if n <= 2 {
        finish_k(r, &want, INLINE);
    } else {
        finish_k(r, &want, HEAP);
    }
}
per_n!(body_from_buffer; vk_int_repr_from_buffer_c1 = 1, vk_int_repr_from_buffer_c2 = 2,
    vk_int_repr_from_buffer_c3 = 3, vk_int_repr_from_buffer_c4 = 4, vk_int_repr_from_buffer_c5 = 5,
    vk_int_repr_from_buffer_c6 = 6, vk_int_repr_from_buffer_c8 = 8, vk_int_repr_from_buffer_c10 = 10);

// ---------------------------------------------------------------- from_ref
fn body_from_ref(kind: usize, neg: bool) {
    let (src, m) = mk(kind, neg);
    let (sign, t) = src.as_sign_typed();
    assert!(sign == sign_of(m.neg));
    let r = Repr::from_ref(t);
    let mut want = m;
    want.neg = false;
    finish_k(r, &want, class_of(kind));
    finish_k(src, &m, class_of(kind));
}
per_kind!(body_from_ref; vk_int_repr_from_ref_i1 = 1, vk_int_repr_from_ref_i2 = 2, vk_int_repr_from_ref_h3 = 3,
    vk_int_repr_from_ref_h6 = 6);

// ---------------------------------------------------------------- into_buffer
fn body_into_buffer(kind: usize) {
    let (r, m) = mk(kind, false);
    let b = r.into_buffer();
    if kind >= 3 {
        assert!(b.capacity() == kind);
    }
    assert!(b.capacity() >= m.len);
    finish_buffer(b, &m);
}
per_n!(body_into_buffer; vk_int_repr_into_buffer_i1 = 1, vk_int_repr_into_buffer_i2 = 2, vk_int_repr_into_buffer_h3 = 3,
    vk_int_repr_into_buffer_h5 = 5, vk_int_repr_into_buffer_h7 = 7);

// ---------------------------------------------------------------- as_typed / as_sign_typed / as_sign_slice / as_slice / len
fn body_views(kind: usize, neg: bool) {
    let (r, m) = mk(kind, neg);
    assert!(r.len() == m.len);
    assert!(r.sign() == sign_of(m.neg));
    assert!(r.is_zero() == (m.len == 0));
    if kind >= 3 {
        assert!(r.capacity() == kind);
    }
    {
        let (s, words) = r.as_sign_slice();
        assert!(s == sign_of(m.neg));
        assert!(words_match(words, &m));
    }
    {
        let (s, t) = r.as_sign_typed();
        assert!(s == sign_of(m.neg));
        match t {
            TypedReprRef::RefSmall(dw) => assert!(m.len <= 2 && dw == model_dword(&m)),
            TypedReprRef::RefLarge(words) => assert!(m.len >= 3 && words_match(words, &m)),
        }
        assert!(t.len() == m.len);
    }
    if !m.neg {
        assert!(words_match(r.as_slice(), &m));
        match r.as_typed() {
            TypedReprRef::RefSmall(dw) => assert!(m.len <= 2 && dw == model_dword(&m)),
            TypedReprRef::RefLarge(words) => assert!(m.len >= 3 && words_match(words, &m)),
        }
    }
    finish_k(r, &m, class_of(kind));
}
per_kind!(body_views; vk_int_repr_views_i1 = 1, vk_int_repr_views_i2 = 2, vk_int_repr_views_h3 = 3, vk_int_repr_views_h6 = 6);

// ---------------------------------------------------------------- into_typed / into_sign_typed
fn check_typed(t: TypedRepr, m: &Model, kind: usize) {
    match t {
        TypedRepr::Small(dw) => assert!(m.len <= 2 && dw == model_dword(m)),
        TypedRepr::Large(b) => {
            assert!(m.len >= 3 && b.capacity() == kind);
            finish_buffer(b, m);
        }
    }
}
fn body_into_typed(kind: usize) {
    let (r, m) = mk(kind, false);
    let t = r.into_typed();
    check_typed(t, &m, kind);
}
per_n!(body_into_typed; vk_int_repr_into_typed_i1 = 1, vk_int_repr_into_typed_i2 = 2, vk_int_repr_into_typed_h3 = 3,
    vk_int_repr_into_typed_h6 = 6);

fn body_into_sign_typed(kind: usize, neg: bool) {
    let (r, m) = mk(kind, neg);
    let (s, t) = r.into_sign_typed();
    assert!(s == sign_of(m.neg));
    check_typed(t, &m, kind);
}
per_kind!(body_into_sign_typed; vk_int_repr_into_sign_typed_i1 = 1, vk_int_repr_into_sign_typed_i2 = 2, vk_int_repr_into_sign_typed_h3 = 3,
    vk_int_repr_into_sign_typed_h6 = 6);

// ---------------------------------------------------------------- with_sign / neg
fn body_with_sign(kind: usize, neg: bool) {
    let (r, m) = mk(kind, neg);
    let to_neg: bool = any();
    let r2 = r.with_sign(sign_of(to_neg));
    let mut want = m;
    want.neg = to_neg && m.len != 0; // zero is never negative
    finish_k(r2, &want, class_of(kind));
}
per_kind!(body_with_sign; vk_int_repr_with_sign_i1 = 1, vk_int_repr_with_sign_i2 = 2, vk_int_repr_with_sign_h3 = 3,
    vk_int_repr_with_sign_h6 = 6);

fn body_neg(kind: usize, neg: bool) {
    let (r, m) = mk(kind, neg);
    let r2 = r.neg();
    let mut want = m;
    want.neg = !m.neg && m.len != 0;
    finish_k(r2, &want, class_of(kind));
}
per_kind!(body_neg; vk_int_repr_neg_i1 = 1, vk_int_repr_neg_i2 = 2, vk_int_repr_neg_h3 = 3, vk_int_repr_neg_h6 = 6);

fn body_signum(kind: usize, neg: bool) {
    let (r, m) = mk(kind, neg);
    let s = r.signum();
    let mut want = Model { neg: m.neg, w: [0; MAXW], len: 0 };
    if m.len != 0 {
        want.w[0] = 1;
        want.len = 1;
    }
    finish_k(s, &want, INLINE);
    finish_k(r, &m, class_of(kind));
}
per_kind!(body_signum; vk_int_repr_signum_i1 = 1, vk_int_repr_signum_i2 = 2, vk_int_repr_signum_h4 = 4);

// ---------------------------------------------------------------- clone
/// Overwrite the words of a repr in place, keeping it well-formed (all words below the top are flipped).
fn scribble(r: &mut Repr, class: usize) {
    unsafe {
        if class == HEAP {
            let (p, len) = r.data.heap;
            let mut i = 0;
            while i < MAXW {
                if i + 1 < len {
                    ptr::write(p.add(i), !*p.add(i));
                }
                i += 1;
            }
        } else {
            r.data.inline[0] = !r.data.inline[0];
            if r.data.inline[0] == 0 && r.data.inline[1] == 0 {
                r.data.inline[0] = 1;
            }
        }
    }
}

fn body_clone(kind: usize, neg: bool) {
    let (r, m) = mk(kind, neg);
    let k = class_of(kind);
    let mut c = r.clone();
    check(&c, &m, k);
    // independent: changing the clone leaves the original alone; both are freed (no double free)
    scribble(&mut c, k);
    drop(c);
    finish_k(r, &m, k);
}
per_kind!(body_clone; vk_int_repr_clone_i1 = 1, vk_int_repr_clone_i2 = 2, vk_int_repr_clone_h3 = 3, vk_int_repr_clone_h4 = 4,
    vk_int_repr_clone_h5 = 5, vk_int_repr_clone_h6 = 6, vk_int_repr_clone_h7 = 7);

// ---------------------------------------------------------------- clone_from (dst kind, src kind)
fn body_clone_from(dk: usize, dneg: bool, sk: usize, sneg: bool) {
    let (mut d, _dm) = mk(dk, dneg);
    let (s, sm) = mk(sk, sneg);
    d.clone_from(&s);
    let k = class_of(sk);
    check(&d, &sm, k);
    // capacity is kept when it is large enough and compact for the new value
    if dk >= 3 && sm.len >= 3 && dk >= sm.len && dk <= spec_max_compact(sm.len) {
        assert!(d.capacity() == dk);
    }
    scribble(&mut d, k);
    drop(d);
    finish_k(s, &sm, k);
}
per_kind2_u!(body_clone_from, 12;
    vk_int_repr_clone_from_i1_i1 = (1, 1), vk_int_repr_clone_from_i1_i2 = (1, 2), vk_int_repr_clone_from_i2_i1 = (2, 1),
    vk_int_repr_clone_from_i2_i2 = (2, 2), vk_int_repr_clone_from_i1_h3 = (1, 3), vk_int_repr_clone_from_i2_h3 = (2, 3),
    vk_int_repr_clone_from_i1_h7 = (1, 7), vk_int_repr_clone_from_i2_h7 = (2, 7), vk_int_repr_clone_from_h3_i1 = (3, 1),
    vk_int_repr_clone_from_h3_i2 = (3, 2), vk_int_repr_clone_from_h5_i1 = (5, 1), vk_int_repr_clone_from_h7_i2 = (7, 2),
    vk_int_repr_clone_from_h3_h7 = (3, 7), vk_int_repr_clone_from_h4_h7 = (4, 7), vk_int_repr_clone_from_h5_h7 = (5, 7),
    vk_int_repr_clone_from_h6_h7 = (6, 7), vk_int_repr_clone_from_h7_h7 = (7, 7), vk_int_repr_clone_from_h8_h7 = (8, 7),
    vk_int_repr_clone_from_h9_h7 = (9, 7), vk_int_repr_clone_from_h3_h3 = (3, 3), vk_int_repr_clone_from_h7_h3 = (7, 3),
    vk_int_repr_clone_from_h8_h3 = (8, 3), vk_int_repr_clone_from_h9_h4 = (9, 4));

// ---------------------------------------------------------------- drop
fn body_drop(kind: usize, neg: bool) {
    let (r, m) = mk(kind, neg);
    check(&r, &m, class_of(kind));
    drop(r);
}
per_kind!(body_drop; vk_int_repr_drop_i1 = 1, vk_int_repr_drop_i2 = 2, vk_int_repr_drop_h3 = 3, vk_int_repr_drop_h6 = 6);

// ---------------------------------------------------------------- from_static_words
// (symbolic contents through a leaked box that is reclaimed afterwards; the Repr itself must not be dropped)
fn body_from_static_words(n: usize) {
    let w: [Word; MAXW] = any();
    assume(n < 2 || w[n - 1] != 0); // documented precondition: normalized input
    let bx: Box<[Word]> = alloc::vec::Vec::from(&w[..n]).into_boxed_slice();
    let raw: *mut [Word] = Box::into_raw(bx);
    let st: &'static [Word] = unsafe { &*raw };
    let r = unsafe { Repr::from_static_words(st) };
    let mut want_len = n;
    if n == 1 && w[0] == 0 {
        want_len = 0;
    }
    let k = if n <= 2 { INLINE } else { HEAP };
    let want = Model { neg: false, w, len: want_len };
    check(&r, &want, k);
    // a clone is an ordinary owned value
    let c = r.clone();
    finish_k(c, &want, k);
    mem::forget(r);
    drop(unsafe { Box::from_raw(raw) });
}
per_n!(body_from_static_words; vk_int_repr_from_static_words_n0 = 0, vk_int_repr_from_static_words_n1 = 1,
    vk_int_repr_from_static_words_n2 = 2, vk_int_repr_from_static_words_n3 = 3,
    vk_int_repr_from_static_words_n5 = 5);

// ---------------------------------------------------------------- ones(n)
fn check_ones(n: usize, class: usize) {
    let r = Repr::ones(n);
    // 2^n - 1: n / 64 full words and n % 64 bits on top
    let full = n / 64;
    let rem = n % 64;
    let mut m = Model { neg: false, w: [0; MAXW], len: full + (rem != 0) as usize };
    let mut i = 0;
    while i < MAXW {
        if i < full {
            m.w[i] = Word::MAX;
        } else if i == full && rem != 0 {
            m.w[i] = ((1u128 << rem) - 1) as Word;
        }
        i += 1;
    }
    finish_k(r, &m, class);
}

// symbolic n: 0..=128 must be inline, 129..=200 heap
#[cfg_attr(kani, kani::proof)]
#[cfg_attr(kani, kani::unwind(12))]
#[cfg_attr(not(kani), test)]
fn vk_int_repr_ones_any_inline() {
    let n: usize = any();
    assume(n <= 128);
    check_ones(n, INLINE);
    cover();
}
#[cfg_attr(kani, kani::proof)]
#[cfg_attr(kani, kani::unwind(12))]
#[cfg_attr(not(kani), test)]
fn vk_int_repr_ones_any_heap() {
    let n: usize = any();
    assume(n > 128 && n <= 200);
    check_ones(n, HEAP);
    cover();
}

// the same for every n in lo..=hi one by one (concrete loop, concrete allocation sizes)
fn body_ones(lo: usize, hi: usize) {
    let mut n = lo;
    while n <= hi {
        check_ones(n, if n <= 128 { INLINE } else { HEAP });
        n += 1;
    }
}
macro_rules! ones_range {
    ($($name:ident = ($lo:expr, $hi:expr)),* $(,)?) => {$(
        #[cfg_attr(kani, kani::proof)]
        #[cfg_attr(kani, kani::unwind(80))]
        #[cfg_attr(not(kani), test)]
        fn $name() {
            body_ones($lo, $hi);
            cover();
        }
    )*};
}
ones_range!(vk_int_repr_ones_0_66 = (0, 66), vk_int_repr_ones_67_133 = (67, 133), vk_int_repr_ones_134_200 = (134, 200));

// ---------------------------------------------------------------- C05: PartialEq / Hash for Repr, Ord / PartialEq for IBig, UBig
// Two arbitrary well-formed reprs (classes as above, so the same value occurs with different capacities):
// `==` iff same value; `cmp` is the order of the values and Equal iff `==`; equal values feed identical data
// to a Hasher (recorded byte by byte).
use crate::{ibig::IBig, ubig::UBig};
use core::cmp::Ordering;

struct Rec {
    buf: [u8; 64],
    n: usize,
}
impl Hasher for Rec {
    fn finish(&self) -> u64 {
        0
    }
    fn write(&mut self, bytes: &[u8]) {
        let mut i = 0;
        while i < bytes.len() {
            assert!(self.n < 64);
            self.buf[self.n] = bytes[i];
            self.n += 1;
            i += 1;
        }
    }
}
fn rec_eq(a: &Rec, b: &Rec) -> bool {
    let mut ok = a.n == b.n;
    let mut i = 0;
    while i < 64 {
        if i < a.n && a.buf[i] != b.buf[i] {
            ok = false;
        }
        i += 1;
    }
    ok
}

/// Order of the magnitudes sum w[i] 2^(64 i): all words, absent words are 0, the highest difference decides.
fn ord_mag(a: &Model, b: &Model) -> Ordering {
    let mut r = Ordering::Equal;
    let mut i = 0;
    while i < MAXW {
        let x = if i < a.len { a.w[i] } else { 0 };
        let y = if i < b.len { b.w[i] } else { 0 };
        if x < y {
            r = Ordering::Less;
        } else if x > y {
            r = Ordering::Greater;
        }
        i += 1;
    }
    r
}
/// Order of the signed values (zero is never negative in a Model).
fn ord_signed(a: &Model, b: &Model) -> Ordering {
    match (a.neg, b.neg) {
        (false, false) => ord_mag(a, b),
        (false, true) => Ordering::Greater,
        (true, false) => Ordering::Less,
        (true, true) => ord_mag(b, a),
    }
}

/// class (k, l): k = 1, 2 inline (l ignored); k >= 3 heap of capacity k holding exactly l words.  Capacity,
/// length and sign are all concrete per call (four calls per harness, one per sign combination): slice
/// comparison and hashing then run over slices of constant length.
fn mk_kl(k: usize, l: usize, neg: bool) -> (Repr, Model) {
    if k <= 2 {
        mk_inline(k, neg)
    } else {
        mk_heap_len(k, l, neg)
    }
}
fn body_eq_cmp_hash(ka: usize, la: usize, an: bool, kb: usize, lb: usize, bn: bool) {
    let (a, ma) = mk_kl(ka, la, an);
    let (b, mb) = mk_kl(kb, lb, bn);
    let same = ma.neg == mb.neg && ord_mag(&ma, &mb) == Ordering::Equal;
    assert!(same == model_eq(&ma, &mb)); // without leading zeros: same value <=> same sign and words
    assert!((a == b) == same);
    let mut ha = Rec { buf: [0; 64], n: 0 };
    let mut hb = Rec { buf: [0; 64], n: 0 };
    a.hash(&mut ha);
    b.hash(&mut hb);
    if same {
        assert!(rec_eq(&ha, &hb));
    }
    let want = ord_signed(&ma, &mb);
    assert!((want == Ordering::Equal) == same);
    let (x, y) = (IBig(a), IBig(b));
    assert!(x.cmp(&y) == want);
    assert!(x.partial_cmp(&y) == Some(want));
    assert!((x == y) == same);
    if !ma.neg && !mb.neg {
        let (p, q) = (UBig(x.0), UBig(y.0));
        assert!(p.cmp(&q) == want);
        assert!(p.partial_cmp(&q) == Some(want));
        assert!((p == q) == same);
    }
}
macro_rules! eq_cmp_hash {
    ($($name:ident = (($ka:expr, $la:expr), ($kb:expr, $lb:expr))),* $(,)?) => {$(
        #[cfg_attr(kani, kani::proof)]
        #[cfg_attr(kani, kani::unwind(66))]
        #[cfg_attr(not(kani), test)]
        fn $name() {
            match (any::<bool>(), any::<bool>()) {
                (false, false) => body_eq_cmp_hash($ka, $la, false, $kb, $lb, false),
                (false, true) => body_eq_cmp_hash($ka, $la, false, $kb, $lb, true),
                (true, false) => body_eq_cmp_hash($ka, $la, true, $kb, $lb, false),
                (true, true) => body_eq_cmp_hash($ka, $la, true, $kb, $lb, true),
            }
            cover();
        }
    )*};
}
eq_cmp_hash!(
    vk_int_repr_eq_cmp_hash_i1_i1 = ((1, 0), (1, 0)), vk_int_repr_eq_cmp_hash_i1_i2 = ((1, 0), (2, 0)),
    vk_int_repr_eq_cmp_hash_i2_i1 = ((2, 0), (1, 0)), vk_int_repr_eq_cmp_hash_i2_i2 = ((2, 0), (2, 0)),
    vk_int_repr_eq_cmp_hash_i1_h3 = ((1, 0), (3, 3)), vk_int_repr_eq_cmp_hash_h3_i2 = ((3, 3), (2, 0)),
    vk_int_repr_eq_cmp_hash_h3_h3 = ((3, 3), (3, 3)), vk_int_repr_eq_cmp_hash_h3_h5l3 = ((3, 3), (5, 3)),
    vk_int_repr_eq_cmp_hash_h7l3_h4l4 = ((7, 3), (4, 4)), vk_int_repr_eq_cmp_hash_h5l4_h4l4 = ((5, 4), (4, 4)));
