// Kani harnesses for integer/src/parse/power_two.rs (C07 "parsing that text (... underscores, either letter case)
// returns the same integer, and malformed text is rejected with an error rather than a wrong number").
//
// Functions under test: parse_word, parse_large, parse (the dispatch between the two).
//
// Oracle (positional notation, written from the property statement): reading the characters from left to right, skipping
// '_', value := value * radix + digit(c); a character that is neither '_' nor a digit below the radix (0-9, a-z / A-Z
// with values 10..=35, by explicit range tests) makes the text malformed: Err(InvalidDigit), never a number.
// radix = 2^l, so "* radix" is a shift by l; all values here are below 2^128.
//
// Bound: 5 fully symbolic ASCII bytes (symbolic length 0..=5 for parse_word; followed by a concrete tail of
// digits_per_word - 2 digit characters for parse / parse_large so that the text is longer than one word and the digits
// straddle the word boundary), radix in {2, 4, 8, 16, 32}.  Non-ASCII bytes are not generated (a &str must be valid
// UTF-8); every byte >= 0x80 is rejected by digit_from_ascii_byte (complete proof in group int_radix).
use super::*;
#[allow(unused_imports)]
use crate::repr::TypedReprRef::{RefLarge, RefSmall};
use dashu_base::Sign::Positive;
include!("/verif/kani/harness/shim.rs");

const _: () = assert!(WORD_BITS == 64); // all Kani runs use force_bits = "64"

/// value of an ASCII digit character in the 36-character alphabet (either letter case), by range tests
fn vk_p2_alphabet_value(byte: u8) -> Option<u32> {
    let b = byte as u32;
    if b >= 48 && b <= 57 {
        Some(b - 48) // '0'..='9'
    } else if b >= 97 && b <= 122 {
        Some(b - 97 + 10) // 'a'..='z'
    } else if b >= 65 && b <= 90 {
        Some(b - 65 + 10) // 'A'..='Z'
    } else {
        None
    }
}

/// positional value of text[..len] in radix 2^l; None if malformed
fn vk_p2_value<const N: usize>(text: &[u8; N], len: usize, l: u32) -> Option<u128> {
    let mut v: u128 = 0;
    let mut bad = false;
    let mut i = 0;
    while i < N {
        if i < len && text[i] != 95 {
            // not '_'
            match vk_p2_alphabet_value(text[i]) {
                Some(d) if d < (1u32 << l) => {
                    // no digit may be lost: the value stays below 2^128 in every harness
                    assert!(v >> (128 - l) == 0);
                    v = (v << l) | d as u128;
                }
                _ => bad = true,
            }
        }
        i += 1;
    }
    if bad {
        None
    } else {
        Some(v)
    }
}

fn vk_p2_ubig_value(u: &UBig) -> u128 {
    let (sign, t) = u.0.as_sign_typed();
    assert!(sign == Positive);
    match t {
        RefSmall(d) => d,
        RefLarge(_) => {
            assert!(false); // every value in these harnesses is below 2^128
            0
        }
    }
}

fn vk_p2_radix(sel: u8) -> (Digit, u32) {
    match sel {
        0 => (2, 1),
        1 => (4, 2),
        2 => (8, 3),
        3 => (16, 4),
        _ => (32, 5),
    }
}

#[cfg_attr(kani, kani::proof)]
#[cfg_attr(not(kani), test)]
#[cfg_attr(kani, kani::unwind(8))]
fn vk_int_parse_p2_word() {
    let text: [u8; 5] = any();
    let len: usize = any();
    let sel: u8 = any();
    assume(len <= 5 && sel <= 4);
    let mut i = 0;
    while i < 5 {
        assume(text[i] < 0x80);
        i += 1;
    }
    let (radix, l) = vk_p2_radix(sel);
    // SAFETY: every byte is ASCII (assumed above), hence valid UTF-8
    let src = unsafe { core::str::from_utf8_unchecked(&text[..len]) };
    let want = vk_p2_value::<5>(&text, len, l);
    match parse_word(src, radix) {
        Ok(w) => assert!(want == Some(w as u128)),
        Err(e) => assert!(want.is_none() && matches!(e, ParseError::InvalidDigit)),
    }
    // the dispatching entry point agrees (5 <= digits_per_word for every radix)
    match parse(src, radix) {
        Ok(u) => assert!(want == Some(vk_p2_ubig_value(&u))),
        Err(e) => assert!(want.is_none() && matches!(e, ParseError::InvalidDigit)),
    }
    cover();
}

// texts longer than one word: 5 symbolic characters followed by digits_per_word - 2 concrete digit characters
// (the digits 1, 0, 1, 1 repeated, all valid in every radix), through `parse` (which must choose parse_large) and
// through parse_large directly
macro_rules! vk_parse_p2_large {
    ($name:ident, $radix:expr, $l:expr, $n:expr) => {
        #[cfg_attr(kani, kani::proof)]
        #[cfg_attr(not(kani), test)]
        #[cfg_attr(kani, kani::unwind(70))]
        fn $name() {
            const N: usize = $n; // 5 + (64 / l - 2)
            let head: [u8; 5] = any();
            let mut text = [0u8; N];
            let mut i = 0;
            while i < N {
                if i < 5 {
                    assume(head[i] < 0x80);
                    text[i] = head[i];
                } else {
                    text[i] = if i % 4 == 1 { 48 } else { 49 };
                }
                i += 1;
            }
            // SAFETY: every byte is ASCII (assumed / constructed above), hence valid UTF-8
            let src = unsafe { core::str::from_utf8_unchecked(&text) };
            let want = vk_p2_value::<N>(&text, N, $l);
            match parse(src, $radix) {
                Ok(u) => assert!(want == Some(vk_p2_ubig_value(&u))),
                Err(e) => assert!(want.is_none() && matches!(e, ParseError::InvalidDigit)),
            }
            match parse_large(src, $radix) {
                Ok(u) => assert!(want == Some(vk_p2_ubig_value(&u))),
                Err(e) => assert!(want.is_none() && matches!(e, ParseError::InvalidDigit)),
            }
            cover();
        }
    };
}
vk_parse_p2_large!(vk_int_parse_p2_large_r2, 2, 1, 67);
vk_parse_p2_large!(vk_int_parse_p2_large_r4, 4, 2, 35);
vk_parse_p2_large!(vk_int_parse_p2_large_r8, 8, 3, 24);
vk_parse_p2_large!(vk_int_parse_p2_large_r16, 16, 4, 19);
vk_parse_p2_large!(vk_int_parse_p2_large_r32, 32, 5, 15);
