// Kani harnesses for integer/src/modular/repr.rs (+ the operator impls of add.rs / mul.rs that call it): C13, clause
// "mixing elements of different ConstDivisor instances panics", decided on the REAL pointer identity (`ptr::eq`), which
// the Verus units int_modconv / int_modconv_panic only model as an uninterpreted relation.
//
// BOUNDED (concrete moduli, concrete elements; the operator FORM is symbolic):
//   * single-word ring  m = 1_000_003           (normalisation shift 44)
//   * double-word ring  m = 2^64 + 13           (shift 63)
//   * 3-word ring       m = [7, 5, 2^62 + 1]    (shift 1)
//   each built TWICE (two distinct objects, equal modulus value, equal derived `PartialEq`), elements 1 and 0 of each.
//   Single / double word: every form of  + - *  (value/reference operands), += -= *= (value/reference rhs) and == between an
//   element of the first and an element of the second instance must panic (form selector symbolic); the same forms on two
//   elements of ONE instance must return (and 1 + 0 == 1, 1 - 0 == 1, 1 * 1 == 1 there).
//   3-word ring: one harness per form  a += &b, a -= &b, &a - b, a == b  (no `*`: out of CBMC's reach).
//   Mixed representations (single vs double vs large, all 19 forms) must panic as well.
// The moduli are pinned through `assume` instead of literals: CBMC 6.11 crashes in its constant folder on num_modular's
// reciprocal computation with a literal divisor (probed, see int_modpow.rs).
// Not covered here: `/` (goes through inv = extended gcd; the panic it would raise comes from the `*` it delegates to).
use super::*;
include!("/verif/kani/harness/shim.rs");

fn vk_mr_pin(w: Word) -> Word {
    let v: Word = any();
    assume(v == w);
    v
}

fn vk_mr_single() -> ConstSingleDivisor {
    ConstSingleDivisor::new(vk_mr_pin(1_000_003))
}

fn vk_mr_double() -> ConstDoubleDivisor {
    let lo = vk_mr_pin(13) as DoubleWord;
    let hi = vk_mr_pin(1) as DoubleWord;
    ConstDoubleDivisor::new(lo | (hi << Word::BITS))
}

fn vk_mr_large() -> ConstLargeDivisor {
    // literal words: everything below is constant-folded by CBMC (dashu's own FastDivideNormalized2, no num_modular)
    let mut b = Buffer::allocate_exact(3);
    b.push(7);
    b.push(5);
    b.push((1 << (Word::BITS - 2)) + 1);
    ConstLargeDivisor::new(b)
}

fn vk_mr_large_elem(ring: &ConstLargeDivisor, one: bool) -> ReducedLarge {
    let mut b = Buffer::allocate_exact(3);
    b.push(if one { 1 << ring.shift } else { 0 });
    b.push(0);
    b.push(0);
    ReducedLarge(b.into_boxed_slice())
}

const VK_MR_FORMS: u8 = 19;

/// One operator form between `a` and `b`, selected by k < VK_MR_FORMS.  Returns the result where there is one.
fn vk_mr_apply<'a>(k: u8, a: Reduced<'a>, b: Reduced<'a>) -> Option<Reduced<'a>> {
    match k {
        0 => Some(a + b),
        1 => Some(a + &b),
        2 => Some(&a + b),
        3 => Some(&a + &b),
        4 => Some(a - b),
        5 => Some(a - &b),
        6 => Some(&a - b),
        7 => Some(&a - &b),
        8 => Some(a * b),
        9 => Some(a * &b),
        10 => Some(&a * b),
        11 => Some(&a * &b),
        12 => {
            let mut a = a;
            a += b;
            Some(a)
        }
        13 => {
            let mut a = a;
            a += &b;
            Some(a)
        }
        14 => {
            let mut a = a;
            a -= b;
            Some(a)
        }
        15 => {
            let mut a = a;
            a -= &b;
            Some(a)
        }
        16 => {
            let mut a = a;
            a *= b;
            Some(a)
        }
        17 => {
            let mut a = a;
            a *= &b;
            Some(a)
        }
        _ => {
            let _ = a == b;
            None
        }
    }
}

/// form k applied to (1, 0) [additive forms] or (1, 1) [multiplicative forms] of the same ring gives 1
fn vk_mr_rhs_is_one(k: u8) -> bool {
    (k >= 8 && k <= 11) || k == 16 || k == 17
}

macro_rules! vk_mr_panics {
    ($name:ident, $unw:expr, $body:block) => {
        #[cfg_attr(kani, kani::proof)]
        #[cfg_attr(kani, kani::unwind($unw))]
        #[cfg_attr(kani, kani::should_panic)]
        #[cfg_attr(not(kani), test)]
        #[cfg_attr(not(kani), should_panic)]
        fn $name() {
            cover();
            $body;
            must_not_return();
        }
    };
}

macro_rules! vk_mr_returns {
    ($name:ident, $unw:expr, $body:block) => {
        #[cfg_attr(kani, kani::proof)]
        #[cfg_attr(kani, kani::unwind($unw))]
        #[cfg_attr(not(kani), test)]
        fn $name() {
            $body;
            cover();
        }
    };
}

// ---- two instances with the same modulus: every form panics -------------------------------------------------------
vk_mr_panics!(vk_modring_single_two_instances_panic, 5, {
    let (r1, r2) = (vk_mr_single(), vk_mr_single());
    let k: u8 = any();
    assume(k < VK_MR_FORMS);
    let a = Reduced::from_single(ReducedWord::one(&r1), &r1);
    let b = Reduced::from_single(ReducedWord::one(&r2), &r2);
    let _ = vk_mr_apply(k, a, b);
});

vk_mr_panics!(vk_modring_double_two_instances_panic, 5, {
    let (r1, r2) = (vk_mr_double(), vk_mr_double());
    let k: u8 = any();
    assume(k < VK_MR_FORMS);
    let a = Reduced::from_double(ReducedDword::one(&r1), &r1);
    let b = Reduced::from_double(ReducedDword::one(&r2), &r2);
    let _ = vk_mr_apply(k, a, b);
});

// large rings: one harness per operator FAMILY (the value/reference forms of + and * all end in add_assign(&) /
// mul_assign(&); `&a - b` has its own match): a symbolic form selector over the multi-word kernels is beyond CBMC
macro_rules! vk_mr_large_panics {
    ($($name:ident = $k:expr),* $(,)?) => {$(
        vk_mr_panics!($name, 26, {      // 26: a value comparison of the rings (what a wrong identity check would do) is a
            // memcmp over 3 words: it must be fully unwound so that such a change ends in must_not_return, not in an unwinding failure
            let (r1, r2) = (vk_mr_large(), vk_mr_large());
            let a = Reduced::from_large(vk_mr_large_elem(&r1, true), &r1);
            let b = Reduced::from_large(vk_mr_large_elem(&r2, true), &r2);
            let _ = vk_mr_apply($k, a, b);
        });
    )*};
}
vk_mr_large_panics!(vk_modring_large_two_instances_add_panic = 13, vk_modring_large_two_instances_sub_panic = 15,
    vk_modring_large_two_instances_rsub_panic = 6, vk_modring_large_two_instances_eq_panic = 18);
// (`*` on 3-word rings: CBMC does not finish within 300 s even for the panicking pair -- the multiply / divide kernels behind
// the identity check are unrolled symbolically; the check itself is the same `check_same_ring_large` call as in += / -= / ==)

// the instance pairs used above are equal as VALUES (derived PartialEq): only identity tells them apart
vk_mr_returns!(vk_modring_instances_equal_as_values, 26, {
    assert!(vk_mr_single() == vk_mr_single());
    assert!(vk_mr_double() == vk_mr_double());
    assert!(vk_mr_large() == vk_mr_large());
});

// ---- different representations (the `_ => panic_different_rings()` arms) ------------------------------------------
vk_mr_panics!(vk_modring_mixed_repr_panic, 5, {
    let (r1, r2, r3) = (vk_mr_single(), vk_mr_double(), vk_mr_large());
    let k: u8 = any();
    assume(k < VK_MR_FORMS);
    let pair: u8 = any();
    assume(pair < 6);
    let s = Reduced::from_single(ReducedWord::one(&r1), &r1);
    let d = Reduced::from_double(ReducedDword::one(&r2), &r2);
    let l = Reduced::from_large(vk_mr_large_elem(&r3, true), &r3);
    let _ = match pair {
        0 => vk_mr_apply(k, s, d),
        1 => vk_mr_apply(k, d, s),
        2 => vk_mr_apply(k, s, l),
        3 => vk_mr_apply(k, l, s),
        4 => vk_mr_apply(k, d, l),
        _ => vk_mr_apply(k, l, d),
    };
});

// ---- one instance: no form panics, and the results are the expected residues --------------------------------------
vk_mr_returns!(vk_modring_single_one_instance_ok, 5, {
    let r = vk_mr_single();
    let k: u8 = any();
    assume(k < VK_MR_FORMS);
    let a = Reduced::from_single(ReducedWord::one(&r), &r);
    let b = Reduced::from_single(if vk_mr_rhs_is_one(k) || k == 18 { ReducedWord::one(&r) } else { ReducedWord(0) }, &r);
    let one = Reduced::from_single(ReducedWord::one(&r), &r);
    if let Some(c) = vk_mr_apply(k, a, b) {
        assert!(c == one);
    }
});

vk_mr_returns!(vk_modring_double_one_instance_ok, 5, {
    let r = vk_mr_double();
    let k: u8 = any();
    assume(k < VK_MR_FORMS);
    let a = Reduced::from_double(ReducedDword::one(&r), &r);
    let b = Reduced::from_double(if vk_mr_rhs_is_one(k) || k == 18 { ReducedDword::one(&r) } else { ReducedDword(0) }, &r);
    let one = Reduced::from_double(ReducedDword::one(&r), &r);
    if let Some(c) = vk_mr_apply(k, a, b) {
        assert!(c == one);
    }
});

macro_rules! vk_mr_large_returns {
    ($($name:ident = $k:expr),* $(,)?) => {$(
        vk_mr_returns!($name, 26, {     // 26: the final `==` is a memcmp over 3 words
            let r = vk_mr_large();
            let a = Reduced::from_large(vk_mr_large_elem(&r, true), &r);
            let b = Reduced::from_large(vk_mr_large_elem(&r, vk_mr_rhs_is_one($k) || $k == 18), &r);
            let one = Reduced::from_large(vk_mr_large_elem(&r, true), &r);
            if let Some(c) = vk_mr_apply($k, a, b) {
                assert!(c == one);
            }
        });
    )*};
}
vk_mr_large_returns!(vk_modring_large_one_instance_add_ok = 13, vk_modring_large_one_instance_sub_ok = 15,
    vk_modring_large_one_instance_rsub_ok = 6, vk_modring_large_one_instance_eq_ok = 18);
