// Kani harnesses for integer/src/radix.rs (digit decoding, per-radix word tables) and for
// arch::digits::digit_chunk_raw_to_ascii (integer/src/arch/generic/digits.rs, reached through `crate::arch::digits`).
// Oracle (C07): the positional digit alphabet 0-9, a-z / A-Z with values 0..=35, written as explicit range tests.
use super::*;
include!("/verif/kani/harness/shim.rs");

/// value of an ASCII digit character in the 36-character alphabet (either letter case), by range tests
fn vk_radix_alphabet_value(byte: u8) -> Option<u32> {
    let b = byte as u32;
    if b >= 48 && b <= 57 {
        Some(b - 48) // '0'..='9'
    } else if b >= 97 && b <= 122 {
        Some(b - 97 + 10) // 'a'..='z'
    } else if b >= 65 && b <= 90 {
        Some(b - 65 + 10) // 'A'..='Z'
    } else {
        None
    }
}

#[cfg_attr(kani, kani::proof)]
#[cfg_attr(not(kani), test)]
fn vk_int_radix_digit_from_ascii_byte() {
    let byte: u8 = any();
    let radix: Digit = any();
    assume(radix >= 2 && radix <= 36);
    let r = digit_from_ascii_byte(byte, radix);
    // Some(d) iff the byte is a digit character whose value is below the radix, and d is that value
    match vk_radix_alphabet_value(byte) {
        Some(d) if d < radix => assert!(r == Some(d)),
        _ => assert!(r.is_none()),
    }
    cover();
}

// documented panic: radix outside 2..=36
#[cfg_attr(kani, kani::proof)]
#[cfg_attr(kani, kani::should_panic)]
#[cfg_attr(not(kani), test)]
#[cfg_attr(not(kani), should_panic)]
fn vk_int_radix_digit_from_ascii_byte_bad_radix() {
    let byte: u8 = any();
    let radix: Digit = any();
    assume(radix < 2 || radix > 36);
    let _ = digit_from_ascii_byte(byte, radix);
}

#[cfg_attr(kani, kani::proof)]
#[cfg_attr(not(kani), test)]
fn vk_int_radix_is_radix_valid() {
    let radix: Digit = any();
    assert!(is_radix_valid(radix) == (radix >= 2 && radix <= 36));
    cover();
}

/// the ASCII character of digit value d (< 36) in the given letter case
fn vk_radix_digit_char(d: u8, upper: bool) -> u8 {
    if d < 10 {
        48 + d
    } else if upper {
        65 + (d - 10)
    } else {
        97 + (d - 10)
    }
}

#[cfg_attr(kani, kani::proof)]
#[cfg_attr(not(kani), test)]
#[cfg_attr(kani, kani::unwind(18))]
fn vk_int_radix_digit_chunk_raw_to_ascii() {
    use crate::arch::digits::{digit_chunk_raw_to_ascii, DIGIT_CHUNK_LEN};
    let raw: [u8; DIGIT_CHUNK_LEN] = any();
    let which: u8 = any();
    assume(which < 3);
    let case = if which == 0 {
        DigitCase::NoLetters
    } else if which == 1 {
        DigitCase::Lower
    } else {
        DigitCase::Upper
    };
    // "digits must be valid": below 36, and below 10 when no letters are available
    let limit: u8 = if which == 0 { 10 } else { 36 };
    let mut i = 0;
    while i < DIGIT_CHUNK_LEN {
        assume(raw[i] < limit);
        i += 1;
    }
    let mut out = raw;
    digit_chunk_raw_to_ascii(&mut out, case);
    let mut i = 0;
    while i < DIGIT_CHUNK_LEN {
        assert!(out[i] == vk_radix_digit_char(raw[i], which == 2));
        // and the character decodes back to the digit
        assert!(vk_radix_alphabet_value(out[i]) == Some(raw[i] as u32));
        i += 1;
    }
    cover();
}

// RadixInfo tables for the radices that use them (every non-power-of-two radix in 3..=36; power-of-two radices never
// reach `radix_info`): digits_per_word = max k with radix^k <= Word::MAX, range_per_word = radix^k.
// All values are concrete: the loops are unwound completely (35 radices, at most 40 digits).
#[cfg_attr(kani, kani::proof)]
#[cfg_attr(not(kani), test)]
#[cfg_attr(kani, kani::unwind(70))]
fn vk_int_radix_info_tables() {
    let mut radix: Digit = 3;
    while radix <= 36 {
        if !radix.is_power_of_two() {
            let info = radix_info(radix);
            // radix^digits_per_word by repeated multiplication in u128
            let mut p: u128 = 1;
            let mut k = 0;
            while k < info.digits_per_word {
                p *= radix as u128;
                assert!(p <= Word::MAX as u128);
                k += 1;
            }
            assert!(info.digits_per_word >= 1);
            assert!(p == info.range_per_word as u128);
            assert!(p * radix as u128 > Word::MAX as u128);
        }
        radix += 1;
    }
    cover();
}
