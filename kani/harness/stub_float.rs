// Kani harnesses for the dashu-float helpers that the Verus float units (C03 / C08 / C10 ...) only see through ASSUMED
// stub contracts (contracts/lib/round_float_repr.rs, conv_fbig_stubs.rs, farith_add_stubs.rs):
//     utils::digit_len, split_digits, split_digits_ref, shl_digits, shl_digits_in_place, shr_digits,
//     Repr::new (= normalize), Repr::digits.
// Each harness asserts EXACTLY the postcondition of the stub contract (quoted above it) on the REAL function, in
// base 2 and base 10 (base 16 for the generic power-of-two arm).  Mounted on float/src/utils.rs.
//
// BOUNDED.  Power-of-two bases (2, 16): symbolic sign and symbolic one-word magnitude (the range of an i64 and beyond:
// |s| < 2^64) or two-word magnitude where stated, at CONCRETE digit positions / shift amounts (suffix _pN / _eN: the
// allocation sizes inside dashu-int depend on them, and symbolic allocation sizes are out of CBMC's reach); every
// harness makes one or two calls per sign (the cost of CBMC grows much faster than linearly with the number of
// calls).  Base 10 (and `Repr::new` on negative significands): the real code goes through `IBig` `/ % div_rem` /
// `>>` on intermediate results whose inline/heap class is a computed value; CBMC then has to encode the multi-word
// arms over pointers made of the inline words (out of memory, see int_forms.rs / int_bits_signed.rs).  These arms are
// therefore run on CONCRETE magnitudes (listed per harness) with both signs: a regression net for the base-10 glue of
// the float helpers, not more; the integer operations underneath are proved by the Verus units named in
// contracts/STUB_AUDIT.md.
//
// Construction: an inline IBig is written straight from the documented layout of dashu-int's `Repr`
// (`#[repr(C)] { data: [Word; 2], capacity: NonZeroIsize }`, IBig is `#[repr(transparent)]`; |capacity| = 1: one word,
// 2: two words, sign of capacity = sign of the number, zero is +0 with capacity 1) with a CONCRETE sign and word count
// per call: after `IBig::from(i64)` the capacity field is a computed value for CBMC, which then has to encode the
// heap branch of every accessor over pointers made from the inline words (out of memory; see int_forms.rs).
// Results are read back through `as_sign_words()` (sign + magnitude words) -- `==` / `From` of the library are not
// used to judge.  The oracle is plain i128 / u128 arithmetic written from the stub contract.
use super::*;
use crate::repr::Repr;
include!("/verif/kani/harness/shim.rs");

/// inline IBig with `c` magnitude words (c = 1: hi ignored, lo may be 0 only if !neg; c = 2: hi != 0)
fn vk_sf_mk(c: usize, neg: bool, lo: Word, hi: Word) -> IBig {
    assume(if c == 2 { hi != 0 } else { !(neg && lo == 0) });
    let cap: isize = if neg { -(c as isize) } else { c as isize };
    let hi = if c == 2 { hi } else { 0 };
    unsafe { core::mem::transmute::<[u64; 3], IBig>([lo as u64, hi as u64, cap as u64]) }
}
/// the same from a magnitude < 2^128 (word count decided here: use with concrete magnitudes)
fn vk_sf_mk_mag(neg: bool, mag: u128) -> IBig {
    let (lo, hi) = (mag as Word, (mag >> 64) as Word);
    if hi != 0 {
        vk_sf_mk(2, neg, lo, hi)
    } else {
        vk_sf_mk(1, neg && lo != 0, lo, 0)
    }
}

/// (negative?, magnitude) of a result that must be INLINE (|x| < 2^128), read back from the same documented layout
/// (no accessor of the library is involved, and no pointer is followed); asserts the representation invariant:
/// |capacity| = 1 <=> high word 0, |capacity| = 2 <=> high word != 0, zero is +0.  Consumes x without dropping it.
fn vk_sf_take(x: IBig) -> (bool, u128) {
    let r = unsafe { core::mem::transmute::<IBig, [u64; 3]>(x) };
    let cap = r[2] as i64;
    assert!(cap == 1 || cap == -1 || cap == 2 || cap == -2);
    assert!((cap == 2 || cap == -2) == (r[1] != 0));
    assert!(!(cap == -1 && r[0] == 0));
    (cap < 0, (r[0] as u128) | ((r[1] as u128) << 64))
}

/// does x hold sign * mag (zero: any requested sign, stored as +0)?
fn vk_sf_is(x: IBig, neg: bool, mag: u128) -> bool {
    let (n, m) = vk_sf_take(x);
    m == mag && (mag == 0 || n == neg)
}

/// one harness: for both signs (concrete per call) the body at every listed concrete parameter
macro_rules! vk_sf_signs {
    ($name:ident, $unw:expr, $body:ident) => {
        #[cfg_attr(kani, kani::proof)]
        #[cfg_attr(kani, kani::unwind($unw))]
        #[cfg_attr(not(kani), test)]
        fn $name() {
            if any::<bool>() {
                $body(true);
            } else {
                $body(false);
            }
            cover();
        }
    };
    ($name:ident, $unw:expr, $body:ident, [$($p:expr),*]) => {
        #[cfg_attr(kani, kani::proof)]
        #[cfg_attr(kani, kani::unwind($unw))]
        #[cfg_attr(not(kani), test)]
        fn $name() {
            if any::<bool>() {
                $($body(true, $p);)*
            } else {
                $($body(false, $p);)*
            }
            cover();
        }
    };
}

// ------------------------------------------------------------------------------------------------------------------
// split_digits / split_digits_ref  (round_float_repr.rs):
//   ensures is_trunc_divrem(value, B^pos, r.0, r.1):  value == hi * B^pos + lo, |lo| < B^pos, lo == 0 or sign(lo) == sign(value)
// (for magnitudes: hi = |v| div B^pos, lo = |v| mod B^pos, both carrying the sign of v)

/// hi / lo parts of a magnitude at bit position n
fn vk_sf_cut(m: u128, n: usize) -> (u128, u128) {
    if n >= 128 {
        (0, m)
    } else {
        (m >> n, m & ((1u128 << n) - 1))
    }
}

/// base 2, owning form, one-word magnitude
fn vk_sf_split_b2(neg: bool, pos: usize) {
    let m: Word = any();
    let (whi, wlo) = vk_sf_cut(m as u128, pos);
    let (hi, lo) = split_digits::<2>(vk_sf_mk(1, neg, m, 0), pos);
    assert!(vk_sf_is(hi, neg, whi) && vk_sf_is(lo, neg, wlo));
}
vk_sf_signs!(vk_stub_float_split_digits_b2_p1, 4, vk_sf_split_b2, [0, 1]);
vk_sf_signs!(vk_stub_float_split_digits_b2_p63, 4, vk_sf_split_b2, [63, 64]);
vk_sf_signs!(vk_stub_float_split_digits_b2_p70, 4, vk_sf_split_b2, [70]);

/// base 2, owning and borrowing form, two-word magnitude
fn vk_sf_split_b2_dw(neg: bool, pos: usize) {
    let (l, h): (Word, Word) = (any(), any());
    let (whi, wlo) = vk_sf_cut((l as u128) | ((h as u128) << 64), pos);
    let v = vk_sf_mk(2, neg, l, h);
    let (hi, lo) = split_digits_ref::<2>(&v, pos);
    assert!(vk_sf_is(hi, neg, whi) && vk_sf_is(lo, neg, wlo));
    let (hi, lo) = split_digits::<2>(v, pos);
    assert!(vk_sf_is(hi, neg, whi) && vk_sf_is(lo, neg, wlo));
}
// (the borrowing form only at whole-word positions and beyond the top: elsewhere its intermediate
//  `UBig::from_words(..)` value of computed class is shifted again -- see the concrete harnesses below)
vk_sf_signs!(vk_stub_float_split_digits_b2_dword_p64, 6, vk_sf_split_b2_dw, [64]);
vk_sf_signs!(vk_stub_float_split_digits_b2_dword_p128, 6, vk_sf_split_b2_dw, [128, 130]);
/// base 2, owning form only, two-word magnitude
fn vk_sf_split_b2_dw_own(neg: bool, pos: usize) {
    let (l, h): (Word, Word) = (any(), any());
    let (whi, wlo) = vk_sf_cut((l as u128) | ((h as u128) << 64), pos);
    let (hi, lo) = split_digits::<2>(vk_sf_mk(2, neg, l, h), pos);
    assert!(vk_sf_is(hi, neg, whi) && vk_sf_is(lo, neg, wlo));
}
vk_sf_signs!(vk_stub_float_split_digits_b2_dword_p1, 6, vk_sf_split_b2_dw_own, [1, 65]);
vk_sf_signs!(vk_stub_float_split_digits_b2_dword_p127, 6, vk_sf_split_b2_dw_own, [127]);

/// bases 2 / 16, both forms, CONCRETE magnitudes at positions where the symbolic harnesses are out of reach (an
/// intermediate `UBig::from_words(..)` result of computed class is shifted again)
fn vk_sf_split_b2_conc(neg: bool, mp: (u128, usize)) {
    let (m, pos) = mp;
    let (whi, wlo) = vk_sf_cut(m, pos);
    let v = vk_sf_mk_mag(neg, m);
    let (hi, lo) = split_digits_ref::<2>(&v, pos);
    assert!(vk_sf_is(hi, neg, whi) && vk_sf_is(lo, neg, wlo));
    let (hi, lo) = split_digits::<2>(v, pos);
    assert!(vk_sf_is(hi, neg, whi) && vk_sf_is(lo, neg, wlo));
}
vk_sf_signs!(vk_stub_float_split_digits_b2_conc, 6, vk_sf_split_b2_conc,
    [(0x8000_0000_0000_0001, 1), (0x8000_0000_0000_0001, 63), (0xdead_beef_0123_4567_89ab_cdef_0f0f_f0f1, 65), (5, 3)]);
fn vk_sf_split_b16_conc(neg: bool, mp: (u128, usize)) {
    let (m, pos) = mp;
    let (whi, wlo) = vk_sf_cut(m, 4 * pos);
    let v = vk_sf_mk_mag(neg, m);
    let (hi, lo) = split_digits_ref::<16>(&v, pos);
    assert!(vk_sf_is(hi, neg, whi) && vk_sf_is(lo, neg, wlo));
    let (hi, lo) = split_digits::<16>(v, pos);
    assert!(vk_sf_is(hi, neg, whi) && vk_sf_is(lo, neg, wlo));
}
vk_sf_signs!(vk_stub_float_split_digits_b16_conc, 6, vk_sf_split_b16_conc,
    [(0x1234, 1), (0xdead_beef_0123_4567_89ab_cdef_0f0f_f0f1, 17), (0xf0, 2)]);

/// base 16 (generic power-of-two arm: pos * 4 bits), one-word magnitude
fn vk_sf_split_b16(neg: bool, pos: usize) {
    let m: Word = any();
    let (whi, wlo) = vk_sf_cut(m as u128, 4 * pos);
    let (hi, lo) = split_digits::<16>(vk_sf_mk(1, neg, m, 0), pos);
    assert!(vk_sf_is(hi, neg, whi) && vk_sf_is(lo, neg, wlo));
}
vk_sf_signs!(vk_stub_float_split_digits_b16_p1, 4, vk_sf_split_b16, [1, 15]);
vk_sf_signs!(vk_stub_float_split_digits_b16_p16, 4, vk_sf_split_b16, [16, 17]);

const VK_SF_P10: [u128; 7] = [1, 10, 100, 1000, 10000, 100000, 1000000];

/// base 10, CONCRETE magnitude, owning and borrowing form
fn vk_sf_split_b10(neg: bool, mp: (u128, usize)) {
    let (m, pos) = mp;
    let p = VK_SF_P10[pos];
    let v = vk_sf_mk_mag(neg, m);
    let (hi, lo) = split_digits_ref::<10>(&v, pos);
    assert!(vk_sf_is(hi, neg, m / p) && vk_sf_is(lo, neg, m % p));
    let (hi, lo) = split_digits::<10>(v, pos);
    assert!(vk_sf_is(hi, neg, m / p) && vk_sf_is(lo, neg, m % p));
}
vk_sf_signs!(vk_stub_float_split_digits_b10_a, 10, vk_sf_split_b10, [(7, 1), (10, 1), (12345, 2)]);
vk_sf_signs!(vk_stub_float_split_digits_b10_b, 10, vk_sf_split_b10, [(12345, 0), (99999, 5), (100000, 5)]);
vk_sf_signs!(vk_stub_float_split_digits_b10_c, 10, vk_sf_split_b10,
    [((1u128 << 64) + 5, 3), (u64::MAX as u128, 6), (123456789012345678901234567890u128, 4)]);

// ------------------------------------------------------------------------------------------------------------------
// digit_len  (round_float_repr.rs):  ensures r == ndigits(B, value): 0 for 0, else the k with B^(k-1) <= |value| < B^k
// Repr::digits = digit_len(significand) for a finite Repr.
// (base 10 runs into dashu-int's log_dword: f32 `log2` estimate + exact correction.  CBMC's model of log2f is not
//  faithful -- a symbolic harness fails the run-time `assert!(est_pow <= target)` of log_dword spuriously -- so the
//  non-power-of-two arm stays ASSUMED here; log_dword itself is proved by unit int_log for ANY estimate that passes
//  that assert.)

fn vk_sf_digit_len_b2(neg: bool) {
    let m: Word = any();
    let v = vk_sf_mk(1, neg, m, 0);
    let want = (64 - m.leading_zeros()) as usize;
    assert!(digit_len::<2>(&v) == want);
}
vk_sf_signs!(vk_stub_float_digit_len_b2, 4, vk_sf_digit_len_b2);

/// Repr::digits on a finite repr (any exponent; a zero significand with exponent != 0 is an infinity: excluded)
fn vk_sf_repr_digits_b2(neg: bool) {
    let m: Word = any();
    let e: isize = any();
    assume(m != 0 || e == 0);
    let r = Repr::<2> { significand: vk_sf_mk(1, neg, m, 0), exponent: e };
    assert!(r.digits() == (64 - m.leading_zeros()) as usize);
}
vk_sf_signs!(vk_stub_float_repr_digits_b2, 4, vk_sf_repr_digits_b2);

fn vk_sf_digit_len_b16_dw(neg: bool) {
    let (l, h): (Word, Word) = (any(), any());
    let v = vk_sf_mk(2, neg, l, h);
    // base 16: ceil(bits / 4)
    assert!(digit_len::<16>(&v) == ((128 - h.leading_zeros()) as usize + 3) / 4);
}
vk_sf_signs!(vk_stub_float_digit_len_b16_dword, 4, vk_sf_digit_len_b16_dw);

// ------------------------------------------------------------------------------------------------------------------
// shl_digits / shl_digits_in_place  (conv_fbig_stubs.rs, farith_add_stubs.rs):  ensures r == value * B^exp

/// base 2, one-word magnitude, exp <= 64 (result <= 2 words)
fn vk_sf_shl_b2(neg: bool, e: usize) {
    let m: Word = any();
    let want = (m as u128) << e;
    let v = vk_sf_mk(1, neg, m, 0);
    assert!(vk_sf_is(shl_digits::<2>(&v, e), neg, want));
    let mut w = v;
    shl_digits_in_place::<2>(&mut w, e);
    assert!(vk_sf_is(w, neg, want));
}
vk_sf_signs!(vk_stub_float_shl_digits_b2_e1, 4, vk_sf_shl_b2, [0, 1]);
vk_sf_signs!(vk_stub_float_shl_digits_b2_e64, 4, vk_sf_shl_b2, [63, 64]);

/// base 16, one-word magnitude, exp <= 16
fn vk_sf_shl_b16(neg: bool, e: usize) {
    let m: Word = any();
    let want = (m as u128) << (4 * e);
    let v = vk_sf_mk(1, neg, m, 0);
    assert!(vk_sf_is(shl_digits::<16>(&v, e), neg, want));
    let mut w = v;
    shl_digits_in_place::<16>(&mut w, e);
    assert!(vk_sf_is(w, neg, want));
}
vk_sf_signs!(vk_stub_float_shl_digits_b16, 4, vk_sf_shl_b16, [1, 16]);

/// base 10, CONCRETE magnitude
fn vk_sf_shl_b10(neg: bool, me: (u128, usize)) {
    let (m, e) = me;
    let want = m * VK_SF_P10[e];
    let v = vk_sf_mk_mag(neg, m);
    assert!(vk_sf_is(shl_digits::<10>(&v, e), neg, want));
    let mut w = v;
    shl_digits_in_place::<10>(&mut w, e);
    assert!(vk_sf_is(w, neg, want));
}
vk_sf_signs!(vk_stub_float_shl_digits_b10, 10, vk_sf_shl_b10, [(7, 0), (7, 1), (12345, 3), ((1u128 << 64) + 5, 6)]);

// ------------------------------------------------------------------------------------------------------------------
// shr_digits  (conv_fbig_stubs.rs):  ensures exists lo. is_trunc_divrem(value, B^exp, r, lo)
//   i.e. r = sign(value) * (|value| div B^exp)   (truncation towards zero)

/// base 2, two-word magnitude
fn vk_sf_shr_b2(neg: bool, e: usize) {
    let (l, h): (Word, Word) = (any(), any());
    let (want, _) = vk_sf_cut((l as u128) | ((h as u128) << 64), e);
    assert!(vk_sf_is(shr_digits::<2>(&vk_sf_mk(2, neg, l, h), e), neg, want));
}
// (symbolic only at whole-word shifts and beyond the top: elsewhere the intermediate `UBig::from_words(..)` value of
//  computed class is shifted again -- see the concrete harnesses below)
vk_sf_signs!(vk_stub_float_shr_digits_b2_e0, 6, vk_sf_shr_b2, [0]);
vk_sf_signs!(vk_stub_float_shr_digits_b2_e64, 6, vk_sf_shr_b2, [64]);
vk_sf_signs!(vk_stub_float_shr_digits_b2_e128, 6, vk_sf_shr_b2, [128, 130]);
/// bases 2 / 16, CONCRETE magnitudes, any shift
fn vk_sf_shr_b2_conc(neg: bool, me: (u128, usize)) {
    let (m, e) = me;
    let (want, _) = vk_sf_cut(m, e);
    assert!(vk_sf_is(shr_digits::<2>(&vk_sf_mk_mag(neg, m), e), neg, want));
}
vk_sf_signs!(vk_stub_float_shr_digits_b2_conc, 6, vk_sf_shr_b2_conc,
    [(0x8000_0000_0000_0001, 1), (0xdead_beef_0123_4567_89ab_cdef_0f0f_f0f1, 1), (0xdead_beef_0123_4567_89ab_cdef_0f0f_f0f1, 65),
     (0xdead_beef_0123_4567_89ab_cdef_0f0f_f0f1, 127), (7, 3)]);
fn vk_sf_shr_b16_conc(neg: bool, me: (u128, usize)) {
    let (m, e) = me;
    let (want, _) = vk_sf_cut(m, 4 * e);
    assert!(vk_sf_is(shr_digits::<16>(&vk_sf_mk_mag(neg, m), e), neg, want));
}
vk_sf_signs!(vk_stub_float_shr_digits_b16_conc, 6, vk_sf_shr_b16_conc,
    [(0x1234, 1), (0xdead_beef_0123_4567_89ab_cdef_0f0f_f0f1, 17), (0xdead_beef_0123_4567_89ab_cdef_0f0f_f0f1, 32), (0xf, 1)]);

/// base 16, two-word magnitude, whole-word shift
fn vk_sf_shr_b16(neg: bool, e: usize) {
    let (l, h): (Word, Word) = (any(), any());
    let (want, _) = vk_sf_cut((l as u128) | ((h as u128) << 64), 4 * e);
    assert!(vk_sf_is(shr_digits::<16>(&vk_sf_mk(2, neg, l, h), e), neg, want));
}
vk_sf_signs!(vk_stub_float_shr_digits_b16_e16, 6, vk_sf_shr_b16, [16]);

/// base 10, CONCRETE magnitude
fn vk_sf_shr_b10(neg: bool, me: (u128, usize)) {
    let (m, e) = me;
    assert!(vk_sf_is(shr_digits::<10>(&vk_sf_mk_mag(neg, m), e), neg, m / VK_SF_P10[e]));
}
vk_sf_signs!(vk_stub_float_shr_digits_b10, 10, vk_sf_shr_b10,
    [(7, 0), (7, 1), (12345, 2), (99999, 5), ((1u128 << 64) + 5, 3), (123456789012345678901234567890u128, 6)]);

// ------------------------------------------------------------------------------------------------------------------
// Repr::new  (round_float_repr.rs):
//   ensures same_value(B, r.significand, r.exponent, significand, exponent),        (value kept)
//           significand == 0 ==> r.significand == 0 && r.exponent == 0,
//           r.significand == 0 || r.significand % B != 0                              (trailing zero digits stripped)
// (exponent overflow is not modelled by the stub: the harnesses keep |exponent| < 2^40)

/// `r` is the normalisation of (sign, m) * B^e, B = 2^bits (bits = 0: B = 10), at most `maxk` digits stripped
fn vk_sf_check_new(rs: IBig, re: isize, neg: bool, m: u128, e: isize, bits: u32, maxk: isize) {
    let (rn, rm) = vk_sf_take(rs);
    if m == 0 {
        assert!(rm == 0 && re == 0);
    } else {
        let k = re - e; // number of stripped digits
        assert!(k >= 0 && k <= maxk);
        assert!(rn == neg);
        if bits != 0 {
            assert!(rm << (bits * k as u32) == m); // same value: m * B^e == rm * B^(e + k)
            assert!(rm % (1u128 << bits) != 0);
        } else {
            assert!(rm * VK_SF_P10[k as usize] == m);
            assert!(rm % 10 != 0);
        }
    }
}

/// bases 2 / 16, POSITIVE symbolic one-word significand, symbolic exponent
#[cfg_attr(kani, kani::proof)]
#[cfg_attr(kani, kani::unwind(4))]
#[cfg_attr(not(kani), test)]
fn vk_stub_float_repr_new_b2_pos() {
    let m: Word = any();
    let e: isize = any();
    assume(e > -(1 << 40) && e < (1 << 40));
    let r = Repr::<2>::new(vk_sf_mk(1, false, m, 0), e);
    vk_sf_check_new(r.significand, r.exponent, false, m as u128, e, 1, 63);
    cover();
}
#[cfg_attr(kani, kani::proof)]
#[cfg_attr(kani, kani::unwind(4))]
#[cfg_attr(not(kani), test)]
fn vk_stub_float_repr_new_b16_pos() {
    let m: Word = any();
    let e: isize = any();
    assume(e > -(1 << 40) && e < (1 << 40));
    let r = Repr::<16>::new(vk_sf_mk(1, false, m, 0), e);
    vk_sf_check_new(r.significand, r.exponent, false, m as u128, e, 4, 15);
    cover();
}

/// bases 2 / 16 / 10: CONCRETE magnitudes with both signs, symbolic exponent (the negative case goes through
/// `IBig >>= n` = `-(mag >> n) - IBig::from(low bits non-zero)`, resp. `UBig::remove` with its Vec of squared factors)
fn vk_sf_new_b2(neg: bool, m: u128) {
    let e: isize = any();
    assume(e > -(1 << 40) && e < (1 << 40));
    let r = Repr::<2>::new(vk_sf_mk_mag(neg, m), e);
    vk_sf_check_new(r.significand, r.exponent, neg, m, e, 1, 127);
}
vk_sf_signs!(vk_stub_float_repr_new_b2, 4, vk_sf_new_b2, [1, 48, 1u128 << 63, (1u128 << 64) + (1u128 << 70), 12345]);
fn vk_sf_new_b16(neg: bool, m: u128) {
    let e: isize = any();
    assume(e > -(1 << 40) && e < (1 << 40));
    let r = Repr::<16>::new(vk_sf_mk_mag(neg, m), e);
    vk_sf_check_new(r.significand, r.exponent, neg, m, e, 4, 31);
}
vk_sf_signs!(vk_stub_float_repr_new_b16, 4, vk_sf_new_b16, [1, 48, 0x1200, 1u128 << 68, 8]);
fn vk_sf_new_b10(neg: bool, m: u128) {
    let e: isize = any();
    assume(e > -(1 << 40) && e < (1 << 40));
    let r = Repr::<10>::new(vk_sf_mk_mag(neg, m), e);
    vk_sf_check_new(r.significand, r.exponent, neg, m, e, 0, 6);
}
vk_sf_signs!(vk_stub_float_repr_new_b10_a, 12, vk_sf_new_b10, [7, 10, 1200]);
vk_sf_signs!(vk_stub_float_repr_new_b10_b, 12, vk_sf_new_b10, [12345, 500]);
vk_sf_signs!(vk_stub_float_repr_new_b10_c, 12, vk_sf_new_b10, [((1u128 << 64) + 5) * 100]);
/// zero: (0, 0) whatever the exponent, in every base
#[cfg_attr(kani, kani::proof)]
#[cfg_attr(kani, kani::unwind(4))]
#[cfg_attr(not(kani), test)]
fn vk_stub_float_repr_new_zero() {
    let e: isize = any();
    let r = Repr::<2>::new(vk_sf_mk(1, false, 0, 0), e);
    vk_sf_check_new(r.significand, r.exponent, false, 0, e, 1, 0);
    let r = Repr::<10>::new(vk_sf_mk(1, false, 0, 0), e);
    vk_sf_check_new(r.significand, r.exponent, false, 0, e, 0, 0);
    let r = Repr::<16>::new(vk_sf_mk(1, false, 0, 0), e);
    vk_sf_check_new(r.significand, r.exponent, false, 0, e, 4, 0);
    cover();
}
