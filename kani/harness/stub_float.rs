// Kani harnesses for the dashu-float helpers that the Verus float units (C03 / C08 / C10 ...) only see through ASSUMED
// stub contracts (contracts/lib/round_float_repr.rs, conv_fbig_stubs.rs, farith_add_stubs.rs):
//     utils::digit_len, split_digits, split_digits_ref, shl_digits, shl_digits_in_place, shr_digits,
//     Repr::new (= normalize), Repr::digits.
// Each harness asserts EXACTLY the postcondition of the stub contract (quoted above it) on the REAL function, in
// base 2 and base 10 (base 16 for the generic power-of-two arm).  Mounted on float/src/utils.rs.
//
// BOUNDED.  Significands are built from a symbolic sign and a symbolic one-word magnitude (the range of an i64 and
// beyond: |s| < 2^64), two-word magnitudes where stated; base-10 harnesses restrict the magnitude (stated per
// harness) because the code divides / multiplies by 5^k.  Digit positions / shift amounts are small (stated).
//
// Construction: an inline IBig is written straight from the documented layout of dashu-int's `Repr`
// (`#[repr(C)] { data: [Word; 2], capacity: NonZeroIsize }`, IBig is `#[repr(transparent)]`; |capacity| = 1: one word,
// 2: two words, sign of capacity = sign of the number, zero is +0 with capacity 1) with a CONCRETE sign and word count
// per call: after `IBig::from(i64)` the capacity field is a computed value for CBMC, which then has to encode the
// heap branch of every accessor over pointers made from the inline words (out of memory; see int_forms.rs).
// Results are read back through `as_sign_words()` (sign + magnitude words) -- `==` / `From` of the library are not
// used to judge.  The oracle is plain i128 / u128 arithmetic written from the stub contract.
use super::*;
use crate::repr::Repr;
include!("/verif/kani/harness/shim.rs");

/// inline IBig with `c` magnitude words (c = 1: hi ignored, lo may be 0 only if !neg; c = 2: hi != 0)
fn vk_sf_mk(c: usize, neg: bool, lo: Word, hi: Word) -> IBig {
    assume(if c == 2 { hi != 0 } else { !(neg && lo == 0) });
    let cap: isize = if neg { -(c as isize) } else { c as isize };
    let hi = if c == 2 { hi } else { 0 };
    unsafe { core::mem::transmute::<[u64; 3], IBig>([lo as u64, hi as u64, cap as u64]) }
}

/// (negative?, magnitude) of a result of at most two words; the representation must be normalised (+0, no leading 0)
fn vk_sf_obs(x: &IBig) -> (bool, u128) {
    let (sign, words) = x.as_sign_words();
    assert!(words.len() <= 2);
    let mag: u128 = match words.len() {
        0 => 0,
        1 => words[0] as u128,
        _ => (words[0] as u128) | ((words[1] as u128) << 64),
    };
    assert!(words.len() == 0 || words[words.len() - 1] != 0);
    let neg = matches!(sign, Sign::Negative);
    assert!(!(neg && mag == 0));
    (neg, mag)
}

/// does x hold sign * mag (zero: any requested sign, stored as +0)?
fn vk_sf_is(x: &IBig, neg: bool, mag: u128) -> bool {
    let (n, m) = vk_sf_obs(x);
    m == mag && (mag == 0 || n == neg)
}

macro_rules! vk_sf_signs {
    ($name:ident, $unw:expr, $body:ident) => {
        #[cfg_attr(kani, kani::proof)]
        #[cfg_attr(kani, kani::unwind($unw))]
        #[cfg_attr(not(kani), test)]
        fn $name() {
            if any::<bool>() {
                $body(true);
            } else {
                $body(false);
            }
            cover();
        }
    };
}

// ------------------------------------------------------------------------------------------------------------------
// split_digits / split_digits_ref  (round_float_repr.rs):
//   ensures is_trunc_divrem(value, B^pos, r.0, r.1):  value == hi * B^pos + lo, |lo| < B^pos, lo == 0 or sign(lo) == sign(value)
// (for magnitudes: hi = |v| div B^pos, lo = |v| mod B^pos, both carrying the sign of v)

/// base 2, one-word magnitude, 0 <= pos <= 70 (both the owning and the borrowing form)
fn vk_sf_split_b2(neg: bool) {
    let m: Word = any();
    let pos: usize = any();
    assume(pos <= 70);
    let (whi, wlo): (u128, u128) =
        if pos >= 64 { (0, m as u128) } else { ((m >> pos) as u128, (m as u128) & ((1u128 << pos) - 1)) };
    let v = vk_sf_mk(1, neg, m, 0);
    let (hi, lo) = split_digits_ref::<2>(&v, pos);
    assert!(vk_sf_is(&hi, neg, whi) && vk_sf_is(&lo, neg, wlo));
    let (hi, lo) = split_digits::<2>(v, pos);
    assert!(vk_sf_is(&hi, neg, whi) && vk_sf_is(&lo, neg, wlo));
}
vk_sf_signs!(vk_stub_float_split_digits_b2, 4, vk_sf_split_b2);

/// base 2, two-word magnitude, 0 <= pos <= 130
fn vk_sf_split_b2_dw(neg: bool) {
    let (l, h): (Word, Word) = (any(), any());
    let pos: usize = any();
    assume(pos <= 130);
    let m = (l as u128) | ((h as u128) << 64);
    let (whi, wlo): (u128, u128) = if pos >= 128 { (0, m) } else { (m >> pos, m & ((1u128 << pos) - 1)) };
    let v = vk_sf_mk(2, neg, l, h);
    let (hi, lo) = split_digits_ref::<2>(&v, pos);
    assert!(vk_sf_is(&hi, neg, whi) && vk_sf_is(&lo, neg, wlo));
    let (hi, lo) = split_digits::<2>(v, pos);
    assert!(vk_sf_is(&hi, neg, whi) && vk_sf_is(&lo, neg, wlo));
}
vk_sf_signs!(vk_stub_float_split_digits_b2_dword, 4, vk_sf_split_b2_dw);

/// base 16 (generic power-of-two arm: pos * 4 bits), one-word magnitude, pos <= 17
fn vk_sf_split_b16(neg: bool) {
    let m: Word = any();
    let pos: usize = any();
    assume(pos <= 17);
    let (whi, wlo): (u128, u128) =
        if pos >= 16 { (0, m as u128) } else { ((m >> (4 * pos)) as u128, (m as u128) & ((1u128 << (4 * pos)) - 1)) };
    let v = vk_sf_mk(1, neg, m, 0);
    let (hi, lo) = split_digits_ref::<16>(&v, pos);
    assert!(vk_sf_is(&hi, neg, whi) && vk_sf_is(&lo, neg, wlo));
    let (hi, lo) = split_digits::<16>(v, pos);
    assert!(vk_sf_is(&hi, neg, whi) && vk_sf_is(&lo, neg, wlo));
}
vk_sf_signs!(vk_stub_float_split_digits_b16, 4, vk_sf_split_b16);

const VK_SF_P10: [u128; 6] = [1, 10, 100, 1000, 10000, 100000];

/// base 10 at a CONCRETE position (the code computes 5^pos by repeated squaring), magnitude < 2^24
fn vk_sf_split_b10_at(neg: bool, pos: usize) {
    let m: Word = any();
    assume(m < (1 << 24));
    let p = VK_SF_P10[pos];
    let (whi, wlo) = ((m as u128) / p, (m as u128) % p);
    let v = vk_sf_mk(1, neg, m, 0);
    let (hi, lo) = split_digits_ref::<10>(&v, pos);
    assert!(vk_sf_is(&hi, neg, whi) && vk_sf_is(&lo, neg, wlo));
    let (hi, lo) = split_digits::<10>(v, pos);
    assert!(vk_sf_is(&hi, neg, whi) && vk_sf_is(&lo, neg, wlo));
}
fn vk_sf_split_b10_p0(neg: bool) {
    vk_sf_split_b10_at(neg, 0)
}
fn vk_sf_split_b10_p1(neg: bool) {
    vk_sf_split_b10_at(neg, 1)
}
fn vk_sf_split_b10_p2(neg: bool) {
    vk_sf_split_b10_at(neg, 2)
}
fn vk_sf_split_b10_p3(neg: bool) {
    vk_sf_split_b10_at(neg, 3)
}
vk_sf_signs!(vk_stub_float_split_digits_b10_p0, 8, vk_sf_split_b10_p0);
vk_sf_signs!(vk_stub_float_split_digits_b10_p1, 8, vk_sf_split_b10_p1);
vk_sf_signs!(vk_stub_float_split_digits_b10_p2, 8, vk_sf_split_b10_p2);
vk_sf_signs!(vk_stub_float_split_digits_b10_p3, 8, vk_sf_split_b10_p3);

// ------------------------------------------------------------------------------------------------------------------
// digit_len  (round_float_repr.rs):  ensures r == ndigits(B, value): 0 for 0, else the k with B^(k-1) <= |value| < B^k
// Repr::digits = digit_len(significand) for a finite Repr.

fn vk_sf_digit_len_b2(neg: bool) {
    let m: Word = any();
    let v = vk_sf_mk(1, neg, m, 0);
    let want = (64 - m.leading_zeros()) as usize;
    assert!(digit_len::<2>(&v) == want);
    // Repr::digits on a finite repr (exponent arbitrary; a zero significand with exponent != 0 is an infinity)
    let e: isize = any();
    assume(m != 0 || e == 0);
    let r = Repr::<2> { significand: v, exponent: e };
    assert!(r.digits() == want);
}
vk_sf_signs!(vk_stub_float_digit_len_b2, 4, vk_sf_digit_len_b2);

fn vk_sf_digit_len_b2_dw(neg: bool) {
    let (l, h): (Word, Word) = (any(), any());
    let v = vk_sf_mk(2, neg, l, h);
    assert!(digit_len::<2>(&v) == (128 - h.leading_zeros()) as usize);
    // base 16: ceil(bits / 4)
    assert!(digit_len::<16>(&v) == ((128 - h.leading_zeros()) as usize + 3) / 4);
}
vk_sf_signs!(vk_stub_float_digit_len_b2_dword, 4, vk_sf_digit_len_b2_dw);

/// base 10, magnitude < 10^5 (the path runs through dashu-int's log_dword: f32 log2 estimate + exact correction loop)
fn vk_sf_digit_len_b10(neg: bool) {
    let m: Word = any();
    assume(m < 100000);
    let v = vk_sf_mk(1, neg, m, 0);
    let mut want = 0usize;
    let mut k = 0;
    while k < 5 {
        if (m as u128) >= VK_SF_P10[k] {
            want = k + 1;
        }
        k += 1;
    }
    assert!(digit_len::<10>(&v) == want);
}
vk_sf_signs!(vk_stub_float_digit_len_b10, 20, vk_sf_digit_len_b10);

// ------------------------------------------------------------------------------------------------------------------
// shl_digits / shl_digits_in_place  (conv_fbig_stubs.rs, farith_add_stubs.rs):  ensures r == value * B^exp

/// base 2, one-word magnitude, exp <= 64 (result <= 2 words)
fn vk_sf_shl_b2(neg: bool) {
    let m: Word = any();
    let e: usize = any();
    assume(e <= 64);
    let want = (m as u128) << e;
    let v = vk_sf_mk(1, neg, m, 0);
    assert!(vk_sf_is(&shl_digits::<2>(&v, e), neg, want));
    let mut w = v;
    shl_digits_in_place::<2>(&mut w, e);
    assert!(vk_sf_is(&w, neg, want));
}
vk_sf_signs!(vk_stub_float_shl_digits_b2, 4, vk_sf_shl_b2);

/// base 16, one-word magnitude, exp <= 16
fn vk_sf_shl_b16(neg: bool) {
    let m: Word = any();
    let e: usize = any();
    assume(e <= 16);
    let want = (m as u128) << (4 * e);
    let v = vk_sf_mk(1, neg, m, 0);
    assert!(vk_sf_is(&shl_digits::<16>(&v, e), neg, want));
    let mut w = v;
    shl_digits_in_place::<16>(&mut w, e);
    assert!(vk_sf_is(&w, neg, want));
}
vk_sf_signs!(vk_stub_float_shl_digits_b16, 4, vk_sf_shl_b16);

/// base 10 at a concrete exponent, magnitude < 2^24
fn vk_sf_shl_b10_at(neg: bool, e: usize) {
    let m: Word = any();
    assume(m < (1 << 24));
    let want = (m as u128) * VK_SF_P10[e];
    let v = vk_sf_mk(1, neg, m, 0);
    assert!(vk_sf_is(&shl_digits::<10>(&v, e), neg, want));
    let mut w = v;
    shl_digits_in_place::<10>(&mut w, e);
    assert!(vk_sf_is(&w, neg, want));
}
fn vk_sf_shl_b10_e0(neg: bool) {
    vk_sf_shl_b10_at(neg, 0)
}
fn vk_sf_shl_b10_e1(neg: bool) {
    vk_sf_shl_b10_at(neg, 1)
}
fn vk_sf_shl_b10_e3(neg: bool) {
    vk_sf_shl_b10_at(neg, 3)
}
vk_sf_signs!(vk_stub_float_shl_digits_b10_e0, 8, vk_sf_shl_b10_e0);
vk_sf_signs!(vk_stub_float_shl_digits_b10_e1, 8, vk_sf_shl_b10_e1);
vk_sf_signs!(vk_stub_float_shl_digits_b10_e3, 8, vk_sf_shl_b10_e3);

// ------------------------------------------------------------------------------------------------------------------
// shr_digits  (conv_fbig_stubs.rs):  ensures exists lo. is_trunc_divrem(value, B^exp, r, lo)
//   i.e. r = sign(value) * (|value| div B^exp)   (truncation towards zero)

/// base 2, two-word magnitude, exp <= 130
fn vk_sf_shr_b2(neg: bool) {
    let (l, h): (Word, Word) = (any(), any());
    let e: usize = any();
    assume(e <= 130);
    let m = (l as u128) | ((h as u128) << 64);
    let want = if e >= 128 { 0 } else { m >> e };
    let v = vk_sf_mk(2, neg, l, h);
    assert!(vk_sf_is(&shr_digits::<2>(&v, e), neg, want));
}
vk_sf_signs!(vk_stub_float_shr_digits_b2, 4, vk_sf_shr_b2);

/// base 16, one-word magnitude, exp <= 17
fn vk_sf_shr_b16(neg: bool) {
    let m: Word = any();
    let e: usize = any();
    assume(e <= 17);
    let want = if e >= 16 { 0 } else { (m >> (4 * e)) as u128 };
    let v = vk_sf_mk(1, neg, m, 0);
    assert!(vk_sf_is(&shr_digits::<16>(&v, e), neg, want));
}
vk_sf_signs!(vk_stub_float_shr_digits_b16, 4, vk_sf_shr_b16);

/// base 10 at a concrete exponent, magnitude < 2^24
fn vk_sf_shr_b10_at(neg: bool, e: usize) {
    let m: Word = any();
    assume(m < (1 << 24));
    let want = (m as u128) / VK_SF_P10[e];
    let v = vk_sf_mk(1, neg, m, 0);
    assert!(vk_sf_is(&shr_digits::<10>(&v, e), neg, want));
}
fn vk_sf_shr_b10_e0(neg: bool) {
    vk_sf_shr_b10_at(neg, 0)
}
fn vk_sf_shr_b10_e1(neg: bool) {
    vk_sf_shr_b10_at(neg, 1)
}
fn vk_sf_shr_b10_e3(neg: bool) {
    vk_sf_shr_b10_at(neg, 3)
}
vk_sf_signs!(vk_stub_float_shr_digits_b10_e0, 8, vk_sf_shr_b10_e0);
vk_sf_signs!(vk_stub_float_shr_digits_b10_e1, 8, vk_sf_shr_b10_e1);
vk_sf_signs!(vk_stub_float_shr_digits_b10_e3, 8, vk_sf_shr_b10_e3);

// ------------------------------------------------------------------------------------------------------------------
// Repr::new  (round_float_repr.rs):
//   ensures same_value(B, r.significand, r.exponent, significand, exponent),        (value kept)
//           significand == 0 ==> r.significand == 0 && r.exponent == 0,
//           r.significand == 0 || r.significand % B != 0                              (trailing zero digits stripped)
// (exponent overflow is not modelled by the stub: the harness keeps |exponent| < 2^40)

/// base 2, one-word magnitude
fn vk_sf_new_b2(neg: bool) {
    let m: Word = any();
    let e: isize = any();
    assume(e > -(1 << 40) && e < (1 << 40));
    let r = Repr::<2>::new(vk_sf_mk(1, neg, m, 0), e);
    let (rn, rm) = vk_sf_obs(&r.significand);
    if m == 0 {
        assert!(rm == 0 && r.exponent == 0);
    } else {
        let k = r.exponent - e; // number of stripped digits
        assert!(k >= 0 && k < 64);
        assert!(rn == neg && rm << (k as u32) == m as u128); // same value: m * 2^e == rm * 2^(e + k)
        assert!(rm % 2 != 0);
    }
}
vk_sf_signs!(vk_stub_float_repr_new_b2, 4, vk_sf_new_b2);

/// base 16 (power-of-two arm), one-word magnitude
fn vk_sf_new_b16(neg: bool) {
    let m: Word = any();
    let e: isize = any();
    assume(e > -(1 << 40) && e < (1 << 40));
    let r = Repr::<16>::new(vk_sf_mk(1, neg, m, 0), e);
    let (rn, rm) = vk_sf_obs(&r.significand);
    if m == 0 {
        assert!(rm == 0 && r.exponent == 0);
    } else {
        let k = r.exponent - e;
        assert!(k >= 0 && k < 16);
        assert!(rn == neg && rm << (4 * k as u32) == m as u128);
        assert!(rm % 16 != 0);
    }
}
vk_sf_signs!(vk_stub_float_repr_new_b16, 4, vk_sf_new_b16);

/// base 10 (UBig::remove arm), magnitude < 2^14 (at most 4 trailing zero digits)
fn vk_sf_new_b10(neg: bool) {
    let m: Word = any();
    assume(m < (1 << 14));
    let e: isize = any();
    assume(e > -(1 << 40) && e < (1 << 40));
    let r = Repr::<10>::new(vk_sf_mk(1, neg, m, 0), e);
    let (rn, rm) = vk_sf_obs(&r.significand);
    if m == 0 {
        assert!(rm == 0 && r.exponent == 0);
    } else {
        let k = r.exponent - e;
        assert!(k >= 0 && k <= 4);
        assert!(rn == neg && rm * VK_SF_P10[k as usize] == m as u128);
        assert!(rm % 10 != 0);
    }
}
vk_sf_signs!(vk_stub_float_repr_new_b10, 12, vk_sf_new_b10);
