// Kani harnesses for integer/src/fmt/power_two.rs + fmt/digit_writer.rs (C07 "the printed digits are exactly the
// positional representation of the value", power-of-two radices): the REAL DigitWriter (buffering, raw digit -> ASCII,
// flush) writes into a fixed-size sink owned by the harness.
//
// Functions under test: PreparedWord::{new, width, write}, PreparedDword::{new, width, write},
// PreparedLarge::{new, width, write} (power_two.rs), DigitWriter::{new, write, flush}.
//
// Oracle (from the property statement): the emitted text has exactly width() characters, each one a digit character of
// the requested letter case with a value below the radix (0-9, a-z / A-Z by explicit range tests); read as a positional
// numeral (value := value * radix + digit, left to right) it is the number; it has no leading '0' unless it is "0".
//
// Bound: radix in {2, 4, 8, 16, 32}.  new(): every Word / every DoubleWord above Word::MAX (complete).  write(): words and
// double words with a literal number of digits (all values with that many digits), 3-word numbers with two fully
// symbolic low words and a top word from a literal palette (PreparedLarge::{new, width, write}).
use super::*;
#[allow(unused_imports)]
use crate::radix::DigitCase;
include!("/verif/kani/harness/shim.rs");

const _: () = assert!(WORD_BITS == 64); // all Kani runs use force_bits = "64"

const VK_CAP: usize = 200;

struct VkSink {
    buf: [u8; VK_CAP],
    len: usize,
}

impl core::fmt::Write for VkSink {
    fn write_str(&mut self, s: &str) -> fmt::Result {
        let b = s.as_bytes();
        let mut i = 0;
        while i < b.len() {
            self.buf[self.len] = b[i];
            self.len += 1;
            i += 1;
        }
        Ok(())
    }
}

/// value of a digit character of the given letter case; None for anything else
fn vk_fp2_char_value(c: u8, upper: bool) -> Option<u32> {
    let b = c as u32;
    if b >= 48 && b <= 57 {
        Some(b - 48)
    } else if !upper && b >= 97 && b <= 122 {
        Some(b - 97 + 10)
    } else if upper && b >= 65 && b <= 90 {
        Some(b - 65 + 10)
    } else {
        None
    }
}

fn vk_fp2_radix(sel: u8) -> (Digit, u32) {
    match sel {
        0 => (2, 1),
        1 => (4, 2),
        2 => (8, 3),
        3 => (16, 4),
        _ => (32, 5),
    }
}

/// the text in the sink is the numeral of `limbs` (little-endian 64-bit limbs) in radix 2^l
fn vk_fp2_check<const N: usize>(sink: &VkSink, width: usize, l: u32, upper: bool, limbs: [u64; 3]) {
    assert!(sink.len == width && width >= 1 && width <= N);
    // positional value, left to right, in three limbs (value << l | digit)
    let mut v = [0u64; 3];
    let mut i = 0;
    while i < N {
        if i < width {
            let d = match vk_fp2_char_value(sink.buf[i], upper) {
                Some(d) => d,
                None => {
                    assert!(false);
                    0
                }
            };
            assert!(d < (1u32 << l));
            // nothing may be shifted out
            assert!(v[2] >> (64 - l) == 0);
            v[2] = (v[2] << l) | (v[1] >> (64 - l));
            v[1] = (v[1] << l) | (v[0] >> (64 - l));
            v[0] = (v[0] << l) | d as u64;
        }
        i += 1;
    }
    assert!(v[0] == limbs[0] && v[1] == limbs[1] && v[2] == limbs[2]);
    // no superfluous leading zero
    assert!(width == 1 || sink.buf[0] != 48);
}

// ---- width: PreparedWord::new / PreparedDword::new compute the number of digits (no writer involved; complete) ----
// oracle: the number of digits of x in radix 2^l is the least w >= 1 with x < 2^(l*w)

fn vk_fp2_digits_u128(x: u128, l: u32) -> usize {
    let mut w = 1usize;
    let mut k = 1u32;
    while k < 128 {
        // x >= 2^(l*k)  ==>  more than k digits
        if l * k < 128 && (x >> (l * k)) != 0 {
            w = k as usize + 1;
        }
        k += 1;
    }
    w
}

#[cfg_attr(kani, kani::proof)]
#[cfg_attr(not(kani), test)]
#[cfg_attr(kani, kani::unwind(130))]
fn vk_int_fmt_p2_word_new() {
    let word: Word = any();
    let sel: u8 = any();
    assume(sel <= 4);
    let (radix, l) = vk_fp2_radix(sel);
    let p = PreparedWord::new(word, radix);
    assert!(p.word == word && p.log_radix == l);
    assert!(p.width() == vk_fp2_digits_u128(word as u128, l));
    cover();
}

#[cfg_attr(kani, kani::proof)]
#[cfg_attr(not(kani), test)]
#[cfg_attr(kani, kani::unwind(130))]
fn vk_int_fmt_p2_dword_new() {
    let dword: DoubleWord = any();
    let sel: u8 = any();
    assume(sel <= 4);
    assume(dword > Word::MAX as DoubleWord); // precondition (debug_assert) of PreparedDword::new
    let (radix, l) = vk_fp2_radix(sel);
    let p = PreparedDword::new(dword, radix);
    assert!(p.dword == dword && p.log_radix == l);
    assert!(p.width() == vk_fp2_digits_u128(dword, l));
    cover();
}

// ---- write: a prepared word / double word with a LITERAL width (a symbolic width makes every buffer offset of the
// DigitWriter symbolic: no result in 400 s); the value is symbolic with exactly that many digits
macro_rules! vk_fmt_p2_word_write {
    ($name:ident, $radix:expr, $l:expr, $case:expr, $upper:expr, $width:expr) => {
        #[cfg_attr(kani, kani::proof)]
        #[cfg_attr(not(kani), test)]
        #[cfg_attr(kani, kani::unwind(66))]
        fn $name() {
            let word: Word = any();
            // exactly $width digits
            assume($width == 1 || (word >> ($l * ($width - 1))) != 0);
            assume($l * $width >= 64 || (word >> (($l * $width) % 64)) == 0);
            let mut sink = VkSink { buf: [0; VK_CAP], len: 0 };
            let mut prepared = PreparedWord { word, log_radix: $l, width: $width };
            {
                let mut dw = DigitWriter::new(&mut sink, $case);
                assert!(prepared.write(&mut dw).is_ok());
                assert!(dw.flush().is_ok());
            }
            vk_fp2_check::<64>(&sink, $width, $l, $upper, [word, 0, 0]);
            cover();
        }
    };
}
vk_fmt_p2_word_write!(vk_int_fmt_p2_word_write_r16_w1, 16, 4, DigitCase::Lower, false, 1);
vk_fmt_p2_word_write!(vk_int_fmt_p2_word_write_r16_w16, 16, 4, DigitCase::Upper, true, 16);
vk_fmt_p2_word_write!(vk_int_fmt_p2_word_write_r2_w64, 2, 1, DigitCase::NoLetters, false, 64);
vk_fmt_p2_word_write!(vk_int_fmt_p2_word_write_r8_w22, 8, 3, DigitCase::NoLetters, false, 22);
vk_fmt_p2_word_write!(vk_int_fmt_p2_word_write_r32_w13, 32, 5, DigitCase::Lower, false, 13);

macro_rules! vk_fmt_p2_dword_write {
    ($name:ident, $radix:expr, $l:expr, $case:expr, $upper:expr, $width:expr) => {
        #[cfg_attr(kani, kani::proof)]
        #[cfg_attr(not(kani), test)]
        #[cfg_attr(kani, kani::unwind(130))]
        fn $name() {
            let dword: DoubleWord = any();
            assume((dword >> ($l * ($width - 1))) != 0);
            assume($l * $width >= 128 || (dword >> (($l * $width) % 128)) == 0);
            let mut sink = VkSink { buf: [0; VK_CAP], len: 0 };
            let mut prepared = PreparedDword { dword, log_radix: $l, width: $width };
            {
                let mut dw = DigitWriter::new(&mut sink, $case);
                assert!(prepared.write(&mut dw).is_ok());
                assert!(dw.flush().is_ok());
            }
            vk_fp2_check::<128>(&sink, $width, $l, $upper, [dword as u64, (dword >> 64) as u64, 0]);
            cover();
        }
    };
}
vk_fmt_p2_dword_write!(vk_int_fmt_p2_dword_write_r16_w17, 16, 4, DigitCase::Lower, false, 17);
vk_fmt_p2_dword_write!(vk_int_fmt_p2_dword_write_r32_w26, 32, 5, DigitCase::Upper, true, 26);
vk_fmt_p2_dword_write!(vk_int_fmt_p2_dword_write_r8_w43, 8, 3, DigitCase::NoLetters, false, 43);

// 3 words: low words symbolic, top word concrete (the number of digits -- hence every loop bound and buffer offset of
// the writer -- depends only on the top word)
macro_rules! vk_fmt_p2_large3 {
    ($name:ident, $radix:expr, $l:expr, $case:expr, $upper:expr, $tops:expr) => {
        #[cfg_attr(kani, kani::proof)]
        #[cfg_attr(not(kani), test)]
        #[cfg_attr(kani, kani::unwind(196))]
        fn $name() {
            let lo: [Word; 2] = any();
            let tops: &[Word] = &$tops;
            let mut t = 0;
            while t < tops.len() {
                let w = [lo[0], lo[1], tops[t]];
                let mut sink = VkSink { buf: [0; VK_CAP], len: 0 };
                let mut prepared = PreparedLarge::new(&w, $radix);
                let width = prepared.width();
                {
                    let mut dw = DigitWriter::new(&mut sink, $case);
                    assert!(prepared.write(&mut dw).is_ok());
                    assert!(dw.flush().is_ok());
                }
                vk_fp2_check::<192>(&sink, width, $l, $upper, w);
                t += 1;
            }
            cover();
        }
    };
}
vk_fmt_p2_large3!(vk_int_fmt_p2_large3_r2, 2, 1, DigitCase::NoLetters, false, [1, 1 << 63]);
vk_fmt_p2_large3!(vk_int_fmt_p2_large3_r8, 8, 3, DigitCase::NoLetters, false, [1, 2, 4, 1 << 63]);
vk_fmt_p2_large3!(vk_int_fmt_p2_large3_r16, 16, 4, DigitCase::Upper, true, [0xf, 0x10, u64::MAX]);
vk_fmt_p2_large3!(vk_int_fmt_p2_large3_r32, 32, 5, DigitCase::Lower, false, [1, 2, 0x1f, 1 << 62, 1 << 63]);
