#!/usr/bin/env python3
"""Regenerate seeded/README.md from seeded/*/meta.json + result.json."""
import json, os
V = os.path.dirname(os.path.dirname(os.path.abspath(__file__)))
rows = []
for sd in sorted(os.listdir(os.path.join(V, 'seeded'))):
    d = os.path.join(V, 'seeded', sd)
    if not os.path.exists(os.path.join(d, 'meta.json')):
        continue
    m = json.load(open(os.path.join(d, 'meta.json')))
    r = json.load(open(os.path.join(d, 'result.json'))) if os.path.exists(os.path.join(d, 'result.json')) else {}
    files = sorted({l.split(' b/')[-1].strip() for l in open(os.path.join(d, 'patch.diff')) if l.startswith('diff --git')})
    caught = []
    for p, x in sorted(r.items()):
        if x.get('exit') == 1 and x.get('violations'):
            v = x['violations'][0]
            ob = v.split('obligation="')[-1].split('"')[0][:110]
            caught.append('%s%s: %s%s' % (p, ' [thorough tier]' if x.get('tier') == 'thorough' else '', ob, ' (replayed input)' if 'no-failing-input-found' not in v else ''))
        elif x.get('exit') == 2:
            caught.append('%s: inconclusive' % p)
    note = ' '.join(m.get('note', '').split())[:200]
    if m.get('obsolete'):
        caught = ['obsolete: ' + m['obsolete']]
    rows.append('| %s | %s | %s | %s |' % (sd, ', '.join(files), note, '<br>'.join(caught) if caught else '**missed** (no unit covers this code yet)'))
# summary per round: own = caught by the check of the seed's own property
import re
summ = {}
for sd in sorted(os.listdir(os.path.join(V, 'seeded'))):
    d = os.path.join(V, 'seeded', sd)
    if not os.path.exists(os.path.join(d, 'meta.json')):
        continue
    m = json.load(open(os.path.join(d, 'meta.json')))
    if m.get('obsolete'):
        continue
    r = json.load(open(os.path.join(d, 'result.json'))) if os.path.exists(os.path.join(d, 'result.json')) else {}
    rnd = (re.search(r'_r(\d)_', sd) or [None, '1'])[1]
    own = m['property']
    if r.get(own, {}).get('exit') == 1:
        k = 'own'
    elif any(x.get('exit') == 1 for x in r.values()):
        k = 'other'
    elif any(x.get('exit') == 2 for x in r.values()):
        k = 'inconclusive'
    else:
        k = 'missed'
    summ.setdefault(rnd, {}).setdefault(k, []).append(sd)
lines = ['| round | seeds | caught by the property\'s own check | caught only by another property\'s check | inconclusive (exit 2) | missed |', '|---|---|---|---|---|---|']
for rnd in sorted(summ):
    x = summ[rnd]
    n = sum(len(v) for v in x.values())
    lines.append('| %s | %d | %d | %d%s | %d%s | %d%s |' % (rnd, n, len(x.get('own', [])), len(x.get('other', [])),
                 (' (' + ', '.join(x['other']) + ')') if x.get('other') else '', len(x.get('inconclusive', [])),
                 (' (' + ', '.join(x['inconclusive']) + ')') if x.get('inconclusive') else '', len(x.get('missed', [])),
                 (' (' + ', '.join(x['missed']) + ')') if x.get('missed') else ''))
SUMMARY = '\n'.join(lines)
open(os.path.join(V, 'seeded', 'SUMMARY.md'), 'w').write(SUMMARY + '\n')
with open(os.path.join(V, 'seeded', 'README.md'), 'w') as f:
    f.write('# Seeded breaking changes and the checks that catch them\n\nEach change compiles, passes the whole existing test suite and breaks the named property; confirmed by `tools/seed_import.py` (see meta.json). Results from `tools/seed_run.py` (check run on a scratch copy of /repo with the patch applied).\n\n' + SUMMARY + '\n\n| seed | files | what it breaks / needs | caught by |\n|---|---|---|---|\n')
    f.write('\n'.join(rows) + '\n')
print(len(rows), 'seeds')
