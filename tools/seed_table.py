#!/usr/bin/env python3
"""Regenerate seeded/README.md from seeded/*/meta.json + result.json."""
import json, os
V = os.path.dirname(os.path.dirname(os.path.abspath(__file__)))
rows = []
for sd in sorted(os.listdir(os.path.join(V, 'seeded'))):
    d = os.path.join(V, 'seeded', sd)
    if not os.path.exists(os.path.join(d, 'meta.json')):
        continue
    m = json.load(open(os.path.join(d, 'meta.json')))
    r = json.load(open(os.path.join(d, 'result.json'))) if os.path.exists(os.path.join(d, 'result.json')) else {}
    files = sorted({l.split(' b/')[-1].strip() for l in open(os.path.join(d, 'patch.diff')) if l.startswith('diff --git')})
    caught = []
    for p, x in sorted(r.items()):
        if x.get('exit') == 1 and x.get('violations'):
            v = x['violations'][0]
            ob = v.split('obligation="')[-1].split('"')[0][:110]
            caught.append('%s%s: %s%s' % (p, ' [thorough tier]' if x.get('tier') == 'thorough' else '', ob, ' (replayed input)' if 'no-failing-input-found' not in v else ''))
        elif x.get('exit') == 2:
            caught.append('%s: inconclusive' % p)
    note = ' '.join(m.get('note', '').split())[:200]
    if m.get('obsolete'):
        caught = ['obsolete: ' + m['obsolete']]
    rows.append('| %s | %s | %s | %s |' % (sd, ', '.join(files), note, '<br>'.join(caught) if caught else '**missed** (no unit covers this code yet)'))
with open(os.path.join(V, 'seeded', 'README.md'), 'w') as f:
    f.write('# Seeded breaking changes and the checks that catch them\n\nEach change compiles, passes the whole existing test suite and breaks the named property; confirmed by `tools/seed_import.py` (see meta.json). Results from `tools/seed_run.py` (check run on a scratch copy of /repo with the patch applied).\n\n| seed | files | what it breaks / needs | caught by |\n|---|---|---|---|\n')
    f.write('\n'.join(rows) + '\n')
print(len(rows), 'seeds')
