#!/usr/bin/env python3
"""tools/seed_import.py <worktree> <PROP>  — confirm the seeded changes a sub-agent left in <worktree>/_out/<k>/
(patch.diff, demo.rs, note.txt) and store the confirmed ones as /verif/seeded/<PROP>_<k>/ with meta.json.
Confirmation, in the worktree checked out at /repo's HEAD:
  (a) clean tree + demo passes, (b) patch applied: whole test suite passes, (c) patch applied: demo fails."""
import json, os, re, shutil, subprocess, sys

wt, prop = sys.argv[1], sys.argv[2]
ROUND = sys.argv[3] if len(sys.argv) > 3 else ''      # e.g. 'r2': seeds are stored as <PROP>_r2_<k>
VERIF = os.path.dirname(os.path.dirname(os.path.abspath(__file__)))


def sh(cmd, cwd=wt, timeout=3600):
    p = subprocess.run(cmd, shell=True, cwd=cwd, stdout=subprocess.PIPE, stderr=subprocess.STDOUT, text=True,
                       timeout=timeout, env=dict(os.environ, CARGO_NET_OFFLINE='true'))
    return p.returncode, p.stdout


head = subprocess.run(['git', '-C', '/repo', 'rev-parse', 'HEAD'], capture_output=True, text=True).stdout.strip()
sh('git checkout -q -- . ; git clean -fdq -e _out -e target; git checkout -q --detach %s' % head)
out = os.path.join(wt, '_out')
for k in sorted(os.listdir(out)):
    d = os.path.join(out, k)
    if not os.path.exists(os.path.join(d, 'patch.diff')):
        continue
    demo = open(os.path.join(d, 'demo.rs')).read()
    first = demo.split('\n', 1)[0]
    m = re.search(r'(integer|float|rational|base|macros)', first)
    crate_dir = m.group(1) if m else 'integer'
    if re.search(r'\btests/demo|dashu\b.*root|workspace root', first) and not m:
        crate_dir = '.'
    pkg = {'integer': 'dashu-int', 'float': 'dashu-float', 'rational': 'dashu-ratio', 'base': 'dashu-base',
           'macros': 'dashu-macros', '.': 'dashu'}[crate_dir]
    tname = 'seeddemo_%s_%s%s' % (prop.lower(), ROUND, k)
    tdir = os.path.join(wt, crate_dir, 'tests')
    os.makedirs(tdir, exist_ok=True)
    tpath = os.path.join(tdir, tname + '.rs')
    meta = {'property': prop, 'k': k, 'package': pkg, 'demo_test': tname, 'repo_head': head,
            'note': open(os.path.join(d, 'note.txt')).read() if os.path.exists(os.path.join(d, 'note.txt')) else ''}
    try:
        sh('git checkout -q -- . ; git clean -fdq -e _out -e target')
        os.makedirs(tdir, exist_ok=True)
        shutil.copy(os.path.join(d, 'demo.rs'), tpath)
        mrun = re.search(r'run:\s*(.*)$', first) or \
            re.search(r"()((?:[A-Z_]+='[^']*'\s+|[A-Z_]+=\S+\s+)*cargo test .*)$", first)
        if mrun and mrun.lastindex == 2:
            class _M:          # same interface as a match with group(1) = command
                def __init__(self, c): self.c = c
                def group(self, i): return self.c
            mrun = _M(mrun.group(2))
        demo_cmd = 'cargo test --offline -p %s --test %s' % (pkg, tname)
        if mrun and ('RUSTFLAGS' in mrun.group(1) or '--features' in mrun.group(1)
                     or '--no-default-features' in mrun.group(1) or '--release' in mrun.group(1)):
            # configuration-specific demo (C19): keep the flags, substitute our test name
            demo_cmd = re.sub(r'--test\s+\S+', '--test ' + tname, mrun.group(1).strip())
            meta['demo_cmd'] = demo_cmd
        rc_a, o_a = sh(demo_cmd)
        meta['a_clean_demo_passes'] = rc_a == 0
        rc, o = sh('git apply %s' % os.path.join(d, 'patch.diff'))
        meta['patch_applies'] = rc == 0
        if rc != 0:
            meta['apply_output'] = o[-500:]
        else:
            rc_c, o_c = sh(demo_cmd)
            meta['c_patched_demo_fails'] = rc_c != 0 and 'test result: FAILED' in o_c
            os.remove(tpath)
            rc_b, o_b = sh('cargo test --offline --workspace --no-fail-fast')
            meta['b_patched_suite_passes'] = rc_b == 0
            if rc_b != 0:
                meta['suite_output'] = '\n'.join(l for l in o_b.split('\n') if 'FAILED' in l or 'failed' in l)[-800:]
        meta['commands'] = ['cargo test --offline -p %s --test %s (clean)' % (pkg, tname), 'git apply patch.diff',
                            'cargo test --offline -p %s --test %s (patched)' % (pkg, tname),
                            'cargo test --offline --workspace --no-fail-fast (patched, without the demo)']
    finally:
        sh('git checkout -q -- . ; git clean -fdq -e _out -e target')
    ok = meta.get('a_clean_demo_passes') and meta.get('patch_applies') and meta.get('c_patched_demo_fails') \
        and meta.get('b_patched_suite_passes')
    meta['confirmed'] = bool(ok)
    dst = os.path.join(VERIF, 'seeded', '%s_%s%s' % (prop, (ROUND + '_') if ROUND else '', k))
    if ok:
        os.makedirs(dst, exist_ok=True)
        shutil.copy(os.path.join(d, 'patch.diff'), dst)
        shutil.copy(os.path.join(d, 'demo.rs'), dst)
        meta['needs_to_manifest'] = meta['note']
        json.dump(meta, open(os.path.join(dst, 'meta.json'), 'w'), indent=1)
    print(prop, k, 'CONFIRMED' if ok else 'REJECTED', {x: meta.get(x) for x in
          ('a_clean_demo_passes', 'patch_applies', 'c_patched_demo_fails', 'b_patched_suite_passes')})
