// Exhaustive native evaluation of the predicates behind the FOUR trusted statements of the Verus units base_root / base_cbrt
// (property C12): the table-driven estimates of the primitive square / cube root routines of dashu-base (base/src/ring/root.rs)
// never over/underflow and stay underestimates of the root.  The margins are hand-tuned (`s -= 10` is EXACTLY tight), so no
// analytic error bound exists: the statements are established by enumeration, here, and assumed by Verus
// (contracts/lib/basering_root_est.rs, basering_cbrt_est.rs).
//
//   rustc -O /verif/tools/base_root_exhaust.rs -o /tmp/base_root_exhaust
//   /tmp/base_root_exhaust            br_sq64_ok(n32) for all 3 * 2^30 high words n32 = n >> 32   (axiom_br_sq64_estimate)   ~25 s
//   /tmp/base_root_exhaust u32        br_sq32_ok(n)   for all 3 * 2^30 normalized u32 inputs       (axiom_br_sq32_estimate)   ~10 s
//   /tmp/base_root_exhaust cbrt64     br_cb64_ok(h)   for all 7 * 2^29 high words h = n >> 32      (axiom_br_cb64_estimate)   ~30 s
//   /tmp/base_root_exhaust cbrt32     br_cb32_ok(n)   for all 7 * 2^29 normalized u32 inputs       (axiom_br_cb32_estimate)   ~15 s
//   an optional last argument replaces the margin of the code (10 / 4 / 1 / 10): smaller margins must report violations
//   (sqrt u64 margin 9: 3970 classes; sqrt u32 margin 3: 2765538 inputs; cbrt u64 margin 0: 93095 classes; cbrt u32 margin 5: 1325614).
// Exit status 0 iff no class violates the predicate.
//
// The formulas are the mathematical-integer definitions br_sq64_* / br_sq32_* / br_cb64_* / br_cb32_* of the lib files (i128
// arithmetic, floor divisions), NOT the machine code; that the machine code computes these integers is what Verus proves.
use std::thread;
const TAB: [i128; 96] = [
    0xfc, 0xf4, 0xed, 0xe6, 0xdf, 0xd9, 0xd3, 0xcd, 0xc7, 0xc2, 0xbc, 0xb7, 0xb2, 0xad, 0xa9, 0xa4,
    0xa0, 0x9c, 0x98, 0x94, 0x90, 0x8c, 0x88, 0x85, 0x81, 0x7e, 0x7b, 0x77, 0x74, 0x71, 0x6e, 0x6b,
    0x69, 0x66, 0x63, 0x61, 0x5e, 0x5b, 0x59, 0x57, 0x54, 0x52, 0x50, 0x4d, 0x4b, 0x49, 0x47, 0x45,
    0x43, 0x41, 0x3f, 0x3d, 0x3b, 0x39, 0x37, 0x36, 0x34, 0x32, 0x30, 0x2f, 0x2d, 0x2c, 0x2a, 0x28,
    0x27, 0x25, 0x24, 0x22, 0x21, 0x1f, 0x1e, 0x1d, 0x1b, 0x1a, 0x19, 0x17, 0x16, 0x15, 0x14, 0x12,
    0x11, 0x10, 0x0f, 0x0d, 0x0c, 0x0b, 0x0a, 0x09, 0x08, 0x07, 0x06, 0x05, 0x04, 0x03, 0x02, 0x01,
];
const P: i128 = 0x1_0000_0000;
fn isqrt(n: u64) -> i128 {
    let mut s = (n as f64).sqrt() as u64;
    while s.checked_mul(s).map_or(true, |x| x > n) { s -= 1; }
    while (s + 1).checked_mul(s + 1).map_or(false, |x| x <= n) { s += 1; }
    s as i128
}
/// br_sq64_ok(n32) with the given margin (10 in the code); also returns 2*h - isqrt(n32 * 2^32)
fn ok(n32: i128, margin: i128) -> (bool, i128) {
    let r0 = 0x100 + TAB[(n32 / 0x200_0000 - 32) as usize];
    let a1 = 3 * r0 * 0x20_0000;
    let b1 = (n32 * (r0 * r0 * r0 * 32)) / P;
    if !(0 <= b1 && b1 <= a1) { return (false, 0); }
    let r1 = a1 - b1;
    if !(r1 < P) { return (false, 0); }
    let w2 = (r1 * ((r1 * n32) / P)) / P;
    if !(0 <= w2 && w2 <= 0x3000_0000) { return (false, 0); }
    let t = 0x3000_0000 - w2;
    let r2 = (r1 * t) / P;
    if !(0 <= r2 && r2 < 0x1000_0000) { return (false, 0); }
    let r = 16 * r2;
    let h = (r * n32) / P;
    let over = 2 * h - isqrt((n32 as u64) << 32);
    if !(2 * h >= margin && h < 0x8000_0000) { return (false, over); }
    let s0 = 2 * h - margin;
    let e0 = n32 * P - s0 * s0;
    if !(e0 >= 0) { return (false, over); }
    let sa = s0 + ((e0 / P) * r) / P;
    if !(sa < P && sa * sa <= n32 * P) { return (false, over); }
    let fr = e0 % P;
    if fr > 0 {
        let sb = s0 + ((e0 / P + 1) * r) / P;
        if !(sb < P && sb * sb <= n32 * P + P - fr) { return (false, over); }
    }
    (true, over)
}
/// br_sq32_ok(n) with the given margin (4 in the code) for <u32 as NormalizedRootRem>::normalized_sqrt_rem
fn ok32(n: i128, margin: i128) -> bool {
    let n16 = n / 0x1_0000;
    let r0 = 0x100 + TAB[(n16 / 0x200 - 32) as usize];
    let a = 3 * r0 * 32;
    let b = ((n * (r0 * r0 * r0)) / P) / 0x800;
    if !(0 <= b && b <= a) { return false; }
    let r1 = a - b;
    if !(r1 < 0x8000) { return false; }
    let r = 2 * r1;
    let h = (r * n16) / 0x1_0000;
    let s1 = if 2 * h > 0xffff { 0xffff } else { 2 * h };
    if !(h >= 0 && s1 >= margin) { return false; }
    let s0 = s1 - margin;
    let e = n - s0 * s0;
    if !(e >= 0) { return false; }
    let s = s0 + ((e / 0x1_0000) * r) / 0x1_0000;
    0 <= s && s < 0x1_0000 && s * s <= n
}
fn main32(margin: i128) {
    let nt = 6i128;
    let (lo, hi) = (1i128 << 30, 1i128 << 32);
    let step = (hi - lo) / nt;
    let hs: Vec<_> = (0..nt).map(|i| {
        let a = lo + i * step;
        let b = if i == nt - 1 { hi } else { a + step };
        thread::spawn(move || { let (mut bad, mut first) = (0u64, 0i128); let mut n = a;
            while n < b { if !ok32(n, margin) { if bad == 0 { first = n; } bad += 1; } n += 1; } (a, b, bad, first) })
    }).collect();
    let mut total = 0;
    for h in hs { let (a, b, bad, first) = h.join().unwrap();
        println!("u32 inputs [{:#x}, {:#x}): violating {} (first {:#x})", a, b, bad, first); total += bad; }
    println!("u32, margin {}: {} violating inputs of {}", margin, total, hi - lo);
    std::process::exit(if total == 0 { 0 } else { 1 });
}
const CTAB: [i128; 56] = [
    0xf6, 0xe4, 0xd4, 0xc6, 0xb9, 0xae, 0xa4, 0x9b, 0x92, 0x8a, 0x83, 0x7c, 0x76, 0x70, 0x6b, 0x66,
    0x61, 0x5c, 0x57, 0x53, 0x4f, 0x4b, 0x48, 0x44, 0x41, 0x3e, 0x3b, 0x38, 0x35, 0x32, 0x2f, 0x2d,
    0x2a, 0x28, 0x25, 0x23, 0x21, 0x1f, 0x1d, 0x1b, 0x19, 0x17, 0x15, 0x13, 0x11, 0x10, 0x0e, 0x0c,
    0x0b, 0x09, 0x08, 0x06, 0x05, 0x03, 0x02, 0x01,
];
/// br_cb64_ok(h) of lib/basering_cbrt_est.rs (u64 normalized_cbrt_rem, h = n >> 32; `dec` = the margin `r - 1`)
fn okc64(h: i128, dec: i128) -> bool {
    let adj = h >= 0x8000_0000;
    let n32 = if adj { h / 8 } else { h };
    let ix = n32 / 0x200_0000;
    if !(8 <= ix && ix < 64) { return false; }
    let r0 = 0x100 + CTAB[(ix - 8) as usize];
    let w1 = (n32 * (r0 * r0 * r0)) / P;
    if !(0 <= w1 && w1 <= 0x200_0000) { return false; }
    let r1 = r0 * ((0x200_0000 - w1) / 3);
    if !(0 <= r1 && r1 < P) { return false; }
    let w3 = (r1 * ((r1 * ((r1 * n32) / P)) / P)) / P;
    if !(0 <= w3 && w3 <= 0x4000_0000) { return false; }
    let r2 = ((r1 * (0x4000_0000 - w3)) / P) / 3;
    let r4 = (if adj { r2 / 2 } else { r2 }) - dec;
    if !(r4 >= 0) { return false; }
    let c = (r4 * ((r4 * h) / P)) / P;
    0 <= c && c * c * c <= h * P
}
/// br_cb32_ok(n) (u32 normalized_cbrt_rem; `dec` = the margin `r - 10`)
fn okc32(n: i128, dec: i128) -> bool {
    let adj = n >= 0x4000_0000;
    let n16 = if adj { n / 0x8_0000 } else { n / 0x1_0000 };
    let ix = n16 / 0x100;
    if !(8 <= ix && ix < 64) { return false; }
    let r0 = 0x100 + CTAB[(ix - 8) as usize];
    let r3 = (r0 * r0 * r0) / 0x800;
    if !(r3 < 0x1_0000) { return false; }
    let w = (n16 * r3) / 0x1_0000;
    if !(0 <= w && w <= 0x2000) { return false; }
    let t = 0x2000 - w;
    let r1 = ((r0 * t) / 3) / 16;
    if !(r1 < 0x1_0000) { return false; }
    let r2 = if adj { r1 / 2 } else { r1 };
    let r = r2 - dec;
    if !(r >= 0) { return false; }
    let c = ((r * ((r * (n / 0x1_0000)) / 0x1_0000)) / 0x1_0000) / 4;
    0 <= c && c * c * c <= n
}
fn run_range(lo: i128, hi: i128, f: fn(i128, i128) -> bool, arg: i128, what: &str) {
    let nt = 6i128;
    let step = (hi - lo) / nt;
    let hs: Vec<_> = (0..nt).map(|i| {
        let a = lo + i * step;
        let b = if i == nt - 1 { hi } else { a + step };
        thread::spawn(move || { let (mut bad, mut first) = (0u64, 0i128); let mut n = a;
            while n < b { if !f(n, arg) { if bad == 0 { first = n; } bad += 1; } n += 1; } (a, b, bad, first) })
    }).collect();
    let mut total = 0;
    for h in hs { let (a, b, bad, first) = h.join().unwrap();
        println!("{} [{:#x}, {:#x}): violating {} (first {:#x})", what, a, b, bad, first); total += bad; }
    println!("{}, margin {}: {} violating of {}", what, arg, total, hi - lo);
    std::process::exit(if total == 0 { 0 } else { 1 });
}
fn main() {
    // `base_root_exhaust cbrt64 [margin]`: br_cb64_ok for all high words (axiom_br_cb64_estimate);  `cbrt32 [margin]`: br_cb32_ok
    if std::env::args().nth(1).as_deref() == Some("cbrt64") {
        return run_range(1 << 29, 1 << 32, okc64, std::env::args().nth(2).map(|x| x.parse().unwrap()).unwrap_or(1), "cbrt u64 classes");
    }
    if std::env::args().nth(1).as_deref() == Some("cbrt32") {
        return run_range(1 << 29, 1 << 32, okc32, std::env::args().nth(2).map(|x| x.parse().unwrap()).unwrap_or(10), "cbrt u32 inputs");
    }
    // `base_root_exhaust u32 [margin]`: br_sq32_ok for all normalized u32 inputs (axiom_br_sq32_estimate)
    if std::env::args().nth(1).as_deref() == Some("u32") {
        return main32(std::env::args().nth(2).map(|x| x.parse().unwrap()).unwrap_or(4));
    }
    let margin: i128 = std::env::args().nth(1).map(|x| x.parse().unwrap()).unwrap_or(10);
    let nt = 6i128;
    let (lo, hi) = (1i128 << 30, 1i128 << 32);
    let step = (hi - lo) / nt;
    let hs: Vec<_> = (0..nt).map(|i| {
        let a = lo + i * step;
        let b = if i == nt - 1 { hi } else { a + step };
        thread::spawn(move || {
            let (mut bad, mut first, mut maxo) = (0u64, 0i128, i128::MIN);
            let mut n = a;
            while n < b {
                let (k, o) = ok(n, margin);
                if !k { if bad == 0 { first = n; } bad += 1; }
                if o > maxo { maxo = o; }
                n += 1;
            }
            (a, b, bad, first, maxo)
        })
    }).collect();
    let mut total = 0;
    for h in hs {
        let (a, b, bad, first, maxo) = h.join().unwrap();
        println!("classes [{:#x}, {:#x}): violating {} (first {:#x}), largest overshoot of 2h over isqrt(n32 << 32): {}", a, b, bad, first, maxo);
        total += bad;
    }
    println!("margin {}: {} violating classes of {}", margin, total, hi - lo);
    std::process::exit(if total == 0 { 0 } else { 1 });
}
