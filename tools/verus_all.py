#!/usr/bin/env python3
"""tools/verus_all.py [-j N] [unit ...]: run every registered Verus unit (main file only, no canary) through engine.dev with the
registered rlimit; prints one line per unit and a summary. Fast regression after touching shared lib files."""
import subprocess, sys, os, re
from concurrent.futures import ThreadPoolExecutor
sys.path.insert(0, os.path.dirname(os.path.dirname(os.path.abspath(__file__))))
from engine import registry
args = sys.argv[1:]
j = 6
if args[:1] == ['-j']:
    j = int(args[1]); args = args[2:]
units = args or sorted(registry.VERUS)
def run(u):
    e = registry.VERUS[u]
    cmd = ['python3', '-m', 'engine.dev', e['file']]
    if e.get('rlimit'):
        cmd += ['--rlimit', str(e['rlimit'])]
    r = subprocess.run(cmd, cwd=os.path.dirname(os.path.dirname(os.path.abspath(__file__))), capture_output=True, text=True)
    out = r.stdout + r.stderr
    m = re.search(r'verified=(\d+) errors=(\d+)', out)
    ff = re.search(r'failed fns: (\[.*\])', out)
    ok = bool(m) and int(m.group(1)) > 0 and int(m.group(2)) == 0 and (not ff or ff.group(1) == '[]')
    line = '%-34s %s %s' % (u, 'ok  ' if ok else 'FAIL', (m.group(0) if m else out[-300:].replace('\n', ' | ')))
    print(line, flush=True)
    return ok
with ThreadPoolExecutor(j) as ex:
    res = list(ex.map(run, units))
print('units %d ok %d' % (len(res), sum(res)))
sys.exit(0 if all(res) else 1)
