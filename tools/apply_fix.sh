#!/bin/bash
# tools/apply_fix.sh <dir under proposed_fixes> <property> <crate dir for test.rs> <package>
set -e
D=/verif/proposed_fixes/$1; P=$2; CR=$3; PKG=$4
cd /repo
git apply --check $D/patch.diff || git apply -3 --check $D/patch.diff
git apply $D/patch.diff
mkdir -p $CR/tests; cp $D/test.rs $CR/tests/zz_fix.rs
cargo test --offline -p $PKG --test zz_fix 2>&1 | grep "test result"
rm $CR/tests/zz_fix.rs; rmdir $CR/tests 2>/dev/null || true
cargo test --offline -p $PKG 2>&1 | grep "test result" | awk '{p+=$4; f+=$6} END {print "pkg tests passed",p,"failed",f; if (f>0) exit 1}'
git commit -qa -F $D/message.txt
H=$(git log --format=%h -1)
echo "fixed: property=$P $H $(head -1 $D/message.txt | sed 's/^fix: //')" >> /verif/known_findings.txt
echo committed $H
