#!/usr/bin/env python3
"""Regenerate the table of repaired defects in DESIGN.md (section 11.3) from known_findings.txt."""
import re, os
V = os.path.dirname(os.path.dirname(os.path.abspath(__file__)))
rows = []
for l in open(os.path.join(V, 'known_findings.txt')):
    m = re.match(r'fixed:\s+property=(\S+)\s+(\S+)\s+(.*)', l.strip())
    if m:
        rows.append('| %s | %s | %s |' % (m.group(1), m.group(3).replace('|', '/'), m.group(2)))
p = os.path.join(V, 'DESIGN.md')
s = open(p).read()
a = s.index('<!-- generated from known_findings.txt -->')
b = s.index('### 11.4')
s = s[:a] + '<!-- generated from known_findings.txt -->\n| property | defect | commit |\n|---|---|---|\n' + '\n'.join(rows) + '\n\n' + s[b:]
open(p, 'w').write(s)
print(len(rows), 'rows')
