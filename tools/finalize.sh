#!/bin/bash
# tools/finalize.sh — regenerate every derived document from the current registry / evidence / seed results
cd /verif
python3 gen_manifest.py > /dev/null
python3 tools/seed_table.py
python3 tools/summary.py > /dev/null 2>&1
python3 tools/design_table.py
python3 - <<'PY'
p='/verif/DESIGN.md'; s=open(p).read()
a=s.index('<!-- seed summary begin -->')+len('<!-- seed summary begin -->'); b=s.index('<!-- seed summary end -->')
s=s[:a]+'\n'+open('/verif/seeded/SUMMARY.md').read()+s[b:]
open(p,'w').write(s)
PY
python3-vt - <<'PY'
import json,jsonschema,glob
jsonschema.validate(json.load(open('/verif/MANIFEST.json')),json.load(open('/root/.vp/MANIFEST.schema.json')))
sch=json.load(open('/root/.vp/EVIDENCE.schema.json'))
for f in sorted(glob.glob('/verif/evidence/*.json')): jsonschema.validate(json.load(open(f)),sch)
print('manifest + evidence valid')
PY
