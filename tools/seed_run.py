#!/usr/bin/env python3
"""tools/seed_run.py [seed ...] [--props C01,C02] [--inplace]
Run the registered checks against seeded changes. Default: on a scratch copy of /repo with the patch applied
(`./check <P> --repo <scratch>`); with --inplace: `git -C /repo apply`, run, `git -C /repo checkout -- .` (only when
nothing else is using /repo). Writes seeded/<seed>/result.json and prints one line per (seed, property)."""
import json, os, re, shutil, subprocess, sys, tempfile
VERIF = os.path.dirname(os.path.dirname(os.path.abspath(__file__)))
args = [a for a in sys.argv[1:] if not a.startswith('--')]
opts = {a.split('=')[0]: (a.split('=') + [''])[1] for a in sys.argv[1:] if a.startswith('--')}
seeds = args or sorted(os.listdir(os.path.join(VERIF, 'seeded')))
for sd in seeds:
    d = os.path.join(VERIF, 'seeded', sd)
    if not os.path.exists(os.path.join(d, 'patch.diff')):
        continue
    meta = json.load(open(os.path.join(d, 'meta.json')))
    props = opts.get('--props', '').split(',') if opts.get('--props') else [meta['property']]
    if '--inplace' in opts:
        repo = '/repo'
        subprocess.run(['git', '-C', '/repo', 'apply', os.path.join(d, 'patch.diff')], check=True)
    else:
        repo = tempfile.mkdtemp(prefix='dashu_seed_')
        subprocess.run(['rsync', '-a', '--exclude', 'target', '--exclude', '.git', '/repo/', repo + '/'], check=True)
        r = subprocess.run(['git', 'apply', '--unsafe-paths', '--directory', repo, os.path.join(d, 'patch.diff')],
                           cwd='/', capture_output=True, text=True)
        if r.returncode != 0:
            r = subprocess.run(['patch', '-p1', '-d', repo, '-i', os.path.join(d, 'patch.diff')], capture_output=True, text=True)
            if r.returncode != 0:
                print(sd, 'PATCH DOES NOT APPLY', r.stdout[-300:], r.stderr[-300:])
                shutil.rmtree(repo, ignore_errors=True)
                continue
    res = {}
    try:
        for p in props:
            cmd = [os.path.join(VERIF, 'check'), p, '--tier', opts.get('--tier', 'quick')]
            if repo != '/repo':
                cmd += ['--repo', repo]
            r = subprocess.run(cmd, cwd=VERIF, capture_output=True, text=True)
            vio = [l for l in r.stdout.split('\n') if l.startswith('VIOLATION')]
            res[p] = {'exit': r.returncode, 'tier': opts.get('--tier', 'quick'), 'violations': vio[:6],
                      'inconclusive': [l for l in r.stderr.split('\n') if l.startswith('INCONCLUSIVE')][:6]}
            print('%-8s %-4s exit=%d %s' % (sd, p, r.returncode, (vio[0][:230] if vio else
                  (res[p]['inconclusive'][0][:200] if res[p]['inconclusive'] else ''))))
    finally:
        if repo == '/repo':
            subprocess.run(['git', '-C', '/repo', 'checkout', '--', '.'], check=True)
        else:
            shutil.rmtree(repo, ignore_errors=True)
    old = {}
    rp = os.path.join(d, 'result.json')
    if os.path.exists(rp):
        old = json.load(open(rp))
    old.update(res)
    json.dump(old, open(rp, 'w'), indent=1)
