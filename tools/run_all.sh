#!/bin/bash
# tools/run_all.sh [tier]  — run every registered check on /repo as it is; one summary line each
cd /verif
for p in $(python3 -c "import json;print(' '.join(c['property_id'] for c in json.load(open('MANIFEST.json'))['checks']))"); do
  s=$(date +%s); out=$(./check $p --tier ${1:-quick} 2>/tmp/check_$p.err); rc=$?; e=$(date +%s)
  echo "$p rc=$rc $((e-s))s :: $(echo "$out" | tail -1)"
  if [ $rc -ne 0 ]; then echo "$out" | grep VIOLATION | head -3; grep INCONCLUSIVE /tmp/check_$p.err | head -5 | cut -c1-300; fi
done
