"""Locate items in the real source files of /repo and return their token streams.

An item locator is a string
    <file> :: [<container> :: ...] <fn name>
where a container is either `mod NAME`, an impl header exactly as written in the source
with single spaces between tokens (e.g. `impl Round for Zero`; `impl IBig#1` = the second of
several blocks with that header, 0-based), or
`macro NAME#K` (K-th arm, 0-based, of `macro_rules! NAME`; the "function" is then the arm
body itself and <fn name> must be `@arm`).
Attributes (`#[...]`) and doc comments in front of the item are not part of the span
(rule D5).
"""
import os
from . import rtok


class ExtractError(Exception):
    pass


_cache = {}


def file_tokens(repo, rel):
    key = (repo, rel)
    if key not in _cache:
        with open(os.path.join(repo, rel)) as f:
            _cache[key] = rtok.tokenize(f.read())
    return _cache[key]


def clear_cache():
    _cache.clear()


QUALS = {'pub', 'const', 'unsafe', 'async', 'extern', 'default'}


def _find_fn(toks, lo, hi, name):
    """Find `fn name` at brace depth 0 relative to [lo,hi). Returns (start, end_exclusive)."""
    depth = 0
    i = lo
    hits = []
    while i < hi:
        k, t = toks[i]
        if k == 'p' and t in rtok.OPEN:
            depth += 1
        elif k == 'p' and t in rtok.CLOSE:
            depth -= 1
        elif depth == 0 and k == 'id' and t == 'fn' and i + 1 < hi and (
                toks[i + 1] == ('id', name)
                # rule E3e: `fn $method` inside a macro_rules! arm, locator `... :: $method` (the metavariable is then
                # substituted by msubst= / minvoke= like any other)
                or (name.startswith('$') and toks[i + 1] == ('p', '$') and i + 2 < hi and toks[i + 2] == ('id', name[1:]))):
            # span start: walk back over qualifiers, `pub(crate)` etc.
            s = i
            while s > lo:
                pk, pt = toks[s - 1]
                if pk == 'id' and pt in QUALS:
                    s -= 1
                elif pk == 'lit' and pt.startswith('"') and s - 2 >= lo and toks[s - 2] == ('id', 'extern'):
                    s -= 1
                elif pk == 'p' and pt == ')':
                    # pub(crate) / pub(super) / pub(in path)
                    j = s - 1
                    d = 0
                    while j >= lo:
                        if toks[j] == ('p', ')'):
                            d += 1
                        elif toks[j] == ('p', '('):
                            d -= 1
                            if d == 0:
                                break
                        j -= 1
                    if j - 1 >= lo and toks[j - 1] == ('id', 'pub'):
                        s = j - 1
                    else:
                        break
                else:
                    break
            # body: first `{` at paren depth 0 after the signature, or `;`
            j = i
            d = 0
            while j < hi:
                kk, tt = toks[j]
                if kk == 'p' and tt in ('(', '['):
                    d += 1
                elif kk == 'p' and tt in (')', ']'):
                    d -= 1
                elif d == 0 and kk == 'p' and tt == '{':
                    e = rtok.match_close(toks, j)
                    hits.append((s, e + 1))
                    break
                elif d == 0 and kk == 'p' and tt == ';':
                    hits.append((s, j + 1))
                    break
                j += 1
        i += 1
    if not hits:
        raise ExtractError('fn %s not found' % name)
    if len(hits) > 1:
        raise ExtractError('fn %s ambiguous (%d hits)' % (name, len(hits)))
    return hits[0]


def _find_const(toks, lo, hi, name):
    """Find `const name :` at brace depth 0 relative to [lo,hi). Returns (start, end_exclusive) up to and including `;`."""
    depth = 0
    i = lo
    hits = []
    while i < hi:
        k, t = toks[i]
        if k == 'p' and t in rtok.OPEN:
            depth += 1
        elif k == 'p' and t in rtok.CLOSE:
            depth -= 1
        elif depth == 0 and (k, t) == ('id', 'const') and i + 2 < hi and toks[i + 1] == ('id', name) and toks[i + 2] == ('p', ':'):
            j = i
            d = 0
            while j < hi:
                kk, tt = toks[j]
                if kk == 'p' and tt in rtok.OPEN:
                    d += 1
                elif kk == 'p' and tt in rtok.CLOSE:
                    d -= 1
                elif d == 0 and (kk, tt) == ('p', ';'):
                    hits.append((i, j + 1))
                    break
                j += 1
        i += 1
    if not hits:
        raise ExtractError('const %s not found' % name)
    if len(hits) > 1:
        raise ExtractError('const %s ambiguous (%d hits)' % (name, len(hits)))
    return hits[0]


def _find_container(toks, lo, hi, header):
    """Find a block `header {` at depth 0 in [lo,hi); return (body_lo, body_hi) inside braces.
    `header#K` (K = 0, 1, ..) selects the K-th of several blocks with the same header (e.g. the two `impl IBig`
    blocks of integer/src/convert.rs); without `#K` more than one hit is an error."""
    ordinal = None
    if '#' in header:
        hd, _, od = header.rpartition('#')
        if od.strip().isdigit():
            header, ordinal = hd.strip(), int(od)
    want = [t for _, t in rtok.tokenize(header)]
    depth = 0
    i = lo
    hits = []
    while i < hi:
        k, t = toks[i]
        if depth == 0 and [x[1] for x in toks[i:i + len(want)]] == want and \
                i + len(want) < hi and toks[i + len(want)] == ('p', '{'):
            # make sure the header is not a suffix of a longer header, e.g. `impl X` in `unsafe impl X`
            b = i + len(want)
            e = rtok.match_close(toks, b)
            hits.append((b + 1, e))
            i = e + 1
            continue
        if k == 'p' and t in rtok.OPEN:
            depth += 1
        elif k == 'p' and t in rtok.CLOSE:
            depth -= 1
        i += 1
    if not hits:
        raise ExtractError('container `%s` not found' % header)
    if ordinal is not None:
        if ordinal >= len(hits):
            raise ExtractError('container `%s` has no occurrence #%d' % (header, ordinal))
        return hits[ordinal]
    if len(hits) > 1:
        raise ExtractError('container `%s` ambiguous' % header)
    return hits[0]


def _find_macro_arm(toks, lo, hi, name, ordinal):
    i = lo
    while i + 3 < hi:
        if toks[i] == ('id', 'macro_rules') and toks[i + 1] == ('p', '!') and toks[i + 2] == ('id', name):
            b = i + 3
            e = rtok.match_close(toks, b)
            # arms: ( matcher ) => { body } ;
            j = b + 1
            k = 0
            while j < e:
                me = rtok.match_close(toks, j)
                assert toks[me + 1] == ('p', '=>'), toks[me + 1]
                bb = me + 2
                be = rtok.match_close(toks, bb)
                if k == ordinal:
                    return (j, me + 1), (bb + 1, be)
                k += 1
                j = be + 1
                if j < e and toks[j] == ('p', ';'):
                    j += 1
            raise ExtractError('macro %s has no arm %d' % (name, ordinal))
        i += 1
    raise ExtractError('macro %s not found' % name)


def locate(repo, locator):
    parts = [p.strip() for p in locator.split('::')]
    # re-join parts that belong to paths inside an impl header (e.g. `impl core::ops::Add for X`)
    rel = parts[0]
    rest = parts[1:]
    toks = file_tokens(repo, rel)
    lo, hi = 0, len(toks)
    # containers may contain '::' themselves: greedy re-join until the header is found
    idx = 0
    while idx < len(rest) - 1:
        header = rest[idx]
        j = idx
        while True:
            try:
                if header.startswith('macro '):
                    nm, _, ordn = header[6:].partition('#')
                    (_, _), (lo, hi) = _find_macro_arm(toks, lo, hi, nm.strip(), int(ordn or 0))
                    # E3c: an arm body that is exactly ONE repetition group `$( items )*` (e.g. `($($t:ty)*) => {$( impl .. )*};`
                    # in integer/src/third_party/num_order.rs): the items live inside the group; descend into it
                    if hi - lo >= 4 and toks[lo] == ('p', '$') and toks[lo + 1] == ('p', '(') \
                            and rtok.match_close(toks, lo + 1) == hi - 2 and toks[hi - 1] in (('p', '*'), ('p', '+')):
                        lo, hi = lo + 2, hi - 2
                else:
                    lo, hi = _find_container(toks, lo, hi, header)
                break
            except ExtractError:
                j += 1
                if j >= len(rest) - 1:
                    raise
                header = header + ' :: ' + rest[j]
        idx = j + 1
    name = rest[-1]
    if name == '@arm':
        return toks, lo, hi
    if name.startswith('const '):
        # rule E4: a `const NAME: T = ..;` item (e.g. a lookup table): span from `const` to the terminating `;`
        s, e = _find_const(toks, lo, hi, name[6:].strip())
        return toks, s, e
    s, e = _find_fn(toks, lo, hi, name)
    return toks, s, e


def extract(repo, locator):
    toks, s, e = locate(repo, locator)
    return toks[s:e]
