"""Annotated copies: the real token stream of a function with `/*@ ... @*/` comment blocks.

  load(path)            -> Annot (locator, variant tags, token list with 'ann' tokens)
  erase(tokens)         -> real tokens only
  sync(annot, new_real) -> (status, tokens)   status in {'clean', 'transplanted', 'lost'}

Annotation blocks may start with a tag list `[total]`, `[must_panic]`, `[w32]` ...:
the block is kept only when one of its tags is in the active variant set
(blocks without tag list are always kept).
"""
import difflib
import re
from . import rtok


class Annot:
    def __init__(self, path, locator, toks, meta):
        self.path = path
        self.locator = locator
        self.toks = toks
        self.meta = meta


def load(path):
    with open(path) as f:
        src = f.read()
    meta = {}
    for m in re.finditer(r'^//@\s*([a-z_]+)\s*:\s*(.*)$', src, re.M):
        meta[m.group(1)] = m.group(2).strip()
    if 'item' not in meta:
        raise ValueError('%s: no `//@ item:` header' % path)
    toks = rtok.tokenize(src, keep_ann=True)
    return Annot(path, meta['item'], toks, meta)


def erase(toks):
    return [t for t in toks if t[0] != 'ann']


def _closes_if_block(toks, i):
    """True iff toks[i] is the `}` of a block whose header (scanned backwards to the previous `;` `{` `}` at the same
    nesting depth) contains the keyword `if`."""
    if i < 0 or i >= len(toks) or toks[i] != ('p', '}'):
        return False
    d = 0
    j = i
    while j >= 0:
        k, t = toks[j]
        if k == 'p' and t == '}':
            d += 1
        elif k == 'p' and t == '{':
            d -= 1
            if d == 0:
                break
        j -= 1
    if j < 0:
        return False
    d = 0
    j -= 1
    while j >= 0:
        k, t = toks[j]
        if k == 'p' and t in (')', ']'):
            d += 1
        elif k == 'p' and t in ('(', '['):
            if d == 0:
                return False
            d -= 1
        elif d == 0 and k == 'p' and t in (';', '{', '}'):
            return False
        elif d == 0 and k == 'id' and t == 'if':
            return True
        j -= 1
    return False


def sync(atoks, new_real):
    """Carry the annotation blocks of `atoks` over to the token stream `new_real`."""
    old_real = erase(atoks)
    if old_real == new_real:
        return 'clean', list(atoks), []
    # positions of annotation blocks: number of real tokens in front of them
    anns = []
    p = 0
    for t in atoks:
        if t[0] == 'ann':
            anns.append((p, t))
        else:
            p += 1
    sm = difflib.SequenceMatcher(None, old_real, new_real, autojunk=False)
    ops = sm.get_opcodes()
    fwd = {}  # old index -> new index for tokens in equal blocks
    for tag, i1, i2, j1, j2 in ops:
        if tag == 'equal':
            for k in range(i2 - i1):
                fwd[i1 + k] = j1 + k
    changes = [(tag, old_real[i1:i2], new_real[j1:j2]) for tag, i1, i2, j1, j2 in ops if tag != 'equal']
    placed = {}  # new position -> [ann tokens]
    for p, t in anns:
        prev_ok = (p - 1) in fwd
        next_ok = p in fwd
        next_is_brace = p < len(old_real) and old_real[p] == ('p', '{')
        # trailing block of the item (rule D8: sits between the tail expression and the final `}`): it must stay
        # behind the whole new tail, so it is anchored to the closing brace when tokens were inserted in front of it
        tail_block = (p == len(old_real) - 1 and old_real[p] == ('p', '}') and next_ok and prev_ok
                      and fwd[p] != fwd[p - 1] + 1)
        if p == 0:
            q = 0
        elif tail_block:
            q = fwd[p]
            changes.append(('anchor-tail-block', [], [new_real[fwd[p]]]))
        elif next_ok and (next_is_brace or not prev_ok):
            q = fwd[p]
        elif prev_ok:
            q = fwd[p - 1] + 1
        elif p == len(old_real) and not prev_ok:
            return 'lost', None, changes
        elif re.match(r'\s*->\s*\(', t[1]):
            # rule T4 (logged; added for unit float_to_prim_fbig): the contract of a closure (rule D9: `|x| /*@ -> (o: T)
            # requires .. ensures .. @*/ body`) whose two neighbouring real tokens both vanished -- the closure expression was
            # removed by the code change -- is dropped.  A closure contract only GIVES facts about a closure to the code
            # around it; without it nothing becomes provable that was not before (if the closure still exists in another
            # shape it simply has no postcondition any more), so the changed function is judged by its own contract
            # instead of ending as "annotation anchors lost".
            changes.append(('drop-closure-contract-without-closure', [('ann', ' '.join(t[1].split())[:120])], []))
            continue
        else:
            return 'lost', None, changes
        # rule T2 (logged): a block that sat INSIDE the item (in front of its final `}`) stays inside it.  When a code
        # change removes a nested block, difflib may pair the item's new final `}` with the OLD inner `}`, which would
        # put a trailing proof block behind the end of the function (a syntax error, exit-2 class).
        if q >= len(new_real) and p < len(old_real) and new_real and new_real[-1] == ('p', '}'):
            q = len(new_real) - 1
            changes.append(('anchor-clamped-into-item', [], [new_real[-1]]))
        # rule T3 (logged): a ghost `else { .. }` block is only meaningful directly behind the `}` of an `if` block; when
        # the `if` vanished (special case removed by a code change) the block is dropped -- its proof steps belonged to a
        # branch that no longer exists; the obligations of the remaining code are unchanged.
        if re.match(r'\s*(\[[A-Za-z0-9_, !]+\])?\s*else\b', t[1]) and not _closes_if_block(new_real, q - 1):
            changes.append(('drop-else-block-without-if', [('ann', ' '.join(t[1].split())[:120])], []))
            continue
        placed.setdefault(q, []).append(t)
    out = []
    for j, t in enumerate(new_real):
        out.extend(placed.get(j, []))
        out.append(t)
    out.extend(placed.get(len(new_real), []))
    return 'transplanted', out, changes


_tag_re = re.compile(r'^\s*\[([A-Za-z0-9_, !]+)\]')


def select_variant(toks, active):
    """Drop annotation blocks whose tag list does not intersect `active`; strip tag lists.
    A tag `!x` keeps the block when x is NOT active."""
    out = []
    for k, t in toks:
        if k != 'ann':
            out.append((k, t))
            continue
        m = _tag_re.match(t)
        if m:
            tags = [x.strip() for x in m.group(1).split(',')]
            keep = False
            for tg in tags:
                if tg.startswith('!'):
                    if tg[1:] not in active:
                        keep = True
                elif tg in active:
                    keep = True
            if not keep:
                continue
            t = t[m.end():]
        out.append((k, t))
    return out


def splice(toks):
    """Un-comment annotation blocks: replace each 'ann' token by the tokens of its body.
    Returns (tokens, marks) where marks[i] is True for tokens that came from annotations."""
    out, marks = [], []
    for k, t in toks:
        if k == 'ann':
            inner = rtok.tokenize(t, verus=True)
            out.extend(inner)
            marks.extend([True] * len(inner))
        else:
            out.append((k, t))
            marks.append(False)
    return out, marks
