"""Float text I/O and base changes (C08; C16 for "parsers return Err, never panic").  Only units that fully verify are
listed.  Verus vocabulary: contracts/lib/fio_fmt_stubs.rs (Formatter sink, fmt_fix_rounded / fmt_sci_rounded),
fio_convbase.rs (ilog_spec, xsame, cb_pre / cb_post), fio_parse_stubs.rs (ASCII string model, documented grammar
FloatText / grammar / ft_mant / ft_exp / ft_prec), fio_cut_tail.rs (lowering rule D20).
Annotated copies: contracts/annot/float/{fmt,convbase,parse}/."""

VERUS = {
    # float/src/fmt.rs Repr::fmt_round (`{:.N}`) and Repr::fmt_round_scientific (`{:.Ne}`, also binary / octal / hex forms):
    # the PREFIX up to the call of the digit printer (rule D20): infinities print as inf / -inf; the number of dropped
    # digits comes from the exact digit count and the significand handed to the printer is the rounding under R of the value
    # to N fractional digits resp. N+1 significant digits (4N+4 bits for `{:.Nx}`)
    'float_fmt_round': {'file': 'float_fmt_round.rs', 'w32': False},
    # float/src/utils.rs ilog_exact: the exponent k >= 1 with base^k == n, 0 if n is no such power (sound and complete)
    'float_ilog_exact': {'file': 'float_ilog_exact.rs', 'w32': False},
    # float/src/convert.rs Context::convert_base (integer-only shortcuts: same base, infinity, NewB = B^k, B = NewB^k) and
    # FBig::with_base_and_precision: exact re-basing (s1 * NewB^e1 == sig * B^e), one repr_round to the requested precision,
    # Exact results normalised, result tagged with the requested precision
    'float_convert_base': {'file': 'float_convert_base.rs', 'w32': False},
    # float/src/parse.rs Repr::from_str_native: an accepted ASCII text reads under the documented grammar with
    # precision = number of written digits (4 bits per digit of a 0x literal, '_' not counted) and
    # significand * B^exponent == the written value, normalised; no panic on the covered inputs
    # (one large function: 12-17 s of SMT, rlimit use ~80 of the 400 granted; the default 10 is not enough)
    'float_parse': {'file': 'float_parse.rs', 'w32': False, 'rlimit': 400},
    # float/src/parse.rs FBig::from_str_native (behind FromStr): the Repr of float_parse, context precision = digit count
    'float_parse_fbig': {'file': 'float_parse_fbig.rs', 'w32': False},
}

_UND_FMT = ('printing: only the rounding step in front of the digit printer is under contract (float_fmt_round, rule D20: the '
            'tail of fmt_round / fmt_round_scientific -- String buffers, write!, Formatter width / fill / alignment / sign, '
            'placement of the radix point, exponent text, padding zeros -- is NOT verified); the Formatter sink and '
            'utils::{digit_len, split_digits_ref} are trusted stubs. Observed in the unverified tail (not claimed by any check): '
            '`{:.3e}` of 9.9996 prints `1.0000e1` (a carry into a new digit is printed with one fractional digit too many).')

_UND_PARSE = ('parsing: Repr::from_str_native is proved against an ASCII string model (opaque `str` stub with the contracts of '
              'the core::str methods; non-ASCII input outside the contract) and the ASSUMED contract of UBig::from_str_radix '
              '(positional value, optional leading +). Proved for accepted texts only: that malformed text is rejected is not '
              'part of the contract (observed: base 2 `0x.` is accepted as zero with precision 0). The two defect regions '
              'formerly excluded by precondition are repaired (proposed_fixes IO2: an inner `+` is rejected; IO3: '
              '`scale - fraction digits` is computed with checked_sub) and the preconditions are gone. Still outside the '
              'contract: isize overflow of the exponent inside Repr::new (normalisation adds the number of stripped zeros: '
              'DBig::from_str("10e9223372036854775807") panics in debug builds): excluded by the resource precondition `parse_room` '
              '(the exponent of the leading digit of the written value fits isize; Repr::new stub: `exp_room`). '
              'FromStr::from_str (one-line forwarder to FBig::from_str_native, a trait-impl method) is not a separate unit. '
              'A bounded Kani group on the real parser was tried and abandoned: 3 symbolic characters in base 2 exceed '
              '600 s / 5 GB of CBMC.')

_UND_BASE = ('base change: only the integer-only shortcuts of Context::convert_base are under contract (since proposed_fixes IO1 '
             'every one of them ends in repr_round: the former exclusion "value must fit the target precision" is gone); the '
             'general path (ln / exp at doubled precision, f32 estimates) and the small-exponent path (also routed through '
             'repr_round by IO1, checked by its test only) stay undecided, and so do with_base / to_decimal / to_binary: the '
             'target precision comes from an f32 estimate (proposed_fixes IO4 corrects it with the exact test '
             'NewB^(p+1) <= B^p; test-verified only). ilog_exact overflows a word (debug panic / endless loop in release) '
             'for bases >= 2^32: precondition.')

_UND_RT = ('round trip print-then-parse: not decided. The printer tail is not hosted by Verus (see above) and the parser '
           'alone exceeds CBMC (3 symbolic characters: > 600 s); a proof would compose float_parse with a contract of the '
           'printer tail stating that its output reads under the same grammar as (significand, exponent).')

PROP_UNITS = {
    'C08': {'verus': ['float_fmt_round', 'float_ilog_exact', 'float_convert_base', 'float_parse', 'float_parse_fbig'],
            'undecided': [_UND_FMT, _UND_PARSE, _UND_BASE, _UND_RT]},
    'C16': {'verus': ['float_parse', 'float_parse_fbig', 'float_fmt_round', 'float_ilog_exact', 'float_convert_base']},
}
