"""Float text I/O and base changes (C08; C16 for "parsers return Err, never panic")."""

VERUS = {
    'float_fmt_round': {'file': 'float_fmt_round.rs', 'w32': False},
}

KANI = {
    'float_parse': {
        'package': 'dashu-float', 'target': 'float/src/parse.rs', 'file': 'float_parse.rs',
        'harnesses': {
            'vk_float_parse_b2_n3': {'kind': 'bounded', 'bound': 'dev'},
            'vk_float_parse_b10_n3': {'kind': 'bounded', 'bound': 'dev'},
        },
    },
}

PROP_UNITS = {}
