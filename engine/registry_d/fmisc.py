"""Corners of dashu-float / dashu-ratio that round-3 seeded changes showed to be outside every check (agent unitfm).
Annotated copies: contracts/annot/float/fmisc/, contracts/annot/rational/fmisc/; libs contracts/lib/fm_*.rs.

float_fm_methods      FBig-LEVEL methods that forward to a Context-level function with the number's own context (C03):
                      FBig::sqr, FBig::cubic (mul.rs), SquareRoot::sqrt for FBig (root.rs), Inverse::inv for FBig / &FBig
                      (div.rs) and the four `FBig / FBig` operand forms (arms of impl_div_or_rem_for_fbig!, instantiated as
                      div.rs:53 does: Div, div, repr_div).  Each is proved to return the VALUE of a result satisfying the
                      C03 statement of the Context-level function (round_val / sqrt_post / div_post, SIG = the annotated
                      copies proved in units float_mul / float_sqrt / float_div) for self.repr under self.context (division:
                      the larger of the two precisions), and to carry that context.
float_fm_methods_inf  must_panic variants of FBig::sqr / FBig::cubic: infinite operand ==> no normal return (C16).
float_fm_with_base    FBig::with_base (convert.rs): the precision loop ends at THE documented precision (largest p' with
                      NewB^p' <= B^p, 0 for 0), then with_base_and_precision (SIG, unit float_convert_base); to_decimal,
                      to_binary (with_base under HalfAway / Zero for base 10 / 2), with_rounding (repr and precision kept).
ratio_fm_numord       rational/src/third_party/num_order.rs impl_ord_between_ratio! (both real invocations, rule E3c):
                      num_eq / num_partial_cmp / num_cmp between RBig and Relaxed == equality / ordering of the cross
                      products for ANY positive denominators; PartialEq / Ord / PartialOrd for Repr (cmp.rs) hoisted.
ratio_fm_ctor_panic   must_panic variants of RBig::from_parts_const / Relaxed::from_parts_const: denominator == 0 ==> no
                      normal return whatever the numerator (0/0 included).

Trusted base added:
  lib/fm_fbig_clone.rs   Clone for FBig (fbig.rs: repr cloned, context copied): same significand, exponent, context.
  lib/fm_convbase.rs     Repr::<B>::BASE.v() == B (repr.rs `UBig::from_word(B)`); __f32_est0 (rule D10b / D10b-m): the f32
                         estimate `(limit.log2_bounds().0 / NewB.log2_bounds().1) as usize` is a LOWER bound:
                         NewB^estimate <= limit (the code's own comment; nothing is assumed about how close it is).
  lib/fm_float_stubs.rs  call-site views of Abs for FBig / FBig::sign / Sign * FBig with the statements PROVED in unit
                         float_sign (not used by the unchanged code: present so that a change routing a method through
                         |x| and sign(x) is decided by the contract, seeded change C03_r3_3).
  lib/fm_ratio_glue.rs   nothing trusted: inherent Repr::eq / Repr::cmp are VERIFIED one-line forwards to the hoisted real
                         trait methods; assumed is only Rust's method resolution (`repr.eq(..)` = <Repr as PartialEq>::eq).
"""

VERUS = {
    'float_fm_methods': {'file': 'float_fm_methods.rs', 'w32': False},
    'float_fm_methods_inf': {'file': 'float_fm_methods_inf.rs', 'w32': False},
    'float_fm_with_base': {'file': 'float_fm_with_base.rs', 'w32': False},
    'ratio_fm_numord': {'file': 'ratio_fm_numord.rs', 'w32': False},
    'ratio_fm_ctor_panic': {'file': 'ratio_fm_ctor_panic.rs', 'w32': False},
}

_UND_METHODS = ('FBig-level methods FBig::sqr / cubic / sqrt / inv (both forms) and the four `FBig / FBig` forms: proved to '
                'return the value of ONE mode-correct rounding (the statement of Context::sqr / cubic / sqrt / inv / repr_div, '
                'units float_mul / float_sqrt / float_div) of the exact SIGNED result under the operand\'s own context '
                '(division: the larger precision), under the same preconditions as the Context-level contracts (finite '
                'operands that fit, resource limits). Not under contract: the `%` forms (repr_rem), DivEuclid / RemEuclid / '
                'DivRemEuclid for FBig, the *Assign forms (impl_binop_assign_by_taking)')

_UND_WITH_BASE = ('with_base / to_decimal / to_binary: proved that the target precision is the largest p\' with NewB^p\' <= B^p '
                  '(what the exact correction loop must establish: B^p < NewB^(p\'+1) on exit) GIVEN that the f32 estimate is a '
                  'lower bound (NewB^estimate <= B^p: ASSUMED, lib/fm_convbase.rs, rule D10b), and that the value is then '
                  'converted by ONE correct rounding to that precision with a truthful flag -- for the base pairs covered by '
                  'unit float_convert_base (same base, powers of each other, infinities); the general ln / exp path stays '
                  'undecided as before. Source precision < 2^56 (resource limit: B^p is materialised). Clone for FBig is a '
                  'trusted stub')

_UND_BETWEEN = ('impl_ord_between_ratio! (NumOrd between RBig and Relaxed, both directions): num_eq / num_partial_cmp / num_cmp '
                'proved to be the equality / ordering of the cross products n1*d2, n2*d1 for any positive denominators (also a '
                'non-reduced Relaxed), through PartialEq / Ord for Repr (hoisted: the invariant denominator > 0 is their '
                'precondition) over repr_eq / repr_cmp (unit ratio_cmp); num_ne / num_lt / num_le / num_gt / num_ge are the '
                'num-order crate\'s default methods on top of these and are not modelled')

PROP_UNITS = {
    'C03': {'verus': ['float_fm_methods'], 'undecided': [_UND_METHODS]},
    'C08': {'verus': ['float_fm_with_base'], 'undecided': [_UND_WITH_BASE]},
    'C14': {'verus': ['ratio_fm_numord'], 'undecided': [_UND_BETWEEN]},
    'C16': {'verus': ['float_fm_methods_inf', 'ratio_fm_ctor_panic']},
}
