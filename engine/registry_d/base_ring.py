"""PRIMITIVE ring algorithms of dashu-base (base/src/ring/gcd.rs, base/src/ring/root.rs, base/src/math/root.rs) -- C12.

Unbounded Verus proofs of the machine-integer gcd / gcd_ext / sqrt_rem / sqrt routines that the big-integer units used to ASSUME
(lib/gcdo_stubs.rs primitive ExtendedGcd::gcd_ext, lib/mulalg_root_stubs.rs DoubleWord::sqrt_rem: both now //@@ SIG of the
annotated copies proved here).  Vocabulary / lemmas: contracts/lib/basering_*.rs; annotated copies: contracts/annot/base/ring_gcd/,
contracts/annot/base/ring_root/.  Engine rules added for these units: E3d (macro_rules! invocation in a body replaced by the
macro's own annotated arm: `minline=`), E4 (`//@@ CONST` + `mconst=`: a const table of the real file, erasure-checked, emitted
verbatim), D14c (`(self << E)` with a `&<primitive>` receiver ==> `((*self_) << E)`)."""
VERUS = {
    # base/src/ring/gcd.rs, macros impl_unchecked_gcd_ops_prim (both arms) and impl_gcd_ops_prim, instances u32 / u64 / u128
    # (+ u64 as two u32 halves = the arm of 32-bit targets), 14 functions:
    #   gcd:      ret >= 1, ret | a, ret | b, every common divisor divides ret           [gcd(0, 0): documented panic = precondition]
    #   gcd_ext:  the same for g;  s*a + t*b == g;  |s| <= b, |t| <= a (a, b > 0);  |t| < a (a > b > 0)
    #   unchecked_gcd (binary gcd, odd operands): ret == Euclid's gcd;   unchecked_gcd_ext (a >= b >= 1): g | a, g | b, s*a + t*b == g,
    #     |s| <= b, |t| <= a, halved when a > b -- incl. the double-width "reduce double by single" early return and the composition
    #     with the single-width cofactors; all debug assertions, no overflow of the signed cofactor arithmetic, termination
    'base_gcd': {'file': 'base_gcd.rs', 'w32': True},
    # base/src/ring/root.rs wmul16_hi, wmul32_hi, fix_sqrt_error! (inlined), <u32 / u64 / u128 as NormalizedRootRem>::normalized_sqrt_rem,
    # SquareRootRem::sqrt_rem for u32 / u64 / u128, base/src/math/root.rs SquareRoot::sqrt for u32 / u64 / u128, DivRem::div_rem for u64
    # (12 functions):  s*s + r == n, r <= 2s  (<==> s*s <= n < (s+1)^2);   sqrt: s*s <= n < (s+1)^2;   no overflow / underflow,
    # termination -- under TWO explicit assumptions on the table/Newton estimates of the u64 and u32 routines (see 'undecided' below);
    # the u128 Karatsuba step, the correction loop and the wrappers are proved outright
    'base_root': {'file': 'base_root.rs', 'w32': True},
    # base/src/ring/root.rs fix_cbrt_error! (inlined), <u32 / u64 / u128 as NormalizedRootRem>::normalized_cbrt_rem, CubicRootRem::cbrt_rem
    # for u32 / u64 / u128, base/src/math/root.rs CubicRoot::cbrt for u32 / u64 / u128, DivRem::div_rem for u128 (10 functions):
    #   c^3 + r == n, r <= 3c^2 + 3c  (<==> c^3 <= n < (c+1)^3);   cbrt: c^3 <= n < (c+1)^3;   no overflow / underflow, termination
    # -- under TWO explicit assumptions on the table/Newton estimates of the u64 and u32 routines; the u128 routine (division step +
    # adjustment loop), the correction loop and the wrappers are proved outright
    'base_cbrt': {'file': 'base_cbrt.rs', 'w32': True},
}

PROP_UNITS = {
    'C12': {'verus': ['base_gcd', 'base_root', 'base_cbrt'],
            'undecided': [
                'base_root ASSUMES (lib/basering_root_est.rs axiom_br_sq64_estimate, trusted, NOT proved by Verus): for every high word '
                'n32 in [2^30, 2^32) the closed-form integer functions br_sq64_* describing steps 1-5 of <u64 as NormalizedRootRem>::'
                'normalized_sqrt_rem (9-bit table lookup, two Newton steps on 1/sqrt, margin s -= 10, Newton step on sqrt) satisfy '
                'br_sq64_ok: no over/underflow and s^2 <= n after step 5 for both values floor(e / 2^32) takes inside the class. '
                'Established by exhaustive native enumeration of all 3 * 2^30 classes (tools/base_root_exhaust.rs, 0 violating '
                'classes, largest overshoot of the raw estimate exactly 10 = the margin, so no analytic bound can replace it; with '
                'margin 9 the tool reports 3970 violating classes). Verus proves that the machine code computes these integers from '
                'the REAL table (entry equal to the pinned copy), that the class-wise facts cover every n of the class, the correction '
                'loop, the u128 Karatsuba step and the sqrt_rem / sqrt wrappers',
                'base_root ASSUMES likewise (axiom_br_sq32_estimate): br_sq32_ok(n) for every u32 n >= 2^30 (steps 1-4 of <u32 as '
                'NormalizedRootRem>::normalized_sqrt_rem: no over/underflow, s^2 <= n after the Newton step), established by '
                '`tools/base_root_exhaust.rs u32` over all 3 * 2^30 inputs (0 violating; margin 3 instead of 4: 2765538 violating)',
                'base_root / base_gcd: u128::{leading_zeros, trailing_zeros} (vstd specifies them only up to u64: lib/div_dword_bits_64.rs), '
                'u32/u64/u128::pow, u64::overflowing_add, core::mem::replace are assume_specifications of core functions',
                'base_cbrt ASSUMES (lib/basering_cbrt_est.rs, trusted): axiom_br_cb64_estimate (br_cb64_ok(h) for every high word '
                'h = n >> 32 in [2^29, 2^32): steps 1-4 of <u64 as NormalizedRootRem>::normalized_cbrt_rem neither over- nor underflow and '
                'give c with c^3 <= h * 2^32) and axiom_br_cb32_estimate (br_cb32_ok(n) for every u32 n >= 2^29), both established by '
                'exhaustive native enumeration (`tools/base_root_exhaust.rs cbrt64`: 0 of 3758096384 classes violating, 93095 with the '
                'margin `r - 1` removed; `cbrt32`: 0 violating, 1325614 with margin 5 instead of 10)',
                'not covered by Verus: the u8 / u16 square and cube roots (brute force / u16 table routines: proved complete by the Kani '
                'group base_root), '
                'the u8 / u16 / usize instances of the gcd macros (u8: Kani group base_gcd; same macro bodies as the proved instances)',
            ]},
}
