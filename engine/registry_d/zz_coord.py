"""Coordinator-level cross registrations (units written for one property that also decide a clause of another)."""
PROP_UNITS = {
    # C15 "all call forms agree": every owned/borrowed form of an operator is proved against the SAME value-level
    # postcondition (the four dispatch impls per operator in int_add_ops / int_mul_ops / int_div_sign / int_ops_sign /
    # int_bits_signed, the val/ref forms of the float and rational arms), hence the forms agree wherever the
    # postcondition determines the result. Forms not instantiated are listed in those units' own `undecided`.
    'C15': {'verus': ['int_add_ops', 'int_add_ops_signed', 'int_add_ops_panic', 'int_mul_ops', 'int_ops_sign',
                      'int_div_sign', 'int_bits_signed', 'int_bits_large', 'int_shift_ops', 'ratio_ops', 'ratio_int_ops', 'float_add'],
            'undecided': ['op-assign forms and primitive-operand forwarding macros (helper_macros.rs) are only '
                          'covered by the bounded Kani group int_forms where registered',
                          'FBig operator vs Context method at the same precision: only float_mul / float_add_ops']},
    # C05: base changes must return normalised values (== follows the value); C09: !, &, |, ^ of IBig go through
    # add_one / sub_one of the magnitude (unit int_add_ops)
    'C05': {'verus': ['float_convert_base', 'float_shift']},          # a shifted zero must stay the canonical zero
    'C09': {'verus': ['int_add_ops']},
    # C04: every RBig operation reduces through the integer gcd (Lehmer for multi-word parts) and multiplies through
    # the dispatching multiplication (scratch-memory sizing included)
    'C04': {'verus': ['int_gcd_ops', 'int_gcd_small', 'int_leh_guess', 'int_leh_step', 'int_leh_top', 'int_leh_gcd',
                      'int_memsize_dispatch']},
    # C13: inv / division of residues is the extended gcd; clone_from across rings (bounded Kani)
    'C13': {'verus': ['int_gcd_small', 'int_gcd_ops'], 'kani': ['int_modclone']},
    # C06 names the to_int family explicitly
    'C06': {'verus': ['float_fbig_to_int', 'float_conv', 'float_digit_utils']},      # to_int truncates through shr_digits
    # C14: AbsOrd / NumOrd of floats of one base go through repr_cmp_same_base (unit float_cmp)
    'C14': {'verus': ['float_cmp']},
    # C18: simplest_in orders its end points with repr_cmp (unit ratio_cmp)
    'C18': {'verus': ['ratio_cmp']},
    # C17: the raw-pointer shift kernel (out-of-bounds writes are Kani pointer checks)
    'C17': {'kani': ['int_shift']},
    # C19: byte forms must be identical across word sizes = canonical (minimal) form, asserted by the int_bytes oracle
    'C19': {'kani': ['int_bytes']},
    # C08: decode is proved complete by Kani (base_bit); float_from_prim composes it
    'C08': {'kani': ['base_bit'], 'verus': ['float_repr_round', 'float_split'],
            'undecided': ['float parser and printer (str / core::fmt)', 'convert_base (ln/exp at doubled precision, f32 '
                          'estimates)', 'with_precision: one correct rounding (float_conv)']},
}
