"""Representation-level bit operations (bits.rs mod repr on word buffers, shift_ops.rs mod repr, signed forms)."""
VERUS = {
    'int_bits_large': {'file': 'int_bits_large.rs', 'w32': True},
    'int_shift_ops': {'file': 'int_shift_ops.rs', 'w32': True},
    'int_bits_signed': {'file': 'int_bits_signed.rs', 'w32': True},
    'int_shift_ops_dword': {'file': 'int_shift_ops_dword.rs', 'w32': False},   # u128::leading_zeros assumption
}

KANI = {}

PROP_UNITS = {
    'C09': {'verus': ['int_bits_large', 'int_shift_ops', 'int_shift_ops_dword', 'int_bits_signed']},
    'C16': {'verus': ['int_bits_large', 'int_shift_ops', 'int_shift_ops_dword', 'int_bits_signed']},
    'C19': {'verus': ['int_bits_large', 'int_shift_ops']},
}
