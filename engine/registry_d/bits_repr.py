"""Representation-level bit operations (bits.rs mod repr on word buffers, shift_ops.rs mod repr, signed forms)."""
VERUS = {
    'int_bits_large': {'file': 'int_bits_large.rs', 'w32': True},
    'int_shift_ops': {'file': 'int_shift_ops.rs', 'w32': True},
    'int_bits_signed': {'file': 'int_bits_signed.rs', 'w32': True},
    'int_shift_ops_dword': {'file': 'int_shift_ops_dword.rs', 'w32': False},   # u128::leading_zeros assumption
}

KANI = {
    'int_bits_signed': {
        'package': 'dashu-int', 'target': 'integer/src/bits.rs', 'file': 'int_bits_signed.rs',
        'harnesses': {
            'vk_bsig_shr_min_128': {'kind': 'bounded', 'bound': '5 concrete instances around -2^127 >> 128'},
            'vk_bsig_shr_corners': {'kind': 'bounded', 'bound': '16 concrete values x 9 concrete shifts'},
            'vk_bsig_bit_inline': {'kind': 'bounded', 'bound': 'all i128 (inline magnitudes <= 2^127), n <= 130'},
            'vk_bsig_trailing_inline': {'kind': 'bounded', 'bound': 'all i128 (inline magnitudes <= 2^127)'},
            'vk_bsig_bit_heap': {'kind': 'bounded',
                                 'bound': '3-word magnitudes, palette words (3 symbolic bits each), n <= 260'},
            'vk_bsig_not_inline': {'kind': 'bounded', 'bound': '|x| < 2^126', 'tier': 'thorough'},
            'vk_bsig_trailing_heap': {'kind': 'bounded', 'bound': '3-word magnitudes, palette words',
                                      'tier': 'thorough'},
        },
    },
    'int_bits_npot': {
        'package': 'dashu-int', 'target': 'integer/src/bits.rs', 'file': 'int_bits_npot.rs',
        'harnesses': {
            'vk_npot_len3': {'kind': 'bounded', 'bound': 'heap operands of exactly 3 words (full symbolic words)'},
        },
    },
}

PROP_UNITS = {
    'C09': {'verus': ['int_bits_large', 'int_shift_ops', 'int_shift_ops_dword', 'int_bits_signed'],
            'kani': ['int_bits_signed', 'int_bits_npot'],
            'undecided': [
                'the 16 BitAnd/BitOr/BitXor/AndNot dispatch impls of TypedRepr/TypedReprRef (bits.rs mod repr) are assumed '
                'digit-wise in unit int_bits_signed; their heap kernels are proved in int_bits_large',
                'next_power_of_two_large (skip_while iterator): bounded Kani only (3 words)',
                'count_ones / count_zeros / bit_len / UBig::ones: not under contract here',
                'BitTest::bit and trailing_ones of negative IBig: bounded Kani only (inline: all i128; heap: 3 palette words)',
            ]},
    'C16': {'verus': ['int_bits_large', 'int_shift_ops', 'int_shift_ops_dword', 'int_bits_signed']},
    'C19': {'verus': ['int_bits_large', 'int_shift_ops', 'int_bits_signed']},
}
