"""Multi-word division: div/simple.rs (Knuth D), div_ops.rs::repr dispatch, div_const.rs (ConstDivisor), divide_conquer."""
VERUS = {
    # Knuth 4.3.1 D with the 3-by-2 quotient estimate: div_rem_highest_word, div_rem_in_place (unbounded proof).
    # Trusted: num_modular::Normalized3by2Divisor::div_rem_3by2 (documented meaning), split_last(_mut),
    # assumed contracts of primitive::highest_dword (unsafe) and cmp::cmp_same_len (Iterator::cmp).
    'int_div_simple': {'file': 'int_div_simple.rs', 'w32': True},
    # div_ops.rs `mod repr`: div_rem_dword, div_dword, rem_dword, div_rem_large_dword, rem_large_dword, div_rem_in_lhs,
    # div_rem_large, div_large, rem_large + div/mod.rs glue normalize, div_rem_in_place (schoolbook / divide-and-conquer
    # switch), div_rem_unshifted_in_place + primitive::shrink_dword.  Post: a == q*b + r, 0 <= r < b (total variant,
    # divisor != 0).  Trusted: Buffer/Repr stubs, num_modular divisor stub, MemoryAllocation/Layout stubs; the
    # divide-and-conquer branch is seen through the contract proved in int_div_dc.
    'int_div_ops': {'file': 'int_div_ops.rs', 'w32': True},
    # must_panic variants: divisor == 0 ==> no normal return (div_rem_dword, div_dword, rem_dword, div_rem_large_dword,
    # rem_large_dword)
    'int_div_ops_zero': {'file': 'int_div_ops_zero.rs', 'w32': True},
    # div_const.rs: ConstSingleDivisor::{rem_word, rem_dword}, ConstDoubleDivisor::rem_dword ("(x << shift) % normalized
    # divisor"), repr::{div_rem_small_single, div_rem_small_double, rem_large_large} and the Div/Rem/DivRem dispatch on
    # &ConstDivisorRepr: same (q, r) as plain division by the divisor the ConstDivisor was built from.
    # Trusted: num_modular PreMulInv2by1/PreMulInv3by2 wrappers + dividers (stubs), Buffer/Repr stubs.
    'int_div_const': {'file': 'int_div_const.rs', 'w32': True},
    # div/divide_conquer.rs (Burnikel-Ziegler): div_rem_in_place, div_rem_in_place_same_len,
    # div_rem_in_place_small_quotient (mutually recursive, with termination measures): the contract proved for
    # simple::div_rem_in_place (a == q*b + r, r < b, carry <=> top words >= b).  Trusted: ASSUMED contract of
    # mul::add_signed_mul ("c += sign*a*b, returns carry"), Memory stub; const_assert! (compile-time) ignored.
    'int_div_dc': {'file': 'int_div_dc.rs', 'w32': True},
}

KANI = {
    # real crate, real num_modular reciprocal: cross-checks the stubs the Verus unit int_div_simple trusts
    'int_div_simple_k': {
        'package': 'dashu-int', 'target': 'integer/src/div/simple.rs', 'file': 'int_div_simple_k.rs',
        'harnesses': {
            'vk_int_div_simple_k_len%d_d%d' % (n, k): {
                'kind': 'bounded', 'tier': 'quick' if n <= 4 else 'thorough',
                'bound': 'lhs %d words from an 8-value palette (3 symbolic bits per word), rhs one of 4 concrete '
                         'normalized 3-word divisors' % n}
            for n in (3, 4, 5) for k in (0, 1, 2, 3)
        },
    },
}

PROP_UNITS = {
    'C02': {'verus': ['int_div_simple', 'int_div_ops', 'int_div_ops_zero', 'int_div_const', 'int_div_dc'], 'kani': ['int_div_simple_k'],
            'undecided': ['mul::add_signed_mul (general multiplication dispatch) is an ASSUMED contract inside the '
                          'divide-and-conquer division proof; no bounded check of divide_conquer.rs on the real crate '
                          '(needs > 32-word operands: infeasible for CBMC)',
                          'the match dispatch of impl Div/Rem/DivRem for TypedRepr(Ref) in div_ops.rs::repr (the functions '
                          'it dispatches to are proved)',
                          'div_const.rs: ConstLargeDivisor::{new, divisor, rem_large, rem_repr}, ConstDivisor::{new, from_word, '
                          'from_dword, value} and the UBig/IBig operator wrappers are not under contract (ConstLargeDivisor::wf '
                          'states what `new` must establish)']},
    'C16': {'verus': ['int_div_simple', 'int_div_ops', 'int_div_ops_zero', 'int_div_const', 'int_div_dc']},
    'C19': {'verus': ['int_div_simple', 'int_div_ops', 'int_div_const', 'int_div_dc']},
}
