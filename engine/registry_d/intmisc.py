"""Four corners of dashu-int that seeded changes slipped through (round 3): UBig::remove, the multi-word logarithms and the
TypedReprRef::log dispatch, the UBig/IBig::pow API with the read-only views a power-of-two shortcut needs, and every owned /
borrowed form of gcd / gcd_ext from TypedRepr(Ref) up to the public UBig / IBig operators.

Vocabulary + trusted stubs: contracts/lib/im_*.rs.  Annotated copies: contracts/annot/integer/intmisc/."""
VERUS = {
    # integer/src/remove.rs UBig::remove:  (ret is None) == (self == 0 || factor <= 1), self untouched then;  Some(e): factor^e | old(self),
    # factor^(e+1) does not divide old(self), new self == old(self) / factor^e.  Both loops terminate (table of repeated squares
    # factor^(2^i): decreases q;  descent: decreases the table length), `exp += 1 << len` cannot overflow (a UBig has fewer than
    # usize::MAX bits: trusted), the power-of-two shortcut (trailing zeros / bits, >>= exp * bits) included.
    'int_im_remove': {'file': 'int_im_remove.rs', 'w32': True},
    # integer/src/log.rs `mod repr` log_large: base^e <= target < base^(e+1), ret.1 == base^e for an ARBITRARY f32 estimate (rule
    # D10b; trusted: est * len(base) <= 3 * len(target), a resource claim); `assert!(est_pow <= target)` is a possible panic (D4a
    # #[assert_guard]); the correction loop terminates
    'int_im_log_large': {'file': 'int_im_log_large.rs', 'w32': True},
    # integer/src/log.rs `mod repr` log_word_base: the same statement for a one-word base > 2, for an ARBITRARY estimate >= 1 (trusted:
    # est >= 1 -- the code's own comment -- and est <= BITS * len(target)); first loop (multiplying the word base, with the top-double-word
    # overestimate test) and second loop (multiplying the base; undo by an exact division: debug_assert_zero! proved, `est -= 1` cannot
    # underflow) terminate
    'int_im_log_word': {'file': 'int_im_log_word.rs', 'w32': True},
    # integer/src/log.rs TypedReprRef::log (dispatch incl. the base-2 / power-of-two-base shortcuts on bit_len, the `smaller than` /
    # `equal to the base` cases, the two-word buffer of a double-word base) and UBig::ilog / IBig::ilog:  ret = e with
    # base^e <= |self| < base^(e+1);  self == 0 / base < 2 (documented panics) is the precondition.  Word = u64 only (u128 bit functions)
    'int_im_log': {'file': 'int_im_log.rs'},
    # integer/src/pow.rs UBig::pow / IBig::pow, same annotated copies and contract as unit int_pow_api (ret == self^exp as a SIGNED value)
    # with lib/im_pow_stubs.rs in scope: TypedReprRef::is_power_of_two, UBig::is_power_of_two, IBig::trailing_zeros, ZERO / ONE / NEG_ONE,
    # `UBig << usize`, `IBig << usize` -- a shortcut through these is JUDGED by the contract instead of ending "unsupported"
    'int_im_pow_api': {'file': 'int_im_pow_api.rs', 'w32': True},
    # integer/src/gcd_ops.rs + helper_macros.rs + sign.rs: the four ExtendedGcd dispatch impls on TypedRepr(Ref) (copies WITHOUT annotations
    # inside the arms), the three forwarding Gcd impls + TypedRepr::as_ref, `Sign * IBig`, `Signed::sign for IBig`, `Sign * Sign`, the macro
    # arms impl_ubig_gcd_ext / impl_ibig_gcd / impl_ibig_gcd_ext for the 4 owned | borrowed combinations, and the 32 forwarding impls of
    # helper_macros.rs instantiated for Gcd / ExtendedGcd on (UBig | IBig) x (UBig | IBig), owned | borrowed, with the arm inlined:
    #   gcd: g is the gcd of the signed operands by divisibility;  gcd_ext: g >= 1, g | a, g | b, s*a + t*b == g, (s, t) in the order
    #   (self, rhs), for the SIGNED operands;  gcd(0, 0) (documented panic) is the precondition
    'int_im_gcd_ops': {'file': 'int_im_gcd_ops.rs', 'w32': True},
}

PROP_UNITS = {
    'C01': {'verus': ['int_im_pow_api'],
            'undecided': ['int_im_pow_api ASSUMES (lib/im_pow_stubs.rs, trusted, on top of lib/pow_api_stubs.rs): TypedReprRef / UBig '
                          'is_power_of_two <=> value == 2^k; IBig::trailing_zeros (of the magnitude); the constants ZERO / ONE / NEG_ONE; '
                          '`UBig << usize` / `IBig << usize` = value * 2^s -- none of them is called by the unchanged pow.rs']},
    'C12': {'verus': ['int_im_remove', 'int_im_log_large', 'int_im_log_word', 'int_im_log', 'int_im_gcd_ops'],
            'undecided': ['int_im_remove ASSUMES (lib/im_remove.rs `mod im_big`, trusted): UBig seen through its value -- is_zero / is_one / '
                          'is_power_of_two (value == 2^k) / trailing_zeros (THE multiplicity of 2) / sqr / `>>= usize` (floor division by 2^s) / '
                          '`DivRem` of &UBig by &UBig and by UBig (v / d, v % d) / Ord; a UBig is never negative and has fewer than usize::MAX bits '
                          '(at most Buffer::MAX_CAPACITY words); Vec::{push, pop, last, len} and `vec![x]` through their vstd specifications',
                          'int_im_log_large / int_im_log_word: the f32 estimates are ARBITRARY integers except for the trusted claims of '
                          'lib/im_log_large_est.rs (est * len(base) <= 3 * len(target)) and lib/im_log_word_est.rs (est >= 1, est <= BITS * '
                          'len(target)); the run-time `assert!(est_pow <= target)` is treated as a possible panic (no claim that it never '
                          'fires); log2_bounds_large itself (f32 arithmetic) is not under contract; ASSUMED (lib/im_log_stubs.rs): highest_dword, '
                          'cmp::cmp_in_place (numeric order of normalized words), Repr::into_buffer (normalized words, capacity >= 3), '
                          'radix::RADIX10_INFO (= max_exp_in_word(10)), math::max_exp_in_word (trusted contract, SIG-only copy); resource '
                          'preconditions 6 * len(target) <= MAX_CAPACITY resp. BITS * len(target) < MAX_CAPACITY; the debug assertion '
                          '`cmp_in_place(target, base).is_ge()` of log_large (an exec call) is its precondition val(target) >= val(base)',
                          'int_im_log ASSUMES (lib/im_log_stubs.rs, lib/im_log_dw_stubs.rs): TypedReprRef::bit_len (2^(l-1) <= v < 2^l), '
                          'TypedRepr::set_bit (only its allocation precondition is used), u128::is_power_of_two / trailing_zeros; the SECOND '
                          'component of TypedReprRef::log (documented as base^log) is left unspecified: no caller reads it, and the base-2 '
                          'shortcut returns 2^bit_len = base^(log+1) there (unreachable through the public API, not a finding); the '
                          'must-panic halves (ilog(0, _), ilog(_, 0 | 1)) are not under contract; verified for Word = u64 only',
                          'int_im_gcd_ops: the helpers gcd_ext_dword / gcd_ext_large_dword / gcd_ext_large / gcd_large_dword / gcd_large and the '
                          '(ref, ref) Gcd dispatch enter through the contracts PROVED in unit int_gcd_ops; ASSUMED (lib/im_gcd_stubs.rs): the '
                          'one-line accessors UBig::repr / into_repr, IBig::as_sign_repr / into_sign_repr; the instantiation of the forwarding '
                          'macros is named on the unit\'s FN lines (msubst), not read from the invocations in gcd_ops.rs; resource precondition '
                          'operand length + 1 < MAX_CAPACITY']},
    # the extended-gcd forms are the public face of C15's Bezout clause; int_gcd_ops (gcd_order.py) holds the helpers they call
    'C15': {'verus': ['int_im_gcd_ops', 'int_gcd_ops']},
}
