"""Rational sign/dispatch/reduction logic and integer division sign conventions over stub big-integer types
(units ratio_simpler, ratio_reduce, ratio_ops, int_div_sign).  Only units that fully verify are listed."""
VERUS = {
    'ratio_simpler': {'file': 'ratio_simpler.rs', 'w32': False},
    'ratio_reduce': {'file': 'ratio_reduce.rs', 'w32': False},
    'int_div_sign': {'file': 'int_div_sign.rs', 'w32': False},
}

PROP_UNITS = {
    'C02': {'verus': ['int_div_sign'],
            'undecided': ['sign-convention arms: the zero-divisor panic lives in the stubbed TypedRepr /, %, div_rem '
                          '(precondition of the stub), it is not re-proved here',
                          'forwarding to primitives (impl_divrem_with_primitive, impl_div_by_primitive): not under contract']},
    'C04': {'verus': ['ratio_reduce'],
            'undecided': ['reduce_with_hint: canonical form of the result (needs gcd(ad\' +- cb\', g b\'d\') | g, Bezout): '
                          'only value preservation and den >= 1 are proved']},
    'C18': {'verus': ['ratio_simpler'],
            'undecided': ['simplest_in / simplest_from_f32/f64 (interval membership, optimality): not attempted']},
}
