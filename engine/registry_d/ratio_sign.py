"""Rational sign/dispatch/reduction logic and integer division sign conventions over stub big-integer types
(units ratio_simpler, ratio_reduce, ratio_ops, int_div_sign).  Only units that fully verify are listed.

Trusted base of these units (all listed by the scan as external_body / assume_specification):
  contracts/lib/bigstub.rs   UBig/IBig abstract types with value v(); ubig_of/ibig_of existence axioms; the constants;
                             is_zero, is_one, sign, unsigned_abs, into_parts, from_parts, trailing_zeros; Ord for UBig,
                             AbsOrd for IBig; Gcd (by divisibility: is_gcd, panics on gcd(0,0)); / (floor on UBig,
                             truncating IBig/UBig, zero divisor panics), *, +, -, >> (floor) for the operand
                             combinations the extracted code uses.  The Sign enum is mirrored, its operator bodies
                             (mul, neg, cmp) are the real functions of base/src/sign.rs under contract.
  contracts/lib/ratio_types.rs  struct mirrors Repr/RBig/Relaxed; Ordering::{then_with, is_lt, is_le, is_gt, is_ge, is_eq}
  contracts/units/int_div_sign.rs  Repr/TypedRepr/TypedReprRef abstract types; repr_of existence axiom; is_zero, with_sign,
                             into_typed (non-negative input), as_ref, add_one; DivRem / `/` / `%` with the UNSIGNED
                             contract a == q*b + r, 0 <= r < b (b != 0 is their precondition); unsigned `-`.
ratio_inv (contracts/units/ratio_inv.rs) is deliberately NOT registered: its contract (C04: positive denominator)
fails on the unchanged tree because `Inverse for Repr::inv` maps 0 to 1/0.
"""
VERUS = {
    'ratio_inv': {'file': 'ratio_inv.rs', 'w32': False},
    'ratio_simpler': {'file': 'ratio_simpler.rs', 'w32': False},
    'ratio_reduce': {'file': 'ratio_reduce.rs', 'w32': False},
    'ratio_ops': {'file': 'ratio_ops.rs', 'w32': False},
    'int_div_sign': {'file': 'int_div_sign.rs', 'w32': False},
}

PROP_UNITS = {
    'C02': {'verus': ['int_div_sign'],
            'undecided': ['sign-convention arms of div_ops.rs: the zero-divisor panic lives in the stubbed TypedRepr '
                          '`/`, `%`, div_rem (it is their precondition, proved never violated when b != 0); '
                          '"division by zero panics" itself is not re-proved here',
                          'forwarding to primitives (impl_divrem_with_primitive, impl_div_by_primitive, '
                          'impl_binop_with_primitive): not under contract']},
    'C04': {'verus': ['ratio_reduce', 'ratio_ops', 'ratio_inv'],
            'undecided': ['RBig/Relaxed `+ - * /`: proved for the by-value forwarding (owned a, b, c, d); the three '
                          'by-reference forwardings run the same arm text on &IBig/&UBig operands and are not instantiated',
                          'operators with an integer operand (impl_*_int_with_*), Rem, the Euclidean forms, sqr/cubic/pow: '
                          'not under contract',
                          'Inverse::inv of zero: the panic is the precondition of the proved contract (fixed in /repo fc92bea)']},
    'C18': {'verus': ['ratio_simpler'],
            'undecided': ['simplest_in / simplest_from_f32/f64 (interval membership, optimality): not attempted']},
}
