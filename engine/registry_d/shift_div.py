"""Shift / bit-scan / single-word division kernels (shift.rs, bits.rs::repr helpers, div/mod.rs)."""
VERUS = {
    'int_shift': {'file': 'int_shift.rs', 'w32': True},
}

KANI = {
    'int_shift': {
        'package': 'dashu-int', 'target': 'integer/src/shift.rs', 'file': 'int_shift.rs',
        'harnesses': {
            'vk_shift_one_word_len1': {'kind': 'bounded', 'bound': 'len <= 4'},
            'vk_shift_one_word_len2': {'kind': 'bounded', 'bound': 'len <= 4'},
            'vk_shift_one_word_len3': {'kind': 'bounded', 'bound': 'len <= 4'},
            'vk_shift_one_word_len4': {'kind': 'bounded', 'bound': 'len <= 4'},
        },
    },
}

PROP_UNITS = {
    'C09': {'verus': ['int_shift'], 'kani': ['int_shift']},
}
