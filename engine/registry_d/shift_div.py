"""Shift / bit-scan / single-word division kernels (shift.rs, bits.rs::repr helpers, div/mod.rs)."""
VERUS = {
    'int_shift': {'file': 'int_shift.rs', 'w32': True},
    'int_bits': {'file': 'int_bits.rs', 'w32': True},
    'int_div_word': {'file': 'int_div_word.rs', 'w32': True},
    'int_div_dword': {'file': 'int_div_dword.rs', 'w32': True},
}

KANI = {
    'int_shift': {
        'package': 'dashu-int', 'target': 'integer/src/shift.rs', 'file': 'int_shift.rs',
        'harnesses': {
            'vk_shift_one_word_len1': {'kind': 'bounded', 'bound': 'len <= 4'},
            'vk_shift_one_word_len2': {'kind': 'bounded', 'bound': 'len <= 4'},
            'vk_shift_one_word_len3': {'kind': 'bounded', 'bound': 'len <= 4'},
            'vk_shift_one_word_len4': {'kind': 'bounded', 'bound': 'len <= 4'},
        },
    },
    'int_bits': {
        'package': 'dashu-int', 'target': 'integer/src/bits.rs', 'file': 'int_bits.rs',
        'harnesses': {
            'vk_bits_dword_low_bits': {'kind': 'complete', 'domain': 'all u128 x all usize n'},
            'vk_bits_slice_low_bits_len1': {'kind': 'bounded', 'bound': 'len <= 3'},
            'vk_bits_slice_low_bits_len2': {'kind': 'bounded', 'bound': 'len <= 3'},
            'vk_bits_slice_low_bits_len3': {'kind': 'bounded', 'bound': 'len <= 3', 'tier': 'thorough'},
        },
    },
    'int_div_dword': {
        'package': 'dashu-int', 'target': 'integer/src/div/mod.rs', 'file': 'int_div_dword.rs',
        'harnesses': {
            'vk_dd_fast_div_len%d_d%d' % (n, k): {
                'kind': 'bounded', 'tier': 'quick' if n <= 3 else 'thorough',
                'bound': 'len <= 5, 3 concrete divisors, palette words with 4 (len 5: 2) symbolic bits'}
            for n in (2, 3, 4, 5) for k in (0, 1, 2)
        },
    },
}

PROP_UNITS = {
    'C09': {'verus': ['int_shift', 'int_bits'], 'kani': ['int_shift', 'int_bits'],
            'undecided': [
                'shr_in_place_one_word (raw pointers): only bounded Kani (len <= 4)',
                'are_slice_low_bits_nonzero (Iterator::any): only bounded Kani (len <= 3, top word non-zero)',
            ]},
    'C02': {'verus': ['int_shift', 'int_div_word', 'int_div_dword'], 'kani': ['int_shift', 'int_div_dword'],
            'undecided': [
                'num_modular dividers (Normalized2by1Divisor / Normalized3by2Divisor): documented meaning ASSUMED '
                '(external_body stubs in contracts/lib/div_word_stubs.rs, div_dword_stubs.rs)',
                'fast_div_by_dword_in_place (rchunks_exact_mut): only bounded Kani (len <= 5, 3 concrete divisors, '
                'palette words); its contract is assumed by the Verus proof of div_by_dword_in_place',
                'shr_in_place_one_word (raw pointers): only bounded Kani (len <= 4); its contract is assumed by the '
                'Verus proofs of shr_in_place / div_by_dword_in_place',
                'u128::{leading_zeros, trailing_zeros, is_power_of_two}, u64::is_power_of_two, <[T]>::split_last: '
                'assume_specification / axioms in contracts/lib/div_dword_bits_64.rs, div_word_stubs.rs',
            ]},
}
