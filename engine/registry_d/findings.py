"""Registry fragment of the coordinator: complete Kani harnesses for the inline shift arms, and 'finding' harnesses (expected to FAIL) that witness `known:` entries of known_findings.txt which
have no harness in another group."""
VERUS = {}
KANI = {
    'float_findings': {
        'package': 'dashu-float', 'target': 'float/src/round.rs', 'file': 'float_findings.rs',
        'harnesses': {
            'vk_float_finding_error_bounds_odd_base_halfaway': {
                'kind': 'finding', 'bound': 'one concrete input: 1 * 3^-1 at precision 1, mode HalfAway',
                'note': 'ErrorBounds of HalfAway / HalfEven in an ODD base uses ceil(B/2) next-digit units as half an '
                        'ulp, which is more than half an ulp: RBig::simplest_from_float(0.1 base 3, 1 digit) = 1/2, '
                        'which rounds to 0.2 base 3'},
        },
    },
}
KANI['int_shift_small'] = {
    'package': 'dashu-int', 'target': 'integer/src/shift_ops.rs', 'file': 'int_shift_small.rs',
    'harnesses': {
        'vk_shift_small_shr_owned': {'kind': 'complete', 'domain': 'every DoubleWord x every usize shift count (TypedRepr::Small >> n)'},
        'vk_shift_small_shr_ref': {'kind': 'complete', 'domain': 'every DoubleWord x every usize shift count (TypedReprRef::RefSmall >> n)'},
    },
}
KANI['base_bittest'] = {
    'package': 'dashu-base', 'target': 'base/src/bit.rs', 'file': 'base_bittest.rs',
    'harnesses': {n: {'kind': 'complete', 'domain': 'every value of the type x every usize position'}
                  for n in ['vk_base_bittest_i8', 'vk_base_bittest_i64', 'vk_base_bittest_i128', 'vk_base_bittest_u8',
                            'vk_base_bittest_u128']},
}
PROP_UNITS = {
    'C18': {'kani': ['float_findings']},
    'C09': {'kani': ['int_shift_small', 'base_bittest']},
    'C15': {'kani': ['int_shift_small']},
}
