"""Stub audit (contracts/STUB_AUDIT.md): bounded Kani harnesses on the REAL methods behind `external_body` stub contracts
that no other unit or group checks.  Each harness asserts exactly the stub's postcondition (quoted in the harness file).

  stub_int   (dashu-int,   integer/src/lib.rs): UBig / IBig operators and accessors as the float / rational units see
             them (contracts/lib/bigstub.rs, round_int_stubs.rs, round_int_addsub_stubs.rs, ratio2_stubs.rs ...): the
             forwarding macros + sign arms + typed dispatch end to end against a wide-integer oracle; `Buffer::from`
             capacity; `Repr::is_one`; the TypedRepr `/ % div_rem` dispatch that unit int_div_sign assumes.
  stub_float (dashu-float, float/src/utils.rs): digit_len, split_digits(_ref), shl_digits(_in_place), shr_digits,
             Repr::new (normalisation), Repr::digits (contracts/lib/round_float_repr.rs, conv_fbig_stubs.rs,
             farith_add_stubs.rs).

A stub check serves every property whose proof assumes the stub: 'props' lists them.  The quick tier is a handful of cheap
harnesses per property (quick harnesses carry the few properties they are quickest to serve); everything else is
'tier': 'thorough' with the full list of dependent properties.  Times (this machine, one harness at a time) are in
contracts/STUB_AUDIT.md.
"""

# properties whose Verus units include the stub libraries
_STORAGE = ['C01', 'C02', 'C09', 'C12', 'C13', 'C17']          # repr_stubs.rs (Buffer / Repr / TypedRepr)
_BIG = ['C03', 'C04', 'C05', 'C06', 'C08', 'C10', 'C14', 'C18']  # bigstub.rs / round_int_stubs.rs (UBig / IBig as values)
_RATIO = ['C04', 'C05', 'C06', 'C18']
_FLOAT = ['C03', 'C06', 'C08', 'C10', 'C14', 'C18']             # round_float_repr.rs, conv_fbig_stubs.rs, farith_*.rs

_I12 = 'operands of the stated word counts (suffix _A_B / _cN / _iN: 1 or 2 inline words, _h3 / 3 / 4: heap), full ' \
       'symbolic 64-bit words, every sign combination; results < 2^128'
_IPAL = 'operands of the stated word counts, palette words {0, 1, 2^63, 2^64-1, 2^64-2, 2^63+1, 2^32, 3} (3 symbolic ' \
        'bits per word), every sign combination'
_ICONC = 'concrete (pinned) magnitudes listed in the harness, every sign combination / form'

_F1 = 'symbolic sign, symbolic one-word magnitude (|s| < 2^64: every i64 and beyond), concrete digit positions / ' \
      'shift amounts listed in the harness (suffix _pN / _eN)'
_F2 = 'symbolic sign, symbolic two-word magnitude (2^64 <= |s| < 2^128), concrete digit positions / shift amounts ' \
      'listed in the harness (suffix _pN / _eN)'
_FC = 'concrete magnitudes listed in the harness (one and two words), both signs' \
      '; symbolic exponent |e| < 2^40 for Repr::new'

# name: (tier, props, bound)
_INT = {
    'vk_stub_int_buffer_from_slice_cap': ('quick', _STORAGE, 'slice lengths 0, 1, 2, 3, 8; symbolic contents'),
    'vk_stub_int_repr_is_one_i1': ('quick', ['C01', 'C02', 'C04', 'C09'], _I12),
    'vk_stub_int_repr_is_one_i2': ('quick', ['C01', 'C02', 'C04', 'C09'], _I12),
    'vk_stub_int_repr_is_one_h3': ('quick', ['C01', 'C02', 'C04', 'C09'], _I12),
    'vk_stub_int_ibig_parts_c1': ('quick', ['C03', 'C04', 'C10', 'C18'], _I12),
    'vk_stub_int_ibig_parts_c2': ('quick', ['C03', 'C04', 'C10', 'C18'], _I12),
    'vk_stub_int_ibig_parts_h3': ('quick', ['C04', 'C10'], _I12),
    'vk_stub_int_ibig_from_parts_c1': ('quick', ['C03', 'C04', 'C18'], _I12),
    'vk_stub_int_ibig_from_parts_c2': ('quick', ['C04', 'C08'], _I12),
    'vk_stub_int_abs_cmp_1_1': ('quick', ['C03', 'C05', 'C14'], _I12),
    'vk_stub_int_abs_cmp_2_2': ('quick', ['C05', 'C14'], _I12),
    'vk_stub_int_abs_cmp_2_1': ('quick', ['C05'], _I12),
    'vk_stub_int_abs_cmp_2_3': ('quick', ['C05'], _I12),
    'vk_stub_int_abs_cmp_3_3': ('thorough', _BIG, _I12),
    'vk_stub_int_ubig_addsub_1_1': ('quick', ['C04', 'C08', 'C18'], _I12),
    'vk_stub_int_ubig_addsub_2_2': ('quick', ['C04', 'C18'], _I12 + '; magnitudes < 2^127'),
    'vk_stub_int_ibig_add_1_1': ('quick', ['C03', 'C04'], _I12),
    'vk_stub_int_ibig_sub_1_1': ('quick', ['C03', 'C04'], _I12),
    'vk_stub_int_ibig_add_2_2': ('thorough', _BIG, _I12 + '; magnitudes < 2^127'),
    'vk_stub_int_ibig_sub_2_2': ('thorough', _BIG, _I12 + '; magnitudes < 2^127'),
    'vk_stub_int_ibig_addsub_forms': ('quick', ['C03', 'C10'], _I12 + '; &IBig + IBig, +=, IBig - &IBig, -='),
    'vk_stub_int_mixed_addsub_1_1': ('quick', ['C04', 'C18'], _I12 + '; IBig + UBig, IBig - UBig, UBig - IBig'),
    'vk_stub_int_ibig_mul_1_1': ('thorough', _BIG, _IPAL),
    'vk_stub_int_ubig_mul_1_1': ('quick', ['C04'], _IPAL + '; UBig * UBig, sqr, UBig * IBig, IBig * UBig'),
    'vk_stub_int_ubig_divrem_2_1': ('quick', ['C02', 'C04'], _IPAL + '; / % div_rem'),
    'vk_stub_int_ubig_divrem_1_2': ('quick', ['C02'], _IPAL + '; / % div_rem'),
    'vk_stub_int_ubig_divrem_2_2': ('thorough', ['C02'] + _BIG, _IPAL + '; / % div_rem'),
    'vk_stub_int_ibig_div_2_1': ('quick', ['C02', 'C10'], _IPAL),
    'vk_stub_int_ibig_rem_2_1': ('thorough', ['C02'] + _BIG, _IPAL),
    'vk_stub_int_ibig_divrem_2_2': ('thorough', ['C02'] + _BIG, _IPAL),
    'vk_stub_int_ibig_ubig_divrem_1_1': ('quick', ['C04', 'C10'], _IPAL + '; IBig / UBig, IBig % &UBig, &IBig / &UBig, &IBig % &UBig'),
    'vk_stub_int_div_dispatch_1_3': ('quick', ['C02'], _I12 + '; shorter dividend: quotient 0, remainder = dividend'),
    'vk_stub_int_div_dispatch_2_3': ('quick', ['C02'], _I12 + '; shorter dividend: quotient 0, remainder = dividend'),
    'vk_stub_int_div_dispatch_3_4': ('quick', ['C02'], _I12 + '; shorter dividend: quotient 0, remainder = dividend'),
    'vk_stub_int_div_long_3_1': ('thorough', ['C02'], '3-word dividend, 1-word divisor, palette words; a == q*b + r, r < b by multi-word arithmetic'),
    'vk_stub_int_div_long_3_2_pinned': ('thorough', ['C02'], 'one pinned 3-word dividend / 2-word divisor'),
    'vk_stub_int_div_long_3_3_pinned': ('thorough', ['C02'], 'one pinned 3-word dividend / 3-word divisor'),
    'vk_stub_int_shifts_n1': ('quick', ['C04', 'C06'], _I12 + '; shift by 1: UBig/IBig <<, UBig >>, IBig >> (non-negative)'),
    'vk_stub_int_shifts_n37': ('thorough', _BIG, _I12 + '; shift by 37'),
    'vk_stub_int_shifts_n64': ('thorough', _BIG, _I12 + '; shift by 64'),
    'vk_stub_int_pow_a': ('quick', ['C03', 'C04'], _ICONC + ': (0,0) (0,3) (1,5) (7,0) (7,1)'),
    'vk_stub_int_pow_b': ('quick', ['C08'], _ICONC + ': (3,5) (10,19) (12,7) (6,20)'),
    'vk_stub_int_pow_c': ('thorough', _BIG, _ICONC + ': (2^32-1,3) (2,127) (48,11)'),
    'vk_stub_int_gcd_a': ('quick', ['C04'], _ICONC + ': (12,18) (0,7) (7,0); symbolic candidate divisor d < 2^16'),
    'vk_stub_int_gcd_b': ('thorough', ['C04', 'C12', 'C18'], _ICONC + ': (1,1) (48,180) (17,31)'),
    'vk_stub_int_gcd_c': ('thorough', ['C04', 'C12', 'C18'], _ICONC + ': (2^40, 3*2^20) (600851475143, 71*839)'),
    'vk_stub_int_ubig_bits_1': ('quick', ['C04', 'C06', 'C14'], _I12 + '; bit_len, trailing_zeros'),
    'vk_stub_int_ubig_bits_2': ('quick', ['C06', 'C14'], _I12 + '; bit_len, trailing_zeros'),
    'vk_stub_int_ubig_bits_3': ('quick', ['C04', 'C06'], _I12 + '; bit_len, trailing_zeros (heap, 3 words)'),
}

_FLT = {
    'vk_stub_float_split_digits_b2_p1': ('thorough', _FLOAT, _F1 + '; base 2, owning form'),
    'vk_stub_float_split_digits_b2_p63': ('thorough', _FLOAT, _F1 + '; base 2, owning form'),
    'vk_stub_float_split_digits_b2_p70': ('thorough', _FLOAT, _F1 + '; base 2, owning form'),
    'vk_stub_float_split_digits_b2_dword_p1': ('quick', ['C03', 'C10'], _F2 + '; base 2, owning form, positions 1 and 65'),
    'vk_stub_float_split_digits_b2_dword_p127': ('thorough', _FLOAT, _F2 + '; base 2, owning form'),
    'vk_stub_float_split_digits_b2_dword_p64': ('thorough', _FLOAT, _F2 + '; base 2, owning and borrowing form'),
    'vk_stub_float_split_digits_b2_dword_p128': ('quick', ['C10'], _F2 + '; base 2, owning and borrowing form, positions 128 and 130'),
    'vk_stub_float_split_digits_b2_conc': ('quick', ['C10'], _FC + '; base 2, both forms'),
    'vk_stub_float_split_digits_b16_p1': ('thorough', _FLOAT, _F1 + '; base 16'),
    'vk_stub_float_split_digits_b16_p16': ('thorough', _FLOAT, _F1 + '; base 16'),
    'vk_stub_float_split_digits_b16_conc': ('thorough', _FLOAT, _FC + '; base 16, both forms'),
    'vk_stub_float_split_digits_b10_a': ('quick', ['C03'], _FC + '; base 10, both forms'),
    'vk_stub_float_split_digits_b10_b': ('thorough', _FLOAT, _FC + '; base 10, both forms'),
    'vk_stub_float_split_digits_b10_c': ('thorough', _FLOAT, _FC + '; base 10, both forms'),
    'vk_stub_float_digit_len_b2': ('thorough', _FLOAT, 'symbolic sign, symbolic one-word magnitude; base 2'),
    'vk_stub_float_digit_len_b16_dword': ('thorough', _FLOAT, 'symbolic sign, symbolic two-word magnitude; base 16'),
    'vk_stub_float_repr_digits_b2': ('quick', ['C03', 'C14'], 'symbolic sign, one-word magnitude, any exponent; Repr::<2>::digits'),
    'vk_stub_float_shl_digits_b2_e1': ('quick', ['C03', 'C08'], _F1 + '; base 2; shl_digits and shl_digits_in_place'),
    'vk_stub_float_shl_digits_b2_e64': ('thorough', _FLOAT, _F1 + '; base 2'),
    'vk_stub_float_shl_digits_b16': ('thorough', _FLOAT, _F1 + '; base 16, exponents 1 and 16'),
    'vk_stub_float_shl_digits_b10': ('thorough', _FLOAT, _FC + '; base 10'),
    'vk_stub_float_shr_digits_b2_e0': ('thorough', _FLOAT, _F2 + '; base 2'),
    'vk_stub_float_shr_digits_b2_e64': ('thorough', _FLOAT, _F2 + '; base 2'),
    'vk_stub_float_shr_digits_b2_e128': ('quick', ['C08', 'C10'], _F2 + '; base 2, exponents 128 and 130'),
    'vk_stub_float_shr_digits_b2_conc': ('quick', ['C08', 'C10'], _FC + '; base 2'),
    'vk_stub_float_shr_digits_b16_e16': ('thorough', _FLOAT, _F2 + '; base 16'),
    'vk_stub_float_shr_digits_b16_conc': ('thorough', _FLOAT, _FC + '; base 16'),
    'vk_stub_float_shr_digits_b10': ('thorough', _FLOAT, _FC + '; base 10'),
    'vk_stub_float_repr_new_b2_pos': ('quick', ['C03', 'C08', 'C10'], 'POSITIVE symbolic one-word significand, symbolic exponent |e| < 2^40; base 2'),
    'vk_stub_float_repr_new_b16_pos': ('thorough', _FLOAT, 'POSITIVE symbolic one-word significand, symbolic exponent |e| < 2^40; base 16'),
    'vk_stub_float_repr_new_b2': ('quick', ['C03'], _FC + '; base 2'),
    'vk_stub_float_repr_new_b16': ('thorough', _FLOAT, _FC + '; base 16'),
    'vk_stub_float_repr_new_b10_a': ('quick', ['C08'], _FC + '; base 10 (UBig::remove)'),
    'vk_stub_float_repr_new_b10_b': ('thorough', _FLOAT, _FC + '; base 10 (UBig::remove)'),
    'vk_stub_float_repr_new_b10_c': ('thorough', _FLOAT, _FC + '; base 10 (UBig::remove)'),
    'vk_stub_float_repr_new_zero': ('quick', ['C03', 'C10'], 'zero significand, any exponent, bases 2, 10, 16'),
}


def _mk(tbl):
    out = {}
    for n, (tier, props, bound) in tbl.items():
        d = {'kind': 'bounded', 'bound': bound, 'props': list(props)}
        if tier != 'quick':
            d['tier'] = tier
        out[n] = d
    return out


def _scan(fname, prefix):
    """Harness names defined in a harness file (consistency check: every harness of the file is registered)."""
    import os
    import re
    path = os.path.join(os.path.dirname(os.path.dirname(os.path.dirname(os.path.abspath(__file__)))), 'kani', 'harness',
                        fname)
    return set(re.findall(r'\b(%s\w+)\b' % prefix, open(path).read()))


assert _scan('stub_int.rs', 'vk_stub_int_') == set(_INT), _scan('stub_int.rs', 'vk_stub_int_') ^ set(_INT)
assert _scan('stub_float.rs', 'vk_stub_float_') == set(_FLT), _scan('stub_float.rs', 'vk_stub_float_') ^ set(_FLT)

KANI = {
    'stub_int': {
        'package': 'dashu-int', 'target': 'integer/src/lib.rs', 'file': 'stub_int.rs',
        'harnesses': _mk(_INT),
    },
    'stub_float': {
        'package': 'dashu-float', 'target': 'float/src/utils.rs', 'file': 'stub_float.rs',
        'harnesses': _mk(_FLT),
    },
}

PROP_UNITS = {}
for _g, _t in (('stub_int', _INT), ('stub_float', _FLT)):
    for _n, (_tier, _props, _b) in _t.items():
        for _p in _props:
            _k = PROP_UNITS.setdefault(_p, {}).setdefault('kani', [])
            if _g not in _k:
                _k.append(_g)
