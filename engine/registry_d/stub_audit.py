"""Stub audit (contracts/STUB_AUDIT.md): bounded Kani harnesses on the REAL methods behind `external_body` stub contracts
that no other unit or group checks.  Each harness asserts exactly the stub's postcondition (quoted in the harness file).

  stub_int   (dashu-int,   integer/src/lib.rs): UBig / IBig operators and accessors as the float / rational units see
             them (contracts/lib/bigstub.rs, round_int_stubs.rs, round_int_addsub_stubs.rs, ratio2_stubs.rs ...): the
             forwarding macros + sign arms + typed dispatch end to end against a wide-integer oracle; `Buffer::from`
             capacity; `Repr::is_one`; the TypedRepr `/ % div_rem` dispatch that unit int_div_sign assumes.
  stub_float (dashu-float, float/src/utils.rs): digit_len, split_digits(_ref), shl_digits(_in_place), shr_digits,
             Repr::new (normalisation), Repr::digits (contracts/lib/round_float_repr.rs, conv_fbig_stubs.rs,
             farith_add_stubs.rs).

A stub check serves every property whose proof assumes the stub, hence the wide PROP_UNITS below; the quick tier is a
handful of cheap harnesses per property (selected with 'props'), everything else is 'tier': 'thorough'.
"""


def _h(bound, props, tier='quick'):
    d = {'kind': 'bounded', 'bound': bound, 'props': props}
    if tier != 'quick':
        d['tier'] = tier
    return d


_F1 = 'symbolic sign, symbolic one-word magnitude (|s| < 2^64, covers every i64)'
_F2 = 'symbolic sign, symbolic two-word magnitude (2^64 <= |s| < 2^128)'
_F10 = 'symbolic sign, magnitude < 2^24, base 10, concrete digit count (suffix _pN / _eN)'

_FLOAT_ALL = ['C03', 'C08', 'C10', 'C14', 'C18']

STUB_FLOAT = {
    'vk_stub_float_split_digits_b2': _h(_F1 + '; base 2; pos 0..=70; owned and borrowed form', ['C03', 'C10']),
    'vk_stub_float_split_digits_b2_dword': _h(_F2 + '; base 2; pos 0..=130', ['C03', 'C10'], 'thorough'),
    'vk_stub_float_split_digits_b16': _h(_F1 + '; base 16; pos 0..=17', ['C03', 'C10'], 'thorough'),
    'vk_stub_float_split_digits_b10_p0': _h(_F10, ['C03', 'C10'], 'thorough'),
    'vk_stub_float_split_digits_b10_p1': _h(_F10, ['C03', 'C10']),
    'vk_stub_float_split_digits_b10_p2': _h(_F10, ['C03', 'C10'], 'thorough'),
    'vk_stub_float_split_digits_b10_p3': _h(_F10, ['C03', 'C10'], 'thorough'),
    'vk_stub_float_digit_len_b2': _h(_F1 + '; base 2; also Repr::digits with any exponent', _FLOAT_ALL),
    'vk_stub_float_digit_len_b2_dword': _h(_F2 + '; bases 2 and 16', ['C03', 'C10'], 'thorough'),
    'vk_stub_float_digit_len_b10': _h('symbolic sign, magnitude < 10^5, base 10 (f32 log2 estimate as modelled by CBMC '
                                      '+ exact correction loop)', ['C03', 'C10'], 'thorough'),
    'vk_stub_float_shl_digits_b2': _h(_F1 + '; base 2; exp 0..=64; shl_digits and shl_digits_in_place', ['C03', 'C08']),
    'vk_stub_float_shl_digits_b16': _h(_F1 + '; base 16; exp 0..=16', ['C03', 'C08'], 'thorough'),
    'vk_stub_float_shl_digits_b10_e0': _h(_F10, ['C03', 'C08'], 'thorough'),
    'vk_stub_float_shl_digits_b10_e1': _h(_F10, ['C03', 'C08'], 'thorough'),
    'vk_stub_float_shl_digits_b10_e3': _h(_F10, ['C03', 'C08'], 'thorough'),
    'vk_stub_float_shr_digits_b2': _h(_F2 + '; base 2; exp 0..=130', ['C08', 'C10']),
    'vk_stub_float_shr_digits_b16': _h(_F1 + '; base 16; exp 0..=17', ['C08', 'C10'], 'thorough'),
    'vk_stub_float_shr_digits_b10_e0': _h(_F10, ['C08', 'C10'], 'thorough'),
    'vk_stub_float_shr_digits_b10_e1': _h(_F10, ['C08', 'C10'], 'thorough'),
    'vk_stub_float_shr_digits_b10_e3': _h(_F10, ['C08', 'C10'], 'thorough'),
    'vk_stub_float_repr_new_b2': _h(_F1 + '; base 2; |exponent| < 2^40', _FLOAT_ALL),
    'vk_stub_float_repr_new_b16': _h(_F1 + '; base 16; |exponent| < 2^40', ['C03', 'C10'], 'thorough'),
    'vk_stub_float_repr_new_b10': _h('symbolic sign, magnitude < 2^14, base 10 (UBig::remove); |exponent| < 2^40',
                                     ['C03', 'C10'], 'thorough'),
}

KANI = {
    'stub_float': {
        'package': 'dashu-float', 'target': 'float/src/utils.rs', 'file': 'stub_float.rs',
        'harnesses': STUB_FLOAT,
    },
}

PROP_UNITS = {
}
