"""Stub audit (contracts/STUB_AUDIT.md): bounded Kani harnesses on the REAL methods behind `external_body` stub contracts
that no other unit or group checks.  Each harness asserts exactly the stub's postcondition (quoted in the harness file).

  stub_int   (dashu-int,   integer/src/lib.rs): UBig / IBig operators and accessors as the float / rational units see
             them (contracts/lib/bigstub.rs, round_int_stubs.rs, round_int_addsub_stubs.rs, ratio2_stubs.rs ...): the
             forwarding macros + sign arms + typed dispatch end to end against a wide-integer oracle; `Buffer::from`
             capacity; `Repr::is_one`; the TypedRepr `/ % div_rem` dispatch that unit int_div_sign assumes.
  stub_float (dashu-float, float/src/utils.rs): digit_len, split_digits(_ref), shl_digits(_in_place), shr_digits,
             Repr::new (normalisation), Repr::digits (contracts/lib/round_float_repr.rs, conv_fbig_stubs.rs,
             farith_add_stubs.rs).

A stub check serves every property whose proof assumes the stub, hence the wide PROP_UNITS below; the quick tier is a
handful of cheap harnesses per property (selected with 'props'), everything else is 'tier': 'thorough'.
"""


def _h(bound, props, tier='quick'):
    d = {'kind': 'bounded', 'bound': bound, 'props': props}
    if tier != 'quick':
        d['tier'] = tier
    return d


_F1 = 'symbolic sign, symbolic one-word magnitude (|s| < 2^64, covers every i64)'
_F2 = 'symbolic sign, symbolic two-word magnitude (2^64 <= |s| < 2^128)'
_F10 = 'symbolic sign, magnitude < 2^24, base 10, concrete digit count (suffix _pN / _eN)'

_FLOAT_ALL = ['C03', 'C08', 'C10', 'C14', 'C18']

def _scan(fname, prefix):
    """Harness names defined in a harness file (every identifier with the group's unique prefix), in file order."""
    import os
    import re
    path = os.path.join(os.path.dirname(os.path.dirname(os.path.dirname(os.path.abspath(__file__)))), 'kani', 'harness',
                        fname)
    out = []
    for n in re.findall(r'\b(%s\w+)\b' % prefix, open(path).read()):
        if n not in out:
            out.append(n)
    return out


STUB_FLOAT = {n: _h('TBD', _FLOAT_ALL, 'thorough') for n in _scan('stub_float.rs', 'vk_stub_float_')}

KANI = {
    'stub_float': {
        'package': 'dashu-float', 'target': 'float/src/utils.rs', 'file': 'stub_float.rs',
        'harnesses': STUB_FLOAT,
    },
}

PROP_UNITS = {
}
