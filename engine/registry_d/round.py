"""Rounding units (C03 float rounding contract, C10 rounding to integers)."""
VERUS = {
    'float_round_zero': {'file': 'float_round_zero.rs', 'w32': False},
    'float_round_away': {'file': 'float_round_away.rs', 'w32': False},
    'float_round_up': {'file': 'float_round_up.rs', 'w32': False},
    'float_round_down': {'file': 'float_round_down.rs', 'w32': False},
    'float_round_halfeven': {'file': 'float_round_halfeven.rs', 'w32': False},
    'float_round_halfaway': {'file': 'float_round_halfaway.rs', 'w32': False},
    'float_round': {'file': 'float_round.rs', 'w32': False},
    'float_round_add': {'file': 'float_round_add.rs', 'w32': False},
    'float_round_add_ref': {'file': 'float_round_add_ref.rs', 'w32': False},
    'float_repr_round': {'file': 'float_repr_round.rs', 'w32': False},
    'ratio_round': {'file': 'ratio_round.rs', 'w32': False},
    'ratio_round_rbig': {'file': 'ratio_round_rbig.rs', 'w32': False},
    'ratio_round_relaxed': {'file': 'ratio_round_relaxed.rs', 'w32': False},
}

_MODES = ['float_round_zero', 'float_round_away', 'float_round_up', 'float_round_down',
          'float_round_halfeven', 'float_round_halfaway']

_UNDECIDED_F32 = ('Round::round_fract: agreement of the two f32 `log2_bounds` shortcut tests with the exact comparison '
                  '2|fract| <=> B^precision is ASSUMED (contracts of __f32_guard0/1, lowering rule D10), not proved: it '
                  'needs real-number reasoning about f32 rounding; only the exact branch and the surrounding logic are proved')

PROP_UNITS = {
    'C10': {'verus': _MODES + ['float_round', 'float_round_add', 'float_round_add_ref', 'float_repr_round', 'ratio_round', 'ratio_round_rbig', 'ratio_round_relaxed'],
            'undecided': [_UNDECIDED_F32]},
    'C03': {'verus': _MODES + ['float_round', 'float_round_add', 'float_round_add_ref', 'float_repr_round'], 'undecided': [_UNDECIDED_F32]},
}
