"""gcd / roots / logarithm glue (C12) and cross-type comparison + hashing helpers (C14).

Vocabulary + trusted stubs: contracts/lib/gcdo_*.rs.  Annotated copies: contracts/annot/integer/gcd/ ..."""
VERUS = {
    # integer/src/gcd/mod.rs gcd_ext_word, gcd_ext_dword: (g, a, b_sign) returned, |b| left in lhs:
    #   g >= 1, g | lhs, g | rhs, a*lhs + (b_sign*|b|)*rhs == g for the ORIGINAL lhs, |b| < lhs when lhs > rhs;
    #   no carry out of the in-place rebuild (debug assertion proved)
    'int_gcd_small': {'file': 'int_gcd_small.rs', 'w32': True},
    # integer/src/gcd_ops.rs `mod repr`: gcd_ext_dword, gcd_ext_large_dword, gcd_ext_large (bookkeeping after the ASSUMED Lehmer
    # routine gcd::gcd_ext_in_place: residue = |b|*rhs -/+ g, exact division by lhs, signs, swap), the four ExtendedGcd
    # dispatch impls, gcd_large_dword, gcd_large, Gcd dispatch (ref, ref):
    #   gcd_ext: g >= 1, g | x, g | y, s*x + t*y == g;   gcd: g is the greatest common divisor by divisibility;
    #   gcd(0, 0) / gcd_ext(0, 0) (documented panic) is the precondition.  KNOWN DEFECT excluded by precondition
    #   gcd_ext_large_pre: smaller Large operand divides the larger one and is > 2 words shorter (gcd_ext(2^320, 2^128) panics)
    'int_gcd_ops': {'file': 'int_gcd_ops.rs', 'w32': True, 'rlimit': 60},   # gcd_ext_large uses 20-30M of the default 30M
}

KANI = {
    'gcdo_base': {
        'package': 'dashu-base', 'target': 'base/src/ring/gcd.rs', 'file': 'gcdo_base.rs',
        'harnesses': {
            'vk_gcdo_base_gcd_ext_bound_u8': {'kind': 'complete',
                                              'domain': 'all (u8, u8) with a, b > 0: |s| <= b, |t| <= a, |t| < a if a > b'},
        },
    },
}

KANI['gcdo_root'] = {
    'package': 'dashu-int', 'target': 'integer/src/root.rs', 'file': 'gcdo_root.rs',
    'harnesses': {
        'vk_gcdo_root_sqrt_rem_4w': {'kind': 'bounded', 'bound': '4-word input (sqrt_rem_42), palette words with 2 symbolic bits'},
        'vk_gcdo_root_sqrt_rem_6w': {'kind': 'bounded', 'bound': '6-word input (one recursion level, odd root length), palette words with 2 symbolic bits'},
        'vk_gcdo_root_sqrt_rem_8w': {'kind': 'bounded', 'tier': 'thorough',
                                     'bound': '8-word input (one recursion level, even root length), palette words with 2 symbolic bits'},
    },
}

PROP_UNITS = {
    'C12': {'verus': ['int_gcd_small', 'int_gcd_ops'],
            'kani': ['gcdo_base'],
            'undecided': ['int_gcd_small ASSUMES (lib/gcdo_stubs.rs, trusted): the Word / DoubleWord instances of the primitive '
                          'ExtendedGcd::gcd_ext return g >= 1, g | a, g | b, s*a + t*b == g with |s| <= b, |t| <= a (|t| < a if '
                          'a > b > 0) -- proved for the u8 instance of the same macro body by the complete Kani harnesses '
                          'vk_base_gcd_gcd_ext_u8 and vk_gcdo_base_gcd_ext_bound_u8; to_sign_magnitude (Kani group int_primitive); '
                          '<[T]>::fill; mul_dword_in_place (trusted contract, bounded Kani check in group int_mul)',
                          'int_gcd_ops ASSUMES (lib/gcdo_ops_stubs.rs, trusted): the Lehmer routines gcd::gcd_in_place / gcd_ext_in_place '
                          '(integer/src/gcd/lehmer.rs, NOT verified: g is the gcd, left in rhs[..g_len] resp. lhs/rhs by the flag; '
                          '|b| in lhs[..b_len] with a*lhs + (sign*|b|)*rhs == g for some a) -- a wrong sign or length returned by '
                          'lehmer.rs is therefore NOT detected; primitive Gcd::gcd / ExtendedGcd::gcd_ext for Word / DoubleWord '
                          '(u8 instance proved by Kani group base_gcd); cmp::cmp_in_place (numeric order of normalized words); '
                          'mul::multiply (trusted contract); scratch memory (allocate_slice_copy / _fill; SIZING not verified); '
                          'lib/repr_stubs.rs (Buffer / Repr)',
                          'int_gcd_ops: KNOWN DEFECT excluded by precondition gcd_ext_large_pre -- gcd_ext of two multi-word '
                          'operands where the smaller DIVIDES the larger and is more than two words shorter panics in '
                          'div::div_rem_in_place (e.g. (UBig::ONE << 320).gcd_ext(&(UBig::ONE << 128))); the three forwarding Gcd '
                          'impls (`self.as_ref().gcd(..)`) and the UBig/IBig-level macros (sign of the cofactors for IBig) are not '
                          'under contract']},
}
