"""gcd / roots / logarithm glue (C12) and cross-type comparison + hashing helpers (C14).

Vocabulary + trusted stubs: contracts/lib/gcdo_*.rs.  Annotated copies: contracts/annot/integer/gcd/ ..."""
VERUS = {
    # integer/src/gcd/mod.rs gcd_ext_word, gcd_ext_dword: (g, a, b_sign) returned, |b| left in lhs:
    #   g >= 1, g | lhs, g | rhs, a*lhs + (b_sign*|b|)*rhs == g for the ORIGINAL lhs, |b| < lhs when lhs > rhs;
    #   no carry out of the in-place rebuild (debug assertion proved)
    'int_gcd_small': {'file': 'int_gcd_small.rs', 'w32': True},
}

KANI = {
    'gcdo_base': {
        'package': 'dashu-base', 'target': 'base/src/ring/gcd.rs', 'file': 'gcdo_base.rs',
        'harnesses': {
            'vk_gcdo_base_gcd_ext_bound_u8': {'kind': 'complete',
                                              'domain': 'all (u8, u8) with a, b > 0: |s| <= b, |t| <= a, |t| < a if a > b'},
        },
    },
}

PROP_UNITS = {
    'C12': {'verus': ['int_gcd_small'],
            'kani': ['gcdo_base'],
            'undecided': ['int_gcd_small ASSUMES (lib/gcdo_stubs.rs, trusted): the Word / DoubleWord instances of the primitive '
                          'ExtendedGcd::gcd_ext return g >= 1, g | a, g | b, s*a + t*b == g with |s| <= b, |t| <= a (|t| < a if '
                          'a > b > 0) -- proved for the u8 instance of the same macro body by the complete Kani harnesses '
                          'vk_base_gcd_gcd_ext_u8 and vk_gcdo_base_gcd_ext_bound_u8; to_sign_magnitude (Kani group int_primitive); '
                          '<[T]>::fill; mul_dword_in_place (trusted contract, bounded Kani check in group int_mul)']},
}
