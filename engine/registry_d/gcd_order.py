"""gcd / roots / logarithm glue (C12) and cross-type comparison + hashing helpers (C14).

Vocabulary + trusted stubs: contracts/lib/gcdo_*.rs.  Annotated copies: contracts/annot/integer/gcd/ ..."""
VERUS = {
    # integer/src/gcd/mod.rs gcd_ext_word, gcd_ext_dword: (g, a, b_sign) returned, |b| left in lhs:
    #   g >= 1, g | lhs, g | rhs, a*lhs + (b_sign*|b|)*rhs == g for the ORIGINAL lhs, |b| < lhs when lhs > rhs;
    #   no carry out of the in-place rebuild (debug assertion proved)
    'int_gcd_small': {'file': 'int_gcd_small.rs', 'w32': True},
    # integer/src/gcd_ops.rs `mod repr`: gcd_ext_dword, gcd_ext_large_dword, gcd_ext_large (bookkeeping after the ASSUMED Lehmer
    # routine gcd::gcd_ext_in_place: residue = |b|*rhs -/+ g, exact division by lhs, signs, swap), the four ExtendedGcd
    # dispatch impls, gcd_large_dword, gcd_large, Gcd dispatch (ref, ref):
    #   gcd_ext: g >= 1, g | x, g | y, s*x + t*y == g;   gcd: g is the greatest common divisor by divisibility;
    #   gcd(0, 0) / gcd_ext(0, 0) (documented panic) is the precondition.  The contract covers ALL pairs of Large operands
    #   (incl. "the smaller divides the larger and is > 2 words shorter", e.g. gcd_ext(2^320, 2^128), which panicked before
    #   the fix proposed_fixes/G1: residue buffer at least as long as the divisor); the annotated copy is the PATCHED code
    # gcd_ext_large uses 20-30M of the default 30M with Word = u64; with Word = u32 the same proof exceeds rlimit 60 since the
    # Lehmer callee contracts became the proved ones (extra resource preconditions): not re-verified for 32-bit words
    'int_gcd_ops': {'file': 'int_gcd_ops.rs', 'w32': False, 'rlimit': 60},
    # integer/src/root_ops.rs `mod repr` sqrt_rem_large (bookkeeping around root::sqrt_rem, PROVED in unit int_root_sqrt and used via SIG): normalising
    # shift even and <= 2*BITS-2, shifted buffer exactly 2n words with top word >= B/4, un-normalisation of root and remainder:
    #   s*s <= value < (s+1)*(s+1);  !root_only ==> remainder == value - s*s
    'int_root_ops': {'file': 'int_root_ops.rs', 'w32': True, 'rlimit': 40},
    # integer/src/log.rs `mod repr` log_dword: base^e <= target < base^(e+1), ret.1 == base^e, for an ARBITRARY f32 estimate
    # (rule D10b; only "base.pow(est) is representable" is trusted); the run-time assert!(est_pow <= target) is a possible
    # panic (rule D4a #[assert_guard]), the correction loop is proved with termination
    'int_log': {'file': 'int_log.rs', 'w32': True},
    # rational/src/cmp.rs with_float::repr_cmp_fbig (behind NumOrd / AbsOrd of RBig / Relaxed against FBig<_, B>, any base B >= 2):
    #   infinite rhs: Less (+inf or ABS) / Greater (-inf);  otherwise ret == ordering of n/d against s * B^e (of the magnitudes if
    #   ABS), cross-multiplied: e >= 0: cmp(n, s*d*B^e);  e < 0: cmp(n*B^-e, s*d).  The f32 log2 filter is ASSUMED sound.
    'num_order_ratio_fbig': {'file': 'num_order_ratio_fbig.rs'},
    # integer/src/third_party/num_order.rs macro impl_num_ord_ubig_with_float: `NumOrd<f32 / f64> for UBig :: num_partial_cmp`
    # (instantiated for f32 and f64): ret == ordering of the exact real values, None for NaN; the step-3 bound is proved from
    # "bit_len > MAX_EXP ==> x >= 2^MAX_EXP > every finite float" (bit_len == MAX_EXP is NOT enough)
    'num_order_int_float': {'file': 'num_order_int_float.rs'},
    # float/src/third_party/num_order.rs `impl NumHash for Repr<B>` (any base B >= 2): the i128 fed to the hasher h satisfies
    #   |h| < M127, sign(h) = sign(significand) (or h == 0), e >= 0: |h| == (|s| * B^e) mod M127;  e < 0: |h| * B^-e == |s| (mod M127)
    # i.e. num-order's hash of the rational s * B^e; base-2 shortcut (exponent mod 127) proved from 2^127 == 1 (mod M127)
    'num_hash_float': {'file': 'num_hash_float.rs'},
}

KANI = {
    'gcdo_base': {
        'package': 'dashu-base', 'target': 'base/src/ring/gcd.rs', 'file': 'gcdo_base.rs',
        'harnesses': {
            'vk_gcdo_base_gcd_ext_bound_u8': {'kind': 'complete',
                                              'domain': 'all (u8, u8) with a, b > 0: |s| <= b, |t| <= a, |t| < a if a > b'},
        },
    },
}

KANI['gcdo_root'] = {
    'package': 'dashu-int', 'target': 'integer/src/root.rs', 'file': 'gcdo_root.rs',
    'harnesses': {
        'vk_gcdo_root_sqrt_rem_4w': {'kind': 'bounded', 'bound': '4-word input (sqrt_rem_42), palette words with 2 symbolic bits'},
        'vk_gcdo_root_sqrt_rem_6w_qtop': {'kind': 'bounded', 'bound': '6-word input, upper four words all ones (q_top region), two palette words'},
        'vk_gcdo_root_sqrt_rem_6w': {'kind': 'bounded', 'tier': 'thorough',
                                     'bound': '6-word input (one recursion level, odd root length), palette words with 2 symbolic bits'},
        'vk_gcdo_root_sqrt_rem_8w': {'kind': 'bounded', 'tier': 'thorough',
                                     'bound': '8-word input (one recursion level, even root length), palette words with 2 symbolic bits'},
    },
}

KANI['gcdo_numhash'] = {
    'package': 'dashu-float', 'target': 'float/src/third_party/num_order.rs', 'file': 'gcdo_numhash.rs',
    'harnesses': {
        'vk_gcdo_numhash_%s' % n: {'kind': 'bounded', 'bound': 'one concrete (base, significand, exponent) point'}
        for n in ('b2_e3', 'b2_e127', 'b2_e300', 'b2_em130', 'b10_e2', 'b10_e130', 'b16_e127')
    },
}

PROP_UNITS = {
    'C14': {'verus': ['num_order_ratio_fbig', 'num_order_int_float', 'num_hash_float'],
            'kani': ['gcdo_numhash'],
            'undecided': ['num_hash_float ASSUMES (lib/gcdo_numhash_stubs.rs, trusted): num_modular FixedMersenneInt<127, 1> (new / convert / '
                          'residue / pow / inv / *: arithmetic in Z/(2^127 - 1)), that 2^127 - 1 is prime (inverse of every non-zero element, '
                          'powers of 0 < b < M non-zero), ModularAbs::absm (Euclidean remainder), `&IBig % i128` (truncated remainder), '
                          'i128::num_hash of num-order (feeds the number itself for |h| < M127); precondition exponent > isize::MIN '
                          '(`-self.exponent` / absm overflow: debug panic, release wrap -- FBig with exponent isize::MIN is outside every check); '
                          'gcdo_numhash is a BOUNDED Kani stand-in on 7 concrete points of the same statement against the REAL num_modular '
                          '(the negative-exponent branch of non-binary bases, MInt::inv, crashes CBMC and is covered by Verus only)','num_order_int_float ASSUMES (lib/gcdo_numord_stubs.rs, trusted): an abstract model of f32 / f64 (NaN / infinite '
                          'flags, sign bit, decode pair (man, exp) with value == man * 2^exp, |man| < 2^MANTISSA_DIGITS, exp <= MAX_EXP - '
                          'MANTISSA_DIGITS -- decode itself is proved for all bit patterns by the Kani group base_bit) and the documented '
                          'meaning of is_nan / is_infinite / `== 0.0` / MANTISSA_DIGITS / MAX_EXP / Signed::sign / BitTest::bit_len / '
                          'unsigned_abs in that model; UBig::from / << / partial_cmp / bit_len / is_zero stub contracts; the mirrored arms '
                          '(`NumOrd<UBig> for f32`, the IBig arms) and NumHash for UBig / IBig are not under contract here','num_order_ratio_fbig ASSUMES (lib/gcdo_cmpf_stubs.rs, trusted): the f32 log2 filter of repr_cmp_fbig agrees with '
                          'the exact comparison (log2_bounds are enclosures of log2 |value|, f32 `>` / `<` compare the reals, 2^x is '
                          'monotone: ax_est_gt / ax_est_lt) -- only the infinity / sign cases and the exact step are proved; '
                          'dashu-float Repr accessors, IBig <<= / *= / clone / cmp / abs_cmp, UBig::from_word / pow, Sign * Ordering, '
                          'u64::is_power_of_two ==> w == 2^trailing_zeros (stub contracts); resource precondition |exponent| <= 2^56; '
                          'the forwarding impls (AbsOrd / NumOrd for RBig, Relaxed, FBig and `.reverse()`) are not under contract']},
    'C12': {'verus': ['int_gcd_small', 'int_gcd_ops', 'int_root_ops', 'int_log'],
            'kani': ['gcdo_base', 'gcdo_root'],
            'undecided': ['int_gcd_small ASSUMES (lib/gcdo_stubs.rs, trusted): the Word / DoubleWord instances of the primitive '
                          'ExtendedGcd::gcd_ext return g >= 1, g | a, g | b, s*a + t*b == g with |s| <= b, |t| <= a (|t| < a if '
                          'a > b > 0) -- proved for the u8 instance of the same macro body by the complete Kani harnesses '
                          'vk_base_gcd_gcd_ext_u8 and vk_gcdo_base_gcd_ext_bound_u8; to_sign_magnitude (Kani group int_primitive); '
                          '<[T]>::fill; mul_dword_in_place (proved in unit int_mul_dword)',
                          'int_gcd_ops: the Lehmer routines gcd::gcd_in_place / gcd_ext_in_place (integer/src/gcd/lehmer.rs) are PROVED in the '
                          'units int_leh_* (lehmer.py) and enter through //@@ SIG of their annotated copies; ASSUMED (lib/gcdo_ops_stubs.rs, '
                          'trusted): primitive Gcd::gcd / ExtendedGcd::gcd_ext for Word / DoubleWord '
                          '(u8 instance proved by Kani group base_gcd); cmp::cmp_in_place (numeric order of normalized words); '
                          'mul::multiply (proved in unit int_mul_dispatch); scratch memory (allocate_slice_copy / _fill; SIZING not verified); '
                          'lib/repr_stubs.rs (Buffer / Repr)',
                          'int_gcd_ops: gcd_ext_large_pre is a resource bound only (operand length + 1 < Buffer::MAX_CAPACITY); the three '
                          'forwarding Gcd impls (`self.as_ref().gcd(..)`) and the UBig/IBig-level macros (sign of the cofactors for IBig) are not '
                          'under contract',
                          'int_root_ops uses root::sqrt_rem (Karatsuba square root, root.rs) through the contract PROVED in unit int_root_sqrt; formerly assumed: '
                          'returns value(a) == s^2 + r, r <= 2s for a normalized 2n-word input -- only BOUNDED-checked by the Kani group '
                          'gcdo_root (4/6/8-word inputs, palette words); Repr::into_buffer (normalized words); scratch memory opaque; '
                          'the TypedReprRef::sqrt / sqrt_rem dispatch on `Small` values (primitive SquareRoot impls of dashu-base, Kani '
                          'group base_root for u8/u16) and nth_root (Newton iteration on UBig) are not under contract',
                          'int_log ASSUMES (lib/gcdo_log_stubs.rs, trusted): the f32 estimate of log_dword is small enough for '
                          '`base.pow(est)` to be representable (otherwise debug builds panic and release builds wrap); DoubleWord::pow, '
                          'Ordering::is_le / is_ge; the run-time `assert!(est_pow <= target)` is treated as a possible panic (no claim that '
                          'it never fires); log_word_base / log_large (f32-steered, multi-word) and the power-of-two shortcuts of '
                          'TypedReprRef::log are not under contract']},
}
