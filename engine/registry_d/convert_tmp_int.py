"""TEMPORARY fragment (to be merged into convert.py by the parent): bounded Kani group for heap integers -> f32/f64."""

_LOW = 'all lower words fully symbolic (shared by the sweep), top word concrete: '

KANI = {
    'int_to_float_k': {
        'package': 'dashu-int', 'target': 'integer/src/convert.rs', 'file': 'int_to_float_k.rs',
        'harnesses': {
            'vk_int_to_float_k_ibig_f64_w3_pow2': {'kind': 'bounded', 'bound': '3 words, both signs; ' + _LOW + '2^k for every k in 0..=63'},
            'vk_int_to_float_k_ibig_f64_w3_ones': {'kind': 'bounded', 'bound': '3 words, both signs; ' + _LOW + '2^(k+1)-1 for every k in 0..=63'},
            'vk_int_to_float_k_ibig_f64_w3_tie': {'kind': 'bounded', 'bound': '3 words, both signs; ' + _LOW + '2^k+2^(k-53), 2^k+3*2^(k-53) for k in 53..=63 and 6 fixed patterns'},
            'vk_int_to_float_k_ubig_f64_w3': {'kind': 'bounded', 'bound': '3 words; ' + _LOW + '2^k for k = 0,3,..,63, 6 fixed patterns, u64::MAX'},
            'vk_int_to_float_k_ibig_f32_w3': {'kind': 'bounded', 'bound': '3 words, both signs; ' + _LOW + '2^k for every k in 0..=63, u64::MAX'},
            'vk_int_to_float_k_ubig_f32_w3': {'kind': 'bounded', 'bound': '3 words; ' + _LOW + '2^k for k = 0,3,..,63, u64::MAX'},
            'vk_int_to_float_k_ibig_f64_w4': {'kind': 'bounded', 'bound': '4 words, both signs; ' + _LOW + '2^k for every k in 0..=63, u64::MAX'},
            'vk_int_to_float_k_w17_inf': {'kind': 'bounded', 'bound': '17 words, both signs; 16 lower words fully symbolic, top word 1'},
        },
    },
}
