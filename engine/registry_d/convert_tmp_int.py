"""TEMPORARY fragment (to be merged into convert.py by the parent): bounded Kani group for heap integers -> f32/f64."""

_LOW3 = '3 words: low and middle word fully symbolic (2^128, shared by the sweep) x concrete top word '

KANI = {
    'int_to_float_k': {
        'package': 'dashu-int', 'target': 'integer/src/convert.rs', 'file': 'int_to_float_k.rs',
        'harnesses': dict(
            [('vk_int_to_float_k_ubig_f64_w3_pow2_' + s, {'kind': 'bounded', 'bound': _LOW3 + '2^k, k in %d..=%d' % (lo, lo + 15)})
             for s, lo in (('a', 0), ('b', 16), ('c', 32), ('d', 48))] +
            [('vk_int_to_float_k_ubig_f64_w3_ones_' + s, {'kind': 'bounded', 'bound': _LOW3 + '2^(k+1)-1, k in %d..=%d' % (lo, lo + 15)})
             for s, lo in (('a', 0), ('b', 16), ('c', 32), ('d', 48))] +
            [('vk_int_to_float_k_ubig_f64_w3_tie_even', {'kind': 'bounded', 'bound': _LOW3 + '2^k + 2^(k-53), k in 53..=63'}),
             ('vk_int_to_float_k_ubig_f64_w3_tie_odd', {'kind': 'bounded', 'bound': _LOW3 + '2^k + 3*2^(k-53), k in 53..=63'}),
             ('vk_int_to_float_k_ubig_f64_w3_fixed', {'kind': 'bounded', 'bound': _LOW3 + 'from 6 fixed patterns'}),
             ('vk_int_to_float_k_ibig_f64_w3', {'kind': 'bounded', 'bound': _LOW3 + 'from 8 values x both signs'}),
             ('vk_int_to_float_k_ubig_f32_w3', {'kind': 'bounded', 'bound': _LOW3 + '2^k, k in 0..=63, and u64::MAX'}),
             ('vk_int_to_float_k_ibig_f32_w3', {'kind': 'bounded', 'bound': _LOW3 + 'from 8 values x both signs'}),
             ('vk_int_to_float_k_ubig_f64_w4', {'kind': 'bounded', 'bound': '4 words: three lower words fully symbolic x concrete top word 2^k (k = 3,7,..,63), 1, u64::MAX'}),
             ('vk_int_to_float_k_w17_inf', {'kind': 'bounded', 'bound': '17 words: 16 lower words fully symbolic, top word 1, UBig and negative IBig (to_f64 only)'}),
             ]),
    },
}
