"""TEMPORARY fragment (to be merged into convert.py by the parent): bounded Kani group for heap integers -> f32/f64."""

_LOW3 = '3 words: low and middle word fully symbolic (2^128, shared by the sweep) x concrete top word '

KANI = {
    'int_to_float_k': {
        'package': 'dashu-int', 'target': 'integer/src/convert.rs', 'file': 'int_to_float_k.rs',
        'harnesses': dict(
            [('vk_int_to_float_k_ubig_f64_w3_pow2_' + s, {'kind': 'bounded', 'bound': _LOW3 + '2^k, k in %d..=%d' % (lo, lo + 15)})
             for s, lo in (('a', 0), ('b', 16), ('c', 32), ('d', 48))] +
            [('vk_int_to_float_k_ubig_f64_w3_ones_' + s, {'kind': 'bounded', 'tier': 'thorough', 'bound': _LOW3 + '2^(k+1)-1, k in %d..=%d' % (lo, lo + 15)})
             for s, lo in (('a', 0), ('b', 16), ('c', 32), ('d', 48))] +
            [('vk_int_to_float_k_ubig_f64_w3_tie_even', {'kind': 'bounded', 'bound': _LOW3 + '2^k + 2^(k-53), k in 53..=63'}),
             ('vk_int_to_float_k_ubig_f64_w3_tie_odd', {'kind': 'bounded', 'bound': _LOW3 + '2^k + 3*2^(k-53), k in 53..=63'}),
             ('vk_int_to_float_k_ubig_f64_w3_fixed', {'kind': 'bounded', 'bound': _LOW3 + 'from 6 fixed patterns'}),
             ('vk_int_to_float_k_ibig_f64_w3', {'kind': 'bounded', 'bound': _LOW3 + 'from 8 values x both signs'}),
             ('vk_int_to_float_k_ubig_f32_w3', {'kind': 'bounded', 'bound': _LOW3 + '2^k (k = 0,3,..,63), u64::MAX'}),
             ('vk_int_to_float_k_ibig_f32_w3', {'kind': 'bounded', 'bound': _LOW3 + 'from 8 values x both signs'}),
             ('vk_int_to_float_k_ubig_f64_w4', {'kind': 'bounded', 'bound': '4 words: three lower words fully symbolic x concrete top word 2^k (k = 7,15,..,63), 1, u64::MAX'}),
             ('vk_int_to_float_k_ref_f64_w16', {'kind': 'bounded', 'tier': 'thorough', 'bound': '16 words via TypedReprRef::RefLarge: 15 lower words fully symbolic x top word in {1, 2^63, u64::MAX} (incl. overflow to +inf)'}),
             ('vk_int_to_float_k_ref_w17_inf', {'kind': 'bounded', 'bound': '17 words via TypedReprRef::RefLarge: 16 lower words fully symbolic x top word in {1, 2^63, u64::MAX}; to_f64 and to_f32'}),
             ]),
    },
}
