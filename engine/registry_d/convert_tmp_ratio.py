"""TEMPORARY fragment (dev loop of the ratio_to_float_k Kani group); merged into the convert fragment by the parent."""

_D = 'den = any of 1..=15'
_STUBS = ('dashu-int operations stubbed by their inline-operand arm (UBig::div_rem(&UBig), UBig << usize, &UBig << usize, '
          '&IBig << usize; heap arms = panic): trusted to equal the real arms')
KANI = {
    'ratio_to_float_k': {
        'package': 'dashu-ratio', 'target': 'rational/src/convert.rs', 'file': 'ratio_to_float_k.rs',
        'note': 'Repr::to_f32/to_f64 harnesses: ' + _STUBS + '. Known-finding region (double rounding) assumed away in '
                'the main harnesses, see vk_rf_tie_region. Out of reach (operands > 128 bits): subnormal results, f64 '
                'overflow, the f64 underflow cut-off `shift < -1074 - 53` (3 / 2^1076 -> 0.0, native only).',
        'harnesses': {
            'vk_ratio_to_float_k_f32_critical': {'kind': 'bounded', 'bound': _D + ', num = 2^t + hi*2^(t-3) + lo, t = bitlen(den)+23+(0|1), hi < 8, lo < 32'},
            'vk_ratio_to_float_k_f32_small_num': {'kind': 'bounded', 'tier': 'thorough', 'bound': _D + ', num = any of -255..=255'},
            'vk_ratio_to_float_k_f32_big_num': {'kind': 'bounded', 'tier': 'thorough', 'bound': _D + ', num = 2^62 + a*2^59 + b*2^37 + c, a, b, c < 8'},
            'vk_ratio_to_float_k_f32_overflow': {'kind': 'bounded', 'bound': 'den = 1, num = +-(((2^25-1-a) * 64 + lo) * 2^97), a < 4, lo < 64'},
            'vk_ratio_to_float_k_f64_critical': {'kind': 'bounded', 'bound': _D + ', num = 2^t + hi*2^(t-3) + lo, t = bitlen(den)+52+(0|1), hi < 8, lo < 32'},
            'vk_ratio_to_float_k_f64_small_num': {'kind': 'bounded', 'tier': 'thorough', 'bound': _D + ', num = any of -255..=255'},
            'vk_ratio_to_float_k_f64_big_num': {'kind': 'bounded', 'tier': 'thorough', 'bound': _D + ', num = 2^63 + a*2^60 + lo, a < 8, lo < 4096'},
            'vk_ratio_to_float_k_finding_f32_double_rounding': {'kind': 'finding', 'bound': 'as f32_critical, inside the region',
                'note': 'double rounding in Repr::to_f32: 117440522/7 = 16777217.43 -> Inexact(16777216.0, Negative), correct 16777218.0'},
            'vk_ratio_to_float_k_finding_f64_double_rounding': {'kind': 'finding', 'bound': 'as f64_critical, inside the region',
                'note': 'double rounding in Repr::to_f64: ((2^53+1)*7+3)/7 -> Inexact(2^53, Negative), correct 2^53+2'},
            'vk_ratio_to_float_k_to_ubig': {'kind': 'bounded', 'bound': '|num| < 2^15, den = any of 1..=15 (non-integer value if den > 1)'},
            'vk_ratio_to_float_k_to_ibig': {'kind': 'bounded', 'bound': '|num| < 2^15, den = any of 1..=15 (non-integer value if den > 1)'},
            'vk_ratio_to_float_k_try_f32': {'kind': 'bounded', 'bound': 'num = any i32, den = 2^k, k in {0, 1, 126, 149, 150, 181}'},
            'vk_ratio_to_float_k_try_f64': {'kind': 'bounded', 'bound': 'num = any i64, den = 2^k, k in {0, 1, 64}'},
            'vk_ratio_to_float_k_finding_try_f32_wide_num': {'kind': 'finding', 'bound': 'num = any i64 outside i32, den = 1',
                'note': 'TryFrom<RBig> for f32 unwraps numerator -> i32: f32::try_from(RBig 2^31) panics'},
            'vk_ratio_to_float_k_finding_try_f64_wide_num': {'kind': 'finding', 'bound': '2^63 <= |num| < 2^64, den = 1',
                'note': 'TryFrom<RBig> for f64 unwraps numerator -> i64: f64::try_from(RBig 2^63) panics'},
        },
    },
}
