"""TEMPORARY fragment (dev loop of the ratio_to_float_k Kani group); merged into the convert fragment by the parent."""

KANI = {
    'ratio_to_float_k': {
        'package': 'dashu-ratio', 'target': 'rational/src/convert.rs', 'file': 'ratio_to_float_k.rs',
        'harnesses': {
            'vk_ratio_to_float_k_f32_u32_u8': {'kind': 'bounded', 'bound': 'num = any u32 (either sign), den = any non-zero u8'},
            'vk_ratio_to_float_k_probe_u16': {'kind': 'bounded', 'bound': 'probe'},
        },
    },
}
