"""TEMPORARY fragment (dev loop of the ratio_to_float_k Kani group); merged into the convert fragment by the parent."""

_D = 'den = any of 1..=15'
KANI = {
    'ratio_to_float_k': {
        'package': 'dashu-ratio', 'target': 'rational/src/convert.rs', 'file': 'ratio_to_float_k.rs',
        'harnesses': {
            'vk_ratio_to_float_k_f32_critical': {'kind': 'bounded', 'bound': _D + ', num = 2^t + hi*2^(t-3) + lo, t = bitlen(den)+23+(0|1), hi < 8, lo < 32'},
            'vk_ratio_to_float_k_f32_small_num': {'kind': 'bounded', 'bound': _D + ', num = any of -255..=255'},
            'vk_ratio_to_float_k_f32_big_num': {'kind': 'bounded', 'bound': _D + ', num = 2^62 + a*2^59 + b*2^37 + c, a, b, c < 8'},
            'vk_ratio_to_float_k_f32_overflow': {'kind': 'bounded', 'bound': 'den = 1, num = +-(((2^25-1-a) * 64 + lo) * 2^97), a < 4, lo < 64'},
            'vk_ratio_to_float_k_f64_critical': {'kind': 'bounded', 'bound': _D + ', num = 2^t + hi*2^(t-3) + lo, t = bitlen(den)+52+(0|1), hi < 8, lo < 32'},
            'vk_ratio_to_float_k_f64_small_num': {'kind': 'bounded', 'bound': _D + ', num = any of -255..=255'},
            'vk_ratio_to_float_k_f64_big_num': {'kind': 'bounded', 'bound': _D + ', num = 2^63 + a*2^60 + lo, a < 8, lo < 4096'},
            'vk_ratio_to_float_k_finding_f32_double_rounding': {'kind': 'finding', 'bound': 'as f32_critical, inside the region'},
            'vk_ratio_to_float_k_finding_f64_double_rounding': {'kind': 'finding', 'bound': 'as f64_critical, inside the region'},
            'vk_ratio_to_float_k_to_ubig': {'kind': 'bounded', 'bound': '|num| < 2^15, den = any of 1..=15'},
            'vk_ratio_to_float_k_to_ibig': {'kind': 'bounded', 'bound': '|num| < 2^15, den = any of 1..=15'},
            'vk_ratio_to_float_k_finding_to_ubig': {'kind': 'finding', 'bound': 'as to_ubig, inside the region'},
            'vk_ratio_to_float_k_try_f32': {'kind': 'bounded', 'bound': 'num = any i32, den = 2^k, k in {0, 1, 126, 149, 150, 181}'},
            'vk_ratio_to_float_k_try_f64': {'kind': 'bounded', 'bound': 'num = any i64, den = 2^k, k in {0, 1, 64, 1074, 1075}'},
            'vk_ratio_to_float_k_finding_try_f32_wide_num': {'kind': 'finding', 'bound': 'num = any i64 outside i32, den = 1'},
            'vk_ratio_to_float_k_finding_try_f64_wide_num': {'kind': 'finding', 'bound': '2^63 <= |num| < 2^64, den = 1'},
        },
    },
}
