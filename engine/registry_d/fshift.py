"""placeholder while developing (agent unitfs)"""
KANI = {
    'int_modclone': {
        'package': 'dashu-int', 'target': 'integer/src/modular/repr.rs', 'file': 'int_modclone.rs',
        'harnesses': {
            'vk_modclone_large_across_rings': {'kind': 'bounded', 'bound': 'x'},
            'vk_modclone_large_same_ring': {'kind': 'bounded', 'bound': 'x'},
            'vk_modclone_large_other_length': {'kind': 'bounded', 'bound': 'x'},
            'vk_modclone_mixed_repr': {'kind': 'bounded', 'bound': 'x'},
            'vk_modclone_clone': {'kind': 'bounded', 'bound': 'x'},
        },
    },
}
