"""FBig digit shifts and sign operations, Reduced clone / clone_from (agent unitfs), property C15 "all call forms agree".

Vocabulary: contracts/lib/fs_spec.rs (ONE predicate per operation for all of its call forms), contracts/lib/fs_stubs.rs.
Annotated copies: contracts/annot/float/shift/ (float/src/shift.rs, float/src/sign.rs, float/src/error.rs assert_finite
with its must_panic variant).

float_shift      float/src/shift.rs, all four impls: Shl<isize>, ShlAssign<isize>, Shr<isize>, ShrAssign<isize> for FBig
                 (hoisted: fbig_shl, fbig_shl_assign, fbig_shr2, fbig_shr_assign).
                   requires fs_shift_req(x, n): x finite, and x != 0 ==> exponent + n is an isize (exponent overflow: C16)
                   ensures  fs_shift_post(x, n, r): r.significand == x.significand, r.precision == x.precision,
                            x == 0 ==> r.exponent == 0,  x != 0 ==> r.exponent == x.exponent + n
                   with n = rhs for `<<` `<<=`, n = -rhs for `>>` `>>=`; r = return value resp. the value left in `*self`.
                 lemma_fs_shift_value: the statement IS r == x * B^n on values (fs_scaled) and r is finite;
                 lemma_fs_shift_inverse: (x << n) >> n == x on the representation.
                 The real `Shr<isize> for FBig` is ALSO verified in unit ratio_to_fbig (fbig_shr, equivalent contract).
float_shift_inf  the same four impls, must_panic variants: infinite operand ==> no normal return in any form
                 ("every form returns the same value, or every form panics"; assert_finite verified in its must_panic reading).
float_sign       float/src/sign.rs, every item:  Neg for FBig / Neg for &FBig / Mul<FBig> for Sign / Mul<Sign> for FBig /
                 MulAssign<Sign> for FBig against fs_sign_post(x, s, r) (significand sgn_apply(s, x.significand), exponent and
                 precision kept; s = Negative for Neg);  Abs for FBig (fs_abs_post: |significand|);  Neg for Repr;
                 FBig::sign and Signed::sign for FBig against fs_sign_of (zero and +inf Positive, -inf Negative);
                 FBig::signum (significand fs_signum_of in {-1, 0, 1} by the sign of the value incl. infinities, exponent 0,
                 precision 1).  No precondition (infinities included, see OBSERVATION in the unit header).

Trusted (beyond round_int_stubs.rs / farith_add_stubs.rs / ebounds_stubs.rs / conv_fbig_stubs.rs, which these units INCLUDE):
  lib/fs_stubs.rs  `impl Abs for IBig`: r.v() == |self.v()|  (integer/src/sign.rs: `with_sign(Positive)`); trait Abs mirrored.
  The call-site form of `Neg for FBig` (NegSpecImpl, used by `Neg for &FBig`: `self.clone().neg()`) is NOT an assumption:
  the real method is proved against exactly that statement (`ret == fs_neg_spec(self)`) in the same unit.
  Used from the included libs: IBig Neg (ibig_of(-v)), IBig *= Sign (sgn_apply), IBig::signum, IBig::{is_zero, sign}, IBig::ONE /
  NEG_ONE constants, `Clone for FBig` (field-wise copy).

int_modclone     Kani, BOUNDED: integer/src/modular/repr.rs `Clone for Reduced` / `Clone for ReducedRepr` (clone, clone_from).
"""
VERUS = {
    'float_shift': {'file': 'float_shift.rs', 'w32': False},
    'float_shift_inf': {'file': 'float_shift_inf.rs', 'w32': False},
    'float_sign': {'file': 'float_sign.rs', 'w32': False},
}

_MC = ('concrete rings: 3-word [7,5,2^62+1] and [9,3,2^62+3], 4-word [3,0,1,2^62+5], single 1_000_003 / 1_000_033, double '
       '2^64+13 / 2^64+15; the three stored words of a 3-word element are symbolic within the validity invariant (low word '
       'even, top word < 2^62); ')
KANI = {
    'int_modclone': {
        'package': 'dashu-int', 'target': 'integer/src/modular/repr.rs', 'file': 'int_modclone.rs',
        'harnesses': {
            # clone_from Large <- Large over two DIFFERENT rings of equal length (buffer-reusing branch): ring object and
            # words of the source, source unchanged, `==` defined and true, writing into the clone leaves the source alone
            'vk_modclone_large_across_rings': {'kind': 'bounded', 'bound': _MC + 'target in ring A, source in ring B'},
            'vk_modclone_large_same_ring': {'kind': 'bounded', 'bound': _MC + 'target and source in ring A'},
            'vk_modclone_large_other_length': {'kind': 'bounded', 'bound': _MC + '3-word target <- 4-word source [2, any, 5, 1] '
                                                                                 'and 4-word target <- 3-word source'},
            'vk_modclone_mixed_repr': {'kind': 'bounded', 'bound': _MC + 'the 8 ordered pairs single<-double, large<-double, '
                                       'double<-double(other ring), double<-single, large<-single, single<-single(other ring), '
                                       'single<-large, double<-large (symbolic selector), concrete elements'},
            'vk_modclone_clone': {'kind': 'bounded', 'bound': _MC + 'clone() of one single, one double, one 3-word element'},
        },
    },
}

PROP_UNITS = {
    'C15': {'verus': ['float_shift', 'float_shift_inf', 'float_sign'],
            'kani': ['int_modclone'],
            'undecided': [
                'FBig `<<` `<<=` `>>` `>>=` by isize (float/src/shift.rs) and the sign forms of float/src/sign.rs (-x, -&x, '
                'Sign * x, x * Sign, x *= Sign, sign()/Signed::sign) are PROVED to agree (one predicate per operation, units '
                'float_shift / float_shift_inf / float_sign); exponent overflow of isize is outside the shift contract (C16)',
                'OBSERVATION (unchanged tree; all forms agree, so not a C15 violation; C03 is about finite operands): negation, '
                'multiplication by Sign::Negative and abs only touch the significand, an infinity (significand 0, sign in the '
                'exponent) is returned unchanged: -FBig::INFINITY == FBig::INFINITY, FBig::NEG_INFINITY.abs() == NEG_INFINITY '
                '(natively reproduced); float/src/repr.rs documents "any other operations on the infinity will lead to panic"',
                'Reduced clone / clone_from (integer/src/modular/repr.rs): BOUNDED Kani group int_modclone on concrete rings '
                '(ring identity by pointer and stored words of the source, independence of the storage); arbitrary ring lengths '
                'and the Box<[Word]>::clone_from internals are not proved',
            ]},
}
