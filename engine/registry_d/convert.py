"""Conversion units (C06: integer / float / rational -> f32/f64; C08/C10 where stated)."""

VERUS = {
    # integer/src/convert.rs: TypedReprRef::{to_f32_nontrivial, to_f64_nontrivial, to_f32, to_f64}, UBig/IBig::to_f32/to_f64
    'int_to_float': {'file': 'int_to_float.rs', 'w32': True},
    # float/src/convert.rs: Repr::{into_f32_internal, into_f64_internal} (+ float/src/repr.rs Repr::{sign, is_infinite})
    'float_to_f': {'file': 'float_to_f.rs', 'w32': False},
    # float/src/convert.rs: FBig::with_precision (C08/C10), Repr::to_int (C10); base/src/approx.rs Approximation::map,
    # float/src/fbig.rs FBig::new, float/src/repr.rs Context::new
    'float_conv': {'file': 'float_conv.rs', 'w32': False},
    # rational/src/convert.rs: Repr::{to_f32, to_f64} (two known-finding regions excluded by precondition);
    # base/src/approx.rs Approximation::and_then; base/src/sign.rs Sign::{mul, neg, cmp}
    'ratio_to_float': {'file': 'ratio_to_float.rs', 'w32': False},
}

KANI = {
}

PROP_UNITS = {
    'C06': {'verus': ['int_to_float', 'float_to_f', 'float_conv', 'ratio_to_float']},
    'C08': {'verus': ['float_conv']},
    'C10': {'verus': ['float_conv']},
}
