"""Conversion units (C06: integer / float / rational -> f32/f64; C08/C10 where stated)."""

VERUS = {
    # integer/src/convert.rs: TypedReprRef::{to_f32_nontrivial, to_f64_nontrivial, to_f32, to_f64}, UBig/IBig::to_f32/to_f64
    'int_to_float': {'file': 'int_to_float.rs', 'w32': True},
    # float/src/convert.rs: Repr::{into_f32_internal, into_f64_internal} (+ float/src/repr.rs Repr::{sign, is_infinite})
    'float_to_f': {'file': 'float_to_f.rs', 'w32': False},
    # float/src/convert.rs: FBig::with_precision (C08/C10), Repr::to_int (C10); base/src/approx.rs Approximation::map,
    # float/src/fbig.rs FBig::new, float/src/repr.rs Context::new
    'float_conv': {'file': 'float_conv.rs', 'w32': False},
    # rational/src/convert.rs: Repr::{to_f32, to_f64} (two known-finding regions excluded by precondition);
    # base/src/approx.rs Approximation::and_then; base/src/sign.rs Sign::{mul, neg, cmp}
    'ratio_to_float': {'file': 'ratio_to_float.rs', 'w32': False},
    # float/src/convert.rs macro impl_from_float_for_fbig: TryFrom<f32/f64> for Repr<2> and for FBig<R, 2> (rule E3b)
    'float_from_prim': {'file': 'float_from_prim.rs', 'w32': False},
    # rational/src/convert.rs macro impl_conversion_to_float: TryFrom<RBig> for f32 / f64 (never panics; Ok only if exact)
    'ratio_try_float': {'file': 'ratio_try_float.rs', 'w32': False},
}

_LOW3 = '3 words: low and middle word fully symbolic (2^128, shared by the sweep) x concrete top word '
_TH = {'tier': 'thorough'}
_D15 = 'den = any of 1..=15'
_RATIO_NOTE = ('Repr::to_f32/to_f64 harnesses: dashu-int operations stubbed by their inline-operand arm (UBig::div_rem(&UBig), '
               'UBig << usize, &UBig << usize, &IBig << usize; heap arms = panic): trusted to equal the real arms. Out of reach '
               '(operands > 128 bits): subnormal results, f64 overflow (covered by the unbounded Verus unit ratio_to_float).')

KANI = {
    # bounded companion of the Verus unit int_to_float on the real code: UBig/IBig::to_f32/to_f64 for heap integers.
    # Top word and sign are concrete per case (a symbolic top word / sign makes the shift-surviving length or the
    # capacity symbolic: CBMC runs out of memory); all lower words are fully symbolic.  Quick tier = one slice of every
    # family (each catches the sticky-bit mutation); the remaining slices are 'thorough'.
    'int_to_float_k': {
        'package': 'dashu-int', 'target': 'integer/src/convert.rs', 'file': 'int_to_float_k.rs',
        'harnesses': {
            'vk_int_to_float_k_ubig_f64_w3_pow2_a': {'kind': 'bounded', 'bound': _LOW3 + '2^k, k in 0..=15'},
            'vk_int_to_float_k_ubig_f64_w3_pow2_b': dict(_TH, kind='bounded', bound=_LOW3 + '2^k, k in 16..=31'),
            'vk_int_to_float_k_ubig_f64_w3_pow2_c': dict(_TH, kind='bounded', bound=_LOW3 + '2^k, k in 32..=47'),
            'vk_int_to_float_k_ubig_f64_w3_pow2_d': dict(_TH, kind='bounded', bound=_LOW3 + '2^k, k in 48..=63'),
            'vk_int_to_float_k_ubig_f64_w3_ones_a': dict(_TH, kind='bounded', bound=_LOW3 + '2^(k+1)-1, k in 0..=15'),
            'vk_int_to_float_k_ubig_f64_w3_ones_b': dict(_TH, kind='bounded', bound=_LOW3 + '2^(k+1)-1, k in 16..=31'),
            'vk_int_to_float_k_ubig_f64_w3_ones_c': dict(_TH, kind='bounded', bound=_LOW3 + '2^(k+1)-1, k in 32..=47'),
            'vk_int_to_float_k_ubig_f64_w3_ones_d': dict(_TH, kind='bounded', bound=_LOW3 + '2^(k+1)-1, k in 48..=63'),
            'vk_int_to_float_k_ubig_f64_w3_tie_even': {'kind': 'bounded', 'bound': _LOW3 + '2^k + 2^(k-53), k in 53..=63'},
            'vk_int_to_float_k_ubig_f64_w3_tie_odd': {'kind': 'bounded', 'bound': _LOW3 + '2^k + 3*2^(k-53), k in 53..=63'},
            'vk_int_to_float_k_ubig_f64_w3_fixed': {'kind': 'bounded', 'bound': _LOW3 + 'from 6 fixed patterns'},
            'vk_int_to_float_k_ibig_f64_w3': {'kind': 'bounded', 'bound': _LOW3 + 'from 8 values x both signs'},
            'vk_int_to_float_k_ubig_f32_w3': {'kind': 'bounded', 'bound': _LOW3 + '2^k (k = 0,3,..,63), u64::MAX'},
            'vk_int_to_float_k_ibig_f32_w3': {'kind': 'bounded', 'bound': _LOW3 + 'from 8 values x both signs'},
            'vk_int_to_float_k_ubig_f64_w4': dict(_TH, kind='bounded', bound='4 words: three lower words fully symbolic x concrete top word 2^k (k = 7,15,..,63), 1, u64::MAX'),
            'vk_int_to_float_k_ref_f64_w16': dict(_TH, kind='bounded', bound='16 words via TypedReprRef::RefLarge: 15 lower words fully symbolic x top word in {1, 2^63, u64::MAX} (incl. overflow to +inf)'),
            'vk_int_to_float_k_ref_w17_inf': {'kind': 'bounded', 'bound': '17 words via TypedReprRef::RefLarge: 16 lower words fully symbolic x top word in {1, 2^63, u64::MAX}; to_f64 and to_f32'},
        },
    },
    # bounded companion of the Verus unit ratio_to_float on the real rational/src/convert.rs (Repr::to_f32/to_f64,
    # TryFrom<Repr> for UBig/IBig).  History: the double-rounding region used to be assumed away and witnessed by two
    # 'finding' harnesses; since the repair of to_f32/to_f64 the harnesses check the full property.
    # The harnesses vk_ratio_to_float_k_try_f32 / _try_f64 (+ _wide_num) for `TryFrom<RBig> for f32/f64` are NOT registered
    # any more: since the fix of the unwrap panic the code shifts the numerator by its (symbolic) number of trailing
    # zeros, which CBMC cannot handle (timeout / out of memory); the Verus unit ratio_try_float covers that function.
    'ratio_to_float_k': {
        'package': 'dashu-ratio', 'target': 'rational/src/convert.rs', 'file': 'ratio_to_float_k.rs',
        'note': _RATIO_NOTE,
        'harnesses': {
            'vk_ratio_to_float_k_f32_critical': {'kind': 'bounded', 'bound': _D15 + ', num = 2^t + hi*2^(t-3) + lo, t = bitlen(den)+23+(0|1), hi < 8, lo < 32'},
            'vk_ratio_to_float_k_f32_small_num': dict(_TH, kind='bounded', bound=_D15 + ', num = any of -255..=255'),
            'vk_ratio_to_float_k_f32_big_num': dict(_TH, kind='bounded', bound=_D15 + ', num = 2^62 + a*2^59 + b*2^37 + c, a, b, c < 8'),
            'vk_ratio_to_float_k_f32_overflow': {'kind': 'bounded', 'bound': 'den = 1, num = +-(((2^25-1-a) * 64 + lo) * 2^97), a < 4, lo < 64'},
            'vk_ratio_to_float_k_f64_critical': {'kind': 'bounded', 'bound': _D15 + ', num = 2^t + hi*2^(t-3) + lo, t = bitlen(den)+52+(0|1), hi < 8, lo < 32'},
            'vk_ratio_to_float_k_f64_small_num': dict(_TH, kind='bounded', bound=_D15 + ', num = any of -255..=255'),
            'vk_ratio_to_float_k_f64_big_num': dict(_TH, kind='bounded', bound=_D15 + ', num = 2^63 + a*2^60 + lo, a < 8, lo < 4096'),
            'vk_ratio_to_float_k_to_ubig': {'kind': 'bounded', 'bound': '|num| < 2^15, den = any of 1..=15 (non-integer value if den > 1)'},
            'vk_ratio_to_float_k_to_ibig': {'kind': 'bounded', 'bound': '|num| < 2^15, den = any of 1..=15 (non-integer value if den > 1)'},
        },
    },
}

PROP_UNITS = {
    'C06': {'verus': ['int_to_float', 'float_to_f', 'float_conv', 'ratio_to_float', 'float_from_prim', 'ratio_try_float'],
            'kani': ['int_to_float_k', 'ratio_to_float_k']},
    'C08': {'verus': ['float_conv', 'float_from_prim']},
    'C10': {'verus': ['float_conv']},
}
