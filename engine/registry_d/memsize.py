"""Scratch-memory SIZING of the big-integer kernels (C01, C16): every other unit sees `Memory` as an opaque allocator that
always succeeds (lib/mulalg_stubs.rs, mul_glue_stubs.rs, div_post_spec.rs, mod2_mem.rs, gcdo_ops_stubs.rs), so "the chunk
computed up front by memory_requirement_* is large enough for what the kernel carves out of it" was undecided (too small =>
`allocate_slice_*` panics with "internal error: not enough memory allocated", memory.rs:166).  The int_memsize_* units
re-verify the SAME real functions against RESOURCE contracts over the capacity-tracking model lib/mem_model.rs
(`allocate_slice_*` REQUIRE that the request fits and return the rest chunk with its new start address); value facts are not
re-proved there (they stay in int_mul_karatsuba / int_mul_toom3 / int_mul_dispatch / int_sqr / int_mul_ops)."""

VERUS = {
    # karatsuba::add_signed_mul_same_len: a chunk of kneed(n) = max(2 mid + need(mid), 2 (n - mid) + need(n - mid)) Words
    # suffices for its 4 allocations and 3 nested products (dispatcher's resource contract)
    'int_memsize_kara': {'file': 'int_memsize_kara.rs', 'w32': True},
    # toom_3::add_signed_mul_same_len: tneed(n) = max(2 n3 + 2 + need(n3), 4 n3 + 4 + need(n3 + 1), 6 n3 + 6 + need(n - 2 n3),
    # 8 n3 + 8 + need(n3 + 1)) Words suffice for its 8 allocations and 5 nested products
    'int_memsize_toom3': {'file': 'int_memsize_toom3.rs', 'w32': True},
    # mul::{multiply, add_signed_mul, add_signed_mul_same_len}, helpers::add_signed_mul_split_into_chunks, simple::*,
    # {karatsuba,toom_3}::add_signed_mul: gneed(min(|a|, |b|)) = max over m <= min of need(m) Words suffice for every strategy
    # the thresholds select (this is where the seeded change C01_r2_3 `<= THRESHOLD_KARATSUBA` -> `<` fails)
    'int_memsize_dispatch': {'file': 'int_memsize_dispatch.rs', 'w32': True},
    # {mul, karatsuba, toom_3}::memory_requirement_up_to / _exact, sqr::memory_requirement_exact, sqr::sqr: the Layout
    # returned provides >= gneed(smaller_len) Words for ALL lengths (lemma_mn_formula_suffices: the closed form
    # 4 n + 13 ceil_log2 n is not inductive; proof through 4 n + 20 * toom_levels(n) and 3^13 > 2^20) and has exactly the
    # documented size 0 / 8 (2 n + 2 ceil_log2 n) / 8 (4 n + 13 ceil_log2 n) bytes
    'int_memsize_req': {'file': 'int_memsize_req.rs', 'w32': True},
    # mul_ops.rs mul_large / square_large: memory_requirement_exact -> MemoryAllocation::new -> multiply / sqr: the
    # precondition of the kernel follows from the size computed
    'int_memsize_mul_ops': {'file': 'int_memsize_mul_ops.rs', 'w32': True},
    # divide_conquer::{div_rem_in_place, _same_len, _small_quotient (prefix up to its product: rule D20u), memory_requirement_exact},
    # div::{div_rem_in_place, div_rem_unshifted_in_place (prefix up to the division), memory_requirement_exact}:
    # dc_need(l, n) = gneed(min(n / 2, l - n)) Words suffice for every product of the Burnikel-Ziegler recursion and the
    # Layout returned provides them
    'int_memsize_div': {'file': 'int_memsize_div.rs', 'w32': True},
    # div_ops.rs div_rem_in_lhs (the one place of div_ops.rs that sizes + allocates scratch): size computed => kernel precondition
    'int_memsize_div_ops': {'file': 'int_memsize_div_ops.rs', 'w32': True},
    # gcd/lehmer.rs gcd_in_place under its functional + resource contract (annotations of int_leh_gcd + accounting): a chunk
    # of gneed(|rhs| / 2) Words is enough for every Euclidean step; the division is seen through the CONJUNCTION of its
    # functional and resource contracts (//@@ SIG a and=b)
    'int_memsize_gcd': {'file': 'int_memsize_gcd.rs', 'w32': True},
    # lehmer::memory_requirement_up_to (as repaired by 1d55bba: mul::memory_requirement_up_to(lhs_len, rhs_len / 2)),
    # gcd::memory_requirement_exact, gcd::gcd_in_place, gcd_ops::gcd_large: the Layout provides gneed(rhs_len / 2) Words =
    # the kernel's precondition (this unit FAILED on the tree before the repair: the defect it was written against)
    'int_memsize_gcd_ops': {'file': 'int_memsize_gcd_ops.rs', 'w32': True},
    # gcd/lehmer.rs gcd_ext_in_place under its functional + resource contract (annotations of int_leh_gcd_ext + accounting):
    # ext_need(|lhs|) = 2 (|lhs| + 1) + gneed(ceil(|lhs| / 2)) Words suffice (cofactor buffers, every Euclidean division, every
    # cofactor product: at most |lhs| + 1 result words by the value invariant).  One long query (~20 s, 2.6e8 rlimit units)
    'int_memsize_gcd_ext': {'file': 'int_memsize_gcd_ext.rs', 'w32': True, 'rlimit': 300},
    # lehmer::memory_requirement_ext_up_to (as repaired by 914fd28), gcd::memory_requirement_ext_exact, gcd::gcd_ext_in_place:
    # the Layout provides ext_need(lhs_len) Words = the kernel's precondition (FAILED before the repair: defect MEM2)
    'int_memsize_gcd_ext_ops': {'file': 'int_memsize_gcd_ext_ops.rs', 'w32': True},
    # modular/div.rs inv_large (functional + resource): allocation from memory_requirement_ext_exact => kernel precondition
    'int_memsize_moddiv': {'file': 'int_memsize_moddiv.rs', 'w32': True},
    # gcd_ops.rs gcd_ext_large (functional + resource): ONE allocation clones + max(gcd_mem, post_mem) covers clones, kernel,
    # residue (possibly one Word longer than reserved: lemma_mn_ext_large_room + lemma_mn_slack), product and exact division
    'int_memsize_gcd_ext_large': {'file': 'int_memsize_gcd_ext_large.rs', 'w32': True, 'rlimit': 200},
}

_K = 'kani/harness/int_memsize_model.rs'
KANI = {
    # backs the TRUSTED contracts of lib/mem_model.rs and math::ceil_log2 (lib/mem_req_stubs.rs) on the real code
    'int_memsize_model': {
        'package': 'dashu-int', 'target': 'integer/src/memory.rs', 'file': 'int_memsize_model.rs',
        'harnesses': {
            'vk_memsize_find_word': {'kind': 'complete', 'props': ['C01', 'C02', 'C16'],
                                     'domain': 'try_find_memory_for_slice::<u64>: all (start <= end, n) in usize^3'},
            'vk_memsize_find_u32': {'kind': 'complete', 'props': ['C01', 'C02', 'C16'],
                                    'domain': 'try_find_memory_for_slice::<u32>: all (start <= end, n) in usize^3'},
            'vk_memsize_find_u8': {'kind': 'complete', 'props': ['C01', 'C02', 'C16'],
                                   'domain': 'try_find_memory_for_slice::<u8>: all (start <= end, n) in usize^3'},
            'vk_memsize_alloc_fill': {'kind': 'bounded', 'props': ['C01', 'C02', 'C16'],
                                      'bound': 'real allocation of 6 Words; two nested allocate_slice_fill of symbolic '
                                               'sizes n + k <= 6, symbolic fill values'},
            'vk_memsize_alloc_copy': {'kind': 'bounded', 'props': ['C01', 'C02', 'C16'],
                                      'bound': 'real allocation of 6 Words; allocate_slice_copy / _copy_fill with symbolic '
                                               'lengths l <= n <= 6 and symbolic contents'},
            'vk_memsize_layout': {'kind': 'bounded', 'props': ['C01', 'C02', 'C16'],
                                  'bound': 'array_layout::<Word>(n) for every n <= isize::MAX / 8; add_layout / max_layout '
                                           'on sizes <= 2^40 and alignments in {1, 8}'},
            'vk_memsize_fresh': {'kind': 'bounded', 'props': ['C01', 'C02', 'C16'],
                                 'bound': 'three concrete layouts (zero_layout, 0 Words, 5 Words)'},
            'vk_memsize_ceil_log2': {'kind': 'complete', 'props': ['C01', 'C02', 'C16'],
                                     'domain': 'math::ceil_log2::<usize>: every x != 0'},
        },
    },
}

_UNDECIDED = [
    'scratch sizing is decided for multiplication / squaring (mul_ops.rs mul_large, square_large down to the kernels) and '
    'for division (div_ops.rs div_rem_in_lhs down to divide_conquer.rs) and for the gcd kernel lehmer::gcd_in_place; the '
    'gcd_ext / modular / pow / root / div_const / gcd_ops ext callers of memory_requirement_* still see an opaque Memory.  Two GENUINE DEFECTS were found there while '
    'writing the gcd contracts, both repaired since: MEM1 (UBig::gcd, 1d55bba) and MEM2 (modular inverse, 914fd28)',
    'div_rem_in_place_small_quotient and div_rem_unshifted_in_place are verified up to their last use of `memory` only '
    '(rule D20u: the value-dependent tails do not mention `memory`; they are proved in int_div_dc / int_div_ops)',
    'the capacity-tracking model lib/mem_model.rs is trusted (raw-pointer code of memory.rs; backed by the Kani group '
    'int_memsize_model); the thresholds 24 / 192 / 30 / 32 are the real constants in the units (rule E4) and literals in '
    'the spec functions need / sqr_need / div_need (a changed constant fails the proof)',
]

PROP_UNITS = {
    'C01': {'verus': ['int_memsize_kara', 'int_memsize_toom3', 'int_memsize_dispatch', 'int_memsize_req',
                      'int_memsize_mul_ops'],
            'kani': ['int_memsize_model'],
            'undecided': _UNDECIDED},
    # division: the resource clause of "a = q b + r ... for operands of every size class" / panic freedom of `/`, `%`
    'C02': {'verus': ['int_memsize_div', 'int_memsize_div_ops'], 'kani': ['int_memsize_model'], 'undecided': _UNDECIDED},
    'C12': {'verus': ['int_memsize_gcd', 'int_memsize_gcd_ops', 'int_memsize_gcd_ext', 'int_memsize_gcd_ext_ops',
                      'int_memsize_gcd_ext_large'],
            'undecided': ['gcd_ops.rs gcd_ext_large_dword / gcd_large_dword and the small arms use no scratch memory; root.rs '
                          'sqrt_rem (memory_requirement_sqrt_rem) still sees an opaque Memory']},
    'C13': {'verus': ['int_memsize_moddiv'],
            'undecided': ['scratch sizing of modular multiplication / powering (modular/mul.rs mul_memory_requirement, '
                          'modular/pow.rs): opaque Memory there']},
    'C16': {'kani': ['int_memsize_model'], 'undecided': _UNDECIDED},
}
