"""Integer text PARSING (C07, parsing half): integer/src/parse/{mod.rs, power_two.rs, non_power_two.rs}, unbounded in the
length of the text.

Spec vocabulary: contracts/lib/parse_spec.rs (dig_of, digits_value = positional value of a digit string, strip_us = the
text without '_' separators, text_ok / text_value), contracts/lib/parse_api_spec.rs (sign / prefix grammar, body_result).
Lemma libraries: parse_lemmas.rs (digits per word, usize shifts, radix powers), parse_p2_lemmas.rs (bit packing).
Trusted: parse_stubs.rs (digit_from_ascii_byte / radix_info / is_radix_valid = what the complete Kani harnesses of group
int_radix prove; UBig from Word, * and + exact; split_last, contains), parse_str.rs (string model on bytes).
Helpers of the lowering rules D1e / D15b / D15c (verified in the units): parse_rchunks.rs, parse_str_all.rs, parse_filter.rs.
Annotated copies: contracts/annot/integer/parse/."""

VERUS = {
    # parse/non_power_two.rs parse_word (value == positional value of the bytes, Err(InvalidDigit) iff a byte is not a digit of
    # the radix, no Word overflow for len <= digits_per_word), parse_chunk (rchunks groups, Horner with range_per_word),
    # parse_large_divide_conquer (hi * radix^|lo| + lo), parse_large (radix powers by squaring, shift arithmetic),
    # parse ('_' stripping + size dispatch)
    'int_parse_npt': {'file': 'int_parse_npt.rs', 'w32': True},
    # parse/power_two.rs parse_word (<= floor(WORD_BITS / log2 radix) characters), parse_large (digits packed into words across
    # word boundaries, buffer room), parse (single-word fast path only for floor(..) digits)
    'int_parse_p2': {'file': 'int_parse_p2.rs', 'w32': True},
    # parse/mod.rs: sign, radix prefix, NoDigits / InvalidDigit / UnsupportedRadix, leading zeros, dispatch by radix class for
    # UBig / IBig from_str_radix, from_str_with_radix_default, from_str_with_radix_prefix, FromStr
    'int_parse_api': {'file': 'int_parse_api.rs', 'w32': True},
}

PROP_UNITS = {
    'C07': {'verus': ['int_parse_npt', 'int_parse_p2', 'int_parse_api'],
            'undecided': [
                'parsing (units int_parse_npt / int_parse_p2 / int_parse_api): &str is a MODEL (contracts/lib/parse_str.rs: an '
                'opaque type whose content is its UTF-8 bytes, with the contracts of len / as_bytes / strip_prefix(ASCII '
                'pattern) / bytes().all); the radix tables and the digit decoder are seen through the contracts that the '
                'complete Kani harnesses of group int_radix prove (64-bit words; the 32-bit tables are assumed alike); UBig '
                'multiplication / addition / pow / From<Word>, Buffer and Repr::from_buffer / with_sign are stub contracts '
                '(C01 / C17 units); slice::rchunks, Iterator copied/filter/collect and bytes().all are replaced by helper '
                'functions that are verified against the documented meaning of the core iterators (rules D1e, D15b, D15c)',
                'parsing: resource preconditions -- the text has at most Buffer::MAX_CAPACITY (usize::MAX / WORD_BITS) bytes; '
                'allocation failure / the documented "number to be parsed is too large" panic beyond that is not modelled',
                'parsing: from_str_with_radix_default / from_str_with_radix_prefix_no_sign are under contract only for '
                '2 <= default_radix <= 36: the code does not validate default_radix and panics outside that range (text '
                'without prefix) instead of returning Err(UnsupportedRadix) -- reported defect, not claimed',
                'the round trip "format then parse is the identity" is not stated as one theorem: the printing units state '
                '"the digits written are the positional digits of the value" with dval (lib/codecs_digit_lemmas.rs, digit '
                'VALUES), the parsing units "the value is the positional value of the digit CHARACTERS" with digits_value; '
                'the digit-value <-> ASCII step of the printer (DigitWriter) is only covered by Kani (int_radix / int_fmt_p2)']},
}
