"""Rational units, second batch: remainder / Euclidean arms, mixed integer arms, comparison, float conversion
(units ratio_rem, ratio_int_ops, ratio_cmp, ratio_from_float).  Only units that fully verify are listed.

Trusted base added by these units (on top of contracts/lib/bigstub.rs + ratio_types.rs, see ratio_sign.py):
  contracts/lib/ratio2_stubs.rs   IBig % &UBig (truncating remainder, sign of the dividend, zero divisor panics);
                             UBig - UBig / &UBig (exact, negative result panics); From<UBig> for IBig (value kept);
                             core `impl<T> From<T> for T` is the identity (for (IBig, UBig) pairs);
                             DivEuclid / RemEuclid / DivRemEuclid for IBig (x == q*y + r, 0 <= r < |y|, zero divisor panics);
                             IBig +/- UBig, UBig - IBig (exact, IBig result); UBig * Sign (IBig).
  contracts/lib/ratio2_cmp_stubs.rs  UBig/IBig::bit_len = blen(|v|), a function about which only the enclosure
                             2^(k-1) <= |v| < 2^k (0 for zero) is assumed, and bit_len <= isize::MAX/2 (operand-size
                             assumption); isize::abs_diff; AbsEq for IBig; Ord for IBig; &IBig * &UBig.
  contracts/lib/ratio2_float_stubs.rs  dashu_float::Repr<B> abstract (sig, exp; is_infinite, into_parts); ConversionError
                             mirrored; UBig::from_word, UBig::pow (exact power); `Repr::try_from(FBigRepr)` as seen by the
                             macro-generated callers carries the predicate float_to_repr_post that the real body is proved
                             against in the same unit.
  contracts/lib/ratio2_pow_stubs.rs  UBig::{sqr, cubic}, IBig::{sqr (a UBig), cubic, pow}: exact powers.
  contracts/lib/ratio2_eq_stubs.rs  (unit ratio_eq only, instead of bigstub) UBig/IBig abstract with `==` comparing
                             the values, IBig::abs_eq comparing magnitudes; Repr/RBig/Relaxed struct mirrors.
  contracts/lib/ratio2_ctor_stubs.rs  IBig::from_parts_const, UBig::from_dword (value of the double word, signed);
                             RBig::ZERO / Relaxed::ZERO are 0/1; u128::trailing_zeros (2^r divides n, r < 128 for n != 0).
  contracts/lib/ratio2_inv_stubs.rs  Inverse trait mirrored; `Inverse for Repr` with the contract proved in unit ratio_inv
                             (second copy of that text); Clone for Repr keeps both parts.
`%` is specified as dashu-ratio documents and tests it (rational/tests/div.rs: -1/2 % 1/3 == 1/6): the remainder of the
division with the quotient rounded to the nearest integer, ties away from zero (|r| <= |rhs|/2) -- NOT the truncating
remainder.
"""
VERUS = {
    'ratio_rem': {'file': 'ratio_rem.rs', 'w32': False},
    'ratio_int_ops': {'file': 'ratio_int_ops.rs', 'w32': False},
    'ratio_cmp': {'file': 'ratio_cmp.rs', 'w32': False},
    'ratio_from_float': {'file': 'ratio_from_float.rs', 'w32': False},
    'ratio_pow': {'file': 'ratio_pow.rs', 'w32': False},
    'ratio_eq': {'file': 'ratio_eq.rs', 'w32': False},
    'ratio_ctor': {'file': 'ratio_ctor.rs', 'w32': False},
    'ratio_inv_fwd': {'file': 'ratio_inv_fwd.rs', 'w32': False},
}

PROP_UNITS = {
    'C04': {'verus': ['ratio_rem', 'ratio_int_ops', 'ratio_from_float', 'ratio_pow', 'ratio_ctor', 'ratio_inv_fwd'],
            'undecided': ['Inverse for RBig / &RBig / Relaxed / &Relaxed: proved over the contract of Inverse for Repr (unit '
                          'ratio_inv), which lib/ratio2_inv_stubs.rs repeats for the callers',
                          'constructors: RBig/Relaxed from_parts_signed and from_parts_const (the const Euclid loop on double '
                          'words, unbounded proof) are proved exact and, for RBig, canonical; the constants ZERO/ONE/NEG_ONE, '
                          'from_static_words, Clone/Default and the parsers are not under contract',
                          'sqr / cubic / pow of Repr, RBig, Relaxed: proved (numerator and denominator are the exact powers, '
                          'canonical operands give canonical results) over the stub contracts of IBig/UBig sqr, cubic, pow',
                          'TryFrom<dashu_float::Repr<B>> for Repr / RBig / Relaxed: proved (exact value m * B^e, RBig canonical, '
                          'infinities -> OutOfBounds) for any base B >= 2 and exponent > isize::MIN; the instances are bound to '
                          'the real invocations forward_conversion_to_repr!(RBig, reduce) / (Relaxed, reduce2); the one-line '
                          'forwardings TryFrom<FBig<R, B>> (`value.into_repr().try_into()`) and From<Repr/RBig/Relaxed> for FBig '
                          '(a rounding division, C03) are not under contract',
                          'RBig/Relaxed op UBig/IBig and UBig/IBig op RBig/Relaxed (+ - * /): all 12 arms proved for the '
                          'by-value forwarding of impl_binop_with_int! with i: UBig and i: IBig (24 instances); the '
                          'by-reference forwardings clone the parts and run the same arm text, not instantiated',
                          'RBig/Relaxed `%`, div_euclid, rem_euclid, div_rem_euclid: proved for the by-value forwarding '
                          '(owned a, b, c, d); the three by-reference forwardings run the same arm text on &IBig/&UBig '
                          'operands and are not instantiated',
                          '`%` by zero / Euclidean forms by zero: the panic is the precondition of the proved contracts '
                          '(it happens inside the stubbed IBig %, rem_euclid, div_rem_euclid or at the explicit guard)']},
    'C05': {'verus': ['ratio_cmp', 'ratio_eq', 'ratio_from_float', 'ratio_reduce'],
            'undecided': ['rational == / cmp / abs_eq / abs_cmp: repr_eq and repr_cmp (both ABS instances) are proved to '
                          'return the equality / order of the cross products a*d, c*b for ANY positive denominators '
                          '(so also for non-reduced Relaxed values; cmp returns Equal exactly when == holds); the one-line '
                          'forwardings (PartialEq/Ord for Repr, derive on Relaxed/RBig, forward_abs_ord_*) are not under contract',
                          'bit lengths are cast `as isize` and added: proved free of overflow only under the stub assumption '
                          'bit_len <= isize::MAX / 2 (Buffer::MAX_CAPACITY alone allows up to usize::MAX bits)',
                          'PartialEq for RBig / AbsEq for RBig (component-wise): proved to hold exactly when the cross products '
                          'are equal for canonical operands (unit ratio_eq, uniqueness of the canonical form: '
                          'lemma_canonical_unique); Hash for RBig hashes the same two components, so equal values hash '
                          'equally given that equal integers do (integer layer) -- the Hasher itself is not modelled',
                          'repr_cmp_ubig / repr_cmp_ibig / repr_cmp_fbig (comparison with integers and floats through '
                          'f32 log2_bounds estimates): not under contract']},
    'C16': {'verus': ['ratio_rem', 'ratio_int_ops', 'ratio_from_float', 'ratio_pow', 'ratio_ctor', 'ratio_inv_fwd'], 'undecided': []},
}
