"""Rational units, second batch: remainder / Euclidean arms, mixed integer arms, comparison, float conversion
(units ratio_rem, ratio_int_ops, ratio_cmp, ratio_from_float).  Only units that fully verify are listed.

Trusted base added by these units (on top of contracts/lib/bigstub.rs + ratio_types.rs, see ratio_sign.py):
  contracts/lib/ratio2_stubs.rs   IBig % &UBig (truncating remainder, sign of the dividend, zero divisor panics);
                             UBig - UBig / &UBig (exact, negative result panics); From<UBig> for IBig (value kept);
                             core `impl<T> From<T> for T` is the identity (for (IBig, UBig) pairs);
                             DivEuclid / RemEuclid / DivRemEuclid for IBig (x == q*y + r, 0 <= r < |y|, zero divisor panics);
                             IBig +/- UBig, UBig - IBig (exact, IBig result); UBig * Sign (IBig).
`%` is specified as dashu-ratio documents and tests it (rational/tests/div.rs: -1/2 % 1/3 == 1/6): the remainder of the
division with the quotient rounded to the nearest integer, ties away from zero (|r| <= |rhs|/2) -- NOT the truncating
remainder.
"""
VERUS = {
    'ratio_rem': {'file': 'ratio_rem.rs', 'w32': False},
    'ratio_int_ops': {'file': 'ratio_int_ops.rs', 'w32': False},
}

PROP_UNITS = {
    'C04': {'verus': ['ratio_rem', 'ratio_int_ops'],
            'undecided': ['RBig/Relaxed op UBig/IBig and UBig/IBig op RBig/Relaxed (+ - * /): all 12 arms proved for the '
                          'by-value forwarding of impl_binop_with_int! with i: UBig and i: IBig (24 instances); the '
                          'by-reference forwardings clone the parts and run the same arm text, not instantiated',
                          'RBig/Relaxed `%`, div_euclid, rem_euclid, div_rem_euclid: proved for the by-value forwarding '
                          '(owned a, b, c, d); the three by-reference forwardings run the same arm text on &IBig/&UBig '
                          'operands and are not instantiated',
                          '`%` by zero / Euclidean forms by zero: the panic is the precondition of the proved contracts '
                          '(it happens inside the stubbed IBig %, rem_euclid, div_rem_euclid or at the explicit guard)']},
    'C16': {'verus': ['ratio_rem', 'ratio_int_ops'], 'undecided': []},
}
