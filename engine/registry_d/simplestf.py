"""C18 simplest_from_float / simplest_from_f32 / simplest_from_f64 (agent unitsf).  See the end of this file for notes."""
VERUS = {
    'ratio_sf_ebounds': {'file': 'ratio_sf_ebounds.rs', 'w32': False},
    'ratio_simplest_from_float': {'file': 'ratio_simplest_from_float.rs', 'w32': False},
}
_B = 'one concrete float per harness: '
KANI = {
    'ratio_sf_pow2': {
        'package': 'dashu-ratio', 'target': 'rational/src/simplify.rs', 'file': 'ratio_sf_pow2.rs',
        'harnesses': {
            'vk_ratio_sf_pow2_f32_2p24': {'kind': 'bounded', 'bound': _B + '2^24 (f32)'},
            'vk_ratio_sf_pow2_f32_m2p24': {'kind': 'bounded', 'bound': _B + '-2^24 (f32)'},
            'vk_ratio_sf_pow2_f32_2p25': {'kind': 'bounded', 'bound': _B + '2^25 (f32)'},
            'vk_ratio_sf_pow2_f32_2p26': {'kind': 'bounded', 'bound': _B + '2^26 (f32)'},
            'vk_ratio_sf_pow2_f32_2p24_next': {'kind': 'bounded', 'bound': _B + '2^24 + 2 (f32)'},
            'vk_ratio_sf_pow2_f32_one': {'kind': 'bounded', 'bound': _B + '1.0 (f32)'},
            'vk_ratio_sf_pow2_f32_half': {'kind': 'bounded', 'bound': _B + '0.5 (f32)'},
            'vk_ratio_sf_pow2_f64_2p54': {'kind': 'bounded', 'bound': _B + '2^54 (f64)'},
            'vk_ratio_sf_pow2_f64_m2p54': {'kind': 'bounded', 'bound': _B + '-2^54 (f64)'},
            'vk_ratio_sf_pow2_f64_2p55': {'kind': 'bounded', 'bound': _B + '2^55 (f64)'},
            'vk_ratio_sf_pow2_f64_one': {'kind': 'bounded', 'bound': _B + '1.0 (f64)'},
            'vk_ratio_sf_pow2_model_f32': {'kind': 'complete', 'domain': 'all 2^32 f32 bit patterns'},
            'vk_ratio_sf_pow2_model_f64': {'kind': 'complete', 'domain': 'all 2^64 f64 bit patterns'},
        },
    },
}
PROP_UNITS = {
    'C18': {'verus': ['ratio_sf_ebounds', 'ratio_simplest_from_float'], 'kani': ['ratio_sf_pow2'], 'undecided': []},
}
