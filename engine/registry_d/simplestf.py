"""C18: RBig::simplest_from_float, RBig::simplest_from_f32 / simplest_from_f64 (agent unitsf).

ratio_sf_ebounds (contracts/units/ratio_sf_ebounds.rs): float/src/round.rs `impl ErrorBounds for mode::{Zero, Away, Up, Down,
  HalfAway, HalfEven}` -- own annotated copies (annot/rational/simplestf/eb_*.rs) of the six functions of units
  float_error_bounds(+_halfeven), same contract eb_post (EXACTLY the reals that round to f) STRENGTHENED by eb_shape
  (lib/sf_shape.rs): each returned bound has a ONE-digit significand 0 <= s < B, is finite, and carries the precision of f
  (FBig::ZERO: precision 0).  Needed by the caller for `bound.with_precision(p + 1).unwrap()` and for the exactness of f -/+ bound.

ratio_simplest_from_float: rational/src/third_party/dashu_float.rs `RBig::simplest_from_float<R: ErrorBounds, const B: Word>(f)`
  + the real `Approximation::unwrap` (base/src/approx.rs; `total`: the panic on Inexact is unreachable).
  requires B >= 2, sf_domain(f): f infinite, or zero, or eb_domain (EVEN base, limited precision p >= 1, normalized significand with
    at most p digits, exponent arithmetic inside isize) + precision / exponents inside the resource limit 2^56 of FBig +/- (as
    add_ranges of unit float_add).  ODD BASES ARE EXCLUDED (known finding, registry_d/findings.py: half an ulp is not
    representable, simplest_from_float(0.1 base 3, 1 digit, HalfAway) = 1/2); unlimited precision (p == 0) is outside too.
  ensures  infinite => None;  zero => Some(0/1);  otherwise Some(r) with sf_post(R::md(), B, sig, exp, p, r):
    r canonical (wf_ratio), in_round_set(r) -- r ROUNDS TO f under mode R at precision p, by the DEFINITION of the modes
    (round_def on the grid of r's own binade: rounds_on_grid of lib/ebounds_lemmas.rs; the code's interval is not part of the
    statement) -- and for ALL fractions qn/qd (qd >= 1, canonical or not) that round to f: !simpler(q, r) (documented order:
    denominator, |numerator|, positive before negative; the `simpler` RBig::is_simpler_than is proved against).
  ErrorBounds is a trait with ONE contract stated through the ghost mode Self::md(); it is NOT trusted: six forwarding impls call
  the six hoisted real functions (SIG from the copies proved in ratio_sf_ebounds), so Verus checks trait contract <= each impl.
  Proof outline (lib/sf_lemmas.rs): the interval bounds are unique for the set they describe (lemma_eb_unique: they are the
  values eb_table derives from the definition of the modes), hence f -/+ bound has a representation S * B^E with |S| <= B^(p+1)
  (lemma_endpoint) => the trusted exactness clause of FBig -/+ applies => left/right are the exact end points; membership
  in_round_set <=> flagged interval (lemma_member); selection lemma (lemma_pick: interior candidate of simplest_in, then the
  inclusive end points).

ratio_simplest_prim: rational/src/simplify.rs `RBig::simplest_from_f32`, `RBig::simplest_from_f64` with the macro
  impl_simplest_from_float inlined from its own annotated arm (rule E3d `minline=`, variant tags [f32]/[f64]).
  ensures  NaN / infinite (exponent field all ones) => None;  +-0.0 => Some(0/1);  otherwise Some(r) with
    prim_post(fmt, fields(f), r): r canonical, prim_round_set(r), and no fraction in prim_round_set is simpler.
    prim_round_set (lib/sf_prim_lemmas.rs) is IEEE round-to-nearest-even on the grid of the float's neighbours, from the
    bit fields: f = m * 2^e (the pair `decode` returns), neighbour spacing 2^e, halved below f when f is the bottom of a normal
    binade above the first (frac == 0, eb > 1), ties to the even significand -- rounds_on_grid(HalfEven, m, g, ..), b = 2.
    The masks on to_bits() are tied to the fields (/, %) by `by (bit_vector)` lemmas (lemma_prim_bits32/64).
ratio_sf_from_prim: rational/src/convert.rs macro impl_conversion_from_float `impl TryFrom<f32/f64> for Repr` (callee of the macro
  above): NaN / infinities => Err(OutOfBounds); +-0.0 => 0/1; otherwise the UNREDUCED m * 2^max(e,0) / 2^max(-e,0) (prim_from_post).

Kani group ratio_sf_pow2 (kani/harness/ratio_sf_pow2.rs, target rational/src/simplify.rs):
  BOUNDED: simplest_from_f32 / _f64 on ONE CONCRETE float per harness (+-2^24, 2^25, 2^26, 2^24+2, 1.0, 0.5 / +-2^54, 2^55, 1.0)
  against an independent i128 oracle (neighbouring bit patterns -> midpoints -> brute-force simplest fraction); catches the
  seeded mask change natively replayable.  COMPLETE: vk_ratio_sf_pow2_model_f32 / _f64 (all bit patterns, loop-free): the IEEE
  meaning of is_nan / is_infinite / == 0. / > 0. / != +-MIN_POSITIVE / unary minus / MANTISSA_DIGITS that ratio_simplest_prim
  assumes (as far as CBMC's float model goes).

TRUSTED beyond the libs of units float_error_bounds / float_conv / ratio_simplest (round_int_stubs, conv_*_stubs, ebounds_stubs):
 contracts/lib/sf_stubs.rs  `&FBig - FBig`, `&FBig + FBig` (float/src/add.rs add_ref_val): from the PROPERTY STATEMENT C03 -- result
   precision max(p_l, p_r); finite; normalized with exponent >= min of the operand exponents (or (0,0)); and IF the exact
   difference / sum equals S * B^E with |S| <= B^P THEN the result is that number (ax_fbig_sub / ax_fbig_add).  Units
   float_add(_ops) prove "correctly rounded at SOME unit" only ("representable in p digits => Exact" is listed there as not
   proved); confirmed natively on a sweep (6 modes, bases 2/4/6/10/16, p <= 4, all significands, exponents -4..4).
   req: finite operands + resource limits 2^56.
 contracts/lib/sf_ratio_stubs.rs  RBig::ZERO == 0/1; Clone for RBig keeps the value; RBig::is_int (only for changed code);
   `TryFrom<FBig<R,B>> for RBig` (macro forward_conversion_to_repr, third impl: `Repr::try_from(value.into_repr())` + reduce):
   infinite => Err(OutOfBounds), else Ok(canonical fraction == sig * B^exp) for B >= 2, exponent > isize::MIN -- RESTATES what unit
   ratio_from_float proves for `TryFrom<FBigRepr<B>> for RBig` (second impl of the same macro, same body) for the FBig wrapper.
 contracts/lib/sf_spec.rs  `simpler`: verbatim copy of lib/ratio_types.rs (cannot be included next to round_int_stubs.rs).
 contracts/lib/sf_prim_stubs.rs  f32/f64: to_bits == to_bits_spec; is_nan / is_infinite through the fields; MANTISSA_DIGITS 24/53;
   MIN_POSITIVE bits 0x00800000 / 0x0010000000000000; __fneg_f32/64 (rule D28) flips the sign bit; ==, !=, > on floats are the
   IEEE predicates (ieee_eq, ieee_pos; `>` only against a zero) -- all ten checked by the complete Kani model harnesses;
   ShlAssign<usize> for IBig/UBig, Shl<usize> for IBig/&IBig: multiplication by 2^n.
 contracts/lib/sf_from_prim_stubs.rs  UBig::ZERO/ONE; UBig::set_bit(n) adds 2^n to a value below 2^n.
 `decode` (lib/conv_from_prim_stubs.rs): proved by Kani group base_bit.
"""
VERUS = {
    'ratio_sf_ebounds': {'file': 'ratio_sf_ebounds.rs', 'w32': False},
    'ratio_simplest_from_float': {'file': 'ratio_simplest_from_float.rs', 'w32': False},
    'ratio_simplest_prim': {'file': 'ratio_simplest_prim.rs', 'w32': False},
    'ratio_sf_from_prim': {'file': 'ratio_sf_from_prim.rs', 'w32': False},
}
_B = 'one concrete float per harness: '
KANI = {
    'ratio_sf_pow2': {
        'package': 'dashu-ratio', 'target': 'rational/src/simplify.rs', 'file': 'ratio_sf_pow2.rs',
        'harnesses': {
            'vk_ratio_sf_pow2_f32_2p24': {'kind': 'bounded', 'bound': _B + '2^24 (f32)'},
            'vk_ratio_sf_pow2_f32_m2p24': {'kind': 'bounded', 'bound': _B + '-2^24 (f32)'},
            'vk_ratio_sf_pow2_f32_2p25': {'kind': 'bounded', 'bound': _B + '2^25 (f32)'},
            'vk_ratio_sf_pow2_f32_2p26': {'kind': 'bounded', 'bound': _B + '2^26 (f32)'},
            'vk_ratio_sf_pow2_f32_2p24_next': {'kind': 'bounded', 'bound': _B + '2^24 + 2 (f32)'},
            'vk_ratio_sf_pow2_f32_one': {'kind': 'bounded', 'bound': _B + '1.0 (f32)'},
            'vk_ratio_sf_pow2_f32_half': {'kind': 'bounded', 'bound': _B + '0.5 (f32)'},
            'vk_ratio_sf_pow2_f64_2p54': {'kind': 'bounded', 'bound': _B + '2^54 (f64)'},
            'vk_ratio_sf_pow2_f64_m2p54': {'kind': 'bounded', 'bound': _B + '-2^54 (f64)'},
            'vk_ratio_sf_pow2_f64_2p55': {'kind': 'bounded', 'bound': _B + '2^55 (f64)'},
            'vk_ratio_sf_pow2_f64_one': {'kind': 'bounded', 'bound': _B + '1.0 (f64)'},
            'vk_ratio_sf_pow2_model_f32': {'kind': 'complete', 'domain': 'all 2^32 f32 bit patterns'},
            'vk_ratio_sf_pow2_model_f64': {'kind': 'complete', 'domain': 'all 2^64 f64 bit patterns'},
        },
    },
}
PROP_UNITS = {
    'C18': {'verus': ['ratio_sf_ebounds', 'ratio_simplest_from_float', 'ratio_simplest_prim', 'ratio_sf_from_prim'],
            'kani': ['ratio_sf_pow2'],
            'undecided': ['simplest_from_float: proved for EVEN bases and limited precision (odd bases: known finding; unlimited '
                          'precision outside the contract); the exactness of FBig -/+ on representable results and the exponent '
                          'lower bound of their result are ASSUMED from the C03 statement (unit float_add proves rounding at some '
                          'unit only)',
                          'simplest_from_f32/f64: the IEEE meaning of the core float comparisons / constants is assumed in Verus '
                          '(checked by the complete Kani harnesses vk_ratio_sf_pow2_model_*)']},
}
