"""Large-number printing in a non-power-of-two radix, the double-word printer, the core::fmt layout code and the
end-to-end statement for InRadixWriter::fmt_non_power_two (C07).

Annotated copies: contracts/annot/integer/fmt_large/.  Vocabulary: contracts/lib/fmtl_stubs.rs (value contracts of the
Repr / TypedReprRef operations PreparedLarge calls; level_pow / chunks_value / large_inv / large_value / emitted),
fmtl_lemmas.rs, fmtl_dword_lemmas.rs, fmtl_iter.rs (helper of rule D22, verified), fmtl_fmt_stubs.rs (ghost-output model of
core::fmt::Formatter and DigitWriter, trait PreparedForFormatting with its contract, `layout`), fmtl_fmt_types.rs,
fmtl_e2e.rs (trait impls = trusted link, `positional`).  Lowering rules D22-D25 (engine/lower.py, DESIGN.md 3.2)."""

VERUS = {
    # PreparedLarge::new: radix_powers[k] == radix^((digits_per_word*CHUNK_LEN) << k) (built by squaring; the length
    # shortcut `2*prev.len() - 1 > number.len()` implies prev^2 > number), every big chunk (level, r) has r < power(level),
    # the structure STANDS FOR THE NUMBER (chunks_value == number), top chunk >= 1 and without leading zero
    'int_fmt_large_new': {'file': 'int_fmt_large_new.rs', 'w32': True},
    # PreparedLarge::write_chunk / write_big_chunk / write: exactly (digits_per_word*CHUNK_LEN) << i digits per chunk
    # (zero padded), in total large_digits (= width()) digits below the radix whose positional value is large_value
    'int_fmt_large_write': {'file': 'int_fmt_large_write.rs', 'w32': True},
    # PreparedDword::new (3-part division, closure get_digit inlined by rule D24): stored digits are the positional digits
    # of the double word, no leading zero; PreparedDword::write passes exactly digits[start_index..] to the writer
    'int_fmt_dword': {'file': 'int_fmt_dword.rs', 'w32': True},
    # PreparedMedium::new with one more postcondition than in int_fmt_digits: low groups present ==> top group non-zero
    'int_fmt_medium_lead': {'file': 'int_fmt_medium_lead.rs', 'w32': True},
    # InRadixWriter::format_prepared against the ghost-output Formatter model: out == pre + layout(sign, prefix, digits,
    # width / fill / alignment / zero flag) -- which branch is taken and every padding length
    'int_fmt_layout': {'file': 'int_fmt_layout.rs', 'w32': True},
    # DoubleEnd::format_prepared (Debug form): sign, high digits, [".." low digits], [" (digits: D, bits: B)"]
    'int_fmt_layout_debug': {'file': 'int_fmt_layout_debug.rs', 'w32': True},
    # InRadixWriter::fmt_non_power_two end to end over the PROVED contracts of the four constructors and of
    # format_prepared: the formatter receives sign, prefix and exactly the positional digits of the magnitude (no leading
    # zero except for zero), padded as requested
    'int_fmt_e2e': {'file': 'int_fmt_e2e.rs', 'w32': True},
}

PROP_UNITS = {
    'C07': {'verus': ['int_fmt_large_new', 'int_fmt_large_write', 'int_fmt_dword', 'int_fmt_medium_lead', 'int_fmt_layout',
                      'int_fmt_layout_debug', 'int_fmt_e2e'],
            'undecided': [
                'non-power-of-two printing, what is still ASSUMED after units int_fmt_large_* / int_fmt_dword / int_fmt_layout / '
                'int_fmt_e2e (these supersede the first two clauses of this list): (1) the value contracts of the big-integer '
                'operations PreparedLarge calls (lib/fmtl_stubs.rs: Repr::len / as_typed / into_typed / from_word, '
                'TypedReprRef ordering, div_rem of TypedReprRef / TypedRepr by TypedReprRef = dispatch over kernels proved in '
                'int_div_ops, mem::take); pow / sqr come by SIG from int_pow / int_mul_ops; (2) the ghost-output model of '
                'core::fmt::Formatter and of DigitWriter (lib/fmtl_fmt_stubs.rs: flag accessors, write_str / write_char append, '
                'a DigitWriter passes the digits written to it on to its formatter; prophecy resolved by flush) -- the documented '
                'behaviour, not checked against core; (3) the LINK between the contract of trait PreparedForFormatting and the '
                'concrete contracts proved for PreparedWord / Medium / Large :: {width, write} (lib/fmtl_e2e.rs, external_body '
                'trait impls; the frame "an implementation touches the writer only through DigitWriter::write" is by '
                'inspection); (4) resource '
                'preconditions: magnitude length + 1 < Buffer::MAX_CAPACITY, prefix ASCII of at most 2 characters',
                'parsing the printed text back (the last clause of C07) is not connected to the printer: the non-power-of-two '
                'parsers are not under contract; the printer side is decided as "the digit string is THE positional '
                'representation" (unique), which is what a correct parser inverts',
                'InRadixWriter::fmt_power_two / DoubleEnd::fmt_non_power_two (log / division glue selecting the head and tail '
                'digits of the Debug form) are not under contract; DoubleEnd::format_prepared takes write_usize_decimals and '
                'bit_len as named values (proved elsewhere: PreparedWord::new, int_bits)']},
}
