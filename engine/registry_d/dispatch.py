"""Representation-level dispatch of + - * pow (integer/src/add_ops.rs, mul_ops.rs, pow.rs) over the verified slice
kernels, with Buffer / Repr as external_body stubs (contracts/lib/repr_stubs.rs: every contract there is TRUSTED and
states what the real method of integer/src/buffer.rs / repr.rs does; file:line next to each)."""
VERUS = {
    # add_ops::repr::{add_dword, add_large_dword, add_large, add_large_one, sub_large_one, sub_dword, sub_large_dword,
    # sub_large, sub_large_ref_val}: ret.v() == a + b / a - b (unsigned a - b under a >= b: panic helper unreachable);
    # `impl Add/Sub<TypedRepr(Ref)> for TypedRepr(Ref)` (8 match dispatches, rule D2) and add_one / sub_one (4 methods):
    # ret.v() == self.v() +- rhs.v() for well-formed operands (Large = >= 3 words, top word non-zero).
    'int_add_ops': {'file': 'int_add_ops.rs', 'w32': True},
    # add_ops::repr_signed::{sub_dword, sub_large_dword, sub_large} and the 4 `impl SubSigned` dispatches:
    # ret.v() == a - b as a SIGNED value
    'int_add_ops_signed': {'file': 'int_add_ops_signed.rs', 'w32': True},
    # must-panic half: under a < b, repr::{sub_dword, sub_large, sub_large_ref_val} and the 4 `impl Sub` dispatches have
    # no normal return
    'int_add_ops_panic': {'file': 'int_add_ops_panic.rs', 'w32': True},
    # mul_ops::repr::{mul_dword, mul_dword_spilled, mul_large_dword, mul_large, square_dword_spilled, square_large},
    # TypedReprRef::sqr and the 4 `impl Mul` dispatches: ret.v() == a * b.  mul_large / square_large are glue over the
    # the contracts of mul::multiply / sqr::sqr (PROVED in units int_mul_dispatch / int_sqr since round 1 late), mul_large_dword's double-word
    # path over the contract of mul::mul_dword_in_place (PROVED in unit int_mul_dword); primitive::shrink_dword is proved.
    'int_mul_ops': {'file': 'int_mul_ops.rs', 'w32': True},
    # pow::repr::{pow_word_base, pow_dword_base, pow_large_base} (left-to-right square-and-multiply loops: invariant
    # val(res) == base^(2*(exp >> (p+1))), length/capacity bounds; all shortcuts of pow_word_base) and TypedReprRef::pow
    # (dispatch): ret.v() == base^exp (spec ipow).  Via SIG (proved elsewhere): sqr::sqr, mul::mul_dword_in_place; assumed: math::max_exp_in_word
    # (SIG-only copies), bit_len, Word::pow, set_bit on zero, usize::div_rem (lib/pow_stubs.rs).
    'int_pow': {'file': 'int_pow.rs', 'w32': True},
    # macro arms impl_ibig_add / impl_ibig_sub / impl_ibig_mul (rule E3, 4 owned|borrowed combinations each) over the
    # hoisted magnitude dispatches: result == (+-mag0) op (+-mag1) as signed integers; Sign * Sign (base/src/sign.rs)
    'int_ops_sign': {'file': 'int_ops_sign.rs', 'w32': True},
    # UBig::pow / IBig::pow: factor-2 removal ((v >> t)^exp << (exp*t)) and sign parity; ret == self^exp.  Resource
    # precondition pow_fits (result fits the allocation limit): beyond it `exp * shift` wraps in release builds (finding).
    'int_pow_api': {'file': 'int_pow_api.rs', 'w32': True},
}

PROP_UNITS = {
    'C01': {'verus': ['int_add_ops', 'int_add_ops_signed', 'int_add_ops_panic', 'int_mul_ops', 'int_pow', 'int_ops_sign', 'int_pow_api'],
            'undecided': ['UBig/IBig sqr, cubic wrappers and the primitive-operand operator forms are not under contract',
                          'math::max_exp_in_word, bit_len, Word::pow, set_bit, trailing_zeros, >>, << : contracts assumed by int_pow / int_pow_api',
                          'mul::multiply, sqr::sqr, mul::mul_dword_in_place: proved in units int_mul_dispatch/int_sqr/int_mul_dword (SIG); cmp::cmp_in_place: contract assumed by '
                          'int_mul_ops (bodies not verified); scratch-memory sizing (memory_requirement_*) not verified',
                          'Buffer/Repr method contracts of lib/repr_stubs.rs are assumed (raw-pointer code)',
                          'resource preconditions: operand lengths below Buffer::MAX_CAPACITY (allocation limit)']},
    'C16': {'verus': ['int_add_ops', 'int_add_ops_signed', 'int_add_ops_panic', 'int_mul_ops', 'int_pow', 'int_ops_sign', 'int_pow_api']},
    'C19': {'verus': ['int_add_ops', 'int_add_ops_signed', 'int_add_ops_panic', 'int_mul_ops', 'int_pow', 'int_ops_sign', 'int_pow_api']},
}
