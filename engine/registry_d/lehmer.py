"""Lehmer gcd (integer/src/gcd/lehmer.rs + the two entry points of integer/src/gcd/mod.rs), C12.  Annotated copies:
contracts/annot/integer/lehmer/, vocabulary + lemmas: contracts/lib/leh_*.rs.  Bottom-up, one small unit per layer; upper layers see
the lower ones through //@@ SIG.  (Found while building: lehmer_guess tested `t + r > xbar - c` in its second half step; Jebelean's
condition is `xbar - b`; gcd_ext returned wrong cofactors -- repaired in /repo 0fb363c, the exact condition is now part of the contract.)"""
VERUS = {
    # lehmer_guess / lehmer_guess_dword: leh_guess_post -- determinant a*d - b*c == 1, 1 <= a, d and b, c <= SignedWord::MAX, identity on
    # failure (b == 0), Lehmer / Jebelean margins  a*X - b*Y >= b,  d*Y - c*X >= c,  a*X - b*Y + a <= Y,  d*Y - c*X + d <= Y
    # (==> lemma_leh_apply: for EVERY (x, y) with leading parts (X, Y): 1 <= a x - b y <= y, 1 <= d y - c x <= y), and leh_guess_exact:
    # the row updated last satisfies Jebelean's EXACT condition (==> the two results are consecutive Euclid remainders, their order
    # is known: lemma_leh_order / lemma_leh_order2); no overflow in the word arithmetic of the loop, termination
    'int_leh_guess': {'file': 'int_leh_guess.rs', 'w32': True},
    # lehmer_step: val(x') == a x - b y, val(y') == d y - c x (given 0 <= both < B^len(y): from lemma_leh_apply), all debug assertions
    # incl. `y_carry == c * x_top`, `cx == 0`; lehmer_ext_step: valn(x', len) + carry0 * B^len == a x + b y, same for (c, d);
    # primitive.rs signed_extend_word, split_signed_dword
    'int_leh_step': {'file': 'int_leh_step.rs', 'w32': True},
    # highest_word_normalized / highest_dword_normalized: the returned (double) words are the leading parts of x and y at ONE common
    # weight k (X*k <= x < (X+1)*k, Y*k <= y < (Y+1)*k), X >= Y, an operand >= 2 words shorter gives Y * 2^(BITS-1) <= X (guess fails);
    # trim_leading_zeros: normalized prefix of the same value, frame of the words above
    'int_leh_top': {'file': 'int_leh_top.rs', 'w32': True},
    # gcd_in_place: the result words (length ret.0, in rhs if ret.1 else lhs) hold THE gcd of the operands (gcdo_is_gcd: positive common
    # divisor divisible by every common divisor); loop invariant "same common divisors as (lhs, rhs)", x >= y normalized; terminates
    'int_leh_gcd': {'file': 'int_leh_gcd.rs', 'w32': True},
    # gcd_ext_in_place: g = gcd(lhs, rhs) in rhs[..ret.0], |b| in lhs[..ret.1], a*lhs + (ret.2 * |b|)*rhs == g for some a
    # (inplace_gcd_ext_post); invariants: same common divisors, lhs == T1*x + T0*y, signed Bezout relations of x and y (ghost cofactors
    # of lhs), T0 <= T1 (from the exact guess), cofactor buffers zero above their lengths; every slice index / carry word /
    # `debug_assert_zero!` proved; terminates.   (loop body needs 30-50M rlimit units: 'rlimit' gives 3x margin)
    'int_leh_gcd_ext': {'file': 'int_leh_gcd_ext.rs', 'w32': True, 'rlimit': 150},
    # gcd/mod.rs gcd_in_place / gcd_ext_in_place: the entry points gcd_ops.rs calls (forwarders, same contracts)
    'int_leh_mod': {'file': 'int_leh_mod.rs', 'w32': True},
}

PROP_UNITS = {
    'C12': {'verus': ['int_leh_guess', 'int_leh_step', 'int_leh_top', 'int_leh_gcd', 'int_leh_gcd_ext', 'int_leh_mod'],
            'undecided': ['int_leh_gcd / int_leh_gcd_ext / int_leh_mod prove gcd/mod.rs + lehmer.rs gcd_in_place and gcd_ext_in_place with the '
                          'contracts that unit int_gcd_ops still ASSUMES in lib/gcdo_ops_stubs.rs `mod gcd_lehmer_stub` (same text plus the '
                          'resource preconditions 2 * lhs.len() (+ 2) <= usize::MAX; int_gcd_ops verifies unchanged when the two stubs are '
                          'replaced by `//@@ SIG integer/lehmer/mod_gcd_in_place.rs` / `mod_gcd_ext_in_place.rs`: tried). Trusted there: '
                          'primitive Gcd::gcd for Word / DoubleWord (lib/gcdo_ops_stubs.rs) and ExtendedGcd::gcd_ext for Word '
                          '(lib/leh_ext_stubs.rs: the contract proved in unit base_gcd PLUS the zero-operand clause gcd_ext(0, y) == (y, 0, 1), '
                          'which that unit does not state yet), cmp::cmp_in_place (numeric order of normalized words), primitive.rs '
                          'highest_dword (get_unchecked), DoubleWord::leading_zeros meaning, <[T]>::split_last / fill, unsigned_abs, '
                          'core::mem::replace, Ordering::is_le, Memory::allocate_slice_fill (scratch SIZING not verified); the debug '
                          'assertions `cmp_in_place(lhs, rhs).is_ge()` (exec call) and `lhs.last().unwrap() != &0` are dropped: they are the '
                          'preconditions val(lhs) > val(rhs) / top words non-zero; memory_requirement_* (Layout arithmetic) not under contract']},
}
