"""Lehmer gcd (integer/src/gcd/lehmer.rs), C12.  Annotated copies: contracts/annot/integer/lehmer/, vocabulary + lemmas:
contracts/lib/leh_*.rs.  Bottom-up, one small unit per layer; upper layers see the lower ones through //@@ SIG."""
VERUS = {
    # lehmer_guess / lehmer_guess_dword: leh_guess_post -- determinant a*d - b*c == 1, 1 <= a, d and b, c <= SignedWord::MAX, identity on
    # failure (b == 0), Lehmer / Jebelean margins  a*X - b*Y >= b,  d*Y - c*X >= c,  a*X - b*Y + a <= Y,  d*Y - c*X + d <= Y
    # (==> lemma_leh_apply: for EVERY (x, y) with leading parts (X, Y): 1 <= a x - b y <= y, 1 <= d y - c x <= y); no overflow in the
    # word arithmetic of the loop (proved from X == d*xbar + b*ybar, Y == c*xbar + a*ybar), termination
    'int_leh_guess': {'file': 'int_leh_guess.rs', 'w32': True},
    # lehmer_step: val(x') == a x - b y, val(y') == d y - c x (given 0 <= both < B^len(y): from lemma_leh_apply), all debug assertions
    # incl. `y_carry == c * x_top`, `cx == 0`; lehmer_ext_step: valn(x', len) + carry0 * B^len == a x + b y, same for (c, d);
    # primitive.rs signed_extend_word, split_signed_dword
    'int_leh_step': {'file': 'int_leh_step.rs', 'w32': True},
    # highest_word_normalized / highest_dword_normalized: the returned (double) words are the leading parts of x and y at ONE common
    # weight k (X*k <= x < (X+1)*k, Y*k <= y < (Y+1)*k), X >= Y, an operand >= 2 words shorter gives Y * 2^(BITS-1) <= X (guess fails);
    # trim_leading_zeros: normalized prefix of the same value, frame of the words above
    'int_leh_top': {'file': 'int_leh_top.rs', 'w32': True},
    # gcd_in_place: the result words (length ret.0, in rhs if ret.1 else lhs) hold THE gcd of the operands (gcdo_is_gcd: positive common
    # divisor divisible by every common divisor); loop invariant "same common divisors as (lhs, rhs)", x >= y normalized; terminates
    'int_leh_gcd': {'file': 'int_leh_gcd.rs', 'w32': True},
}

PROP_UNITS = {
    'C12': {'verus': ['int_leh_guess', 'int_leh_step', 'int_leh_top', 'int_leh_gcd'],
            'undecided': ['int_leh_gcd proves lehmer.rs gcd_in_place with the contract that unit int_gcd_ops still ASSUMES in '
                          'lib/gcdo_ops_stubs.rs (same text plus the resource precondition 2 * lhs.len() <= usize::MAX); trusted there: '
                          'primitive Gcd::gcd for Word / DoubleWord, cmp::cmp_in_place (numeric order of normalized words), '
                          'primitive.rs highest_dword (get_unchecked), DoubleWord::leading_zeros meaning, <[T]>::split_last, '
                          'core::mem::replace, Ordering::is_le; debug assertion `cmp_in_place(lhs, rhs).is_ge()` (exec call) dropped: '
                          'it is the precondition val(lhs) > val(rhs)']},
}
