"""Multiplication word kernels (math.rs mul_add_*, mul/mod.rs word-by-vector kernels, mul/simple.rs)."""
VERUS = {
    # math::{mul_add_carry, mul_add_2carry, mul_add_carry_dword},
    # mul::{add_mul_word_same_len_in_place, add_mul_word_in_place, sub_mul_word_same_len_in_place}
    'int_mul': {'file': 'int_mul.rs', 'w32': True},
    # mul::{mul_word_in_place_with_carry, mul_word_in_place}: exact contract
    #   val(words') + ret*B^n == val(words)*rhs + carry_in.
    # NOT listed in PROP_UNITS: on the unchanged tree the `if rhs == 0 { return 0; }` shortcut of
    # mul_word_in_place_with_carry violates it (words [5,7], rhs 0, carry 9 -> words stay [5,7], ret 0;
    # exact result is [9,0], 0).  Verifies (64- and 32-bit words) once the shortcut is removed.
    'int_mul_scale': {'file': 'int_mul_scale.rs', 'w32': True},
    # mul::simple::{add_mul_chunk, sub_mul_chunk, add_signed_mul_chunk, add_signed_mul_same_len}
    'int_mul_simple': {'file': 'int_mul_simple.rs', 'w32': True},
}

PROP_UNITS = {
    'C01': {'verus': ['int_mul', 'int_mul_simple']},
}
