"""Multiplication word kernels (math.rs mul_add_*, mul/mod.rs word-by-vector kernels, mul/simple.rs)."""
VERUS = {
    # math::{mul_add_carry, mul_add_2carry, mul_add_carry_dword},
    # mul::{add_mul_word_same_len_in_place, add_mul_word_in_place, sub_mul_word_same_len_in_place}
    'int_mul': {'file': 'int_mul.rs', 'w32': True},
    # mul::{mul_word_in_place_with_carry, mul_word_in_place}: val(words') + ret*B^n == val(words)*rhs + carry_in
    # under `rhs != 0` (precondition taken from the call sites; the `rhs == 0` shortcut is wrong but unreachable).
    'int_mul_scale': {'file': 'int_mul_scale.rs', 'w32': True},
    # mul::simple::{add_mul_chunk, sub_mul_chunk, add_signed_mul_chunk, add_signed_mul_same_len}
    'int_mul_simple': {'file': 'int_mul_simple.rs', 'w32': True},
}

PROP_UNITS = {
    'C01': {'verus': ['int_mul', 'int_mul_scale', 'int_mul_simple'],
            'undecided': ['mul/ntt.rs is dead code; scratch-memory sizing (memory_requirement_*) is not verified (too small means panic, never a wrong value)']},
    'C16': {'verus': ['int_mul', 'int_mul_scale', 'int_mul_simple']},
    'C19': {'verus': ['int_mul', 'int_mul_scale', 'int_mul_simple']},
}
