"""Multiplication / squaring / square-root ALGORITHMS above the word kernels (integer/src/mul/{mod,helpers,karatsuba,
toom_3}.rs, sqr/, root.rs): unbounded Verus proofs of the exact-product / exact-root contracts that the dispatch units
(int_mul_ops, int_pow, int_root_ops, int_div_dc) previously ASSUMED."""
VERUS = {
    # mul::{multiply, add_signed_mul, add_signed_mul_same_len} (size dispatch simple / Karatsuba / Toom-3),
    # helpers::add_signed_mul_split_into_chunks (chunk kernel = function value contracted via f.requires/f.ensures),
    # {simple,karatsuba,toom_3}::add_signed_mul: val(c') + ret*B^|c| == val(c) + sgn(sign)*val(a)*val(b), -1 <= ret <= 1;
    # multiply: val(c') == val(a)*val(b).  Termination of the dispatch/chunking cycle by (smaller length, total, rank).
    'int_mul_dispatch': {'file': 'int_mul_dispatch.rs', 'w32': True},
    # mul::mul_dword_in_place: words *= rhs (double word), val(words') + ret*B^n == val(words)*rhs; the chunks_exact_mut(2)
    # iteration + into_remainder() is lowered by rules D1d / D1c
    'int_mul_dword': {'file': 'int_mul_dword.rs', 'w32': True},
    # karatsuba::add_signed_mul_same_len: three half-size products through the dispatcher's contract, the
    # |a0-a1|*|b0-b1| sign trick, seven in-place accumulations with carries at 2m / 3m / 2n: same post as the schoolbook kernel
    'int_mul_karatsuba': {'file': 'int_mul_karatsuba.rs', 'w32': True},
    # toom_3::add_signed_mul_same_len: evaluation of A(x)B(x) at 0, 1, -1, 2, inf (five third-size products through the
    # dispatcher's contract), interpolation with the EXACT divisions by 6 and 2 proved (remainders are proof obligations),
    # thirteen in-place accumulations with carries at 2k, 3k+2, 4k+2, 5k+2, 2n: same post as the schoolbook kernel.
    # One long SMT query (about 25-40 s, rlimit attribute in the annotated copy; its `ensures false` canary needs ~4 min).
    # The unit also holds the dispatcher mul::add_signed_mul_same_len and karatsuba::add_signed_mul_same_len as FN: the whole
    # recursion cycle dispatcher -> karatsuba / toom_3 -> dispatcher is in one file and its termination (decreases: factor
    # length, dispatcher ranked above the algorithms) is machine-checked.
    'int_mul_toom3': {'file': 'int_mul_toom3.rs', 'w32': True},
    # sqr::sqr (dispatch: simple squaring <= 30 words, else the multiplication dispatcher) and sqr::simple::square
    # (diagonal trick: off-diagonal products once, then b = 2b + sum a_i^2 B^(2i) fused): val(b') == val(a)^2
    'int_sqr': {'file': 'int_sqr.rs', 'w32': True},
    # root::{sqrt_rem, sqrt_rem_42} (Karatsuba square root, Zimmermann): for a normalized 2n-word input
    # val(a) == s^2 + (r + carry*B^n), r + carry*B^n <= 2 s (s = root in b, r = a'[..n]); recursion on the high half
    # (decreases n), division by s1 + halving of the quotient, q^2 by sqr::sqr, at most one correction step.
    # One long SMT query (about 20 s, rlimit attribute in the annotated copy).
    'int_root_sqrt': {'file': 'int_root_sqrt.rs', 'w32': True},
}

PROP_UNITS = {
    'C01': {'verus': ['int_mul_dispatch', 'int_mul_dword', 'int_mul_karatsuba', 'int_mul_toom3', 'int_sqr'],
            'undecided': ['Memory scratch allocator: allocate_slice_* contracts assumed (lib/mulalg_stubs.rs); sizing of the '
                          'scratch area (memory_requirement_*) not verified (too small => panic, never a wrong value)']},
    'C12': {'verus': ['int_root_sqrt'],
            'undecided': ['DoubleWord::sqrt_rem / div_rem of dashu-base (machine-integer kernels) and primitive::highest_dword: '
                          'contracts assumed by int_root_sqrt (lib/mulalg_root_stubs.rs, lib/div_simple_stubs.rs)']},
}
