"""Multiplication / squaring / square-root ALGORITHMS above the word kernels (integer/src/mul/{mod,helpers,karatsuba,
toom_3}.rs, sqr/, root.rs): unbounded Verus proofs of the exact-product / exact-root contracts that the dispatch units
(int_mul_ops, int_pow, int_root_ops, int_div_dc) previously ASSUMED."""
VERUS = {
    # mul::{multiply, add_signed_mul, add_signed_mul_same_len} (size dispatch simple / Karatsuba / Toom-3),
    # helpers::add_signed_mul_split_into_chunks (chunk kernel = function value contracted via f.requires/f.ensures),
    # {simple,karatsuba,toom_3}::add_signed_mul: val(c') + ret*B^|c| == val(c) + sgn(sign)*val(a)*val(b), -1 <= ret <= 1;
    # multiply: val(c') == val(a)*val(b).  Termination of the dispatch/chunking cycle by (smaller length, total, rank).
    'int_mul_dispatch': {'file': 'int_mul_dispatch.rs', 'w32': True},
    # karatsuba::add_signed_mul_same_len: three half-size products through the dispatcher's contract, the
    # |a0-a1|*|b0-b1| sign trick, seven in-place accumulations with carries at 2m / 3m / 2n: same post as the schoolbook kernel
    'int_mul_karatsuba': {'file': 'int_mul_karatsuba.rs', 'w32': True},
    # toom_3::add_signed_mul_same_len: evaluation of A(x)B(x) at 0, 1, -1, 2, inf (five third-size products through the
    # dispatcher's contract), interpolation with the EXACT divisions by 6 and 2 proved (remainders are proof obligations),
    # thirteen in-place accumulations with carries at 2k, 3k+2, 4k+2, 5k+2, 2n: same post as the schoolbook kernel.
    # One long SMT query (about 25 s, rlimit attribute in the annotated copy; its `ensures false` canary needs ~4 min).
    'int_mul_toom3': {'file': 'int_mul_toom3.rs', 'w32': True},
    # sqr::sqr (dispatch: simple squaring <= 30 words, else the multiplication dispatcher) and sqr::simple::square
    # (diagonal trick: off-diagonal products once, then b = 2b + sum a_i^2 B^(2i) fused): val(b') == val(a)^2
    'int_sqr': {'file': 'int_sqr.rs', 'w32': True},
}

PROP_UNITS = {
    'C01': {'verus': ['int_mul_dispatch', 'int_mul_karatsuba', 'int_mul_toom3', 'int_sqr'],
            'undecided': ['Memory scratch allocator: allocate_slice_* contracts assumed (lib/mulalg_stubs.rs); sizing of the '
                          'scratch area (memory_requirement_*) not verified (too small => panic, never a wrong value)']},
}
