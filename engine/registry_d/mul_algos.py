"""Multiplication / squaring / square-root ALGORITHMS above the word kernels (integer/src/mul/{mod,helpers,karatsuba,
toom_3}.rs, sqr/, root.rs): unbounded Verus proofs of the exact-product / exact-root contracts that the dispatch units
(int_mul_ops, int_pow, int_root_ops, int_div_dc) previously ASSUMED."""
VERUS = {
    # mul::{multiply, add_signed_mul, add_signed_mul_same_len} (size dispatch simple / Karatsuba / Toom-3),
    # helpers::add_signed_mul_split_into_chunks (chunk kernel = function value contracted via f.requires/f.ensures),
    # {simple,karatsuba,toom_3}::add_signed_mul: val(c') + ret*B^|c| == val(c) + sgn(sign)*val(a)*val(b), -1 <= ret <= 1;
    # multiply: val(c') == val(a)*val(b).  Termination of the dispatch/chunking cycle by (smaller length, total, rank).
    'int_mul_dispatch': {'file': 'int_mul_dispatch.rs', 'w32': True},
    # karatsuba::add_signed_mul_same_len: three half-size products through the dispatcher's contract, the
    # |a0-a1|*|b0-b1| sign trick, seven in-place accumulations with carries at 2m / 3m / 2n: same post as the schoolbook kernel
    'int_mul_karatsuba': {'file': 'int_mul_karatsuba.rs', 'w32': True},
}

PROP_UNITS = {
    'C01': {'verus': ['int_mul_dispatch', 'int_mul_karatsuba'],
            'undecided': ['Memory scratch allocator: allocate_slice_* contracts assumed (lib/mulalg_stubs.rs); sizing of the '
                          'scratch area (memory_requirement_*) not verified (too small => panic, never a wrong value)']},
}
