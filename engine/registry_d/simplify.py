"""C18 rational approximation: Farey neighbours (next_up / next_down / nearest) -- unit ratio_farey.
Only units that fully verify are listed.

ratio_farey (contracts/units/ratio_farey.rs), rational/src/simplify.rs `impl RBig`:
  farey_neighbors(x, limit) -> (lo, hi)   farey_nb: 1 <= lo.den, hi.den <= limit, hi.num*lo.den - lo.num*hi.den == 1,
                                          lo.den + hi.den > limit, lo < x < hi; derived: both canonical and NO fraction with a
                                          denominator <= limit lies strictly between lo and hi (lemma_farey_neighbours)
  next_up / next_down(limit)              is_next_up / is_next_down: denominator <= limit, strictly above / below self, and
                                          every fraction p/q with q <= limit strictly above / below self is >= / <= the
                                          result (i.e. the adjacent element of the Farey sequence of order limit)
  nearest(limit)                          Exact(self) iff self.den <= limit; otherwise Inexact(v, s) with v the closer one of
                                          (next_down, next_up) (is_nearest_pick) and s == Positive <=> v > self
  and the helpers Repr::{one, neg_one, split_at_point}, RBig::split_at_point (own annotated copies: exact
  trunc*den + fract.num == num, proper, same sign, canonical fractional part).
EXCLUDED REGION (genuine defect, debug builds only): next_up / next_down of an INTEGER with limit == 1 call
  farey_neighbors(1/1 resp. -1/1, 1), violating its debug assertion `x.denominator() > limit` (release builds return
  the right value n+1 / n-1).  The contracts of next_up / next_down carry `!(limit == 1 && self.den == 1)`.
Precondition limit != 0 (`total` reading of panic_divide_by_0).

Trusted base of the unit beyond lib/bigstub.rs, lib/ratio_types.rs, lib/ratio2_stubs.rs (contracts/lib/farey_stubs.rs):
  &IBig + &IBig, &UBig + &UBig exact; UBig::sqr exact; UBig <<= usize exact; Clone for UBig/IBig/RBig keeps the value;
  DivRem<&UBig> for &IBig = truncating quotient / remainder (divisor != 0);
  PartialOrd for Repr = order of the cross products for positive denominators (PROVED as repr_cmp in unit ratio_cmp),
  unspecified otherwise;
  RBig + RBig, &RBig + &RBig, RBig - RBig, IBig + RBig: exact value (cross-multiplied), denominator >= 1, canonical
  operands give a canonical result -- restated from what units ratio_ops / ratio_int_ops PROVE for the same macro arms;
  Approximation enum mirrored.
"""
VERUS = {
    'ratio_farey': {'file': 'ratio_farey.rs', 'w32': False},
    'float_error_bounds': {'file': 'float_error_bounds.rs', 'w32': False},
    'ratio_simplest': {'file': 'ratio_simplest.rs', 'w32': False},
}

PROP_UNITS = {
    'C18': {'verus': ['ratio_farey', 'float_error_bounds', 'ratio_simplest'],
            'undecided': ['next_up / next_down of an integer with limit == 1: excluded from the contract (debug-build '
                          'assertion failure in farey_neighbors, release result correct)']},
}
