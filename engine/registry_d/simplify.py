"""C18 rational approximation -- units ratio_farey, ratio_simplest, float_error_bounds, float_error_bounds_halfeven.
The annotated copies carry the code AFTER the fixes proposed in /verif/proposed_fixes/S1..S6 (each contract below was first
found violated on the unfixed tree, natively reproduced, then the exclusion was removed and the unit re-verified on the
patched tree).

ratio_farey (contracts/units/ratio_farey.rs), rational/src/simplify.rs `impl RBig`:
  farey_neighbors(x, limit) -> (lo, hi)   farey_nb: 1 <= lo.den, hi.den <= limit, hi.num*lo.den - lo.num*hi.den == 1,
                                          lo.den + hi.den > limit, lo < x < hi; derived: both canonical and NO fraction with a
                                          denominator <= limit lies strictly between lo and hi (lemma_farey_neighbours)
  next_up / next_down(limit)              is_next_up / is_next_down: denominator <= limit, strictly above / below self, and
                                          every fraction p/q with q <= limit strictly above / below self is >= / <= the
                                          result (= the adjacent element of the Farey sequence of order limit); for EVERY
                                          limit >= 1 (fix S2: nudge 1/(limit^2+1); before it an integer with limit == 1
                                          tripped farey_neighbors' debug assertion)
  nearest(limit)                          Exact(self) iff self.den <= limit; otherwise Inexact(v, s) with v the closer one of
                                          (next_down, next_up) (is_nearest_pick; a tie goes to next_down) and
                                          s == Positive <=> v > self (sign of v - self, as in the doc example; the doc
                                          sentence "sign of self - self.nearest()" contradicts its own example)
  and the helpers Repr::{one, neg_one, split_at_point}, RBig::split_at_point (own annotated copies with the stronger
  contract trunc*den + fract.num == num, proper, same sign, canonical fractional part).
  limit != 0 is the `total` reading of panic_divide_by_0.

ratio_simplest (contracts/units/ratio_simplest.rs): `Repr::simplest_in`, `RBig::simplest_in`, all end points:
  is_simplest_in: the result is STRICTLY between the end points (either order) and every fraction p/s strictly between
  them has s >= ret.den and |p| >= |ret.num| (hence no smaller denominator, nor the same denominator with a smaller
  numerator magnitude): membership AND optimality, through the continued-fraction invariant cf_inv (unimodular map of
  the current interval onto the original one, lemma_cross_det).  Equal end points: that number (documented).
  lower < 0 < upper: 0.  RBig::simplest_in additionally returns the canonical form.
  (fix S1: a zero end point takes the sign of the other one; before it simplest_in(0, -1/2) == 0.)
  Lowering rule D18 (loop with break value) and the D11b extensions were added for this unit.

float_error_bounds + float_error_bounds_halfeven: float/src/round.rs `impl ErrorBounds for mode::{Zero, Away, Up, Down,
  HalfAway}` resp. `HalfEven`, the helpers is_power_of_base / ulp_towards_zero (fix S4) + the real FBig::{ulp, precision,
  repr, new}, Repr::{is_zero, sign, is_infinite, digits}:
  eb_post: f = m*ulp (m = significand scaled to `precision` digits, ulp = B^(exponent + digits - precision)); g = B when f is
  a power of the base (the numbers below it are spaced ulp/B), else 1.  The returned (L, R, incl_L, incl_R) are l2, r2
  halves of ulp/g such that FOR ALL rationals X/D:  "y = f + (X/D)*ulp/g rounds to f" (round_def on the grid of spacing ulp
  when |y| >= |f|, on the grid of spacing ulp/g below)  <=>  -l2/2 <(=) X/D <(=) r2/2 with the inclusion flags.
  precision == 0: (0, 0, true, true) for all six modes (fix S5); Away: f == 0 gives (0, 0, true, true) (fix S5).
  DOMAIN (eb_domain): even base (for an odd base half an ulp is not representable, the code rounds it up), non-zero f with
  digits <= precision and a normalized significand (documented invariant of float Repr), exponent arithmetic inside isize.
  (fix S3: HalfEven parity taken from the significand at full precision; fix S4: side towards zero of a power of the base.)

Not under contract: simplest_from_f32 / simplest_from_f64 (f32/f64 operations; fix S6 is checked by an independent native
oracle in proposed_fixes/S6/test.rs: rounding interval from the neighbouring floats), RBig::simplest_from_float (glue over
error_bounds / simplest_in / is_simpler_than).
Observed and NOT fixed here (other properties): RBig::to_float rounds twice (29/20 -> 2 for HalfAway, 1 digit);
RBig::to_f32 double rounding (DESIGN 11.4).

Trusted base beyond lib/bigstub.rs, lib/ratio_types.rs, lib/ratio2_stubs.rs, lib/ratio2_cmp_stubs.rs:
 contracts/lib/farey_stubs.rs  &IBig + &IBig, &UBig + &UBig, UBig + UBig, UBig::sqr, UBig <<= usize exact; Clone for
   UBig/IBig/RBig keeps the value; DivRem<&UBig> for &IBig truncating (divisor != 0); PartialOrd for Repr = order of the cross
   products for positive denominators (PROVED as repr_cmp in unit ratio_cmp), unspecified otherwise; RBig + RBig,
   &RBig + &RBig, RBig - RBig, IBig + RBig: exact value (cross-multiplied), denominator >= 1, canonical operands give a
   canonical result (restated from what units ratio_ops / ratio_int_ops PROVE for the same macro arms; axioms ax_rbig_sum /
   ax_rbig_diff / ax_int_plus_rbig); Approximation enum mirrored.
 contracts/lib/simplest_stubs.rs  core::mem::{replace, take}; Default for IBig == 0; -IBig, &IBig * &IBig, IBig * &IBig,
   IBig += IBig exact; DivRem<&IBig> for IBig truncating for a positive divisor; Sign * Repr multiplies the numerator by +-1;
   Ord for Repr (as PartialOrd); Repr::abs (3-line body transcribed: Verus rejects `mut self`).
 contracts/lib/ebounds_stubs.rs  FBig::ZERO == (0, 0, precision 0); Clone for FBig field-wise; Copy/Clone for Context;
   IBig::is_one, IBig::NEG_ONE == -1; panic_unlimited_precision unreachable (`total` reading).
"""
VERUS = {
    'ratio_farey': {'file': 'ratio_farey.rs', 'w32': False},
    'float_error_bounds': {'file': 'float_error_bounds.rs', 'w32': False},
    'float_error_bounds_halfeven': {'file': 'float_error_bounds_halfeven.rs', 'w32': False},
    'ratio_simplest': {'file': 'ratio_simplest.rs', 'w32': False},
}

PROP_UNITS = {
    'C18': {'verus': ['ratio_farey', 'float_error_bounds', 'float_error_bounds_halfeven', 'ratio_simplest'],
            'undecided': ['ErrorBounds::error_bounds: proved for an even base and a non-zero f with a normalized significand '
                          '(zero and odd bases are outside the model)',
                          'simplest_from_f32 / simplest_from_f64 / simplest_from_float: proved in the units of simplestf.py '
                          '(even bases; odd bases are the recorded known finding)']},
}
