"""C18 rational approximation -- units ratio_farey, ratio_simplest, float_error_bounds.  Only units that fully verify are listed.

ratio_farey (contracts/units/ratio_farey.rs), rational/src/simplify.rs `impl RBig`:
  farey_neighbors(x, limit) -> (lo, hi)   farey_nb: 1 <= lo.den, hi.den <= limit, hi.num*lo.den - lo.num*hi.den == 1,
                                          lo.den + hi.den > limit, lo < x < hi; derived: both canonical and NO fraction with a
                                          denominator <= limit lies strictly between lo and hi (lemma_farey_neighbours)
  next_up / next_down(limit)              is_next_up / is_next_down: denominator <= limit, strictly above / below self, and
                                          every fraction p/q with q <= limit strictly above / below self is >= / <= the
                                          result (= the adjacent element of the Farey sequence of order limit)
  nearest(limit)                          Exact(self) iff self.den <= limit; otherwise Inexact(v, s) with v the closer one of
                                          (next_down, next_up) (is_nearest_pick; a tie goes to next_down) and
                                          s == Positive <=> v > self (sign of v - self, as in the doc example; the doc
                                          sentence "sign of self - self.nearest()" contradicts its own example)
  and the helpers Repr::{one, neg_one, split_at_point}, RBig::split_at_point (own annotated copies with the stronger
  contract trunc*den + fract.num == num, proper, same sign, canonical fractional part).
  EXCLUDED REGION (genuine defect, debug builds only): next_up / next_down of an INTEGER with limit == 1 call
  farey_neighbors(1/1 resp. -1/1, 1), violating its debug assertion `x.denominator() > limit` (natively:
  RBig::from(3).next_up(&UBig::ONE) panics with debug assertions, returns 4 in release).  Precondition
  `!(limit == 1 && self.den == 1)`; limit != 0 is the `total` reading of panic_divide_by_0.

ratio_simplest (contracts/units/ratio_simplest.rs): `Repr::simplest_in`, `RBig::simplest_in`:
  is_simplest_in: the result is STRICTLY between the end points (either order) and every fraction p/s strictly between
  them has s >= ret.den and |p| >= |ret.num| (hence no smaller denominator, nor the same denominator with a smaller
  numerator magnitude): membership AND optimality, through the continued-fraction invariant cf_inv (unimodular map of
  the current interval onto the original one, lemma_cross_det).  Equal end points: that number (documented).
  lower < 0 < upper: 0.  RBig::simplest_in additionally returns the canonical form.
  EXCLUDED REGION (genuine defect): one end point zero and the other NEGATIVE -- the sign test treats 0 as positive and
  returns 0, which is not strictly inside (natively: RBig::simplest_in(0, -1/2) == 0, expected -1/3).
  Lowering rule D18 (loop with break value) and the D11b extensions were added for this unit.

float_error_bounds (contracts/units/float_error_bounds.rs): float/src/round.rs `impl ErrorBounds for mode::{Zero, Away, Up,
  Down, HalfAway}` + the real FBig::{ulp, precision, repr, new}, Repr::{is_zero, sign, is_infinite, digits}:
  eb_post: for f = m*ulp (m = significand scaled to `precision` digits, ulp = B^(exponent + digits - precision)) the returned
  (L, R, incl_L, incl_R) are l2, r2 in {0, 1, 2} half-ulps such that FOR ALL rationals X/D:
  round_def(mode, m*D + X, D, m)  <=>  -l2/2 <(=) X/D <(=) r2/2 with the inclusion flags (the exact set of reals that round to f
  on the grid of f); precision == 0: (0, 0, true, true) for Zero / HalfAway.
  DOMAIN (eb_domain): even base, non-zero f with digits <= precision, exponent arithmetic inside isize, and
  EXCLUDED REGIONS (genuine defects, natively reproduced through RBig::simplest_from_float):
   * f a power of the base (|significand| == B^(digits-1)): the interval toward zero is ulp/(2B) resp. ulp/B wide, the code
     reports ulp/2 resp. ulp (FBig<HalfAway,10> 1e3 with precision 2 -> 950; FBig<Up,10> 1e3 p=2 -> 901, which rounds to 910);
   * precision == 0 for Away / Up / Down: f.ulp() panics although the trait documents (ZERO, ZERO, true, true);
   * Away, f == 0 with precision > 0: reports (ulp, 0, false, true) instead of (0, 0, true, true) (`&&` for `||`).
  HalfEven is in unit float_error_bounds_halfeven, NOT REGISTERED: its contract fails on the unchanged tree
  (`incl = significand.bit(0)` is inverted: FBig<HalfEven,10> 0.13 p=2 -> simplest_from_float == 1/8, which rounds to 0.12).

Not under contract: simplest_from_f32 / simplest_from_f64 (f32/f64 operations) -- triaged natively: for |f| >= 2^24 (f32) /
2^53 (f64) (decoded exponent >= 1, denominator 1) the search interval is f +- 1/2 instead of f +- ulp/2, so f itself is
returned although simpler integers convert back (simplest_from_f32(16777220.0) == 16777220 but 16777219 -> 16777220.0f32
by ties-to-even; simplest_from_f32(33554436.0) == 33554436 but 33554435 -> 33554436.0f32;
simplest_from_f64(9007199254740996.0) likewise); below a power of two the interval is
twice too wide (no input with a wrong result found); the `to_bits() & 1 == 0` end-point inclusion is right for
ties-to-even but can never change the result (an end point always has a larger denominator than f, which is inside).
RBig::simplest_from_float: glue over error_bounds / simplest_in / is_simpler_than, not under contract.

Trusted base beyond lib/bigstub.rs, lib/ratio_types.rs, lib/ratio2_stubs.rs, lib/ratio2_cmp_stubs.rs:
 contracts/lib/farey_stubs.rs  &IBig + &IBig, &UBig + &UBig, UBig::sqr, UBig <<= usize exact; Clone for UBig/IBig/RBig keeps the
   value; DivRem<&UBig> for &IBig truncating (divisor != 0); PartialOrd for Repr = order of the cross products for positive
   denominators (PROVED as repr_cmp in unit ratio_cmp), unspecified otherwise; RBig + RBig, &RBig + &RBig, RBig - RBig,
   IBig + RBig: exact value (cross-multiplied), denominator >= 1, canonical operands give a canonical result (restated from
   what units ratio_ops / ratio_int_ops PROVE for the same macro arms; axioms ax_rbig_sum / ax_rbig_diff / ax_int_plus_rbig);
   Approximation enum mirrored.
 contracts/lib/simplest_stubs.rs  core::mem::{replace, take}; Default for IBig == 0; -IBig, &IBig * &IBig, IBig * &IBig,
   IBig += IBig exact; DivRem<&IBig> for IBig truncating for a positive divisor; Sign * Repr multiplies the numerator by +-1;
   Ord for Repr (as PartialOrd); Repr::abs (3-line body transcribed: Verus rejects `mut self`).
 contracts/lib/ebounds_stubs.rs  FBig::ZERO == (0, 0, precision 0); Clone for FBig field-wise; Copy/Clone for Context;
   panic_unlimited_precision unreachable (`total` reading).
"""
VERUS = {
    'ratio_farey': {'file': 'ratio_farey.rs', 'w32': False},
    'float_error_bounds': {'file': 'float_error_bounds.rs', 'w32': False},
    'float_error_bounds_halfeven': {'file': 'float_error_bounds_halfeven.rs', 'w32': False},
    'ratio_simplest': {'file': 'ratio_simplest.rs', 'w32': False},
}

PROP_UNITS = {
    'C18': {'verus': ['ratio_farey', 'float_error_bounds', 'float_error_bounds_halfeven', 'ratio_simplest'],
            'undecided': ['next_up / next_down of an integer with limit == 1: excluded from the contract (debug-build '
                          'assertion failure in farey_neighbors, release result correct)',
                          'simplest_in with one end point zero and the other negative: excluded (returns 0, not strictly inside)',
                          'ErrorBounds::error_bounds: proved on the uniform grid of f for Zero/Away/Up/Down/HalfAway, even base, '
                          'f non-zero and not a power of the base; HalfEven fails its contract (inverted parity) and is not registered; '
                          'powers of the base, precision 0 (Away/Up/Down) and Away at zero are excluded defect regions',
                          'simplest_from_f32 / simplest_from_f64 / simplest_from_float: not under contract (native triage in '
                          'the fragment docstring: interval f +- 1/2 instead of f +- ulp/2 for |f| >= 2^24 resp. 2^53)']},
}
