"""Reduced-ring exponentiation (integer/src/modular/pow.rs) and ring identity on the real pointers, property C13.

Vocabulary: contracts/lib/mod2_ring.rs (multi-word rings, as in registry_d/modular.py) + contracts/lib/mp_*.rs
(`ipow` = the mathematical power by recursion on the exponent, `is_pow` = "these stored words hold r^k mod m",
window lemmas tying the word-level shifts / masks of the sliding window to div / mod of the exponent VALUE).
Annotated copies: contracts/annot/integer/modpow/."""
VERUS = {
    # modular/pow.rs `mod large`: pow (0 / 1 / general), pow_nontrivial (sliding window: table of odd powers, window
    # extraction across exponent-word boundaries, squarings, final multiply), choose_pow_window_len (1 <= w < WORD_BITS).
    #   ensures red_ok(ret), resid(ret) == ipow(resid(raw), exp) % modulus, 0 <= resid(ret) < modulus
    # unbounded in the exponent length and the modulus length; over the PROVED contracts (//@@ SIG) of
    # mul.rs sqr_in_place / mul_normalized (unit int_modmul) and ReducedLarge::one (unit int_modpow_one)
    'int_modpow_large': {'file': 'int_modpow_large.rs', 'w32': True},
    # modular/repr.rs ReducedLarge::one: stored 2^shift, valid, residue 1
    'int_modpow_one': {'file': 'int_modpow_one.rs', 'w32': True},
    # modular/pow.rs `mod single` / `mod double` (macro impl_mod_pow_for_primitive!): pow_word, pow_helper, pow,
    # pow_nontrivial:  residue(ret) == residue(raw)^e mod m for one-word, two-word and multi-word exponents (unbounded),
    # every modulus m >= 1, over the ASSUMED num_modular Reducer contract (sqr / mul); ReducedWord/ReducedDword::one verified
    'int_modpow_single': {'file': 'int_modpow_single.rs', 'w32': True},
    'int_modpow_double': {'file': 'int_modpow_double.rs', 'w32': True},
}

_RB = ('concrete moduli 1_000_003 (1 word) / 2^64+13 (2 words) built twice resp. once, concrete elements 0/1; the operator '
       'form (19 forms of + - * += -= *= ==, value/reference operands) is symbolic')
_RL = ('concrete 3-word modulus [7,5,2^62+1] built twice resp. once, concrete elements 0/1, ONE concrete operator form per '
       'harness (a += &b, a -= &b, &a - b, a == b)')
KANI = {
    'int_modring': {
        'package': 'dashu-int', 'target': 'integer/src/modular/repr.rs', 'file': 'int_modring.rs',
        'harnesses': {
            'vk_modring_single_two_instances_panic': {'kind': 'bounded', 'bound': _RB},
            'vk_modring_double_two_instances_panic': {'kind': 'bounded', 'bound': _RB},
            'vk_modring_instances_equal_as_values': {'kind': 'bounded', 'bound': _RB},
            'vk_modring_mixed_repr_panic': {'kind': 'bounded', 'bound': _RB + '; all 6 ordered pairs of single/double/3-word elements'},
            'vk_modring_single_one_instance_ok': {'kind': 'bounded', 'bound': _RB},
            'vk_modring_double_one_instance_ok': {'kind': 'bounded', 'bound': _RB},
            'vk_modring_large_two_instances_add_panic': {'kind': 'bounded', 'bound': _RL},
            'vk_modring_large_two_instances_sub_panic': {'kind': 'bounded', 'bound': _RL},
            'vk_modring_large_two_instances_rsub_panic': {'kind': 'bounded', 'bound': _RL},
            'vk_modring_large_two_instances_eq_panic': {'kind': 'bounded', 'bound': _RL},
            'vk_modring_large_one_instance_add_ok': {'kind': 'bounded', 'bound': _RL},
            'vk_modring_large_one_instance_sub_ok': {'kind': 'bounded', 'bound': _RL},
            'vk_modring_large_one_instance_rsub_ok': {'kind': 'bounded', 'bound': _RL},
            'vk_modring_large_one_instance_eq_ok': {'kind': 'bounded', 'bound': _RL},
        },
    },
}

PROP_UNITS = {
    'C13': {'verus': ['int_modpow_large', 'int_modpow_one', 'int_modpow_single', 'int_modpow_double'],
            'kani': ['int_modring'],
            'undecided': [
                'pow: large::pow / pow_nontrivial / choose_pow_window_len and single/double pow_word / pow_helper / pow / '
                'pow_nontrivial / ReducedWord::one / ReducedDword::one are PROVED for every modulus m >= 1 and every exponent '
                '(unbounded length); the three-arm dispatch `Reduced::pow` (pow.rs:30) is not under contract.  (The modulus-1 defect of '
                'ReducedWord::one -- pow(0) gave residue 1 -- was repaired in /repo 296f9c6; reverting the repair fails '
                'int_modpow_single::one.)',
                'int_modpow_large ASSUMES (lib/mp_stubs.rs): exponent UBig::{is_zero, is_one, bit_len, as_words} (value-level '
                'meaning), ReducedLarge::clone (deep copy), Box<[T]>::as_ref, math::ones_word (2^n - 1: contract of the bits units), '
                'scratch-memory SIZING (add_layout / array_layout / mul_memory_requirement: a too small area panics, never changes a '
                'value), panic_allocate_too_much (a possible panic); Memory::allocate_slice_fill (lib/mod2_mem.rs); precondition '
                'ring length <= Buffer::MAX_CAPACITY (type invariant of a ring built from a Buffer)',
                'int_modpow_single / int_modpow_double ASSUME the num_modular Reducer contract (PreMulInv2by1 / PreMulInv3by2 '
                'sqr, mul: stored product reduced; ring.shift() / normalized_divisor() accessors; ring well-formedness incl. '
                'm > Word::MAX for double-word rings: lib/mp_prim*_stubs.rs), UBig::repr() (lib/mp_prim_common.rs) and '
                'u64::leading_zeros (vstd axiom)',
                'ring identity (Kani group int_modring, BOUNDED: concrete moduli 1_000_003, 2^64+13, [7,5,2^62+1]): two instances '
                'with equal modulus panic for all 19 operator forms (single / double word, mixed representations) resp. for '
                'a += &b, a -= &b, &a - b, a == b (3-word ring); `*` `/` on 3-word rings and inv-based division are not covered',
            ]},
    'C16': {'verus': ['int_modpow_large', 'int_modpow_one', 'int_modpow_single', 'int_modpow_double']},
    'C19': {'verus': ['int_modpow_large', 'int_modpow_one', 'int_modpow_single', 'int_modpow_double']},
}
