"""Reduced-ring exponentiation (integer/src/modular/pow.rs) and ring identity on the real pointers, property C13."""
VERUS = {}
_RB = ('concrete moduli 1_000_003 (1 word), 2^64+13 (2 words), [7,5,2^62+1] (3 words), concrete elements 0/1; the operator '
       'form (19 forms of + - * += -= *= ==, value/reference operands) is symbolic')
KANI = {
    'int_modring': {
        'package': 'dashu-int', 'target': 'integer/src/modular/repr.rs', 'file': 'int_modring.rs',
        'harnesses': {
            'vk_modring_single_two_instances_panic': {'kind': 'bounded', 'bound': _RB},
            'vk_modring_double_two_instances_panic': {'kind': 'bounded', 'bound': _RB},
            'vk_modring_large_two_instances_panic': {'kind': 'bounded', 'bound': _RB},
            'vk_modring_instances_equal_as_values': {'kind': 'bounded', 'bound': _RB},
            'vk_modring_mixed_repr_panic': {'kind': 'bounded', 'bound': _RB},
            'vk_modring_single_one_instance_ok': {'kind': 'bounded', 'bound': _RB},
            'vk_modring_double_one_instance_ok': {'kind': 'bounded', 'bound': _RB},
            'vk_modring_large_one_instance_ok': {'kind': 'bounded', 'bound': _RB},
        },
    },
}
PROP_UNITS = {}
