"""Cross-type comparison and hashing, second batch (C14): FBig vs integers (NumOrd / AbsOrd), FBig and rationals vs f32 / f64,
NumHash of UBig / IBig.  Vocabulary + trusted stubs: contracts/lib/no_*.rs (+ gcdo_numord_stubs.rs, gcdo_numhash_stubs.rs);
annotated copies: contracts/annot/{float,rational,integer}/numorder2/."""
VERUS = {
    'num_order_float_int': {'file': 'num_order_float_int.rs'},
    'num_order_float_prim': {'file': 'num_order_float_prim.rs'},
    'num_order_ratio_prim': {'file': 'num_order_ratio_prim.rs'},
    'num_hash_int': {'file': 'num_hash_int.rs'},
}
PROP_UNITS = {
    'C14': {'verus': ['num_order_float_int', 'num_order_float_prim', 'num_order_ratio_prim', 'num_hash_int'],
            'undecided': []},
}
