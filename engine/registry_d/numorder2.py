"""Cross-type comparison and hashing, second batch (C14): FBig vs integers (NumOrd / AbsOrd), FBig in different bases, FBig and
rationals vs f32 / f64, rationals vs integers, the remaining integer arms, NumHash of UBig / IBig and of the rational Repr.
Vocabulary + trusted stubs: contracts/lib/no_*.rs (+ gcdo_numord_stubs.rs, gcdo_numhash_stubs.rs, gcdo_cmpf_stubs.rs);
annotated copies: contracts/annot/{float,rational,integer}/numorder2/."""
VERUS = {
    # float/src/cmp.rs repr_cmp_ubig / repr_cmp_ibig<B, ABS> (any base B >= 2) and the 72 impl methods that dispatch to them
    # (cmp.rs impl_abs_ord_with_method!, num_order.rs impl_num_ord_with_method!, forward_num_ord_to_repr!(UBig / IBig),
    # impl_num_ord_fbig_unsigned!, impl_num_ord_with_signed! for all 12 primitive integer types; both directions, Repr and FBig):
    #   infinite float: Greater if +inf or ABS else Less;  otherwise ret == ordering of s * B^e against x (of |s| B^e against |x|
    #   if ABS), cleared of the power: e >= 0: cmp(s * B^e, x), e < 0: cmp(s, x * B^-e);  mirrored impls: the reverse.
    #   The f32 log2 filter is ASSUMED sound; infinities (the `|| ABS` flag), signs and the exact step are proved.
    'num_order_float_int': {'file': 'num_order_float_int.rs'},
    # float/src/third_party/num_order.rs impl_num_ord_with_float!: NumOrd<f32 / f64> for Repr<B>, the mirrored arm, and the FBig
    # forwarding impls (forward_num_ord_to_repr!(f32 / f64)):  NaN => None;  both infinite of one sign => Equal;  otherwise the
    # ordering of s * B^e against man * 2^ex, cross-multiplied (cmp_repr_prim).  The bit-length shortcuts (step 3 "bigger than
    # every finite float", step 4) are PROVED from exact enclosures 2^(lb-1) <= |self| < 2^ub -- no f32 estimate is involved.
    'num_order_float_prim': {'file': 'num_order_float_prim.rs'},
    # float/src/third_party/num_order.rs `NumOrd<Repr<B2>> for Repr<B1>` + FBig forwarding: floats in DIFFERENT bases compare as
    # s1 * B1^e1 vs s2 * B2^e2 (cross-multiplied), infinities by sign; f32 log2 filter ASSUMED sound
    'num_order_float_bases': {'file': 'num_order_float_bases.rs'},
    # rational/src/third_party/num_order.rs impl_num_ord_with_float!: NumOrd<f32 / f64> for the rational Repr + the RBig / Relaxed
    # forwarding impls in both directions:  NaN => None, infinities, otherwise cmp(n * 2^-ex, man * d * 2^ex) (cmp_ratio_prim);
    # the bit-length shortcuts PROVED from 2^(nb-db-1) <= |n/d| < 2^(nb-db+1) and 2^(mb+ex-1) <= |f| < 2^(mb+ex), mb = bit length
    # of the MANTISSA (subnormals)
    'num_order_ratio_prim': {'file': 'num_order_ratio_prim.rs'},
    # rational/src/cmp.rs repr_cmp_ubig / repr_cmp_ibig<ABS> and 70 impl methods that dispatch to them (AbsOrd<UBig / IBig> for
    # Repr, forward_abs_ord_to_repr!, NumOrd<UBig / IBig> for Repr, forward_num_ord_to_repr! for RBig / Relaxed x UBig / IBig /
    # u64 / i64 in both directions, impl_num_ord_with_unsigned! / _signed! for all 12 primitive types):
    #   ret == cmp(n, x * d)  (cmp(|n|, |x| * d) if ABS);  f32 log2 filter ASSUMED sound
    'num_order_ratio_int': {'file': 'num_order_ratio_int.rs'},
    # integer/src/third_party/num_order.rs: NumOrd<f32 / f64> for IBig (bit-length shortcuts on the magnitudes, sign applied, exact
    # step), the mirrored arms NumOrd<UBig / IBig> for f32 / f64, NumOrd between UBig and IBig (4 impls), and with all 12
    # primitive integer types (4 macros, both directions): ret == ordering of the exact values, None for NaN
    'num_order_int_arms': {'file': 'num_order_int_arms.rs'},
    # integer/src/third_party/num_order.rs NumHash for UBig / IBig: fed == sgn(n) * (|n| mod (2^127 - 1)) (num-order's integer hash;
    # lemma_i128_hash: equal to what i128::num_hash feeds for every i128, e.g. 0 for 2^127 - 1)
    'num_hash_int': {'file': 'num_hash_int.rs'},
    # rational/src/third_party/num_order.rs NumHash for Repr: d mod M != 0: |h| < M, sign(h) = sign(n) (or 0), |h| * d == |n| (mod M);
    # d mod M == 0: h == 0  (M = 2^127 - 1; num-order's hash of the rational n/d, same shape as num_hash_float for e < 0)
    'num_hash_ratio': {'file': 'num_hash_ratio.rs'},
}

_FILTER = ('the f32 log2 filter agrees with the exact comparison (log2_bounds of Repr<B> / rational Repr / UBig / IBig are enclosures '
           'of log2 |value|, f32 `>` / `<` compare the reals, 2^x is monotone: ax_est_gt / ax_est_lt) -- only the infinity / sign '
           'cases and the exact step are proved')
PROP_UNITS = {
    'C14': {'verus': ['num_order_float_int', 'num_order_float_prim', 'num_order_float_bases', 'num_order_ratio_prim',
                      'num_order_ratio_int', 'num_order_int_arms', 'num_hash_int', 'num_hash_ratio'],
            'undecided': [
                'num_order_float_int / num_order_float_bases ASSUME (lib/no_float_stubs.rs, lib/no_ord_stubs.rs, trusted): ' + _FILTER +
                '; utils::shl_digits / shl_digits_in_place (exact multiplication by B^n), IBig <<= / clone / From<UBig> / From<primitive> '
                '(lib/no_prim_from.rs), Ordering::reverse, Sign * Ordering; mirrored structs Repr<B> / FBig / Context; resource '
                'precondition |exponent| <= 2^56; num_order_float_bases requires canonical infinities (exponent +-1, what the '
                'constructors build)',
                'num_order_float_prim / num_order_ratio_prim / num_order_int_arms use the abstract f32 / f64 model of lib/gcdo_numord_stubs.rs '
                '(trusted, decode proved by Kani group base_bit) plus lib/no_prim_stubs.rs (u64::bit_len <= 64, From<i32 / i64> for IBig); '
                'the default method NumOrd::num_cmp of the num-order crate (`num_partial_cmp(..).unwrap()`) is ASSUMED where an impl does '
                'not override it (float operands); every other trait impl in the unit templates is a verified one-line forward to the '
                'hoisted real method (lib/no_numord_trait.rs)',
                'num_order_ratio_int ASSUMES (lib/gcdo_cmpf_stubs.rs + lib/no_ratio_int_stubs.rs, trusted): ' + _FILTER +
                '; &UBig * &UBig, AbsOrd<UBig> for IBig; not under contract: impl_ord_between_ratio! (RBig vs Relaxed: forwards to '
                'Repr::cmp / eq, C05 unit ratio_cmp), the `mod with_float` forwarding impls around repr_cmp_fbig (proved in '
                'num_order_ratio_fbig), forward_num_ord_to_repr! instantiated for primitive integers other than u64 / i64 (same tokens)',
                'num_order_int_arms ASSUMES (lib/no_int_ord_stubs.rs, trusted): UBig::from_unsigned / IBig::from_unsigned / from_signed '
                '(value-exact), IBig::as_sign_repr / UBig::repr / Ord for TypedReprRef (compare the magnitudes), IBig << usize',
                'num_hash_int / num_hash_ratio ASSUME (lib/no_int_hash_stubs.rs, lib/no_ratio_hash_stubs.rs, lib/gcdo_numhash_stubs.rs, '
                'trusted): `&UBig % u128`, `&IBig % i128` (truncated), Hash for i128 writes the number, NumHash for i128 of num-order, '
                'FixedMersenneInt<127, 1> arithmetic and the primality of 2^127 - 1, Sign * i128, IBig::is_positive; TryFrom<&UBig> for '
                'i128 is specified but unused; the RBig / Relaxed / FBig NumHash forwarding impls (`self.0.num_hash(state)`) are '
                'not under contract; that equal values of different types satisfy the same hash relation with a UNIQUE solution '
                '(d invertible mod 2^127 - 1) is the meta-argument, not a machine-checked statement']},
}
