"""integer/src/div_const.rs, every function: constructors, accessors, rem_* kernels, Div/Rem/DivRem dispatch on
&ConstDivisorRepr and the UBig / IBig operator wrappers (properties C02, C13, C15).

Annotated copies: contracts/annot/integer/divconst2/ (new) + contracts/annot/integer/div_const/ (dispatch arms and the
small helpers, written for unit int_div_const and re-verified here against stubs that HAVE the read-only accessors
`divisor()` of the num_modular wrappers, so that a changed body that calls them is judged instead of rejected).
Stubs / lemmas: contracts/lib/dc2_stubs.rs, dc2_lemmas.rs, dc2_lemmas_rem.rs."""
VERUS = {
    # ConstSingleDivisor / ConstDoubleDivisor / ConstLargeDivisor::new, ConstDivisor::{new, from_word, from_dword}:
    #     wf (stored divisor == d << shift, top bit set i.e. shift == leading zeros, reciprocal built from the normalized
    #     divisor) and value() == d, representation Single / Double / Large decided by d < B, B <= d < B^2, else;
    # divisor / normalized_divisor / shift / value: the original d, d << shift, shift;
    # rem_word / rem_dword / rem_large (Single, Double): ret == (x << shift) mod (d << shift) == (x mod d) << shift, x mod d in [0, d);
    # Div / Rem / DivRem on &ConstDivisorRepr for TypedRepr(Ref), all 6 arms each: q == floor(a/d), r == a mod d (is_div_rem);
    # 18 operator wrappers: UBig q == a / d, r == a % d; IBig truncating convention (a == q*d + r, |r| < d, sign(r) == sign(a)).
    'int_div_const2': {'file': 'int_div_const2.rs', 'w32': True},
    # ConstDivisor::{new, from_word, from_dword} with a zero divisor: no normal return (must_panic, rule D4)
    'int_div_const2_panic': {'file': 'int_div_const2_panic.rs', 'w32': True},
}

_U = ['ASSUMED (lib/div_const_stubs.rs, lib/dc2_stubs.rs, lib/div_word_stubs.rs, lib/div_dword_stubs.rs): num_modular '
      'PreMulInv2by1 / PreMulInv3by2 `new(d)` (normalized divisor == d << leading_zeros(d), reciprocal of it), `divider()`, '
      '`shift()`, `divisor()` (the normalized divisor) and the dividers div_rem_1by1 / 2by1 / 2by2 / 3by2 (documented '
      'meaning); Buffer / Repr / Box<[Word]> storage stubs; core::mem::take / Clone on UBig / IBig',
      'the operator forms the UBig / IBig wrappers are written with (`TypedRepr / &ConstDivisorRepr`, `TypedReprRef % '
      '&ConstDivisorRepr`, `.div_rem(&ConstDivisorRepr)`, and for the op-assign forms `UBig / &ConstDivisor` ..) are '
      'operator STUBS in lib/dc2_stubs.rs with the functional statement (a / d, a % d) of the contract that the same unit '
      'PROVES for the real impl under its hoisted name (typed_div_const .., ubig_div_cd ..): the link between a trait impl '
      'and its hoisted copy is by name, not checked by Verus',
      'ConstLargeDivisor::{rem_large, rem_repr} are under contract in unit int_modconv (registry_d/modular.py); '
      '`impl Display for ConstDivisor` (forwards to Display of value()) is not under contract']

PROP_UNITS = {
    'C02': {'verus': ['int_div_const2', 'int_div_const2_panic'], 'undecided': _U},
    # residues in [0, m): rem_word / rem_dword / rem_large of the single- and double-word rings, `%` through a ConstDivisor
    'C13': {'verus': ['int_div_const2'], 'undecided': _U[:1]},
    # `/`, `/=`, div_rem().0, div_rem_assign, by value and by reference, are each proved against the same value
    'C15': {'verus': ['int_div_const2'], 'undecided': _U[1:2]},
}
