"""Float rounding-to-integer operations (C10): float/src/round_ops.rs FBig::{trunc, split_at_point_internal, split_at_point,
fract, ceil, floor, round}, float/src/repr.rs Repr::smaller_than_one, float/src/convert.rs FBig::to_int."""

VERUS = {
    # float/src/repr.rs Repr::smaller_than_one (the digits_ub shortcut PROVED from digits <= digits_ub: true ==> |x| < 1/B)
    # + float/src/round_ops.rs FBig::split_at_point_internal (significand == hi * B^p + lo with p == -exponent, |lo| < B^p,
    # sign(lo) == sign(significand)); own unit so that a change of the split is a violation even when a caller loses anchors
    'float_round_ops_split': {'file': 'float_round_ops_split.rs', 'w32': False},
    # float/src/round_ops.rs FBig::{trunc, split_at_point, fract, ceil, floor, round}: value-level definitions
    # (round_def on significand and B^(-exponent)); trunc/fract/split_at_point share ONE unique split (trunc + fract == x)
    'float_round_ops': {'file': 'float_round_ops.rs', 'w32': False},
    # float/src/convert.rs FBig::to_int: Exact iff integer, else the neighbour of mode R with a truthful adjustment
    'float_fbig_to_int': {'file': 'float_fbig_to_int.rs', 'w32': False},
}

_UND = ('FBig::{trunc, fract, split_at_point, floor, ceil, round, to_int}: value-level only (the precision field of the '
        'results is not specified); preconditions: finite, exponent > isize::MIN, fewer than 2^56 digits (memory limit). '
        'The f32 estimate Repr::digits_ub enters only through its ASSUMED enclosure digits <= digits_ub <= 2*digits + 2 '
        '(stub in lib/round_float_repr.rs); the shortcuts built on it (smaller_than_one: |x| < 1/B, round(): |x| < 1/2) '
        'are proved from that enclosure. split_digits(_ref) / shr_digits / shl_digits / Repr::new / IBig + Rounding are '
        'trusted stubs (split_digits(_ref) proved in unit float_split; the others bounded-checked by the stub_float group); '
        'FBig::{ZERO, ONE, NEG_ONE} and Clone for FBig are transcribed constants / field-wise copies')

PROP_UNITS = {
    'C10': {'verus': ['float_round_ops_split', 'float_round_ops', 'float_fbig_to_int'], 'undecided': [_UND]},
}
