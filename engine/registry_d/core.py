"""Core word-level units (add.rs kernels, primitives, math.rs scalars)."""
VERUS = {
    'int_prim': {'file': 'int_prim.rs', 'w32': True},
    'int_add': {'file': 'int_add.rs', 'w32': True, 'rlimit': 60},
    'int_modadd': {'file': 'int_modadd.rs', 'w32': True},
}

KANI = {
    'int_math': {
        'package': 'dashu-int', 'target': 'integer/src/math.rs', 'file': 'int_math.rs',
        'harnesses': {
            'vk_math_ones_word': {'kind': 'complete', 'domain': 'all n <= 64'},
            'vk_math_ones_dword': {'kind': 'complete', 'domain': 'all n <= 128'},
            'vk_math_shl_dword': {'kind': 'complete', 'domain': 'all u128 x all shifts <= 64'},
            'vk_math_shr_word': {'kind': 'complete', 'domain': 'all u64 x all shifts < 64'},
        },
    },
}


_B3 = 'slice length <= 3 words, full 64-bit symbolic words'
KANI['int_add_w'] = {
    'package': 'dashu-int', 'target': 'integer/src/add.rs', 'file': 'int_add_w.rs',
    'harnesses': {
        'vk_int_add_w_add_one': {'kind': 'bounded', 'bound': _B3},
        'vk_int_add_w_sub_one': {'kind': 'bounded', 'bound': _B3},
        'vk_int_add_w_add_word_dword': {'kind': 'bounded', 'bound': _B3},
        'vk_int_add_w_sub_word_dword': {'kind': 'bounded', 'bound': _B3},
        'vk_int_add_w_add_sub_in_place': {'kind': 'bounded', 'bound': _B3},
        'vk_int_add_w_same_len': {'kind': 'bounded', 'bound': _B3},
        'vk_int_add_w_sub_with_sign': {'kind': 'bounded', 'bound': _B3},
    },
}
# Verus function -> (kani group, harness) able to produce a concrete failing input for it (used by ./check to
# attach a replayable counterexample to a failed Verus obligation)
WITNESS = {
    'add_one_in_place': ('int_add_w', 'vk_int_add_w_add_one'),
    'sub_one_in_place': ('int_add_w', 'vk_int_add_w_sub_one'),
    'add_word_in_place': ('int_add_w', 'vk_int_add_w_add_word_dword'),
    'add_dword_in_place': ('int_add_w', 'vk_int_add_w_add_word_dword'),
    'sub_word_in_place': ('int_add_w', 'vk_int_add_w_sub_word_dword'),
    'sub_dword_in_place': ('int_add_w', 'vk_int_add_w_sub_word_dword'),
    'add_in_place': ('int_add_w', 'vk_int_add_w_add_sub_in_place'),
    'sub_in_place': ('int_add_w', 'vk_int_add_w_add_sub_in_place'),
    'add_same_len_in_place': ('int_add_w', 'vk_int_add_w_same_len'),
    'sub_same_len_in_place': ('int_add_w', 'vk_int_add_w_same_len'),
    'sub_same_len_in_place_swap': ('int_add_w', 'vk_int_add_w_same_len'),
    'sub_in_place_with_sign': ('int_add_w', 'vk_int_add_w_sub_with_sign'),
}

PROP_UNITS = {
    'C01': {'verus': ['int_prim', 'int_add'], 'kani': ['int_math', 'int_add_w'],
            'undecided': ['Memory scratch allocator sizing (opaque stubs)',
                          'Karatsuba / Toom-3 / sqr / mul_dword_in_place are proved (units int_mul_karatsuba, int_mul_toom3, '
                          'int_sqr, int_mul_dword, int_mul_dispatch); the dispatch units use their contracts via //@@ SIG']},
    'C13': {'verus': ['int_modadd'],
            'undecided': ['single/double-word residues (num_modular reducers, dependency)',
                          'negate_in_place / dbl_in_place (Iterator::all, shift kernel)', 'mul, pow, inv, conversions',
                          'cmp_same_len is an assumed contract (bounded-checked by Kani group int_cmp)']},
    'C09': {'kani': ['int_math']},
    'C16': {'verus': ['int_prim', 'int_add', 'int_modadd']},
    'C19': {'verus': ['int_prim', 'int_add', 'int_modadd']},
}

# 32-bit word build of the conversion paths (C19)
KANI['int_conv_w32'] = {
    'package': 'dashu-int', 'target': 'integer/src/convert.rs', 'file': 'int_conv_w32.rs', 'word': 32,
    'harnesses': {
        'vk_int_conv_w32_u128_round_trip': {'kind': 'complete', 'domain': 'all u128 (Word = u32: 0..=4 words)'},
        'vk_int_conv_w32_i128_round_trip': {'kind': 'complete', 'domain': 'all i128 (Word = u32)'},
    },
}
PROP_UNITS['C19'] = dict(PROP_UNITS.get('C19', {}), kani=['int_conv_w32'])
PROP_UNITS['C06'] = {'kani': ['int_conv_w32']}
