"""Core word-level units (add.rs kernels, primitives, math.rs scalars)."""
VERUS = {
    'int_prim': {'file': 'int_prim.rs', 'w32': True},
    'int_add': {'file': 'int_add.rs', 'w32': True},
}

KANI = {
    'int_math': {
        'package': 'dashu-int', 'target': 'integer/src/math.rs', 'file': 'int_math.rs',
        'harnesses': {
            'vk_math_ones_word': {'kind': 'complete', 'domain': 'all n <= 64'},
            'vk_math_ones_dword': {'kind': 'complete', 'domain': 'all n <= 128'},
            'vk_math_shl_dword': {'kind': 'complete', 'domain': 'all u128 x all shifts <= 64'},
            'vk_math_shr_word': {'kind': 'complete', 'domain': 'all u64 x all shifts < 64'},
        },
    },
}


PROP_UNITS = {
    'C01': {'verus': ['int_prim', 'int_add'], 'kani': ['int_math']},
}
