"""Reduced-ring arithmetic on multi-word moduli (integer/src/modular/*.rs), property C13.

Vocabulary: contracts/lib/mod2_ring.rs (`red_valid`/`red_ok` on the STORED numbers raw = r * 2^shift < M = m * 2^shift,
`resid`/`modulus` = the mathematical residue / modulus).  Annotated copies: contracts/annot/integer/modular2/."""
VERUS = {
    # modular/add.rs negate_in_place, dbl_in_place (+ add_in_place again, with Ordering::is_gt/is_lt specified so that a
    # changed comparison is a failed obligation instead of an unsupported construct):
    #   stored: mod1(val(x'), -val(x) | 2*val(x), M), x' valid;   residues: resid(x') == (-r | 2r) mod m
    'int_modadd2': {'file': 'int_modadd2.rs', 'w32': True},
    # modular/mul.rs mul_normalized, sqr_normalized, mul_in_place, sqr_in_place (+ primitive::locate_top_word_plus_one):
    #   stored: val(out) == ((A * B) >> shift) mod M < M, aligned;   residues: resid(out) == (ra * rb) mod m
    'int_modmul': {'file': 'int_modmul.rs', 'w32': True, 'rlimit': 40},   # default 10; observed use ~1.5 (headroom only)
    # modular/div.rs inv_large: Some(x) ==> x valid and resid(a) * resid(x) == 1 (mod m);  None ==> gcd(resid(a), m) != 1
    # (by divisibility: a common divisor >= 2 exists), over ASSUMED gcd_ext contracts (lib/mod2_gcd.rs)
    'int_moddiv': {'file': 'int_moddiv.rs', 'w32': True},
    # modular/convert.rs ReducedLarge::{from_ubig, residue}: resid(from_ubig(x)) == x mod m, residue() == resid in [0, m);
    # div_const.rs ConstLargeDivisor::{rem_large, rem_repr}: (x << shift) mod M;  modular/repr.rs check_same_ring_*:
    # same ring object ==> returns (panic unreachable)
    'int_modconv': {'file': 'int_modconv.rs', 'w32': True},
    # check_same_ring_* must_panic variants: different ring objects ==> no normal return
    'int_modconv_panic': {'file': 'int_modconv_panic.rs'},
}

_PB = 'single-word ring, modulus 2^61-1 (pinned by assume); one-word exponent; '
KANI = {
    'int_modpow': {
        'package': 'dashu-int', 'target': 'integer/src/modular/pow.rs', 'file': 'int_modpow.rs',
        'harnesses': {
            'vk_modpow_single_word_exp_small': {'kind': 'bounded', 'tier': 'thorough', 'bound': _PB + 'bases +-k, k < 4; exponent < 6'},
            'vk_modpow_single_word_exp': {'kind': 'bounded', 'tier': 'thorough', 'bound': _PB + 'bases +-k, k < 8; exponent < 16'},
        },
    },
}

PROP_UNITS = {
    'C13': {'verus': ['int_modadd2', 'int_modmul', 'int_moddiv', 'int_modconv', 'int_modconv_panic'],
            'kani_thorough': ['int_modpow'],
            'undecided': ['pow: proved unbounded by the Verus units int_modpow_large / _one / _single / _double (registry_d/modpow2.py); the '
                          'Kani group int_modpow (thorough tier, single-word ring, one-word exponent, 160 s / 450 s per harness) stays as a '
                          'bounded cross-check of the ASSUMED num_modular Reducer on the real crate',
                          'int_modconv: own trusted mirror of Buffer / TypedRepr / UBig (lib/mod2_conv.rs); "different rings" is '
                          'reference identity, modelled as the uninterpreted relation same_object that core::ptr::eq is ASSUMED to '
                          'decide; the operator impls that call check_same_ring_* / panic_different_rings on mixed '
                          'Single/Double/Large representations (match arms in add.rs, mul.rs, repr.rs) are not under contract; '
                          'single/double-word from_ubig / residue (num_modular reducers) are not under contract',
                          'int_moddiv ASSUMES (lib/mod2_gcd.rs, trusted): gcd::gcd_ext_word / gcd_ext_dword / gcd_ext_in_place (Lehmer) '
                          'return g = gcd with lhs*a + rhs*b == g, |b| < lhs, exact lengths; primitive::lowest_dword; '
                          'Buffer::from / into_boxed_slice; <[T]>::fill; inv() of single/double-word rings (num_modular) '
                          'and the Div operators (inv + mul dispatch, panic on None) are not under contract',
                          'int_modmul uses via //@@ SIG the PROVED contracts of mul::multiply and sqr::sqr (exact product; units int_mul_dispatch, int_sqr) and ASSUMES: '
                          'div::div_rem_in_place returns lhs == q*rhs + r with r < rhs (proved for the schoolbook branch in unit '
                          'int_div_ops); Memory::allocate_slice_fill, Box deref/eq (lib/mod2_mem.rs); cmp_same_len; the '
                          'scratch-memory SIZING (mul_memory_requirement) is not verified',
                          'negate_in_place: `raw.0.iter().all(|w| *w == 0)` is lowered by rule D15 to the verified helper '
                          '__slice_all_eq (meaning of slice::Iter::all trusted as for D1)']},
    'C16': {'verus': ['int_modadd2', 'int_modmul', 'int_moddiv', 'int_modconv', 'int_modconv_panic']},
    'C19': {'verus': ['int_modadd2', 'int_modmul', 'int_moddiv', 'int_modconv']},
}
