"""Storage units (C17/C05/C15): Kani harness groups on the real unsafe Buffer/Repr code of dashu-int."""


def _h(names, bound, **kw):
    return {n: dict({'kind': 'bounded', 'bound': bound}, **kw) for n in names}


def _caps(op, caps, prefix='vk_int_buffer_'):
    return ['%s%s_c%d' % (prefix, op, c) for c in caps]


_B = 'one operation on an arbitrary well-formed Buffer of the stated concrete capacity (suffix _cN), symbolic ' \
     'length 0..=N and symbolic 64-bit contents; operands (n, slice length) <= 8; results <= 10 words'
_R6 = range(1, 7)

_BUFFER = {}
_BUFFER.update(_h(['vk_int_buffer_allocate', 'vk_int_buffer_allocate_exact'], 'num_words 0..=6 / capacity 1..=8'))
_BUFFER.update(_h(['vk_int_buffer_allocate_exact_zero_panics', 'vk_int_buffer_allocate_too_much_panics',
                   'vk_int_buffer_from_slice'], 'slice length <= 6'))
for _op, _cs in [('ensure_capacity', _R6), ('ensure_capacity_exact', _R6), ('shrink_to_fit', [1, 3, 4, 5, 6, 7, 8]),
                 ('push', _R6), ('push_full_panics', [1, 3]), ('push_resizing', _R6), ('push_zeros', _R6),
                 ('push_zeros_over_panics', [3]), ('push_zeros_front', _R6), ('push_zeros_front_over_panics', [3]),
                 ('push_slice', _R6), ('push_slice_over_panics', [3]), ('pop_zeros', _R6), ('truncate', [1, 3, 6]),
                 ('truncate_over_panics', [3]), ('erase_front', _R6), ('erase_front_over_panics', [3]),
                 ('lowest_dword', [2, 5]), ('lowest_dword_short_panics', [3]), ('clone', _R6),
                 ('clone_from', [1, 2, 3, 4, 5, 6, 8]), ('clone_from_slice', _R6), ('into_boxed_slice', _R6),
                 ('deref_eq', [1, 4, 6]), ('drop', [1, 3, 6])]:
    _BUFFER.update(_h(_caps(_op, _cs), _B))
_BUFFER['vk_int_buffer_finding_ensure_capacity_cap1'] = {
    'kind': 'finding', 'bound': 'capacity 1',
    'note': 'latent: ensure_capacity(2) / push_resizing on a capacity-1 buffer does not grow (guard `&& num_words > 2`); '
            'capacity 1 only arises from allocate_exact(1), never followed by these calls in the crate'}

KANI = {
    'int_buffer': {
        'package': 'dashu-int', 'target': 'integer/src/buffer.rs', 'file': 'int_buffer.rs',
        'harnesses': _BUFFER,
    },
}

PROP_UNITS = {
}
