"""Storage units (C17/C05/C15): Kani harness groups on the real unsafe Buffer/Repr code of dashu-int."""


def _h(names, bound, **kw):
    return {n: dict({'kind': 'bounded', 'bound': bound}, **kw) for n in names}


def _caps(op, caps, prefix='vk_int_buffer_'):
    return ['%s%s_c%d' % (prefix, op, c) for c in caps]


_B = 'one operation on an arbitrary well-formed Buffer of the stated concrete capacity (suffix _cN), symbolic ' \
     'length 0..=N and symbolic 64-bit contents; operands (n, slice length) <= 8; results <= 10 words'
_R6 = range(1, 7)

_BUFFER = {}
_BUFFER.update(_h(['vk_int_buffer_allocate', 'vk_int_buffer_allocate_exact'], 'num_words 0..=6 / capacity 1..=8'))
_BUFFER.update(_h(['vk_int_buffer_allocate_exact_zero_panics', 'vk_int_buffer_allocate_too_much_panics',
                   'vk_int_buffer_from_slice'], 'slice length <= 6'))
for _op, _cs in [('ensure_capacity', _R6), ('ensure_capacity_exact', _R6), ('shrink_to_fit', [1, 3, 4, 5, 6, 7, 8]),
                 ('push', _R6), ('push_full_panics', [1, 3]), ('push_resizing', _R6), ('push_zeros', _R6),
                 ('push_zeros_over_panics', [3]), ('push_zeros_front', _R6), ('push_zeros_front_over_panics', [3]),
                 ('push_slice', _R6), ('push_slice_over_panics', [3]), ('pop_zeros', _R6), ('truncate', [1, 3, 6]),
                 ('truncate_over_panics', [3]), ('erase_front', _R6), ('erase_front_over_panics', [3]),
                 ('lowest_dword', [2, 5]), ('lowest_dword_short_panics', [3]), ('clone', _R6),
                 ('clone_from', [1, 2, 3, 4, 5, 6, 8]), ('clone_from_slice', _R6), ('into_boxed_slice', _R6),
                 ('deref_eq', [1, 4, 6]), ('drop', [1, 3, 6])]:
    _BUFFER.update(_h(_caps(_op, _cs), _B))
# quick tier: capacities 1, 2, 3, 6 (and 8); the middle instances only run in the thorough tier
for _op, _cs in [(o, [4, 5]) for o in ['ensure_capacity', 'ensure_capacity_exact', 'push', 'push_resizing', 'push_zeros',
                                       'push_zeros_front', 'push_slice', 'pop_zeros', 'erase_front', 'clone',
                                       'clone_from_slice', 'into_boxed_slice']] + \
                [('clone_from', [2, 4, 5]), ('shrink_to_fit', [3, 4, 7])]:
    for _n in _caps(_op, _cs):
        _BUFFER[_n]['tier'] = 'thorough'

def _scan(fname, prefix):
    """Harness names defined in a harness file (every identifier with the group's unique prefix), in file order."""
    import os
    import re
    path = os.path.join(os.path.dirname(os.path.dirname(os.path.dirname(os.path.abspath(__file__)))), 'kani', 'harness',
                        fname)
    out = []
    for n in re.findall(r'\b(%s\w+)\b' % prefix, open(path).read()):
        if n not in out:
            out.append(n)
    return out


_R = 'one operation on an arbitrary well-formed Repr: inline (_i: capacity 1/2, symbolic words and sign) or heap with ' \
     'the stated concrete capacity (_hN: symbolic length 3..=N, sign, contents; N <= 9); from_buffer: buffer capacity ' \
     '_cN, length <= 7; ones: every n in the stated range (0..=200 in total)'
_REPR = _h(_scan('int_repr.rs', 'vk_int_repr_'), _R)
# heavier instances (40 s .. 5 min each on a loaded machine) and the one-by-one `ones` loops, which repeat
# vk_int_repr_ones_any_* with concrete allocation sizes
for _n in ['from_buffer_c5', 'from_buffer_c8', 'from_ref_h6', 'clone_h4', 'clone_h6', 'clone_from_h4_h7',
           'clone_from_h5_h7', 'clone_from_h6_h7', 'clone_from_h8_h7', 'clone_from_h9_h7', 'clone_from_h7_h3',
           'clone_from_h9_h4', 'clone_from_i1_h3', 'clone_from_i1_h7', 'clone_from_i2_h7', 'ones_0_66', 'ones_67_133',
           'ones_134_200']:
    _REPR['vk_int_repr_' + _n]['tier'] = 'thorough'
for _n in _REPR:
    if '_eq_cmp_hash' in _n:
        _REPR[_n]['props'] = ['C05']
    elif '_clone' in _n:
        _REPR[_n]['props'] = ['C17', 'C15']
    elif '_ones' in _n:
        _REPR[_n]['props'] = ['C17', 'C05', 'C09']      # UBig::ones is a C09 operation
    else:
        _REPR[_n]['props'] = ['C17', 'C05']

_CMP = _h(_scan('int_cmp.rs', 'vk_int_cmp_'),
          'magnitudes of at most 3 words (TypedReprRef: 4), full 64-bit symbolic words')

_FORMS = _h(_scan('int_forms.rs', 'vk_int_forms_'),
            'operands of 1, 2 or 3 words (class per harness: suffix _A_B, p/n = sign of an IBig operand); full 64-bit '
            'symbolic words for + - & | ^ << >> (shl: literal amounts from {0,1,63,64,65,129}, shr: any amount < 130), '
            'palette words {0, 1, 2^63, 2^64-1} for * / %; no 3-word / multi-word division, no |, ^ on IBig, '
            'primitive-operand forms only for -, |, & (UBig) and /, % (IBig, signed)')

for _n in ['ibig_add_1p_1n', 'ibig_sub_1p_1p', 'ubig_div_3_1', 'ubig_rem_3_3', 'ibig_div_i8_2n', 'ibig_rem_i8_2n']:
    _FORMS['vk_int_forms_' + _n]['tier'] = 'thorough'      # 3 .. 10 min each
_FORMS['vk_int_forms_finding_ibig_rem_u8_negative'] = {
    'kind': 'finding', 'bound': 'one-word negative dividend (palette word), any non-zero u8 divisor',
    'note': '`IBig % u8` (every unsigned primitive, also div_rem / div_rem_assign) panics in `.try_into().unwrap()` when '
            'the dividend is negative and the remainder non-zero, e.g. IBig::from(-7) % 3u8'}

KANI = {
    'int_forms': {
        'package': 'dashu-int', 'target': 'integer/src/lib.rs', 'file': 'int_forms.rs',
        'harnesses': _FORMS,
    },
    'int_cmp': {
        'package': 'dashu-int', 'target': 'integer/src/cmp.rs', 'file': 'int_cmp.rs',
        'harnesses': _CMP,
    },
    'int_repr': {
        'package': 'dashu-int', 'target': 'integer/src/repr.rs', 'file': 'int_repr.rs',
        # leak freedom is checked for these harnesses (each frees everything it owns before returning)
        'cbmc_args': ['--memory-leak-check'],
        'harnesses': _REPR,
    },
    'int_buffer': {
        'package': 'dashu-int', 'target': 'integer/src/buffer.rs', 'file': 'int_buffer.rs',
        # leak freedom is checked for these harnesses (each frees everything it owns before returning)
        'cbmc_args': ['--memory-leak-check'],
        'harnesses': _BUFFER,
    },
}

PROP_UNITS = {
    'C17': {'kani': ['int_buffer', 'int_repr']},
    'C05': {'kani': ['int_repr', 'int_cmp']},
    'C15': {'kani': ['int_repr', 'int_forms']},
    'C09': {'kani': ['int_repr']},
}
