"""Complete Kani proofs of scalar functions (float encode/decode, primitive helpers, small conversions, digit tables,
primitive gcd/roots/log estimator, integer <-> float comparison).  One harness file per group under kani/harness/."""

KANI = {
    'base_bit': {
        'package': 'dashu-base', 'target': 'base/src/bit.rs', 'file': 'base_bit.rs',
        'harnesses': {
            'vk_base_bit_decode_f32': {'kind': 'complete', 'domain': 'all 2^32 bit patterns'},
            'vk_base_bit_decode_f64': {'kind': 'complete', 'domain': 'all 2^64 bit patterns'},
            'vk_base_bit_roundtrip_f32': {'kind': 'complete', 'domain': 'all finite f32 bit patterns'},
            'vk_base_bit_roundtrip_f64': {'kind': 'complete', 'domain': 'all finite f64 bit patterns'},
            'vk_base_bit_encode_f32': {'kind': 'complete', 'domain': 'all (i32, i16)'},
            'vk_base_bit_encode_f64': {'kind': 'complete', 'domain': 'all (i64, i16)'},
        },
    },
    'int_primitive': {
        'package': 'dashu-int', 'target': 'integer/src/primitive.rs', 'file': 'int_primitive.rs',
        'harnesses': {
            'vk_int_primitive_to_sm_i8': {'kind': 'complete', 'domain': 'all i8'},
            'vk_int_primitive_from_sm_i8': {'kind': 'complete', 'domain': 'both signs x all u8'},
            'vk_int_primitive_rt_sm_i8': {'kind': 'complete', 'domain': 'all i8'},
            'vk_int_primitive_to_sm_i16': {'kind': 'complete', 'domain': 'all i16'},
            'vk_int_primitive_from_sm_i16': {'kind': 'complete', 'domain': 'both signs x all u16'},
            'vk_int_primitive_rt_sm_i16': {'kind': 'complete', 'domain': 'all i16'},
            'vk_int_primitive_to_sm_i32': {'kind': 'complete', 'domain': 'all i32'},
            'vk_int_primitive_from_sm_i32': {'kind': 'complete', 'domain': 'both signs x all u32'},
            'vk_int_primitive_rt_sm_i32': {'kind': 'complete', 'domain': 'all i32'},
            'vk_int_primitive_to_sm_i64': {'kind': 'complete', 'domain': 'all i64'},
            'vk_int_primitive_from_sm_i64': {'kind': 'complete', 'domain': 'both signs x all u64'},
            'vk_int_primitive_rt_sm_i64': {'kind': 'complete', 'domain': 'all i64'},
            'vk_int_primitive_to_sm_isize': {'kind': 'complete', 'domain': 'all isize'},
            'vk_int_primitive_from_sm_isize': {'kind': 'complete', 'domain': 'both signs x all usize'},
            'vk_int_primitive_rt_sm_isize': {'kind': 'complete', 'domain': 'all isize'},
            'vk_int_primitive_to_sm_i128': {'kind': 'complete', 'domain': 'all i128'},
            'vk_int_primitive_from_sm_i128': {'kind': 'complete', 'domain': 'both signs x all u128'},
            'vk_int_primitive_rt_sm_i128': {'kind': 'complete', 'domain': 'all i128'},
            'vk_int_primitive_double_word': {'kind': 'complete', 'domain': 'all (Word, Word)'},
            'vk_int_primitive_split_dword': {'kind': 'complete', 'domain': 'all DoubleWord'},
            'vk_int_primitive_signed_dword': {'kind': 'complete', 'domain': 'all SignedDoubleWord, all Word'},
            'vk_int_primitive_slice_accessors': {'kind': 'bounded', 'bound': 'slices of 2..=4 symbolic words'},
            'vk_int_primitive_locate_top_word': {'kind': 'bounded', 'bound': 'slices of 0..=4 symbolic words'},
            'vk_int_primitive_word_from_bytes_partial': {'kind': 'complete', 'domain': 'all lengths 0..=WORD_BYTES x all bytes x {le, be} x {zero, one padding}'},
            'vk_int_primitive_dword_from_bytes_partial': {'kind': 'complete', 'domain': 'all lengths 0..=DWORD_BYTES x all bytes x {le, be} x {zero, one padding}'},
        },
    },
    'int_convert_small': {
        'package': 'dashu-int', 'target': 'integer/src/convert.rs', 'file': 'int_convert_small.rs',
        'harnesses': {
            'vk_int_convert_small_to_f32': {'kind': 'complete', 'domain': 'all DoubleWord (u128) via TypedReprRef::RefSmall'},
            'vk_int_convert_small_to_f64': {'kind': 'complete', 'domain': 'all DoubleWord (u128) via TypedReprRef::RefSmall'},
        },
    },
}

PROP_UNITS = {
    'C06': {'kani': ['base_bit', 'int_primitive', 'int_convert_small']},
    'C17': {'kani': ['int_primitive']},
}
