"""Complete Kani proofs of scalar functions (float encode/decode, primitive helpers, small conversions, digit tables,
primitive gcd/roots/log estimator, integer <-> float comparison).  One harness file per group under kani/harness/."""

KANI = {
    'base_bit': {
        'package': 'dashu-base', 'target': 'base/src/bit.rs', 'file': 'base_bit.rs',
        'harnesses': {
            'vk_base_bit_decode_f32': {'kind': 'complete', 'domain': 'all 2^32 bit patterns'},
            'vk_base_bit_decode_f64': {'kind': 'complete', 'domain': 'all 2^64 bit patterns'},
            'vk_base_bit_roundtrip_f32': {'kind': 'complete', 'domain': 'all finite f32 bit patterns'},
            'vk_base_bit_roundtrip_f64': {'kind': 'complete', 'domain': 'all finite f64 bit patterns'},
            'vk_base_bit_encode_f32': {'kind': 'complete', 'domain': 'all (i32, i16)'},
            'vk_base_bit_encode_f64': {'kind': 'complete', 'domain': 'all (i64, i16)'},
        },
    },
}

PROP_UNITS = {
    'C06': {'kani': ['base_bit']},
}
