"""Hand-written `Clone` impls of FBig / float Repr / rational Repr / RBig / Relaxed / UBig / IBig (agent unitcl), properties
C05 ("a clone / clone_from copy is equal to its source, compares Equal and hashes equally") and C15 ("cloning, clone and
clone_from onto any previous value, yields a value equal to the original": `b.clone_from(&a)` leaves b indistinguishable
from `a.clone()`).

All of these impls are hand-written in /repo ("necessary due to rust issue 98374"); only `Context` (float/src/repr.rs) is
`#[derive(Clone, Copy)]` (no code to verify).  Annotated copies: contracts/annot/{float,rational,integer}/clones/.
The real trait methods are verified as INHERENT methods of the transcribed types (Verus rejects every call of the trait
method `Clone::clone_from` and cannot host a canary inside a foreign trait's impl), so a wrapper calls the verified real
method of the layer below (inherent before trait in method resolution), not a stub.  ONE predicate per type for both
forms: d = the value returned by `s.clone()`  resp.  d = what `d.clone_from(&s)` leaves in the destination, whatever it held.

clone_float   float/src/repr.rs `Clone for Repr<B>` (clone, clone_from):  cl_frepr_copy(s, d): d.significand == s.significand
              AND d.exponent == s.exponent;   float/src/fbig.rs `Clone for FBig<R,B>` (clone, clone_from):  cl_fbig_copy(s, d):
              cl_frepr_copy(s.repr, d.repr) AND d.context.precision == s.context.precision.   (lib/cl_float_types.rs)
              Callees seen by contract: Context::max / Context::new (verified in float_add / float_sign; only reachable in a
              changed tree).
clone_ratio   rational/src/repr.rs `Clone for Repr` (clone, clone_from), rational/src/rbig.rs `Clone for RBig` and
              `Clone for Relaxed` (clone, clone_from):  cl_ratio_copy(s, d): d.numerator == s.numerator AND
              d.denominator == s.denominator (the two fields, not merely the quotient).   (lib/cl_ratio_spec.rs)
clone_int     integer/src/ubig.rs `Clone for UBig`, integer/src/ibig.rs `Clone for IBig` (clone, clone_from), forwarding to
              `Clone for Repr`:  ret.v() == self.v()  resp.  final(self).v() == source.v().

Trusted (each states what the real method does; the storage-level copy is what the Kani groups int_repr / int_buffer check):
  lib/cl_int_types.rs       integer/src/repr.rs `Clone for Repr`: clone: r.v() == self.v(); clone_from: final(self).v() == src.v()
  lib/cl_int_clone.rs       UBig / IBig `clone`: r.v() == self.v()            (verified as forwarders in clone_int)
  lib/cl_int_clone_from.rs  UBig / IBig `clone_from`: final(self).v() == source.v()   (verified as forwarders in clone_int)
  lib/round_int_stubs.rs    IBig `clone` (same contract), used by clone_float.
Stubs elsewhere whose contract is now a verified statement (no longer a bare assumption): lib/ebounds_stubs.rs `Clone for FBig`,
lib/round_float_repr.rs `Clone for Repr<B>`, lib/ratio2_inv_stubs.rs `Clone for Repr`, lib/farey_stubs.rs `Clone for RBig`.
"""
VERUS = {
    'clone_float': {'file': 'clone_float.rs', 'w32': False},
    'clone_ratio': {'file': 'clone_ratio.rs', 'w32': False},
    'clone_int': {'file': 'clone_int.rs', 'w32': False},
}

_U = ['clone_float', 'clone_ratio', 'clone_int']
PROP_UNITS = {
    'C05': {'verus': _U,
            'undecided': [
                'clone / clone_from of FBig, float Repr, rational Repr, RBig, Relaxed, UBig, IBig are PROVED field-wise copies '
                '(significand, exponent AND precision; numerator AND denominator; integer value) given that the integer-level '
                '`Clone for Repr` (integer/src/repr.rs, union / raw-pointer code) yields the value of its source: that copy is '
                'covered by the Kani groups int_repr / int_buffer only (bounded lengths)',
            ]},
    'C15': {'verus': _U,
            'undecided': [
                '`b.clone_from(&a)` and `a.clone()` are PROVED against ONE predicate per type (units clone_float / clone_ratio / '
                'clone_int), for every previous content of b (value and precision); independence of the copy from the '
                'original is Rust ownership above the integer `Repr` and the Kani group int_repr below it',
            ]},
}
