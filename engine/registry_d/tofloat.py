"""Rational -> float of a given precision (agent unittf): rational/src/third_party/dashu_float.rs `Repr::to_float` with the
forwarding methods `RBig::to_float` / `Relaxed::to_float` (C06; the rounding definition `round_def` is the one of C10/C03).

Contract of `Repr::to_float::<R, B>(precision)` (lib/tf_lemmas.rs, mathematical integers, every base B >= 2, all six modes):
  ratio_round_once: numerator == 0 -> Exact(0 * B^0); otherwise there are nat s, k and an integer mm with
      B^(p-1) <= |num * B^s| / (den * B^k) < B^p          (B^(k-s) is the unit in the last place of num/den at p digits)
      round_def(mode, num * B^s, den * B^k, mm)           (mm = THE rounding of (num/den) / B^(k-s) by the mode: one rounding)
      result == mm * B^(k-s)
      Exact ==> mm * den * B^k == num * B^s;  Inexact(adj) ==> it differs and adj == mm - trunc (truthful flag + direction)
  Exact <==> ratio_representable (num/den == mant * B^e for some |mant| < B^p);  context precision == p.
  Precondition: B >= 2, precision > 0 (assert!), denominator > 0 (type invariant), resource limits precision,
  digits(num), digits(den) < 2^56 (exponent / usize overflow: documented panic C16, not modelled).
Sanity of the spec, proved in the same unit: lemma_tf_unique (two accepted answers have the same value and flag) and
lemma_tf_known_answers (1497/1000 -> 1 digit HalfAway base 10 accepts 1 and rejects the double-rounded 2; 127/26 -> 1
digit HalfAway base 3 accepts 2*3^1 and rejects the sticky-digit answer 1*3^1).

Also under contract in unit ratio_to_fbig (real code, FN): float/src/convert.rs `Context::convert_int` (one correct rounding
of an integer: round_val(mode, B, precision, n, 0, ret), context kept, an Exact result is the normalized integer:
0 <= exponent <= digits(n), zero = (0, 0)); float/src/shift.rs `impl Shr<isize> for FBig` (hoisted `fbig_shr`: same
significand, exponent - rhs, zero untouched, same context; requires finite operand and no isize overflow).

Trusted base added (contracts/lib/tf_stubs.rs; everything else comes from round_int_stubs.rs, round_int_addsub_stubs.rs,
round_float_repr.rs, conv_fbig_stubs.rs, ebounds_stubs.rs):
  IBig::ilog(&UBig) / UBig::ilog(&UBig): floor logarithm, base^r <= |self| < base^(r+1); requires self != 0, base >= 2
      (documented panics) -- integer/src/log.rs; only log_dword is proved (unit int_log), the large path is assumed
  DivRem<&UBig> for &IBig and for IBig: truncating (a == q*b + r, |r| < |b|, sign of r = sign of a), zero divisor panics
  IBig * UBig, &IBig * UBig, IBig * &UBig, &UBig * UBig: exact products;  &IBig << usize, IBig << usize: * 2^n
  UBig::as_ibig: same value;  IBig::signum (only for the earlier sticky-digit version of to_float)
  `impl Shr<isize> for FBig` at call sites: second copy of the contract that the real method is proved against (fbig_shr)
"""
VERUS = {
    # rational/src/third_party/dashu_float.rs Repr::to_float; float/src/convert.rs Context::convert_int;
    # float/src/shift.rs Shr<isize> for FBig; + small real helpers (Context::new, FBig::new, Repr::{is_zero, is_infinite},
    # Approximation::{map, and_then}, assert_finite)
    'ratio_to_fbig': {'file': 'ratio_to_fbig.rs', 'w32': False},
    # RBig::to_float / Relaxed::to_float forward to Repr::to_float (SIG of the same annotated copy)
    'ratio_to_fbig_rbig': {'file': 'ratio_to_fbig_rbig.rs', 'w32': False},
    'ratio_to_fbig_relaxed': {'file': 'ratio_to_fbig_relaxed.rs', 'w32': False},
}

PROP_UNITS = {
    'C06': {'verus': ['ratio_to_fbig', 'ratio_to_fbig_rbig', 'ratio_to_fbig_relaxed'],
            'undecided': ['RBig/Relaxed::to_float (rational -> FBig of a given precision): proved to be ONE correct rounding '
                          'with a truthful flag (Exact iff representable) for every base >= 2 and all six modes, over the stub '
                          'contracts of dashu-int (ilog, div_rem, products, shifts) and for precision / digit counts < 2^56; '
                          '`From<Repr/RBig/Relaxed> for FBig` (a float division, C03) is not under contract']},
    # the rounding predicate (round_def) and the "fewer digits" reading are those of C10
    'C10': {'verus': ['ratio_to_fbig']},
}
