"""Float of any base -> f32 / f64 (agent unitfp): float/src/convert.rs `Context::convert_to_binary_once`,
`FBig::{to_f32, to_f64}`, `Repr::{to_f32, to_f64}` (C06 "to_f32/to_f64 ... floats of any base ... return the correctly rounded
target value for their documented rounding rule, report Exact only when nothing was lost, and report the true sign of the error").

Specification (contracts/lib/fp_spec.rs, mathematical integers; the exact value of sig * B^e is the fraction N / D with
N = sig * B^max(e,0), D = B^max(-e,0)):
  bin_once(mode, p, N, D, mid)   "N/D rounded ONCE to p bits": N == 0 -> Exact (0, 0); otherwise there are nat s, k, int mm with
      2^(p-1) <= |N * 2^s| / (D * 2^k) < 2^p          (2^(k-s) = unit in the last place of N/D at p bits)
      round_def(mode, N * 2^s, D * 2^k, mm)           (lib/round_prelude.rs: THE rounding by the mode, all six modes)
      mid == mm * 2^(k-s);  Exact ==> mm * D * 2^k == N * 2^s;  Inexact(adj) ==> it differs and adj == mm - trunc
      (same definition as ratio_round_once, the contract of RBig::to_float, for base 2)
  fp_far(N, D, mid)              the far-range stand-in Inexact(+-1 * 2^+-4096, NoOp) with |N/D| > 2^4096 resp. < 2^-4096
  fp_enc32 / fp_enc64            the contract of into_f32_internal / into_f64_internal (unit float_to_f: RNE encoding of a value of
                                 at most 24 / 53 bits, exact in the normal range, +-inf beyond, truthful flag)
  fp_to_f32_post / fp_to_f64_post(mode, repr, ret): infinity -> Inexact(+-inf, NoOp); finite -> exists mid with
      (bin_once(mode, 24|53, N, D, mid) or fp_far(N, D, mid)) and exists o: fp_enc(mid, o) and ret == and_then(mid's flag, o)
Units:
  float_to_prim_round  Context::repr_round / repr_round_ref once more with the contract of float_repr_round STRENGTHENED by
                       "an Inexact result is in normal form" (needed for "at most p bits": +-2^p must have become +-1).
  float_to_prim_once   Context::convert_to_binary_once (body of /repo b344879: exact division of num/den with >= p + 2 quotient
                       bits + sticky bit, one repr_round): ensures (bin_once or fp_far) and finite, normal form, at most p bits.
                       No assumption about convert_base.  KEY LEMMA lemma_fp_sticky_core (integers, all six modes): S odd,
                       u = 2^k with k >= 2, every x with S - 1 < x < S + 1 has the same rounding to a multiple of u and the
                       same truncation as S and is not a multiple of u.
  float_to_prim_repr   Repr::to_f32 / to_f64 (rule HalfEven);  float_to_prim_fbig  FBig::to_f32 (rule R) / to_f64 (rule HalfEven)
                       + FBig::sign: the precondition of into_f32/f64_internal (<= 24 / 53 bits: the debug assertion that
                       fired before eabe4cf) is established; postcondition fp_to_f32_post / fp_to_f64_post.
Preconditions: operand in normal form (Repr invariant), resource limits blen(significand) <= 2^54, |exponent| < 2^48,
precision < 2^48 (usize / isize overflow of bit counts and exponents: documented panic C16, not modelled).

Trusted (contracts/lib/fp_stubs.rs, fp_spec.rs; everything else from round_int_stubs.rs, round_int_addsub_stubs.rs,
round_float_repr.rs, conv_enc.rs, conv_sign_float.rs, conv_float_stubs.rs):
  Sign * IBig (sign applied), UBig * UBig, UBig + UBig, UBig <<= usize (* 2^n), From<u8> for UBig, UBig::ONE == 1,
  UBig::is_zero, UBig::bit_len == blen, DivRem<&UBig> for UBig (a == q*b + r, 0 <= r < b; zero divisor panics): exact;
  EstimatedLog2::log2_bounds for Repr<B>: ASSUMED enclosure 2^lb <= |value| <= 2^ub over the reals (fp_est_lo / fp_est_hi,
  ax_fp_est_gt / ax_fp_est_lt / ax_fp_gt_mono), the float test `log2_lb > FAR as f32 || log2_ub < -FAR as f32` as
  __f32_guard0 (rule D10) and `log2_lb > 0.` through ax_fp_gt_zero: ONLY the far-range shortcut depends on them;
  Context::convert_base (NewB == 2): "finite, at most precision + 1 digits" -- not called by the unchanged code, present
  so that the pre-eabe4cf bodies are judged (they fail the precondition of into_f32/f64_internal);
  lib/fp_once_stub.rs: convert_to_binary_once with exactly the contract it is verified against in float_to_prim_once.
"""
VERUS = {
    # float/src/repr.rs Context::{repr_round, repr_round_ref} (+ Repr::{is_infinite, digits}, Context::is_limited, assert_finite)
    'float_to_prim_round': {'file': 'float_to_prim_round.rs', 'w32': False},
    # float/src/convert.rs Context::convert_to_binary_once (+ Repr::{zero, is_finite, is_infinite})
    'float_to_prim_once': {'file': 'float_to_prim_once.rs', 'w32': False},
    # float/src/convert.rs Repr::{to_f32, to_f64} (+ Approximation::and_then, Context::new, Repr::{is_infinite, sign})
    'float_to_prim_repr': {'file': 'float_to_prim_repr.rs', 'w32': False},
    # float/src/convert.rs FBig::{to_f32, to_f64}, float/src/sign.rs FBig::sign
    'float_to_prim_fbig': {'file': 'float_to_prim_fbig.rs', 'w32': False},
}

PROP_UNITS = {
    'C06': {'verus': ['float_to_prim_round', 'float_to_prim_once', 'float_to_prim_repr', 'float_to_prim_fbig'],
            'undecided': ['FBig/Repr::to_f32/to_f64 of a float of any base: proved to be ONE correct rounding to 24 / 53 bits under '
                          'the documented mode (truthful flag, Exact iff representable) followed by the IEEE encoding of that '
                          'value, composed through Approximation::and_then; NOT claimed: a single rounding for SUBNORMAL results '
                          '(the encoding rounds the 24 / 53-bit value again to nearest-even: observation D2, '
                          'proposed_fixes/D2/NOTES.txt) and values beyond 2^+-4096, which reach the encoder as the stand-in '
                          '+-2^+-4096 on the strength of the ASSUMED f32 enclosure of log2_bounds (result +-inf resp. +-0)']},
}
