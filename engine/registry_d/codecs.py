"""Integer byte / bit-chunk codecs, formatter width arithmetic and power-of-two parsing (C07; C17 where the unit
exercises hand-managed buffers under CBMC's memory checks)."""

_B3 = 'magnitudes of at most 3 words (every DoubleWord through RefSmall; RefLarge with exactly 3 fully symbolic 64-bit ' \
      'words, top word != 0), both signs'

KANI = {
    'int_bytes': {
        'package': 'dashu-int', 'target': 'integer/src/convert.rs', 'file': 'int_bytes.rs',
        'harnesses': {
            'vk_int_bytes_to_small': {'kind': 'bounded', 'bound': _B3 + ' (this harness: the 1..=2 word half, which is complete for RefSmall)'},
            'vk_int_bytes_to_large3': {'kind': 'bounded', 'bound': _B3 + ' (this harness: 3 words)'},
            'vk_int_bytes_words_kernels': {'kind': 'bounded', 'bound': 'slices of 1..=3 fully symbolic words, FLIP in {false, true}'},
            'vk_int_bytes_from_0_16': {'kind': 'complete', 'domain': 'every byte string of length 0..=16 (the whole fast path) x {le, be} x {unsigned, signed}'},
            'vk_int_bytes_from_17': {'kind': 'bounded', 'bound': 'every byte string of length 17'},
            'vk_int_bytes_from_18_23': {'kind': 'bounded', 'bound': 'every byte string of length 18..=23'},
            'vk_int_bytes_from_24': {'kind': 'bounded', 'bound': 'every byte string of length 24'},
            'vk_int_bytes_from_25': {'kind': 'bounded', 'bound': 'every byte string of length 25'},
        },
    },
}

VERUS = {
}

PROP_UNITS = {
}
