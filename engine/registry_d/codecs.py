"""Integer byte / bit-chunk codecs, non-power-of-two digit generation + formatter width arithmetic, power-of-two
parsing (C07; C17 where the unit exercises hand-managed buffers under CBMC's memory checks).

Verus vocabulary: contracts/lib/codecs_fmt_stubs.rs (mirrors of PreparedWord/Dword/Medium/Large, radix_info),
codecs_digit_lemmas.rs (dval = positional value of a digit string, medium_value), codecs_writer_stub.rs (DigitWriter).
Annotated copies: contracts/annot/integer/fmt_npt/."""

VERUS = {
    # fmt/non_power_two.rs width() of PreparedWord / PreparedDword / PreparedMedium / PreparedLarge:
    #   ret == number of digits write() emits, read off the structure; PreparedLarge: top chunk +
    #   (digits_per_word * CHUNK_LEN) << STORED level of every big chunk
    'int_fmt_width': {'file': 'int_fmt_width.rs', 'w32': True},
    # fmt/non_power_two.rs PreparedWord::new (positional digits of a word, padded to min_digits, no superfluous leading
    # zero), PreparedWord::write, repr_to_chunk_buffer, PreparedMedium::new (structure value == number, groups < range),
    # PreparedMedium::write (emits exactly medium_digits digits < radix whose positional value is the number)
    'int_fmt_digits': {'file': 'int_fmt_digits.rs', 'w32': True},
    # fmt/non_power_two.rs InRadixWriter::fmt_non_power_two (+ repr.rs TypedReprRef::len): every prepared number handed to
    # format_prepared satisfies its invariant and stands for the magnitude; the size test implies the precondition
    # `number < range_per_word^CHUNK_LEN` of PreparedMedium::new
    'int_fmt_dispatch': {'file': 'int_fmt_dispatch.rs', 'w32': True},
}

_B3 = 'magnitudes of at most 3 words (every DoubleWord through RefSmall; RefLarge with exactly 3 fully symbolic 64-bit ' \
      'words, top word != 0)'


def _scan_names(fname, prefix):
    """Harness names (identifiers with the given prefix) defined in a harness file, in file order."""
    import os
    import re
    path = os.path.join(os.path.dirname(os.path.dirname(os.path.dirname(os.path.abspath(__file__)))), 'kani', 'harness',
                        fname)
    out = []
    for n in re.findall(r'\b(%s\w+)\b' % prefix, open(path).read()):
        if n not in out:
            out.append(n)
    return out


def _h(names, kind, text, **kw):
    key = 'domain' if kind == 'complete' else 'bound'
    return {n: dict({'kind': kind, key: text}, **kw) for n in names}


_BYTES = {}
# (A) value -> bytes: the produced bytes MEAN the value (unsigned / two's complement), per codec and sign
_BYTES.update(_h(['vk_int_bytes_to_small_le', 'vk_int_bytes_to_small_be', 'vk_int_bytes_to_small_sle_pos',
                  'vk_int_bytes_to_small_sle_neg'],
                 'complete', 'every DoubleWord (the whole RefSmall domain), the stated codec and sign'))
_BYTES.update(_h(['vk_int_bytes_to_large3_le', 'vk_int_bytes_to_large3_be', 'vk_int_bytes_to_large3_sle_pos',
                  'vk_int_bytes_to_large3_sle_neg'],
                 'bounded', _B3 + ': the 3-word half'))
# to_signed_be_bytes (Vec::insert(0, ..) on a symbolic length is out of reach): literal top word, symbolic low words;
# meaning of the bytes + be == reversed le
_BYTES.update(_h(['vk_int_bytes_sbe_ctop_pos'], 'bounded',
                 'positive 3-word magnitudes: two fully symbolic low words, top word from the literal palette in the harness'))
_BYTES.update(_h(['vk_int_bytes_sbe_concrete_neg'], 'bounded', '7 literal negative 3-word values (borrow / sign-byte shapes)'))
# (B) bytes -> value on arbitrary byte strings
_BYTES.update(_h(['vk_int_bytes_from_le_0_16', 'vk_int_bytes_from_be_0_16', 'vk_int_bytes_from_sle_0_16',
                  'vk_int_bytes_from_sbe_0_16'], 'complete',
                 'every byte string of length 0..=16 (the whole fast path), one literal length at a time'))
_BYTES.update(_h(['vk_int_bytes_from_le_17_25', 'vk_int_bytes_from_be_17_25', 'vk_int_bytes_from_sle_17_25',
                  'vk_int_bytes_from_sbe_17_25'], 'bounded', 'every byte string of length 17..=25'))
# (C) composition on a concrete palette (incl. to_signed_be_bytes of 1..=2 word values)
_BYTES.update(_h(['vk_int_bytes_roundtrip_concrete_large', 'vk_int_bytes_roundtrip_concrete_small'], 'bounded',
                 '12 concrete values at word / byte boundaries (-(2^128), -(2^184), 2^191, -128, 128, -(2^64), ...)'))
# quick tier: the signed little-endian forms (where the sign-byte logic lives), the unsigned forms of 1..=2 words, the
# signed parsers, the be palette for negative numbers; the remaining instances repeat the same code with the other
# endianness / sign
for _n in ['vk_int_bytes_to_small_sle_pos', 'vk_int_bytes_to_large3_be', 'vk_int_bytes_to_large3_sle_pos',
           'vk_int_bytes_sbe_ctop_pos',
           'vk_int_bytes_from_le_0_16', 'vk_int_bytes_from_le_17_25', 'vk_int_bytes_from_be_17_25',
           'vk_int_bytes_from_sbe_17_25', 'vk_int_bytes_roundtrip_concrete_large']:
    _BYTES[_n]['tier'] = 'thorough'

_C3 = '3-word inputs: two fully symbolic low words, literal top word and chunk size (the control flow of the chunk ' \
      'kernels depends only on bit length and chunk size); chunk / result buffers owned by the harness with the sizes ' \
      'the callers allocate'
_CHUNKS = {}
_CHUNKS.update(_h(_scan_names('int_chunks.rs', 'vk_int_chunks_kernel_'), 'bounded', _C3))
_CHUNKS.update(_h(['vk_int_chunks_small_cb64', 'vk_int_chunks_small_cb127', 'vk_int_chunks_small_cb129'], 'complete',
                  'every DoubleWord (the whole RefSmall domain) for the literal chunk size'))
_CHUNKS.update(_h(['vk_int_chunks_from_cb1', 'vk_int_chunks_from_cb64', 'vk_int_chunks_from_cb65',
                   'vk_int_chunks_from_cb100'], 'bounded',
                  'three chunks of 2, 0, 1 fully symbolic words (chunks wider than the chunk size), literal chunk size'))
_CHUNKS.update(_h(['vk_int_chunks_glue_none'], 'bounded', 'Repr::from_chunks of the empty list'))

# RefSmall::to_chunks builds a Vec of symbolic length: ~4 min and > 10 GB per chunk size: thorough tier only
for _n in ['vk_int_chunks_small_cb64', 'vk_int_chunks_small_cb127', 'vk_int_chunks_small_cb129', 'vk_int_chunks_kernel_cb7',
           'vk_int_chunks_kernel_cb128_b', 'vk_int_chunks_kernel_cb65_a', 'vk_int_chunks_kernel_cb65_c',
           'vk_int_chunks_kernel_cb63_a', 'vk_int_chunks_kernel_cb63_b', 'vk_int_chunks_kernel_cb33_a',
           'vk_int_chunks_from_cb64', 'vk_int_chunks_from_cb100']:
    _CHUNKS[_n]['tier'] = 'thorough'

_PARSE = {}
_PARSE.update(_h(['vk_int_parse_p2_word'], 'bounded',
                 'every ASCII string of length 0..=5, radix in {2, 4, 8, 16, 32}: parse_word and parse'))
_PARSE.update(_h(['vk_int_parse_p2_large_r2', 'vk_int_parse_p2_large_r4', 'vk_int_parse_p2_large_r8',
                  'vk_int_parse_p2_large_r16', 'vk_int_parse_p2_large_r32'], 'bounded',
                 '5 fully symbolic ASCII characters followed by digits_per_word - 2 concrete digits: parse and parse_large'))

_FMTP2 = {}
_FMTP2.update(_h(['vk_int_fmt_p2_word_new', 'vk_int_fmt_p2_dword_new'], 'complete',
                 'every Word / every DoubleWord above Word::MAX x radix in {2, 4, 8, 16, 32}: number of digits'))
_FMTP2.update(_h(_scan_names('int_fmt_p2.rs', 'vk_int_fmt_p2_word_write_') + _scan_names('int_fmt_p2.rs', 'vk_int_fmt_p2_dword_write_'),
                 'bounded', 'every value with the literal number of digits of the harness, literal radix and letter case, '
                            'through the real DigitWriter'))
_FMTP2.update(_h(_scan_names('int_fmt_p2.rs', 'vk_int_fmt_p2_large3_'), 'bounded',
                 '3-word numbers: two fully symbolic low words, top word from the literal palette; literal radix'))
for _n in ['vk_int_fmt_p2_large3_r2', 'vk_int_fmt_p2_large3_r32', 'vk_int_fmt_p2_large3_r8']:
    _FMTP2[_n]['tier'] = 'thorough'

KANI = {
    'int_fmt_p2': {
        'package': 'dashu-int', 'target': 'integer/src/fmt/power_two.rs', 'file': 'int_fmt_p2.rs',
        'harnesses': _FMTP2,
    },
    'int_bytes': {
        'package': 'dashu-int', 'target': 'integer/src/convert.rs', 'file': 'int_bytes.rs',
        'harnesses': _BYTES,
    },
    'int_chunks': {
        'package': 'dashu-int', 'target': 'integer/src/convert.rs', 'file': 'int_chunks.rs',
        'harnesses': _CHUNKS,
    },
    'int_parse_p2': {
        'package': 'dashu-int', 'target': 'integer/src/parse/power_two.rs', 'file': 'int_parse_p2.rs',
        'harnesses': _PARSE,
    },
}

_PARSE['vk_int_parse_p2_large_r2']['tier'] = 'thorough'      # 67 characters: > 5 min
for _n in ['vk_int_parse_p2_large_r4', 'vk_int_parse_p2_large_r8', 'vk_int_parse_p2_large_r32']:
    _PARSE[_n]['tier'] = 'thorough'                           # ~2 min each; r16 stays in the quick tier

PROP_UNITS = {
    'C07': {'verus': ['int_fmt_width', 'int_fmt_digits', 'int_fmt_dispatch'],
            'kani': ['int_bytes', 'int_chunks', 'int_parse_p2', 'int_fmt_p2'],
            'undecided': [
                'DigitWriter (buffering, raw digit -> ASCII) is ASSUMED in the Verus units (lib/codecs_writer_stub.rs) and '
                'exercised for real by the Kani group int_fmt_p2; num_modular PreMulInv1by1::div_rem and '
                'Normalized2by1Divisor are assumed contracts (dependency)',
                'byte codecs: bounded to 3 words / 25 bytes; to_signed_be_bytes only for positive 3-word numbers with a literal '
                'top word and for literal values (negative 3-word, all 1..=2 word numbers): Vec::insert(0, ..) on a '
                'symbolic length exhausts CBMC; the composition '
                'from(to(x)) is implied by (A) + (B) of kani/harness/int_bytes.rs and executed on literals only',
                'bit chunks: the kernels words_to_chunks / chunks_to_words on 3-word inputs with a literal top word and '
                'chunk size, RefSmall::to_chunks for chunk sizes >= 63; the Vec<Buffer> allocation glue of '
                'TypedReprRef::to_chunks (RefLarge) and Repr::from_chunks (chunk count, buffer sizes) is NOT covered '
                '(CBMC: > 5 min / 11 GB on literal inputs)',
                'parsing (Kani group int_parse_p2): bounded to 5 symbolic characters; the unbounded proofs of all parsers '
                '(every radix, sign / prefix / underscores / leading zeros) are the Verus units int_parse_* (parse_units.py)']},
    'C17': {'kani': ['int_bytes', 'int_chunks']},
}
