"""Digit helpers of float/src/utils.rs brought under contract after seeded changes C10_r3_3 and C06_r2_3 (`shr_ref(value, n)` replaced
by IBig's own `value >> n`, which rounds a negative significand towards -infinity) were missed: the float units saw these helpers only
through ASSUMED stubs (agent unitfu).

  float_digit_utils   float/src/utils.rs shr_ref, shr_digits, shl_digits, shl_digits_in_place, digit_len (+ base_as_ibig, annotated
                      copy of unit float_split)                                                                   C10, C03, C08

Postconditions (exactly the contracts assumed in lib/conv_fbig_stubs.rs, lib/farith_add_stubs.rs, lib/round_float_repr.rs):
  shr_digits::<B>(v, e)           exists lo. is_trunc_divrem(v, B^e, ret, lo)     (quotient truncated TOWARDS ZERO, all four arms)
  shr_ref(v, s)                   ret == sign(v) * floor(|v| / 2^s)               (magnitude shift, sign kept)
  shl_digits::<B>(v, e)           ret == v * B^e
  shl_digits_in_place::<B>(v, e)  final(v) == old(v) * B^e
  digit_len::<B>(v)               ret == ndigits(B, v)  (0 for 0, else B^(ret-1) <= |v| < B^ret)
  resource precondition of the shifts: e * 64 <= usize::MAX (pos_room: the bit count e * log2(B) is computed in usize)

Trusted base (listed by the scan as external_body / axiom):
  contracts/lib/fu_stubs.rs        `&IBig << usize`, `IBig <<= usize` (value * 2^s), `&IBig * IBig`, `IBig *= IBig` (exact product),
                                   `IBig / IBig`, `&IBig / IBig` (quotient truncated towards zero; zero divisor: precondition),
                                   `&IBig >> usize`, `IBig >> usize` (floor(value / 2^s): only reachable from CHANGED code),
                                   IBig::ilog (floor logarithm of the magnitude, result < usize::MAX because the bit length of a
                                   dashu integer fits usize, buffer.rs MAX_CAPACITY)
  contracts/lib/df_float_utils.rs  IBig::{as_sign_words, from_parts, from_parts_const, pow, from(i32), << usize}, UBig::from_words
  contracts/lib/round_int_stubs.rs abstract IBig / UBig, UBig >> usize (floor), UBig::from_word, clone, is_zero
  contracts/lib/round_float_repr.rs  only `ndigits` + its defining axiom `ax_ndigits` are used (the stubs of that file named
                                   digit_len / split_digits / Repr::* are shadowed / not called by the code verified here)
Engine: lowering rule D11h (`#[ref_lhs(x)]`, engine/lower.py, described in DESIGN.md section 3.2).
"""

VERUS = {
    'float_digit_utils': {'file': 'float_digit_utils.rs', 'w32': False},
}

_UND = ('float/src/utils.rs shr_ref, shr_digits, shl_digits, shl_digits_in_place, digit_len are PROVED (unit float_digit_utils) '
        'against exactly the contracts the float units assume for them; resource precondition exp * 64 <= usize::MAX for the '
        'shifts; the dashu-int operators they call (<<, <<=, *, *=, /, pow, ilog, as_sign_words, from_words, from_parts) are '
        'value-level TRUSTED stubs; IBig::ilog (integer/src/log.rs, large path) is assumed to return the floor logarithm; '
        'Repr::digits_ub / digits_lb (f32 estimates) remain assumed enclosures; the stub contracts in lib/conv_fbig_stubs.rs, '
        'lib/farith_add_stubs.rs, lib/round_float_repr.rs are still textual copies until replaced by //@@ SIG lines')

PROP_UNITS = {
    'C10': {'verus': ['float_digit_utils'], 'undecided': [_UND]},
    'C03': {'verus': ['float_digit_utils'], 'undecided': [_UND]},
    'C08': {'verus': ['float_digit_utils'], 'undecided': [_UND]},
}
