"""Rational "division by zero panics" (C04) and the by-reference forwardings of the rational arithmetic arms
(units ratio_zero_panic, ratio_zero_panic_ref, ratio_ops_ref, ratio_rem_ref, ratio_int_ops_ref).  Only units that fully verify are listed.

ratio_zero_panic      must_panic variants (rule D4: requires <zero divisor>, ensures false) of EVERY dividing arm of
                      rational/src/div.rs for the by-value forwarding: `/` (impl_div_with_rbig, impl_div_with_relaxed,
                      impl_rbig_div_ubig/ibig, impl_relaxed_div_ubig/ibig, impl_ubig_or_ibig_div_rbig/relaxed with UBig and
                      IBig), div_euclid (impl_euclid_div), `%` (impl_rem_with_rbig/relaxed), rem_euclid, div_rem_euclid, and of
                      Inverse::inv for Repr / RBig / &RBig / Relaxed / &Relaxed.  New annotated copies under
                      contracts/annot/rational/panic/ (the value-level copies keep "divisor != 0" as precondition).
ratio_zero_panic_ref  the same must_panic contracts for the three by-reference forwardings of impl_binop_with_macro!
                      (`T op &T`, `&T op T`, `&T op &T`) and the borrowed-integer form of impl_binop_with_int!.
ratio_ops_ref         the value-level contracts of unit ratio_ops (`+ - * /`, RBig and Relaxed: exact value, positive
                      denominator, RBig canonical) for the three by-reference forwardings: same annotated arm text, same
                      postcondition as the by-value form, so all four call forms agree (C15 style).
ratio_rem_ref         likewise the value-level contracts of unit ratio_rem (`%`, div_euclid, rem_euclid, div_rem_euclid; 7 arms)
                      for the three by-reference forwardings.
ratio_int_ops_ref     likewise the 24 instances of unit ratio_int_ops (mixed `+ - * /` with UBig / IBig on either side) for the
                      borrowed-integer forwardings of impl_binop_with_int! (rhs: &UBig / &IBig; the macro clones a, b of a
                      borrowed T, so a, b are owned in every form).

Trusted base added (on top of contracts/lib/bigstub.rs + ratio_types.rs, see ratio_sign.py):
  annot/rational/panic/panic_divide_by_0.rs (SIG)  rational/src/error.rs panic_divide_by_0() -> ! never returns (`ensures false`
                             in the must_panic variant, `requires false` otherwise); its body is `panic!(..)`.
  contracts/lib/rp_stubs.rs  must_panic variant contracts `requires rhs.v() == 0 ensures false` for IBig::rem(&UBig) (through a
                             mirror of core::ops::Rem, because the arm calls it in method form `left.rem(&right)` and vstd's
                             RemSpecImpl cannot say "never returns"), IBig::div_euclid / rem_euclid / div_rem_euclid (IBig
                             divisor).  NOT proved here: the integer-level zero-divisor panic is what unit int_div_ops_zero
                             (C02/C16) proves for integer/src/div_ops.rs repr::{div_rem_dword, div_dword, rem_dword,
                             div_rem_large_dword, rem_large_dword}.  Plus the total stubs UBig - &UBig, UBig - UBig,
                             From<UBig> for IBig, UBig * Sign (same text as lib/ratio2_stubs.rs; dead code after the panic).
  contracts/lib/rp_inv_stubs.rs  Inverse trait mirrored; `Inverse for Repr` with the must_panic contract proved in unit
                             ratio_zero_panic (second copy of that text); Clone for Repr keeps both parts.
  contracts/lib/rp_refops.rs by-reference operator forms with the same contracts as the by-value forms of bigstub.rs:
                             &UBig * &UBig, &IBig * &UBig, &IBig * UBig, &UBig * &IBig, UBig * &IBig, IBig * &IBig, &IBig * IBig,
                             &IBig * &IBig (exact products), &IBig / &UBig (truncating, zero divisor excluded); UnsignedAbs for
                             &IBig (magnitude).
must_panic functions are exempt from the `ensures false` canary by construction; their preconditions are shown satisfiable by
mutation runs (dropped / misplaced guards make every one of them fail).
"""
VERUS = {
    'ratio_zero_panic': {'file': 'ratio_zero_panic.rs', 'w32': False},
    'ratio_zero_panic_ref': {'file': 'ratio_zero_panic_ref.rs', 'w32': False},
    'ratio_ops_ref': {'file': 'ratio_ops_ref.rs', 'w32': False},
    'ratio_rem_ref': {'file': 'ratio_rem_ref.rs', 'w32': False},
    'ratio_int_ops_ref': {'file': 'ratio_int_ops_ref.rs', 'w32': False},
}

PROP_UNITS = {
    'C04': {'verus': ['ratio_zero_panic', 'ratio_zero_panic_ref', 'ratio_ops_ref', 'ratio_rem_ref', 'ratio_int_ops_ref'],
            'undecided': ['"division by zero panics": proved (must_panic variants: zero divisor ==> no normal return) for every '
                          '`/` arm incl. the mixed integer arms on either side, div_euclid, Repr::inv and the four inv '
                          'forwardings at their explicit guard, over `panic_divide_by_0() -> !` never returning; for `%`, '
                          'rem_euclid and div_rem_euclid (no guard in the rational code) it is proved that the zero divisor '
                          'reaches IBig::rem / rem_euclid / div_rem_euclid unchanged and nothing returns before, over the '
                          'TRUSTED must_panic contracts of these integer operations (lib/rp_stubs.rs; integer level: unit '
                          'int_div_ops_zero); all four owned/borrowed call forms are instantiated',
                          'RBig/Relaxed `+ - * / %`, Euclidean forms and mixed integer arms, by-reference forwardings: the arm '
                          'text is proved against the by-value postcondition for `T op &T`, `&T op T`, `&T op &T` (units '
                          'ratio_ops_ref, ratio_rem_ref) and for a borrowed integer operand (unit ratio_int_ops_ref) over '
                          'by-reference operator stubs (lib/rp_refops.rs); the forwarding fns of helper_macros.rs themselves (into_parts / '
                          'numerator() / denominator() and the order in which they hand a, b, c, d to the arm) are not under '
                          'contract: a macro-generated fn whose name and inner macro are metavariables is out of reach of '
                          'rules E3/E3b/E3d; the *Assign forms (impl_binop_assign_by_taking) likewise']},
    'C16': {'verus': ['ratio_zero_panic', 'ratio_zero_panic_ref', 'ratio_ops_ref', 'ratio_rem_ref', 'ratio_int_ops_ref'], 'undecided': []},
}
