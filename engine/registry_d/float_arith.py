"""Float arithmetic units (C03 rounding contract of mul/sqr/cubic/add/sub/sqrt, C05 float comparison, C15 operand
forms, C16 'arithmetic on infinities panics').  Only units that fully verify are listed."""

VERUS = {
    # float/src/mul.rs Context::{mul, sqr, cubic} + the four `FBig * FBig` operand forms (exact product, ONE repr_round)
    'float_mul': {'file': 'float_mul.rs', 'w32': False},
    # the same functions, must_panic variants: an infinite operand => no normal return
    'float_mul_inf': {'file': 'float_mul_inf.rs', 'w32': False},
    # float/src/add.rs Context::{repr_round_sum, repr_add_large_small, repr_add_small_large, add, sub}
    # (default rlimit 10 is marginal for the two mirror helpers: observed use ~12, 3.5 s; 60 is headroom only)
    'float_add': {'file': 'float_add.rs', 'w32': False, 'rlimit': 60},
    # float/src/add.rs add_val_val / add_val_ref / add_ref_val / add_ref_ref (behind FBig + and -)
    'float_add_ops': {'file': 'float_add_ops.rs', 'w32': False},
    # must_panic variants of Context::{add, sub} and of the four dispatch functions
    'float_add_inf': {'file': 'float_add_inf.rs', 'w32': False},
    # float/src/cmp.rs repr_cmp_same_base + Ord for Repr, PartialOrd / Ord / AbsOrd / PartialEq for FBig
    'float_cmp': {'file': 'float_cmp.rs', 'w32': False},
    # float/src/root.rs Context::sqrt (+ must_panic variant: infinite / unlimited precision / negative)
    'float_sqrt': {'file': 'float_sqrt.rs', 'w32': False},
    'float_sqrt_panic': {'file': 'float_sqrt_panic.rs', 'w32': False},
    # float/src/div.rs Context::{repr_div, div, inv}
    'float_div': {'file': 'float_div.rs', 'w32': False},
}

_UND_MUL = ('Context::{mul, sqr, cubic}: operands longer than 2p (3p for cubic) digits are first rounded to 2p (3p) digits '
            'by the code (a double rounding); outside the property domain ("operands that fit the precision") and excluded '
            'by precondition; usize/isize overflow of precision*2 and of the exponent sum is outside the contract')

_UND_ADD = ('add/sub: proved is that the result is the mode-correct rounding of the EXACT sum at SOME unit B^u (Exact iff the '
            'sum is a multiple of that unit, otherwise the neighbour prescribed by the mode with truthful AddOne/SubOne flag, '
            'r != x), that repr_round_sum places that unit so that the aligned high part has exactly p (+1 for a true '
            'subtraction) digits where the low part can fill it, and that the sign / is_sub plumbing of the two mirror helpers '
            'is identical. NOT proved: that this unit is never above 1 ulp at precision p of the result (needs the cancellation '
            'argument: at most one leading digit is lost), the p+1 digit bound, and "representable in p digits => Exact". '
            'digits_ub (f32 estimate) enters through an ASSUMED enclosure digits <= digits_ub <= 2*digits+2. '
            'Operands with more digits than the precision are outside the contract (property domain). The far-smaller-operand '
            'sentinel (base 2 / HalfAway defect, proposed fix F1) is proved to round like the true sum in every base and mode.')


_UND_CMP = ('float cmp: the precision shortcut (case 4 of repr_cmp_same_base) is sound only for values with at most p+1 digits '
            'at precision p (taken as precondition: C03 grants it for results of arithmetic, constructors derive the precision '
            'from the digit count, with_precision rounds unlimited sources since /repo 73390f4; FBig::from_repr demands it by '
            'debug_assert only). digits_ub shortcut (case 5): sound under the ASSUMED enclosure digits <= digits_ub of the f32 '
            'estimate. Infinities are assumed canonical (exponent +1/-1, as every producer creates them); == assumes '
            'normalized reprs (invariant of Repr::new). Not covered: PartialOrd for Repr (one-line wrapper of Ord), '
            'repr_cmp_ubig / repr_cmp_ibig.')

_UND_SQRT = ('Context::sqrt: proved (operand fits p digits) that the result is ONE correct rounding of the real root to p digits '
             '(sqrt_post) for every digit/exponent parity (the double rounding for "even digit count, odd exponent" was '
             'repaired in /repo, proposed fix F2). UBig::sqrt_rem is a trusted stub (s*s + r == n, 0 <= r <= 2s). Operands '
             'longer than p digits (low part dropped into the tie test) not covered.')

_UND_DIV = ('division: Context::{repr_div, div, inv} proved (div_post: mode-correct rounding of the exact quotient at a unit where '
            'the truncated quotient has p or p+1 digits, Exact iff the division terminates, truthful flag) for a dividend that '
            'fits p digits and a non-zero divisor; IBig::div_rem is a trusted stub (truncating division); digits_lb / digits_ub '
            '(f32 estimates) enter through ASSUMED enclosures. Not covered: the FBig `/` operator forms and repr_rem (macro '
            'arms), DivEuclid/RemEuclid, division by zero (panics inside dashu-int).')

PROP_UNITS = {
    'C03': {'verus': ['float_mul', 'float_add', 'float_add_ops', 'float_sqrt', 'float_div'], 'undecided': [_UND_MUL, _UND_ADD, _UND_SQRT, _UND_DIV]},
    'C05': {'verus': ['float_cmp'], 'undecided': [_UND_CMP]},
    'C15': {'verus': ['float_mul', 'float_add_ops']},
    'C16': {'verus': ['float_mul', 'float_mul_inf', 'float_add', 'float_add_ops', 'float_add_inf', 'float_cmp', 'float_sqrt', 'float_sqrt_panic', 'float_div']},
}
