"""Float arithmetic units (C03 rounding contract of mul/sqr/cubic/add/sub/sqrt, C05 float comparison, C15 operand
forms, C16 'arithmetic on infinities panics').  Only units that fully verify are listed."""

VERUS = {
    # float/src/mul.rs Context::{mul, sqr, cubic} + the four `FBig * FBig` operand forms (exact product, ONE repr_round)
    'float_mul': {'file': 'float_mul.rs', 'w32': False},
    # the same functions, must_panic variants: an infinite operand => no normal return
    'float_mul_inf': {'file': 'float_mul_inf.rs', 'w32': False},
}

_UND_MUL = ('Context::{mul, sqr, cubic}: operands longer than 2p (3p for cubic) digits are first rounded to 2p (3p) digits '
            'by the code (a double rounding); outside the property domain ("operands that fit the precision") and excluded '
            'by precondition; usize/isize overflow of precision*2 and of the exponent sum is outside the contract')

PROP_UNITS = {
    'C03': {'verus': ['float_mul'], 'undecided': [_UND_MUL]},
    'C15': {'verus': ['float_mul']},
    'C16': {'verus': ['float_mul', 'float_mul_inf']},
}
