"""Fixed rewriting rules from the real token stream to the Verus dialect (DESIGN.md §3.2).

Every rule is shape-checked on the tokens; an unknown shape raises Unsupported (exit-2 class,
never an alarm). Each application is logged in `log` (list of strings).

Tokens here are triples (kind, text, from_annotation).
"""
from . import rtok


class Unsupported(Exception):
    pass


def T(k, t, m=False):
    return (k, t, m)


def toks_of(src, mark=True):
    return [(k, t, mark) for k, t in rtok.tokenize(src)]


def _match_close(toks, i):
    return rtok.match_close([(k, t) for k, t, _ in toks], i)


def _is(tok, text):
    return tok[1] == text and tok[0] in ('id', 'p')


def _split_top(toks, sep=','):
    """Split token list at top-level occurrences of separator."""
    parts, cur, depth = [], [], 0
    for t in toks:
        if t[0] == 'p' and t[1] in rtok.OPEN:
            depth += 1
        elif t[0] == 'p' and t[1] in rtok.CLOSE:
            depth -= 1
        if depth == 0 and t[0] == 'p' and t[1] == sep:
            parts.append(cur)
            cur = []
        else:
            cur.append(t)
    parts.append(cur)
    return parts


def _txt(toks):
    return ' '.join(t[1] for t in toks)


# ---------------------------------------------------------------------------------------
# D5: qualifiers

def rule_d5(toks, log):
    """`const fn` -> `fn` (signature only)."""
    out = []
    i = 0
    while i < len(toks):
        if _is(toks[i], 'const') and i + 1 < len(toks) and _is(toks[i + 1], 'fn') and not toks[i][2]:
            log.append('D5 const fn -> fn')
            i += 1
            continue
        out.append(toks[i])
        i += 1
    return out


# ---------------------------------------------------------------------------------------
# D6: name the return value `ret`

def rule_d6(toks, log):
    for i, t in enumerate(toks):
        if _is(t, 'fn') and not t[2]:
            j = i + 1
            gd = 0          # depth inside the generic parameter list `fn name<..>(`: its parentheses
            while True:     # (e.g. `F: FnOnce() -> T`) are not the parameter list
                if toks[j][0] == 'p' and toks[j][1] == '<':
                    gd += 1
                elif toks[j][0] == 'p' and toks[j][1] in ('>', '>>') and gd > 0:
                    gd -= len(toks[j][1])
                elif gd == 0 and _is(toks[j], '('):
                    break
                j += 1
            e = _match_close(toks, j)
            if e + 1 < len(toks) and _is(toks[e + 1], '->') and not toks[e + 1][2]:
                k = e + 2
                d = 0
                while k < len(toks):
                    tk = toks[k]
                    if tk[2] or (d == 0 and (_is(tk, '{') or _is(tk, 'where'))):
                        break
                    if tk[0] == 'p' and tk[1] in ('(', '[', '<'):
                        d += 1
                    elif tk[0] == 'p' and tk[1] in (')', ']', '>'):
                        d -= 1
                    k += 1
                ty = toks[e + 2:k]
                if len(ty) == 1 and _is(ty[0], '!'):
                    return toks
                for part in _split_top(toks[j + 1:e]):
                    if part and part[0][1] == 'ret':
                        raise Unsupported('D6: a parameter is already named `ret`')
                log.append('D6 return value named `ret`')
                return toks[:e + 2] + [T('p', '('), T('id', 'ret'), T('p', ':')] + ty + [T('p', ')')] + toks[k:]
            return toks
    return toks


# ---------------------------------------------------------------------------------------
# D3: debug assertions

def rule_d3(toks, log, drop=()):
    out = []
    i = 0
    n_assert = 0
    while i < len(toks):
        t = toks[i]
        if t[0] == 'id' and not t[2] and t[1] in ('debug_assert', 'debug_assert_eq', 'debug_assert_ne',
                                                   'debug_assert_zero') \
                and i + 2 < len(toks) and _is(toks[i + 1], '!') and _is(toks[i + 2], '('):
            e = _match_close(toks, i + 2)
            args = _split_top(toks[i + 3:e])
            if args and not args[-1]:
                args = args[:-1]
            if t[1] == 'debug_assert':
                cond = args[0]
            elif t[1] == 'debug_assert_eq':
                cond = [T('p', '(')] + args[0] + [T('p', ')'), T('p', '==')] + [T('p', '(')] + args[1] + [T('p', ')')]
            elif t[1] == 'debug_assert_ne':
                cond = [T('p', '(')] + args[0] + [T('p', ')'), T('p', '!=')] + [T('p', '(')] + args[1] + [T('p', ')')]
            else:
                # D3z: the crate macro `debug_assert_zero!(E)` is `{ let __check__ = E; debug_assert_eq!(__check__ as
                # DoubleWord, 0); }` (integer/src/helper_macros.rs): E is EVALUATED in every build (its side effects
                # are part of the function), only the comparison is debug-only.  ==> `let __zchkK = E ;` always,
                # plus the proof obligation `assert(__zchkK == 0)` unless the ordinal is in the drop list.
                if len(args) != 1 or not args[0] or any(x[2] for x in args[0]):
                    raise Unsupported('D3z: debug_assert_zero! shape: ' + _txt(toks[i:e + 1]))
                _ab = i - 1      # annotation tokens (a `proof { .. }` block) may sit between `=>` and the macro call
                while _ab >= 0 and toks[_ab][2]:
                    _ab -= 1
                if _ab >= 0 and _is(toks[_ab], '=>') and not toks[_ab][2] and e + 1 < len(toks) and _is(toks[e + 1], ',') \
                        and not toks[e + 1][2]:
                    # D3z-arm: `PAT => debug_assert_zero!(E) ,` (the macro call is the whole match-arm expression, value `()`)
                    # ==> `PAT => { let __zchkK = E ; [proof] assert ( __zchkK == 0 ) ; } ,` (same meaning as the statement
                    # form); an annotation `proof { .. }` written between `=>` and the macro call argues about the value just
                    # computed: it goes between the evaluation and the obligation
                    arm_proof = toks[_ab + 1:i]
                    if arm_proof:
                        if not (_is(arm_proof[0], 'proof') and len(arm_proof) >= 3 and _is(arm_proof[1], '{')
                                and _match_close(arm_proof, 1) == len(arm_proof) - 1):
                            raise Unsupported('D3z-arm: annotation before debug_assert_zero! in a match arm must be one proof block')
                        del out[len(out) - len(arm_proof):]
                    zv = '__zchk%d' % n_assert
                    n_assert += 1
                    out += toks_of('{ let %s =' % zv, False) + args[0] + [T('p', ';')]
                    if arm_proof:
                        out += arm_proof
                        log.append('D3z-arm   (proof block in front of the macro call placed before the obligation)')
                    if n_assert - 1 in drop or '*' in drop:
                        log.append('D3z-arm debug_assert_zero #%d `%s` (match arm): evaluated, comparison dropped' % (
                            n_assert - 1, _txt(args[0])))
                    else:
                        log.append('D3z-arm debug_assert_zero #%d `%s` (match arm): evaluated, then proof obligation `== 0`' % (
                            n_assert - 1, _txt(args[0])))
                        out += toks_of('assert ( %s == 0 ) ;' % zv, False)
                    out += [T('p', '}')]
                    i = e + 1
                    continue
                if not (e + 1 < len(toks) and _is(toks[e + 1], ';')) or \
                        (i > 0 and not (toks[i - 1][2] or (toks[i - 1][0] == 'p' and toks[i - 1][1] in (';', '{', '}')))):
                    raise Unsupported('D3z: debug_assert_zero! is not a statement')
                zv = '__zchk%d' % n_assert
                out += toks_of('let %s =' % zv, False) + args[0] + [T('p', ';')]
                n_assert += 1
                if n_assert - 1 in drop or '*' in drop:
                    log.append('D3z debug_assert_zero #%d `%s`: evaluated, comparison dropped' % (n_assert - 1, _txt(args[0])))
                else:
                    log.append('D3z debug_assert_zero #%d `%s`: evaluated, then proof obligation `== 0`' % (
                        n_assert - 1, _txt(args[0])))
                    # an annotation `proof { .. }` that directly follows the statement argues about the value just
                    # computed: it goes between the evaluation and the obligation
                    k = e + 2
                    if k + 1 < len(toks) and toks[k][2] and toks[k + 1][2] and _is(toks[k], 'proof') and _is(toks[k + 1], '{'):
                        ke = _match_close(toks, k + 1)
                        if not all(x[2] for x in toks[k:ke + 1]):
                            raise Unsupported('D3z: proof block after debug_assert_zero! mixes real tokens')
                        out += toks[k:ke + 1]
                        log.append('D3z   (following proof block placed before the obligation)')
                        out += toks_of('assert ( %s == 0 ) ;' % zv, False)
                        i = ke + 1
                        continue
                    out += toks_of('assert ( %s == 0 ) ;' % zv, False)
                i = e + 2
                continue
            j = e + 1
            if j < len(toks) and _is(toks[j], ';'):
                j += 1
            n_assert += 1
            if n_assert - 1 in drop or '*' in drop:
                log.append('D3 dropped (not spec-expressible): debug_assert #%d `%s`' % (n_assert - 1, _txt(cond)))
            else:
                log.append('D3 debug_assert #%d -> proof obligation `%s`' % (n_assert - 1, _txt(cond)))
                out += [T('id', 'assert'), T('p', '(')] + cond + [T('p', ')'), T('p', ';')]
            i = j
            continue
        out.append(t)
        i += 1
    return out


# ---------------------------------------------------------------------------------------
# D7: non-short-circuit bool operators on bool locals

def _bool_locals(toks):
    """Names bound as second component of `let (x, y) = <...>.overflowing_add/sub(...)`,
    plus names bound by `let x = <comparison>` is NOT attempted."""
    names = set()
    i = 0
    while i < len(toks):
        if _is(toks[i], 'let') and i + 1 < len(toks) and _is(toks[i + 1], '('):
            e = _match_close(toks, i + 1)
            parts = _split_top(toks[i + 2:e])
            if len(parts) == 2 and len(parts[1]) == 1 and parts[1][0][0] == 'id' and _is(toks[e + 1], '='):
                # initializer up to ';'
                j = e + 2
                init = []
                d = 0
                while j < len(toks) and not (d == 0 and _is(toks[j], ';')):
                    if toks[j][0] == 'p' and toks[j][1] in rtok.OPEN:
                        d += 1
                    elif toks[j][0] == 'p' and toks[j][1] in rtok.CLOSE:
                        d -= 1
                    init.append(toks[j])
                    j += 1
                txt = _txt(init)
                if '. overflowing_add (' in txt or '. overflowing_sub (' in txt:
                    names.add(parts[1][0][1])
        i += 1
    return names


def rule_d7(toks, log):
    bl = _bool_locals(toks)
    out = list(toks)
    for i in range(1, len(out) - 1):
        t = out[i]
        if t[0] == 'p' and t[1] in ('|', '&') and not t[2]:
            a, b = out[i - 1], out[i + 1]
            if a[0] == 'id' and b[0] == 'id' and a[1] in bl and b[1] in bl:
                # both operands must be complete operands: neighbours are not `.`/`)`
                out[i] = T('p', t[1] * 2)
                log.append('D7 `%s %s %s` -> `%s`' % (a[1], t[1], b[1], t[1] * 2))
    return out


# ---------------------------------------------------------------------------------------
# D1: iterator loops -> index loops

def _fn_param_types(toks):
    """name -> type tokens, from the first `fn name(...)` signature in toks."""
    for i, t in enumerate(toks):
        if _is(t, 'fn'):
            j = i + 1
            while not _is(toks[j], '('):
                if _is(toks[j], '<'):
                    # skip generics
                    d = 0
                    while True:
                        if _is(toks[j], '<'):
                            d += 1
                        elif _is(toks[j], '>'):
                            d -= 1
                            if d == 0:
                                break
                        j += 1
                j += 1
            e = _match_close(toks, j)
            res = {}
            for part in _split_top(toks[j + 1:e]):
                if len(part) >= 3 and part[0][0] == 'id' and _is(part[1], ':'):
                    res[part[0][1]] = part[2:]
                elif len(part) >= 4 and _is(part[0], 'mut') and _is(part[2], ':'):
                    res[part[1][1]] = part[3:]
            return res
    return {}


def _strip_suffix(expr, method):
    """If expr ends with `. method ( )` return expr without it, else None."""
    if len(expr) >= 4 and _is(expr[-4], '.') and _is(expr[-3], method) and _is(expr[-2], '(') and _is(expr[-1], ')'):
        return expr[:-4]
    return None


def _paren(e):
    if len(e) == 1:
        return e
    # plain place expressions a.b[c] need no parentheses only if they contain no operators;
    # parenthesise always for safety when there is a range inside an index
    return [T('p', '(')] + e + [T('p', ')')]


def _classify_source(expr, ptypes):
    """Returns (base_expr_tokens, mutable) for a slice-iterator source expression."""
    b = _strip_suffix(expr, 'iter_mut')
    if b is not None:
        return b, True
    b = _strip_suffix(expr, 'iter')
    if b is not None:
        return b, False
    # D1c (shape-checked): `X . chunks_exact_mut ( N )` with X one identifier and N an integer literal >= 1: the k-th
    # item is `&mut X[N*k .. N*k + N]`, there are `X.len() / N` items (definition of ChunksExactMut in core, trusted as for
    # D1; the remainder of fewer than N elements is not visited)
    if len(expr) == 6 and expr[0][0] == 'id' and _is(expr[1], '.') and _is(expr[2], 'chunks_exact_mut') \
            and _is(expr[3], '(') and expr[4][0] == 'lit' and expr[4][1].isdigit() and int(expr[4][1]) >= 1 and _is(expr[5], ')'):
        return expr[:1], ('chunks', int(expr[4][1]))
    if len(expr) == 1 and expr[0][0] == 'id' and expr[0][1] in ptypes:
        ty = _txt(ptypes[expr[0][1]])
        if ty.startswith('& mut ['):
            return expr, True
        if ty.startswith('& ['):
            return expr, False
    # D1b (shape-checked): `& PLACE` with PLACE = ident(.ident)*, e.g. `for (i, _) in &self.big_chunks`:
    # `IntoIterator for &Vec<T> / &[T] / &[T; N]` is `PLACE.iter()` (alloc/core definition, trusted as for D1);
    # the generated `PLACE.len()` / `&PLACE[i]` only type-check for such sources
    if len(expr) >= 2 and _is(expr[0], '&') and not _is(expr[1], 'mut') and len(expr) % 2 == 0 \
            and all((t[0] == 'id') if k % 2 == 0 else _is(t, '.') for k, t in enumerate(expr[1:])):
        return expr[1:], False
    raise Unsupported('D1: iterator source `%s`' % _txt(expr))


def rule_d1(toks, log):
    ptypes = _fn_param_types(toks)
    ptypes['\0rchunks'] = _rchunks_locals(toks)
    counter = [0]

    def rewrite(ts):
        out = []
        i = 0
        while i < len(ts):
            t = ts[i]
            if _is(t, 'for') and not t[2]:
                # pattern up to `in` at depth 0
                j = i + 1
                d = 0
                while not (d == 0 and _is(ts[j], 'in')):
                    if ts[j][0] == 'p' and ts[j][1] in rtok.OPEN:
                        d += 1
                    elif ts[j][0] == 'p' and ts[j][1] in rtok.CLOSE:
                        d -= 1
                    j += 1
                pat = ts[i + 1:j]
                # iterator expression: up to first annotation token or `{` at depth 0
                k = j + 1
                d = 0
                while not (d == 0 and (_is(ts[k], '{') or ts[k][2])):
                    if ts[k][0] == 'p' and ts[k][1] in rtok.OPEN:
                        d += 1
                    elif ts[k][0] == 'p' and ts[k][1] in rtok.CLOSE:
                        d -= 1
                    k += 1
                expr = ts[j + 1:k]
                # loop annotations (invariant/decreases): up to `{`
                b = k
                while not (_is(ts[b], '{') and not ts[b][2]):
                    b += 1
                loop_ann = ts[k:b]
                be = _match_close(ts, b)
                body = rewrite(ts[b + 1:be])
                n = counter[0]
                counter[0] += 1
                out += _lower_for(pat, expr, loop_ann, body, n, ptypes, log)
                i = be + 1
                continue
            out.append(t)
            i += 1
        return out

    return rewrite(toks)


def _lower_for(pat, expr, loop_ann, body, n, ptypes, log):
    iv = '__i%d' % n
    nv = '__n%d' % n
    orig = 'for %s in %s' % (_txt(pat), _txt(expr))
    rev = False
    enum = False
    e = expr
    while True:
        s = _strip_suffix(e, 'rev')
        if s is not None:
            rev = not rev
            e = s
            continue
        s = _strip_suffix(e, 'enumerate')
        if s is not None:
            if rev:
                raise Unsupported('D1: enumerate under rev: ' + orig)
            enum = True
            e = s
            continue
        break
    # D1f (shape-checked): `SRC . take ( N )` with N one identifier and SRC a zip of two slice iterators (checked below):
    # `Iterator::take` stops after N items (core definition, trusted as for D1) ==> the index bound is min(bound of SRC, N)
    take_n = None
    if len(e) >= 5 and _is(e[-1], ')') and e[-2][0] == 'id' and not e[-2][2] and _is(e[-3], '(') and _is(e[-4], 'take') \
            and _is(e[-5], '.') and not rev and not enum:
        take_n = e[-2][1]
        e = e[:-5]
    # strip one level of parentheses
    while len(e) >= 2 and _is(e[0], '(') and _match_close(e, 0) == len(e) - 1:
        e = e[1:-1]
    if take_n is not None and not (len(e) >= 4 and _is(e[-1], ')') and any(_is(t, 'zip') for t in e)):
        raise Unsupported('D1f: take() on something else than a zip of slice iterators: ' + orig)
    # D1e: `for P in G . rev ( )` with G a local bound by `let G = X . rchunks ( N ) ;` (see rule_d1e)
    if len(e) == 1 and e[0][0] == 'id' and e[0][1] in ptypes.get('\0rchunks', ()):
        if enum:
            raise Unsupported('D1e: an RChunks local is only supported as `for P in G.rev()` / `for P in G`: ' + orig)
        g = e[0][1]
        getter = '__from_front' if rev else '__from_back'
        log.append('D1e `%s` -> index while loop (%s): item k is `%s.%s(k)`, %s.len() items' % (orig, iv, g, getter, g))
        head = toks_of('let %s = %s . len ( ) ; let mut %s : usize = 0 ; while %s < %s' % (nv, g, iv, iv, nv), False)
        inner = toks_of('let %s = %s . %s ( %s ) ; %s += 1 ;' % (_txt(pat), g, getter, iv, iv), False)
        return head + loop_ann + [T('p', '{')] + inner + body + [T('p', '}')]
    pre = []
    # --- ranges
    parts = None
    d = 0
    for idx, t in enumerate(e):
        if t[0] == 'p' and t[1] in rtok.OPEN:
            d += 1
        elif t[0] == 'p' and t[1] in rtok.CLOSE:
            d -= 1
        elif d == 0 and t[0] == 'p' and t[1] in ('..', '..='):
            parts = (e[:idx], e[idx + 1:], t[1])
    if parts is not None and not enum:
        lo, hi, op = parts
        if op == '..=' or not lo or not hi:
            raise Unsupported('D1: range shape ' + orig)
        if len(pat) != 1 or pat[0][0] != 'id':
            raise Unsupported('D1: range pattern ' + orig)
        log.append('D1 `%s` -> index while loop (%s)' % (orig, iv))
        lov = '__lo%d' % n
        src = 'let %s = %s ; let %s = %s ;' % (lov, _txt(lo), nv, _txt(hi))
        if not rev:
            src += 'let mut %s = %s ; while %s < %s' % (iv, lov, iv, nv)
            head = toks_of(src, False)
            inner = toks_of('let %s = %s ; %s += 1 ;' % (pat[0][1], iv, iv), False)
        else:
            src += 'let mut %s = if %s < %s { %s } else { %s } ; while %s > %s' % (iv, lov, nv, nv, lov, iv, lov)
            head = toks_of(src, False)
            inner = toks_of('%s -= 1 ; let %s = %s ;' % (iv, pat[0][1], iv), False)
        return head + loop_ann + [T('p', '{')] + inner + body + [T('p', '}')]
    # --- zip of two slice iterators
    zipped = None
    if len(e) >= 4 and _is(e[-1], ')'):
        # find `. zip (` whose paren closes at the end
        for idx in range(len(e) - 3):
            if _is(e[idx], '.') and _is(e[idx + 1], 'zip') and _is(e[idx + 2], '(') \
                    and _match_close(e, idx + 2) == len(e) - 1:
                # must be at depth 0
                dd = 0
                ok = True
                for t in e[:idx]:
                    if t[0] == 'p' and t[1] in rtok.OPEN:
                        dd += 1
                    elif t[0] == 'p' and t[1] in rtok.CLOSE:
                        dd -= 1
                if dd == 0 and ok:
                    zipped = (e[:idx], e[idx + 3:-1])
                    break
    sources = []
    if zipped:
        for s in zipped:
            sources.append(_classify_source(s, ptypes))
        if enum:
            if not (len(pat) >= 3 and _is(pat[0], '(')):
                raise Unsupported('D1: enumerate pattern ' + orig)
            inner_parts = _split_top(pat[1:-1])
            if len(inner_parts) != 2:
                raise Unsupported('D1: enumerate pattern ' + orig)
            idx_pat, pat = inner_parts
        if not (len(pat) >= 3 and _is(pat[0], '(') and _match_close(pat, 0) == len(pat) - 1):
            raise Unsupported('D1: zip pattern ' + orig)
        pats = _split_top(pat[1:-1])
        if len(pats) != 2:
            raise Unsupported('D1: zip pattern ' + orig)
    else:
        sources.append(_classify_source(e, ptypes))
        if enum:
            if not (len(pat) >= 3 and _is(pat[0], '(')):
                raise Unsupported('D1: enumerate pattern ' + orig)
            inner_parts = _split_top(pat[1:-1])
            if len(inner_parts) != 2:
                raise Unsupported('D1: enumerate pattern ' + orig)
            idx_pat, pat = inner_parts
        pats = [pat]
    log.append('D1 `%s` -> index while loop (%s)' % (orig, iv))
    lens = [('%s . len ( )' % _txt(_paren(b))) if not isinstance(m_, tuple) else
            ('( %s . len ( ) / %d )' % (_txt(_paren(b)), m_[1])) for b, m_ in sources]
    for b, m_ in sources:
        if isinstance(m_, tuple):
            if rev:
                raise Unsupported('D1c: chunks_exact_mut under rev: ' + orig)
            log.append('D1c `%s.chunks_exact_mut(%d)` -> item k is `&mut %s[%d*k .. %d*k + %d]`, %s.len() / %d items' % (
                _txt(b), m_[1], _txt(b), m_[1], m_[1], m_[1], _txt(b), m_[1]))
    if len(lens) == 1:
        src = 'let %s = %s ;' % (nv, lens[0])
    else:
        src = 'let %s = if %s < %s { %s } else { %s } ;' % (nv, lens[0], lens[1], lens[0], lens[1])
    if take_n is not None:
        if not zipped:
            raise Unsupported('D1f: take() on something else than a zip of slice iterators: ' + orig)
        log.append('D1f `.take(%s)` -> index bound min(.., %s)' % (take_n, take_n))
        src += 'let %s = if %s < %s { %s } else { %s } ;' % (nv, take_n, nv, take_n, nv)
    src += 'let mut %s : usize = 0 ; while %s < %s' % (iv, iv, nv)
    head = toks_of(src, False)
    index = iv if not rev else '%s - 1 - %s' % (nv, iv)
    rhs = []
    for (b, mut_) in sources:
        if isinstance(mut_, tuple):
            rhs.append('& mut %s [ %d * ( %s ) .. %d * ( %s ) + %d ]' % (_txt(_paren(b)), mut_[1], index, mut_[1], index, mut_[1]))
            continue
        rhs.append('%s %s [ %s ]' % ('& mut' if mut_ else '&', _txt(_paren(b)), index))
    if len(rhs) == 1:
        bind = 'let %s = %s ;' % (_txt(pats[0]), rhs[0])
    else:
        bind = 'let ( %s , %s ) = ( %s , %s ) ;' % (_txt(pats[0]), _txt(pats[1]), rhs[0], rhs[1])
    if enum:
        bind = 'let %s = %s ; ' % (_txt(idx_pat), iv) + bind
    snap = ''
    for (b, mut_) in sources:
        if mut_:
            # ghost snapshot of a mutable source at the top of each iteration (spec only)
            snap += 'let ghost __w%d = %s @ ; ' % (n, _txt(_paren(b)))
    inner = toks_of(snap + bind + ' %s += 1 ;' % iv, False)
    # binding patterns such as `&x` for shared iterators are kept verbatim (`let &x = &s[i]`)
    return head + loop_ann + [T('p', '{')] + inner + body + [T('p', '}')]


# ---------------------------------------------------------------------------------------
# D26 (integer/src/gcd/lehmer.rs gcd_ext_in_place)

def rule_d26(toks, log):
    """`P . borrow_mut ( )` with P a PARAMETER of the function of type `& mut [ Word ]` (real tokens) ==> `__reborrow_words ( P )`.
    With `use core::borrow::BorrowMut as _` in scope method resolution picks `<[Word] as BorrowMut<[Word]>>::borrow_mut`, core's
    blanket `impl<T: ?Sized> BorrowMut<T> for T { fn borrow_mut(&mut self) -> &mut T { self } }`: the identity reborrow.  Verus cannot
    state a specification for that impl (unsized T); `__reborrow_words(s: &mut [Word]) -> &mut [Word]` is the identity function,
    VERIFIED in the unit (lib/leh_ext_lemmas.rs: `r@ == old(s)@, final(s)@ == final(r)@`).  Any other receiver is left untouched
    (and then fails in Verus: exit-2 class)."""
    ptypes = _fn_param_types(toks)
    out = []
    i = 0
    hits = []
    while i < len(toks):
        t = toks[i]
        if t[0] == 'id' and not t[2] and t[1] in ptypes and _txt(ptypes[t[1]]) == '& mut [ Word ]' \
                and i + 4 < len(toks) and _is(toks[i + 1], '.') and _is(toks[i + 2], 'borrow_mut') \
                and _is(toks[i + 3], '(') and _is(toks[i + 4], ')') and not any(x[2] for x in toks[i:i + 5]) \
                and not (i > 0 and _is(toks[i - 1], '.')):
            out += toks_of('__reborrow_words (', False) + [t] + [T('p', ')')]
            hits.append(t[1])
            i += 5
            continue
        out.append(t)
        i += 1
    if hits:
        log.append('D26 `P.borrow_mut()` -> `__reborrow_words(P)` for the `&mut [Word]` parameter(s) %s (identity helper verified in the unit)'
                   % ', '.join(hits))
    return out


# ---------------------------------------------------------------------------------------
# D8: a proof block placed after the tail expression of the function body

def rule_d8(toks, log):
    if not toks or not _is(toks[-1], '}'):
        return toks
    # only functions with a (named) return value have a tail expression to bind
    has_ret = any(_is(toks[i], '->') and _is(toks[i + 1], '(') and _is(toks[i + 2], 'ret')
                  for i in range(len(toks) - 2))
    if not has_ret:
        return toks
    end = len(toks) - 1
    a = end
    while a > 0 and toks[a - 1][2]:
        a -= 1
    if a == end:
        return toks          # no trailing annotation
    # toks[a:end] is the trailing annotation; the tail expression ends at a-1
    i = a - 1
    if i < 0 or toks[i][2] or _is(toks[i], ';') or _is(toks[i], '{'):
        return toks          # no tail expression (unit function): annotation is already in place
    last = i
    while i >= 0:
        t = toks[i]
        if t[2]:
            break
        if t[0] == 'p' and t[1] in (')', ']', '}'):
            if t[1] == '}' and i != last:
                # only `} else {` may continue an expression
                if not (_is(toks[i + 1], 'else')):
                    break
            d = 0
            while True:
                tt = toks[i]
                if tt[0] == 'p' and tt[1] in rtok.CLOSE:
                    d += 1
                elif tt[0] == 'p' and tt[1] in rtok.OPEN:
                    d -= 1
                    if d == 0:
                        break
                i -= 1
            i -= 1
            continue
        if t[0] == 'p' and t[1] in (';', '{'):
            break
        i -= 1
    start = i + 1
    expr = toks[start:a]
    log.append('D8 tail expression `%s` bound to `ret` before the trailing proof block' % _txt(expr)[:80])
    return toks[:start] + toks_of('let ret =', False) + expr + [T('p', ';')] + toks[a:end] + \
        [T('id', 'ret'), T('p', '}')]


# ---------------------------------------------------------------------------------------
# D9: contract of a closure whose body is a bare expression

def rule_d9(toks, log):
    """`|params| /*@ -> (r: T) ensures .. @*/ EXPR` where the closure is a call argument (preceded by `(` or `,`,
    EXPR runs to the `)`/`,` that ends the argument) ==> `|params| -> (r: T) ensures .. { EXPR }`.
    Verus (like Rust) needs a block after a closure return type; the braces do not change the meaning."""
    out = list(toks)
    i = 0
    while i < len(out):
        t = out[i]
        head_end = None
        if not t[2] and t[0] == 'p' and t[1] == '||':
            head_end = i
        elif not t[2] and t[0] == 'p' and t[1] == '|' and i > 0 and out[i - 1][0] == 'p' and out[i - 1][1] in ('(', ',', '='):
            # ('=': rule D9b, a `let NAME = |params| /*@ -> .. @*/ EXPR;` closure; only the annotated head below makes it a match)
            j = i + 1
            while j < len(out) and not (out[j][0] == 'p' and out[j][1] == '|'):
                if out[j][0] == 'p' and out[j][1] in ('{', '}', ';'):
                    j = len(out)
                    break
                j += 1
            if j < len(out):
                head_end = j
        if head_end is None or head_end + 1 >= len(out) or not (out[head_end + 1][2] and _is(out[head_end + 1], '->')):
            i += 1
            continue
        a = head_end + 1
        while a < len(out) and out[a][2]:
            a += 1
        if a >= len(out):
            raise Unsupported('D9: closure without body')
        if _is(out[a], '{'):
            i = a
            continue            # already a block (nothing to rewrite, also for `let f = || -> .. { .. }`)
        let_bound = i > 0 and out[i - 1][0] == 'p' and out[i - 1][1] == '=' and not out[i - 1][2]
        if not (i > 0 and out[i - 1][0] == 'p' and out[i - 1][1] in ('(', ',')) and not let_bound:
            raise Unsupported('D9: annotated closure is not a call argument')
        d = 0
        e = a
        while e < len(out):
            tk = out[e]
            if tk[0] == 'p' and tk[1] in rtok.OPEN:
                d += 1
            elif tk[0] == 'p' and tk[1] in rtok.CLOSE:
                if d == 0:
                    break
                d -= 1
            elif d == 0 and tk[0] == 'p' and tk[1] in (',', ';'):
                break
            e += 1
        if let_bound:
            # D9b: the body of a let-bound closure runs to the `;` that ends the `let`
            if e >= len(out) or not (out[e][0] == 'p' and out[e][1] == ';'):
                raise Unsupported('D9b: let-bound closure body shape')
        elif e >= len(out) or not (out[e][0] == 'p' and out[e][1] in (')', ',')):
            raise Unsupported('D9: closure body shape')
        if any(x[2] for x in out[a:e]):
            raise Unsupported('D9: annotation inside a closure body expression')
        log.append('D9 closure body `%s` wrapped in a block to carry its contract' % _txt(out[a:e])[:80])
        out = out[:a] + [T('p', '{')] + out[a:e] + [T('p', '}')] + out[e:]
        i = e + 2
    return out


# ---------------------------------------------------------------------------------------
# D4a: run-time `assert!(e)` ==> evaluate e, prove it true (the panic is unreachable under the precondition)

def rule_d4a(toks, log):
    """`assert!(E);` / `assert!(E, "msg" ..);` (a statement) ==> `let __assertK : bool = E ; assert(__assertK) ;`.
    E is still *executed* (calls keep their contracts and preconditions); the proof obligation says the
    assertion can never fire, i.e. the function does not panic here under its `requires`."""
    # Directive `#[assert_guard]` (annotation tokens): the run-time assertions of this function are DOCUMENTED / POSSIBLE
    # panics, not proof obligations: `assert!(E);` ==> `if ! ( E ) { __assert_failed ( ) ; }` where the unit declares
    # `fn __assert_failed() -> !` (external_body, no `requires`): a call never returns, so E may be used afterwards -- exactly
    # what the real `assert!` guarantees in debug and release builds.  The contract then speaks about normal returns only.
    guard = False
    for q in range(len(toks) - 3):
        if toks[q][2] and _is(toks[q], '#') and _is(toks[q + 1], '[') and _is(toks[q + 2], 'assert_guard') and _is(toks[q + 3], ']'):
            toks = toks[:q] + toks[q + 4:]
            guard = True
            break
    out = []
    i = 0
    n = 0
    while i < len(toks):
        t = toks[i]
        if t[0] == 'id' and t[1] == 'assert' and not t[2] and i + 2 < len(toks) and _is(toks[i + 1], '!') \
                and not toks[i + 1][2] and _is(toks[i + 2], '('):
            e = _match_close(toks, i + 2)
            if not (e + 1 < len(toks) and _is(toks[e + 1], ';')):
                raise Unsupported('D4a: assert! is not a statement')
            if i > 0 and not (toks[i - 1][2] or (toks[i - 1][0] == 'p' and toks[i - 1][1] in (';', '{', '}'))):
                raise Unsupported('D4a: assert! is not at statement position')
            args = _split_top(toks[i + 3:e])
            cond = args[0]
            if not cond or any(x[2] for x in cond):
                raise Unsupported('D4a: assert! condition shape')
            if guard:
                log.append('D4a `assert!(%s)` -> run-time guard (possible panic; `#[assert_guard]`)' % _txt(cond)[:100])
                out += toks_of('if ! (', False) + cond + toks_of(') { __assert_failed ( ) ; }', False)
                i = e + 2
                continue
            v = '__assert%d' % n
            n += 1
            log.append('D4a `assert!(%s)` -> evaluated, then proof obligation (panic unreachable)' % _txt(cond)[:100])
            out += toks_of('let %s : bool =' % v, False) + cond + toks_of('; assert ( %s ) ;' % v, False)
            i = e + 2
            continue
        if t[0] == 'id' and t[1] == 'assert_eq' and not t[2] and i + 2 < len(toks) and _is(toks[i + 1], '!') \
                and not toks[i + 1][2] and _is(toks[i + 2], '('):
            # D4a-eq: `assert_eq!(A, B);` (a statement, exactly two arguments) ==> `let __asserteqK : bool = ( A ) == ( B ) ;
            # assert ( __asserteqK ) ;`: A and B are still executed, the proof obligation says the panic is unreachable
            e = _match_close(toks, i + 2)
            if not (e + 1 < len(toks) and _is(toks[e + 1], ';')):
                raise Unsupported('D4a-eq: assert_eq! is not a statement')
            if i > 0 and not (toks[i - 1][2] or (toks[i - 1][0] == 'p' and toks[i - 1][1] in (';', '{', '}'))):
                raise Unsupported('D4a-eq: assert_eq! is not at statement position')
            args = _split_top(toks[i + 3:e])
            if args and not args[-1]:
                args = args[:-1]
            if len(args) != 2 or not args[0] or not args[1] or any(x[2] for x in args[0] + args[1]):
                raise Unsupported('D4a-eq: assert_eq! shape')
            if guard:
                # D4a-eq under `#[assert_guard]` (added for the int_memsize_* units): same treatment as `assert!`: a
                # POSSIBLE panic, `if ! ( ( A ) == ( B ) ) { __assert_failed ( ) ; }`, not a proof obligation
                log.append('D4a-eq `assert_eq!(%s, %s)` -> run-time guard (possible panic; `#[assert_guard]`)' % (
                    _txt(args[0])[:60], _txt(args[1])[:60]))
                out += toks_of('if ! ( (', False) + args[0] + toks_of(') == (', False) + args[1] + \
                    toks_of(') ) { __assert_failed ( ) ; }', False)
                i = e + 2
                continue
            v = '__asserteq%d' % n
            n += 1
            log.append('D4a-eq `assert_eq!(%s, %s)` -> evaluated, then proof obligation (panic unreachable)' % (
                _txt(args[0])[:60], _txt(args[1])[:60]))
            out += toks_of('let %s : bool = (' % v, False) + args[0] + toks_of(') == (', False) + args[1] + \
                toks_of(') ; assert ( %s ) ;' % v, False)
            i = e + 2
            continue
        out.append(t)
        i += 1
    return out


# ---------------------------------------------------------------------------------------
# D10: f32/f64 arithmetic in a branch condition ==> opaque guard function

_F_OPS = {'+', '-', '*', '/', '>', '<', '>=', '<=', '(', ')', '||', '&&'}   # `||` / `&&`: two float tests in one condition (float/src/convert.rs convert_to_binary_once) still become ONE guard


def _is_float_lit(t):
    return t[0] == 'lit' and t[1][0].isdigit() and ('.' in t[1] or t[1].endswith(('f32', 'f64'))) \
        and not t[1].startswith(('0x', '0b', '0o'))


def rule_d10(toks, log):
    """`if C {` where C contains a float literal or an `as f32`/`as f64` cast and consists only of identifiers,
    float literals, `+ - * / < > <= >=`, parentheses and such casts ==> `if __f32_guardK(ids..) {` (ids = the
    distinct identifiers of C in order of first occurrence; K counts the guards of the function).
    Verus has no usable model of float arithmetic (every `+`/`*` on f32 carries an unprovable precondition and
    `usize as f32` is rejected), so the test is abstracted into an uninterpreted-but-declared function of the same
    inputs; whatever the unit assumes about `__f32_guardK` is a TRUSTED statement about that float expression."""
    out = []
    i = 0
    n = 0
    while i < len(toks):
        t = toks[i]
        if _is(t, 'if') and not t[2]:
            j = i + 1
            d = 0
            while j < len(toks) and not (d == 0 and _is(toks[j], '{')):
                if toks[j][0] == 'p' and toks[j][1] in ('(', '['):
                    d += 1
                elif toks[j][0] == 'p' and toks[j][1] in (')', ']'):
                    d -= 1
                j += 1
            cond = toks[i + 1:j]
            floaty = any(_is_float_lit(x) for x in cond) or any(
                _is(cond[k], 'as') and k + 1 < len(cond) and cond[k + 1][1] in ('f32', 'f64') for k in range(len(cond)))
            if floaty and not any(x[2] for x in cond):
                ids = []
                k = 0
                while k < len(cond):
                    x = cond[k]
                    if _is(x, 'as'):
                        if not (k + 1 < len(cond) and cond[k + 1][1] in ('f32', 'f64')):
                            raise Unsupported('D10: cast in float condition: ' + _txt(cond))
                        k += 2
                        continue
                    if x[0] == 'id':
                        if x[1] not in ids:
                            ids.append(x[1])
                    elif _is_float_lit(x) or (x[0] == 'p' and x[1] in _F_OPS):
                        pass
                    else:
                        raise Unsupported('D10: float condition shape: ' + _txt(cond))
                    k += 1
                g = '__f32_guard%d' % n
                n += 1
                log.append('D10 float test `%s` -> opaque guard %s(%s)' % (_txt(cond), g, ', '.join(ids)))
                out += [t] + toks_of('%s ( %s )' % (g, ' , '.join(ids)), False)
                i = j
                continue
        out.append(t)
        i += 1
    return out


# ---------------------------------------------------------------------------------------
# D10b: an integer estimate computed in float arithmetic ==> opaque estimate function

def rule_d10b(toks, log):
    """Directive `#[float_est(X)]` (annotation tokens): the real statement `let [mut] X = ( E ) as T ;` -- E consisting only of
    identifiers, float literals, `+ - * /`, parentheses and `as f32` / `as f64` casts, T one of the primitive integer types
    -- becomes `let [mut] X = __f32_estK ( ids.. ) ;` (ids = the distinct identifiers of E in order of first occurrence,
    K counts the estimates of the function).  Same reason as D10: Verus has no usable model of float arithmetic (`/` on
    f32 carries an unprovable precondition).  The unit declares `__f32_estK` (returning T); whatever contract it gives it
    is a TRUSTED statement about that float expression -- with NO `ensures` the proof holds for an arbitrary estimate.
    A directive whose statement is missing or has another shape raises Unsupported."""
    n = 0
    while True:
        i = 0
        while i + 3 < len(toks):
            if toks[i][2] and _is(toks[i], '#') and _is(toks[i + 1], '[') and _is(toks[i + 2], 'float_est') and _is(toks[i + 3], '('):
                break
            i += 1
        else:
            return toks
        ce = _match_close(toks, i + 3)
        if not (ce == i + 5 and toks[i + 4][0] == 'id' and ce + 1 < len(toks) and _is(toks[ce + 1], ']')):
            raise Unsupported('D10b: malformed float_est directive')
        name = toks[i + 4][1]
        out = toks[:i] + toks[ce + 2:]
        hit = None
        k = 0
        while k + 3 < len(out):
            if _is(out[k], 'let') and not out[k][2]:
                q = k + 1
                if _is(out[q], 'mut'):
                    q += 1
                if out[q][0] == 'id' and out[q][1] == name and not out[q][2] and _is(out[q + 1], '='):
                    e = q + 2
                    d = 0
                    while e < len(out) and not (d == 0 and _is(out[e], ';')):
                        if out[e][0] == 'p' and out[e][1] in rtok.OPEN:
                            d += 1
                        elif out[e][0] == 'p' and out[e][1] in rtok.CLOSE:
                            d -= 1
                        e += 1
                    hit = (q + 2, e)
                    break
            k += 1
        if hit is None:
            raise Unsupported('D10b: no `let %s = ..;` in the function' % name)
        a, e = hit
        init = out[a:e]
        ints = ('u8', 'u16', 'u32', 'u64', 'u128', 'usize', 'i8', 'i16', 'i32', 'i64', 'i128', 'isize')
        if any(x[2] for x in init) or len(init) < 5 or not _is(init[0], '(') or _match_close(out, a) != e - 3 \
                or not _is(init[-2], 'as') or init[-1][1] not in ints:
            raise Unsupported('D10b: estimate shape `%s`' % _txt(init))
        inner = init[1:-3]
        ids = []
        mlog = []
        k = 0
        while k < len(inner):
            x = inner[k]
            if _is(x, 'as'):
                if not (k + 1 < len(inner) and inner[k + 1][1] in ('f32', 'f64')):
                    raise Unsupported('D10b: cast in float estimate: ' + _txt(inner))
                k += 2
                continue
            # D10b-m (additive): `RECV . method ( )` (no-argument method call on an identifier, e.g. `limit.log2_bounds()`)
            # optionally followed by a tuple index `. 0`: the receiver is handed to the opaque estimate BY REFERENCE
            # (`&RECV`, it may be a non-Copy big integer that the function uses afterwards), the method name / index are
            # part of the float expression that is replaced as a whole
            if x[0] == 'id' and k + 4 < len(inner) and _is(inner[k + 1], '.') and inner[k + 2][0] == 'id' \
                    and _is(inner[k + 3], '(') and _is(inner[k + 4], ')'):
                if '& ' + x[1] not in ids:
                    ids.append('& ' + x[1])
                mlog.append('%s.%s()' % (x[1], inner[k + 2][1]))
                k += 5
                if k + 1 < len(inner) and _is(inner[k], '.') and inner[k + 1][0] == 'lit' and inner[k + 1][1].isdigit():
                    k += 2
                continue
            if x[0] == 'id':
                if x[1] not in ids:
                    ids.append(x[1])
            elif _is_float_lit(x) or (x[0] == 'p' and x[1] in ('+', '-', '*', '/', '(', ')')):
                pass
            else:
                raise Unsupported('D10b: float estimate shape: ' + _txt(inner))
            k += 1
        if mlog:
            log.append('D10b-m method calls inside the float estimate (receivers passed by reference): ' + ', '.join(mlog))
        g = '__f32_est%d' % n
        n += 1
        log.append('D10b float estimate `%s` -> opaque %s(%s)' % (_txt(init), g, ', '.join(ids)))
        toks = out[:a] + toks_of('%s ( %s )' % (g, ' , '.join(ids)), False) + out[e:]


# ---------------------------------------------------------------------------------------
# D11: arithmetic operator between two parenthesised references ==> the trait method it stands for

_D11_OPS = {'/': 'Div :: div', '%': 'Rem :: rem', '+': 'Add :: add', '-': 'Sub :: sub', '*': 'Mul :: mul'}


def rule_d11(toks, log):
    """`(&A) OP (&B)` as a complete expression (preceded by `=`, `(`, `{`, `}`, `;`, `,` or an annotation; followed by
    `;`, `)`, `}`, `,` or an annotation) ==> `core::ops::Tr::m((&A), (&B))`.  This is Rust's own definition of the
    operator for non-primitive operands; Verus (this build) crashes with an internal error
    (`codegen_select_candidate failed`) on overloaded arithmetic operators whose operands are references."""
    out = list(toks)
    i = 0
    while i < len(out):
        t = out[i]
        if t[0] == 'p' and t[1] == '(' and not t[2] and i + 1 < len(out) and _is(out[i + 1], '&') \
                and (i == 0 or out[i - 1][2] or (out[i - 1][0] == 'p' and out[i - 1][1] in ('=', '(', '{', '}', ';', ','))):
            e1 = _match_close(out, i)
            if e1 + 2 < len(out) and out[e1 + 1][0] == 'p' and out[e1 + 1][1] in _D11_OPS and not out[e1 + 1][2] \
                    and _is(out[e1 + 2], '(') and e1 + 3 < len(out) and _is(out[e1 + 3], '&'):
                e2 = _match_close(out, e1 + 2)
                nxt = out[e2 + 1] if e2 + 1 < len(out) else None
                if nxt is not None and (nxt[2] or (nxt[0] == 'p' and nxt[1] in (';', ')', '}', ','))) \
                        and not any(x[2] for x in out[i:e2 + 1]):
                    op = out[e1 + 1][1]
                    log.append('D11 `%s` -> core::ops::%s(..)' % (_txt(out[i:e2 + 1])[:80], _D11_OPS[op].replace(' ', '')))
                    new = toks_of('core :: ops :: %s (' % _D11_OPS[op], False) + out[i:e1 + 1] + [T('p', ',')] + \
                        out[e1 + 2:e2 + 1] + [T('p', ')')]
                    out = out[:i] + new + out[e2 + 1:]
                    i += len(new)
                    continue
        i += 1
    return out


def _place_path_end(out, i):
    """index just past a plain place path `id ( . id | . int )*` of real tokens starting at i, or None."""
    if not (i < len(out) and out[i][0] == 'id' and not out[i][2]
            and out[i][1] not in ('mut', 'if', 'while', 'match', 'return', 'in', 'let', 'else', 'move', 'unsafe')):
        return None
    j = i + 1
    while j + 1 < len(out) and _is(out[j], '.') and not out[j][2] and out[j + 1][0] in ('id', 'int', 'num', 'lit') \
            and not out[j + 1][2] and not (j + 2 < len(out) and out[j + 2][0] == 'p' and out[j + 2][1] in ('(', '::')):
        j += 2
    return j


def _d11b_field_init(out, i):
    """`{ f : & P OP & Q ,` / `, f : & P OP & Q }`: the operand starts the value of a struct-literal field (real tokens
    `{`|`,` id `:` before it; rational/src/simplify.rs `numerator: &left.numerator + &right.numerator,`)."""
    return i >= 3 and _is(out[i - 1], ':') and not out[i - 1][2] and out[i - 2][0] == 'id' and not out[i - 2][2] \
        and out[i - 3][0] == 'p' and out[i - 3][1] in ('{', ',') and not out[i - 3][2]


def rule_d11b(toks, log):
    """`& P OP & Q` (no parentheses) as a complete expression, P and Q plain place paths `id ( . id | . int )*`, preceded by
    `=`, `(`, `{`, `}`, `;`, `,` or an annotation and followed by `;`, `)`, `}`, `,` or an annotation
    ==> `core::ops::Tr::m(& P, & Q)`.  Same reason and same justification as D11 (rational/src/cmp.rs
    `&a.numerator * &b.denominator`).  Any other shape is left untouched."""
    out = list(toks)
    i = 0
    while i < len(out):
        t = out[i]
        if _is(t, '&') and not t[2] \
                and (i == 0 or out[i - 1][2] or (out[i - 1][0] == 'p' and out[i - 1][1] in ('=', '(', '{', '}', ';', ',', '+=', '-='))
                     or _d11b_field_init(out, i)):
            e1 = _place_path_end(out, i + 1)
            if e1 is not None and e1 + 1 < len(out) and out[e1][0] == 'p' and out[e1][1] in _D11_OPS and not out[e1][2] \
                    and _is(out[e1 + 1], '&') and not out[e1 + 1][2]:
                e2 = _place_path_end(out, e1 + 2)
                nxt = out[e2] if e2 is not None and e2 < len(out) else None
                if nxt is not None and (nxt[2] or (nxt[0] == 'p' and nxt[1] in (';', ')', '}', ','))):
                    op = out[e1][1]
                    log.append('D11b `%s` -> core::ops::%s(..)' % (_txt(out[i:e2])[:80], _D11_OPS[op].replace(' ', '')))
                    new = toks_of('core :: ops :: %s (' % _D11_OPS[op], False) + out[i:e1] + [T('p', ',')] + \
                        out[e1 + 1:e2] + [T('p', ')')]
                    out = out[:i] + new + out[e2:]
                    i += len(new)
                    continue
        i += 1
    return out


def rule_d11c(toks, log):
    """`& P OP X` (no parentheses) as a complete expression, P a plain place path `id ( . id | . int )*`, X ONE identifier or
    literal, preceded by `=`, `(`, `{`, `}`, `;`, `,` or an annotation and followed by `;`, `)`, `}`, `,` or an annotation
    ==> `core::ops::Tr::m(& P, X)`.  Same reason and same justification as D11 / D11b (float/src/third_party/num_order.rs
    `&self.significand % M127`).  Any other shape is left untouched."""
    out = list(toks)
    i = 0
    while i < len(out):
        t = out[i]
        if _is(t, '&') and not t[2] \
                and (i == 0 or out[i - 1][2] or (out[i - 1][0] == 'p' and out[i - 1][1] in ('=', '(', '{', '}', ';', ','))):
            e1 = _place_path_end(out, i + 1)
            if e1 is not None and e1 + 2 < len(out) and out[e1][0] == 'p' and out[e1][1] in _D11_OPS and not out[e1][2] \
                    and out[e1 + 1][0] in ('id', 'lit', 'int', 'num') and not out[e1 + 1][2] and out[e1 + 1][1] not in ('mut', 'self'):
                nxt = out[e1 + 2]
                if nxt[2] or (nxt[0] == 'p' and nxt[1] in (';', ')', '}', ',')):
                    op = out[e1][1]
                    log.append('D11c `%s` -> core::ops::%s(..)' % (_txt(out[i:e1 + 2])[:80], _D11_OPS[op].replace(' ', '')))
                    new = toks_of('core :: ops :: %s (' % _D11_OPS[op], False) + out[i:e1] + [T('p', ','), out[e1 + 1], T('p', ')')]
                    out = out[:i] + new + out[e1 + 2:]
                    i += len(new)
                    continue
        i += 1
    return out


# ---------------------------------------------------------------------------------------
# D2: hoist a method out of its impl block (directive `#[hoist(Self = T, Output = U, ..)]` in the contract block)

def rule_d2(toks, log):
    """A method of `impl X` / `impl Tr for X` becomes a free function: the receiver `self` / `mut self` / `&self` /
    `&mut self` becomes the first parameter `self_: X` / `mut self_: X` / `self_: &X` / `self_: &mut X`, every other
    `self` becomes `self_`, `Self::Name` becomes the associated type given in the directive and `Self` becomes X.
    Requested by the annotated copy with `#[hoist(Self = X, Name = U, ..)]` as the first tokens of its contract block
    (Verus rejects `requires` on trait-impl methods, and the vacuity canary cannot live inside a foreign trait's impl).
    The function body is otherwise untouched."""
    i = 0
    while i + 3 < len(toks):
        if toks[i][2] and _is(toks[i], '#') and _is(toks[i + 1], '[') and _is(toks[i + 2], 'hoist') and _is(toks[i + 3], '('):
            break
        i += 1
    else:
        return toks
    ce = _match_close(toks, i + 3)
    if not (ce + 1 < len(toks) and _is(toks[ce + 1], ']')):
        raise Unsupported('D2: malformed hoist directive')
    amap = {}
    for part in _split_top(toks[i + 4:ce]):
        if not part:
            continue
        if len(part) < 3 or part[0][0] != 'id' or not _is(part[1], '='):
            raise Unsupported('D2: malformed hoist directive entry `%s`' % _txt(part))
        amap[part[0][1]] = [T(k, t, False) for k, t, _ in part[2:]]
    if 'Self' not in amap:
        raise Unsupported('D2: hoist directive without `Self = ..`')
    ts = toks[:i] + toks[ce + 2:]
    selfty = amap['Self']
    # receiver
    f = None
    for k, t in enumerate(ts):
        if _is(t, 'fn') and not t[2]:
            f = k
            break
    if f is None:
        raise Unsupported('D2: no fn')
    # optional `Generics = ['a, 'b]`: the lifetime parameters of the impl header (`impl<'a, 'b> Tr<X<'b>> for Y<'a>`),
    # which the method signature may mention, are declared on the free function (only lifetimes; the method must have
    # no generic parameter list of its own)
    # optional `Name = ident`: the free function gets this name instead of the method name (the methods of different
    # impl blocks share a name: `add`, `sub`, ..; a free function cannot be called through its old name, so only a
    # directly recursive method would notice -- rejected)
    newname = amap.pop('Name', None)
    if newname is not None:
        if len(newname) != 1 or newname[0][0] != 'id' or ts[f + 1][0] != 'id':
            raise Unsupported('D2: Name entry must be a single identifier')
        oldname = ts[f + 1][1]
        if any(x[0] == 'id' and x[1] == oldname and not x[2] and _is(ts[q - 1], '::') and ts[q - 2][1] == 'Self'
               for q, x in enumerate(ts) if q > f + 1):
            raise Unsupported('D2: Name entry on a recursive method')
        ts = ts[:f + 1] + [T('id', newname[0][1])] + ts[f + 2:]
        log.append('D2 hoist: free function named `%s` (method `%s`)' % (newname[0][1], oldname))
    gen = amap.pop('Generics', None)
    if gen is not None:
        if not (len(gen) >= 3 and _is(gen[0], '[') and _is(gen[-1], ']')):
            raise Unsupported('D2: Generics entry shape')
        own = _is(ts[f + 2], '<')       # the method has a generic parameter list of its own: the impl generics go in front
        inner = gen[1:-1]
        for part in _split_top(inner):
            # a lifetime `'a`, or a const parameter of the impl header `const B : Word` (impl<const B: Word> Tr<X<B>> for Y)
            lt = len(part) == 1 and part[0][0] == 'id' and part[0][1].startswith("'")
            cg = len(part) == 4 and _is(part[0], 'const') and part[1][0] == 'id' and _is(part[2], ':') and part[3][0] == 'id'
            # or a type parameter with one trait bound `R : Round` (impl<R: Round, const B: Word> Mul<..> for FBig<R, B>)
            tg = len(part) == 3 and part[0][0] == 'id' and _is(part[1], ':') and part[2][0] == 'id'
            if not (lt or cg or tg):
                raise Unsupported('D2: Generics entry may only list lifetimes and `const N: T` parameters: `%s`' % _txt(gen))
        if own:
            if any(len(part) == 1 and part[0][1].startswith("'") for part in _split_top(inner)) is False and \
                    any(x[0] == 'id' and x[1].startswith("'") for x in ts[f + 3:f + 5]):
                raise Unsupported('D2: method generics start with a lifetime, impl generics do not: cannot merge in order')
            ts = ts[:f + 3] + inner + [T('p', ',')] + ts[f + 3:]
            log.append('D2 hoist: impl generics `%s` merged in front of the method generics' % _txt(inner))
        else:
            ts = ts[:f + 2] + [T('p', '<')] + inner + [T('p', '>')] + ts[f + 2:]
            log.append('D2 hoist: impl generics `%s` declared on the free function' % _txt(inner))
    j = f + 1
    gd = 0
    while True:
        if ts[j][0] == 'p' and ts[j][1] == '<':
            gd += 1
        elif ts[j][0] == 'p' and ts[j][1] in ('>', '>>') and gd > 0:
            gd -= len(ts[j][1])
        elif gd == 0 and _is(ts[j], '('):
            break
        j += 1
    e = _match_close(ts, j)
    parts = _split_top(ts[j + 1:e])
    recv = _txt(parts[0]) if parts and parts[0] else ''
    forms = {'self': 'self_ :', 'mut self': 'mut self_ :', '& self': 'self_ : &', '& mut self': 'self_ : & mut'}
    if recv in forms:
        new_first = toks_of(forms[recv], False) + selfty
        ts = ts[:j + 1] + new_first + ts[j + 1 + len(parts[0]):]
        what = 'receiver `%s` -> `%s %s`' % (recv, forms[recv], _txt(selfty))
    elif any(x[1] == 'self' for x in (parts[0] if parts else [])):
        raise Unsupported('D2: receiver shape `%s`' % recv)
    else:
        what = 'no receiver'
    out = []
    k = 0
    while k < len(ts):
        t = ts[k]
        if t[0] == 'id' and t[1] == 'self':
            out.append(T('id', 'self_', t[2]))
        elif t[0] == 'id' and t[1] == 'Self':
            if k + 2 < len(ts) and _is(ts[k + 1], '::') and ts[k + 2][0] == 'id' and ts[k + 2][1] in amap \
                    and ts[k + 2][1] != 'Self':
                out += amap[ts[k + 2][1]]
                k += 3
                continue
            out += selfty
        else:
            out.append(t)
        k += 1
    log.append('D2 hoist: method -> free function (%s; Self -> %s%s)' % (
        what, _txt(selfty), ''.join('; Self::%s -> %s' % (n, _txt(v)) for n, v in amap.items() if n != 'Self')))
    return out


# ---------------------------------------------------------------------------------------
# D12: `match` on a slice by length patterns ==> if-chain on `.len()`

def rule_d12(toks, log):
    """`match X { [] => E0, &[a] => E1, &[a, b] => E2, .., _ => En }` (X a single identifier; arm patterns only the
    empty slice pattern `[]`, `&[id, ..ids]` / `[id, ..ids]` with plain identifiers, and a final `_`) ==>
    `if X.len() == 0 { E0 } else if X.len() == 1 { let a = X[0]; E1 } else if X.len() == 2 { let a = X[0]; let b = X[1]; E2 }
    .. else { En }`.  Verus (this build) rejects slice patterns.  For a `&[T]` scrutinee with `T: Copy` this is the
    meaning of the patterns (match by length, elements bound by value); any other arm shape in a match that contains
    a slice pattern raises Unsupported.  Matches without slice patterns are left untouched."""
    out = list(toks)
    i = 0
    while i < len(out):
        t = out[i]
        if not (_is(t, 'match') and not t[2] and i + 2 < len(out) and out[i + 1][0] == 'id' and not out[i + 1][2]
                and _is(out[i + 2], '{') and not out[i + 2][2]):
            i += 1
            continue
        scrut = out[i + 1][1]
        be = _match_close(out, i + 2)
        body = out[i + 3:be]
        arms = []
        k = 0
        ok = True
        while k < len(body):
            d = 0
            a = k
            while k < len(body) and not (d == 0 and _is(body[k], '=>')):
                if body[k][0] == 'p' and body[k][1] in rtok.OPEN:
                    d += 1
                elif body[k][0] == 'p' and body[k][1] in rtok.CLOSE:
                    d -= 1
                k += 1
            if k >= len(body):
                ok = False
                break
            pat = body[a:k]
            k += 1
            e0 = k
            while k < len(body) and body[k][2]:
                k += 1                      # annotation blocks in front of the arm expression stay with it
            if k < len(body) and _is(body[k], '{'):
                ce = _match_close(body, k)
                expr = body[e0:k] + body[k + 1:ce]
                k = ce + 1
                if k < len(body) and _is(body[k], ','):
                    k += 1
            else:
                d = 0
                while k < len(body) and not (d == 0 and _is(body[k], ',')):
                    if body[k][0] == 'p' and body[k][1] in rtok.OPEN:
                        d += 1
                    elif body[k][0] == 'p' and body[k][1] in rtok.CLOSE:
                        d -= 1
                    k += 1
                expr = body[e0:k]
                k += 1
            arms.append((pat, expr))
        if not ok:
            i += 1
            continue

        def slice_pat(p):
            q = p[1:] if p and _is(p[0], '&') else p
            if len(q) >= 2 and _is(q[0], '[') and _match_close(q, 0) == len(q) - 1:
                return q[1:-1]
            return None
        if not any(slice_pat(p) is not None for p, _ in arms):
            i += 1
            continue
        if any(x[2] for p, _ in arms for x in p):
            raise Unsupported('D12: annotation inside a slice pattern')
        new = []
        seen = set()
        for n_arm, (p, e) in enumerate(arms):
            inner = slice_pat(p)
            if inner is None:
                if not (len(p) == 1 and _is(p[0], '_') and n_arm == len(arms) - 1):
                    raise Unsupported('D12: arm pattern `%s` in a slice match' % _txt(p))
                new += toks_of('else', False) + [T('p', '{')] + e + [T('p', '}')]
                break
            names = [] if not inner else _split_top(inner)
            if any(len(nm) != 1 or nm[0][0] != 'id' or nm[0][1] in ('_', 'ref', 'mut') for nm in names):
                raise Unsupported('D12: slice pattern `%s`' % _txt(p))
            ln = len(names)
            if ln in seen:
                raise Unsupported('D12: two arms of length %d' % ln)
            seen.add(ln)
            head = ('else if ' if new else 'if ') + '%s . len ( ) == %d' % (scrut, ln)
            binds = ''.join('let %s = %s [ %d ] ; ' % (nm[0][1], scrut, j) for j, nm in enumerate(names))
            new += toks_of(head, False) + [T('p', '{')] + toks_of(binds, False) + e + [T('p', '}')]
        else:
            raise Unsupported('D12: slice match without a final `_` arm')
        log.append('D12 `match %s { %s }` on slice patterns -> if-chain on %s.len()' % (
            scrut, ' , '.join(_txt(p) for p, _ in arms), scrut))
        out = out[:i] + new + out[be + 1:]
        i += len(new)
    return out


# ---------------------------------------------------------------------------------------
# D13: a local variable named like a Verus built-in type

_D13_NAMES = ('int', 'nat')


def rule_d13(toks, log):
    """`let int = E;` (the real code of float/src/convert.rs `Repr::to_int` names a local `int`): inside `verus!{}` the
    identifiers `int` / `nat` are types, so the local is renamed to `int_` / `nat_` -- every occurrence of the
    identifier among the REAL tokens (annotation tokens keep meaning the type; annotations refer to the local by
    its new name).  Shape check: the name must be bound by a plain `let NAME =` / `let mut NAME =` in the real
    tokens and must not occur in the real tokens as a path segment, field or method name (`::int`, `.int`, `int::`)."""
    out = list(toks)
    for nm in _D13_NAMES:
        real = [i for i, t in enumerate(out) if t[0] == 'id' and t[1] == nm and not t[2]]
        if not real:
            continue
        bound = False
        for i in real:
            prev = out[i - 1] if i > 0 else None
            prev2 = out[i - 2] if i > 1 else None
            nxt = out[i + 1] if i + 1 < len(out) else None
            if prev is not None and prev[0] == 'p' and prev[1] in ('::', '.'):
                raise Unsupported('D13: `%s` used as a path segment / member' % nm)
            if nxt is not None and nxt[0] == 'p' and nxt[1] == '::':
                raise Unsupported('D13: `%s` used as a path prefix' % nm)
            if prev is not None and _is(prev, 'as'):
                raise Unsupported('D13: `as %s`' % nm)
            if nxt is not None and _is(nxt, '=') and prev is not None and (
                    _is(prev, 'let') or (_is(prev, 'mut') and prev2 is not None and _is(prev2, 'let'))):
                bound = True
            # D13b: bound as a component of a flat tuple pattern `let ( a , NAME , c ) =` (float/src/parse.rs
            # `let (int, int_digits, base) = ..`): NAME directly preceded by `(` / `,` / `mut` and followed by `,` / `)`,
            # the enclosing parenthesis opened right after `let` and closed right before `=`
            if nxt is not None and nxt[0] == 'p' and nxt[1] in (',', ')') and prev is not None and (
                    (prev[0] == 'p' and prev[1] in ('(', ',')) or _is(prev, 'mut')):
                o = i
                depth = 0
                while o >= 0:
                    if out[o][0] == 'p' and out[o][1] == ')':
                        depth += 1
                    elif out[o][0] == 'p' and out[o][1] == '(':
                        if depth == 0:
                            break
                        depth -= 1
                    o -= 1
                if o > 0 and _is(out[o - 1], 'let') and not out[o - 1][2]:
                    c = _match_close(out, o)
                    if c + 1 < len(out) and _is(out[c + 1], '=') and not any(
                            x[0] == 'p' and x[1] in ('(', '[', '{') for x in out[o + 1:c]):
                        bound = True
        if not bound:
            raise Unsupported('D13: identifier `%s` in the real code is not a `let`-bound local' % nm)
        for i in real:
            out[i] = T('id', nm + '_', False)
        log.append('D13 local variable `%s` (a type name inside verus!) renamed to `%s_` (%d occurrences)' % (nm, nm, len(real)))
    return out


# ---------------------------------------------------------------------------------------
# D14: shift operator whose left operand is a parenthesised reference ==> the trait method it stands for

_D14_OPS = {'<<': 'Shl :: shl', '>>': 'Shr :: shr'}


def rule_d14(toks, log):
    """`(&A) << E` / `(&A) >> E` as a complete expression (preceded by `=`, `(`, `{`, `}`, `;`, `,` or an annotation;
    E runs to the next top-level `,`, `)`, `;` or `}`) ==> `core::ops::Shl::shl((&A), E)` resp. `Shr::shr`.  Same reason
    as D11: this Verus build fails with an internal error (`codegen_select_candidate failed`) on an overloaded
    operator whose left operand is a reference; the rewrite is Rust's own definition of the operator."""
    out = list(toks)
    i = 0
    while i < len(out):
        t = out[i]
        if t[0] == 'p' and t[1] == '(' and not t[2] and i + 1 < len(out) and _is(out[i + 1], '&') \
                and (i == 0 or out[i - 1][2] or (out[i - 1][0] == 'p' and out[i - 1][1] in ('=', '(', '{', '}', ';', ','))):
            e1 = _match_close(out, i)
            if e1 + 1 < len(out) and out[e1 + 1][0] == 'p' and out[e1 + 1][1] in _D14_OPS and not out[e1 + 1][2]:
                op = out[e1 + 1][1]
                j = e1 + 2
                d = 0
                while j < len(out):
                    tk = out[j]
                    if tk[0] == 'p' and tk[1] in rtok.OPEN:
                        d += 1
                    elif tk[0] == 'p' and tk[1] in rtok.CLOSE:
                        if d == 0:
                            break
                        d -= 1
                    elif d == 0 and tk[0] == 'p' and tk[1] in (',', ';'):
                        break
                    j += 1
                rhs = out[e1 + 2:j]
                bad = not rhs or any(x[2] for x in rhs)
                dd = 0
                for k, x in enumerate(rhs):
                    if x[0] == 'p' and x[1] in rtok.OPEN:
                        dd += 1
                    elif x[0] == 'p' and x[1] in rtok.CLOSE:
                        dd -= 1
                    elif dd == 0 and k > 0 and x[0] == 'p' and x[1] in (
                            '<', '>', '<=', '>=', '==', '!=', '&&', '||', '+', '-', '*', '/', '%', '|', '^', '&', '<<', '>>', '..', '='):
                        bad = True
                if bad:
                    # only a cast / call / path / parenthesised / unary-minus operand is accepted (no top-level binary operator)
                    raise Unsupported('D14: shift amount shape `%s`' % _txt(rhs))
                log.append('D14 `%s` -> core::ops::%s(..)' % (_txt(out[i:j])[:80], _D14_OPS[op].replace(' ', '')))
                new = toks_of('core :: ops :: %s (' % _D14_OPS[op], False) + out[i:e1 + 1] + [T('p', ',')] + rhs + [T('p', ')')]
                out = out[:i] + new + out[j:]
                i += len(new)
                continue
        i += 1
    return out


# ---------------------------------------------------------------------------------------
# D14c: `( self << E )` / `( self >> E )` in a (hoisted) method whose receiver is a reference to a PRIMITIVE integer

_D14C_PRIMS = ('u8', 'u16', 'u32', 'u64', 'u128', 'usize', 'i8', 'i16', 'i32', 'i64', 'i128', 'isize')


def _rule_d14c(toks, log, prim):
    """`( self_ << E )` / `( self_ >> E )` with `self_ : & <primitive integer>` ==> `( ( * self_ ) << E )`.
    Verus (this build) panics on a built-in shift whose left operand is a reference (`mk_range &u64`), and the D14b form
    `Shl::shl(&u64, u32)` has no usable specification in vstd (no ShlSpecImpl for `&u64`: its `shl_req` is uninterpreted).
    `<&u64 as Shl<u32>>::shl(a, b)` is DEFINED in core (forward_ref_binop!) as `*a << b`: the rewrite is that definition
    (trusted like D14).  Same shape restrictions on E as D14 / D14b; anything else is left untouched."""
    out = list(toks)
    i = 0
    while i + 3 < len(out):
        if (out[i][0] == 'p' and out[i][1] == '(' and not out[i][2]
                and out[i + 1][0] == 'id' and out[i + 1][1] == 'self_' and not out[i + 1][2]
                and out[i + 2][0] == 'p' and out[i + 2][1] in _D14_OPS and not out[i + 2][2]):
            e1 = _match_close(out, i)
            rhs = out[i + 3:e1]
            bad = not rhs or any(x[2] for x in rhs)
            dd = 0
            for k, x in enumerate(rhs):
                if x[0] == 'p' and x[1] in rtok.OPEN:
                    dd += 1
                elif x[0] == 'p' and x[1] in rtok.CLOSE:
                    dd -= 1
                elif dd == 0 and x[0] == 'p' and x[1] in (
                        '<', '>', '<=', '>=', '==', '!=', '&&', '||', '+', '*', '/', '%', '|', '^', '&', '<<', '>>', '..', '=',
                        ',', ';') or (dd == 0 and k > 0 and x[0] == 'p' and x[1] == '-'):
                    bad = True
            if bad:
                raise Unsupported('D14c: shift amount shape `%s`' % _txt(rhs))
            log.append('D14c `%s` -> `( * self_ ) %s ..` (receiver &%s: core forward_ref_binop definition)' % (
                _txt(out[i:e1 + 1])[:80], out[i + 2][1], prim))
            new = [out[i], T('p', '('), T('p', '*'), out[i + 1], T('p', ')')] + out[i + 2:e1 + 1]
            out = out[:i] + new + out[e1 + 1:]
            i += len(new)
            continue
        i += 1
    return out


# ---------------------------------------------------------------------------------------
# D14b: `( self << E )` / `( self >> E )` in a method whose receiver is `&self`

def rule_d14b(toks, log):
    """`( self << E )` / `( self >> E )` (the parenthesised expression consists of exactly this: real tokens only, E without a
    top-level binary operator, as in D14) inside a method with receiver `&self` (after D2: first parameter `self_ : &T`)
    ==> `( core::ops::Shl::shl ( self , E ) )` resp. `Shr::shr`.  Same reason as D14: this Verus build fails with an internal
    error (`codegen_select_candidate failed`) on an overloaded operator whose left operand is a reference; the rewrite
    is Rust's own definition of the operator.  Any other receiver shape leaves the tokens untouched."""
    out = list(toks)
    # the receiver must be a shared reference: `& self` or (hoisted) `self_ : &` not followed by `mut`
    recv_ref = False
    for k in range(len(out) - 2):
        if out[k][2]:
            continue
        if _is(out[k], '&') and _is(out[k + 1], 'self') and not out[k + 1][2]:
            recv_ref = True
            break
        if out[k][0] == 'id' and out[k][1] == 'self_' and _is(out[k + 1], ':') and _is(out[k + 2], '&') \
                and not (k + 3 < len(out) and _is(out[k + 3], 'mut')):
            if k + 3 < len(out) and out[k + 3][0] == 'id' and out[k + 3][1] in _D14C_PRIMS:
                return _rule_d14c(out, log, out[k + 3][1])
            recv_ref = True
            break
        if _is(out[k], '{'):
            break
    if not recv_ref:
        return out
    i = 0
    while i + 3 < len(out):
        if (out[i][0] == 'p' and out[i][1] == '(' and not out[i][2]
                and out[i + 1][0] == 'id' and out[i + 1][1] in ('self', 'self_') and not out[i + 1][2]
                and out[i + 2][0] == 'p' and out[i + 2][1] in _D14_OPS and not out[i + 2][2]):
            e1 = _match_close(out, i)
            rhs = out[i + 3:e1]
            bad = not rhs or any(x[2] for x in rhs)
            dd = 0
            for k, x in enumerate(rhs):
                if x[0] == 'p' and x[1] in rtok.OPEN:
                    dd += 1
                elif x[0] == 'p' and x[1] in rtok.CLOSE:
                    dd -= 1
                elif dd == 0 and x[0] == 'p' and x[1] in (
                        '<', '>', '<=', '>=', '==', '!=', '&&', '||', '+', '*', '/', '%', '|', '^', '&', '<<', '>>', '..', '=',
                        ',', ';') or (dd == 0 and k > 0 and x[0] == 'p' and x[1] == '-'):
                    bad = True
            if bad:
                raise Unsupported('D14b: shift amount shape `%s`' % _txt(rhs))
            op = out[i + 2][1]
            log.append('D14b `%s` -> core::ops::%s(..)' % (_txt(out[i:e1 + 1])[:80], _D14_OPS[op].replace(' ', '')))
            new = [out[i]] + toks_of('core :: ops :: %s (' % _D14_OPS[op], False) + [out[i + 1], T('p', ',')] + rhs \
                + [T('p', ')'), out[e1]]
            out = out[:i] + new + out[e1 + 1:]
            i += len(new)
            continue
        i += 1
    return out


# ---------------------------------------------------------------------------------------
# D19: item statements inside a function body (`type X = ..;`, `const X: T = ..;`)

def rule_d19(toks, log):
    """Item statements at the top level of the function body -- `type IDENT = .. ;` and `const IDENT : TY = EXPR ;` (real tokens
    only, at a statement boundary) -- are moved, unchanged and in order, in front of the function.  Verus (this build)
    rejects "internal item statements".  A `type` alias and a `const` item do not capture anything from the function (Rust
    forbids it), so their meaning is the same at module level; a clash with a module-level item of the same name is a
    compile error of the generated file, never a silent change.  The canary copy drops the hoisted tokens again (they are
    already present next to the original function): the log line `D19 hoisted_tokens=K` tells verus_run how many."""
    # D19k (added for unit float_to_prim_once): directive `#[keep_local_items]` (annotation tokens) switches the rule off for
    # this function: Verus (this build, probed) does accept a `const IDENT: T = LITERAL;` item statement in a method body,
    # and hoisting it in front of a METHOD would turn it into an associated const (`Self::IDENT`) that the body's plain
    # `IDENT` no longer names.  The real tokens stay exactly as they are; the directive itself is removed.
    for i in range(len(toks) - 3):
        if toks[i][2] and _is(toks[i], '#') and _is(toks[i + 1], '[') and _is(toks[i + 2], 'keep_local_items') and _is(toks[i + 3], ']'):
            log.append('D19k #[keep_local_items]: fn-local items left in place')
            return toks[:i] + toks[i + 4:]
    # the body: first real `{` after the `fn` keyword
    f = None
    for k, t in enumerate(toks):
        if _is(t, 'fn') and not t[2]:
            f = k
            break
    if f is None:
        return toks
    b = None
    for k in range(f, len(toks)):
        if _is(toks[k], '{') and not toks[k][2]:
            b = k
            break
        if _is(toks[k], ';') and not toks[k][2]:
            return toks
    if b is None:
        return toks
    e = _match_close(toks, b)
    hoisted = []
    body = []
    i = b + 1
    depth = 0
    at_stmt = True
    while i < e:
        t = toks[i]
        if depth == 0 and at_stmt and not t[2] and t[0] == 'id' and t[1] in ('type', 'const') \
                and i + 2 < e and toks[i + 1][0] == 'id' and not toks[i + 1][2] \
                and ((t[1] == 'type' and _is(toks[i + 2], '=')) or (t[1] == 'const' and _is(toks[i + 2], ':'))):
            j = i
            d = 0
            while j < e and not (d == 0 and _is(toks[j], ';')):
                if toks[j][0] == 'p' and toks[j][1] in rtok.OPEN:
                    d += 1
                elif toks[j][0] == 'p' and toks[j][1] in rtok.CLOSE:
                    d -= 1
                j += 1
            item = toks[i:j + 1]
            if j >= e or any(x[2] for x in item):
                raise Unsupported('D19: item statement shape `%s`' % _txt(item)[:80])
            log.append('D19 fn-local item `%s` moved in front of the function' % _txt(item)[:120])
            hoisted += item
            i = j + 1
            at_stmt = True
            continue
        if t[0] == 'p' and t[1] in rtok.OPEN:
            depth += 1
        elif t[0] == 'p' and t[1] in rtok.CLOSE:
            depth -= 1
        if t[2]:
            pass        # annotations do not change the statement boundary
        else:
            at_stmt = depth == 0 and t[0] == 'p' and t[1] in (';', '}')
        body.append(t)
        i += 1
    if not hoisted:
        return toks
    log.append('D19 hoisted_tokens=%d' % len(hoisted))
    return hoisted + toks[:b + 1] + body + toks[e:]


# ---------------------------------------------------------------------------------------
# D15: `X.iter().all(|w| *w == C)` on a word slice

def rule_d15(toks, log):
    """`X . iter ( ) . all ( | w | * w == C )` with X a plain place path (`id ( . id | . int )*`, real tokens only), `w` one
    identifier used exactly as `* w`, C an integer literal or a single identifier ==> `__slice_all_eq ( & X , C )`.
    Verus (this build) has no specification for `Iterator::all`.  The helper `__slice_all_eq(s: &[Word], c: Word) -> bool`
    is NOT trusted: the unit has to provide it as an exec function with an index loop, its invariant and the contract
    `ret == forall|k| 0 <= k < s.len() ==> s[k] == c` (lib/mod2_ring.rs), verified in the same run.  Trusted: the meaning
    of `slice::Iter::all` with a pure closure (core, as for D1).  Any other shape is left untouched (Verus then rejects
    `all`, as before)."""
    out = list(toks)
    i = 0
    while i + 13 < len(out):
        w = out[i:i + 14]
        if not (_is(w[0], '.') and _is(w[1], 'iter') and _is(w[2], '(') and _is(w[3], ')') and _is(w[4], '.')
                and _is(w[5], 'all') and _is(w[6], '(') and _is(w[7], '|') and w[8][0] == 'id' and _is(w[9], '|')
                and _is(w[10], '*') and w[11] == w[8] and _is(w[12], '==')
                and (w[13][0] in ('id', 'int', 'num', 'lit')) and not any(x[2] for x in w)):
            i += 1
            continue
        if not (i + 14 < len(out) and _is(out[i + 14], ')') and not out[i + 14][2]):
            i += 1
            continue
        # the receiver: walk back over `id ( . id | . int )*`
        a = i
        ok = False
        while a - 1 >= 0 and not out[a - 1][2] and out[a - 1][0] in ('id', 'int', 'num', 'lit') \
                and out[a - 1][1] not in ('if', 'while', 'match', 'return', 'in', 'let', 'mut', 'else'):
            a -= 1
            ok = out[a][0] == 'id'
            if a - 1 >= 0 and _is(out[a - 1], '.') and not out[a - 1][2]:
                a -= 1
                ok = False
                continue
            break
        if not ok or a == i:
            i += 1
            continue
        if a - 1 >= 0 and out[a - 1][0] == 'p' and out[a - 1][1] in (')', ']', '?', '::'):
            i += 1
            continue                       # receiver is a longer postfix expression: not this rule's shape
        recv = out[a:i]
        new = toks_of('__slice_all_eq ( &', False) + recv + [T('p', ',')] + [w[13]] + [T('p', ')')]
        log.append('D15 `%s` -> `__slice_all_eq(& %s, %s)` (helper verified in the unit)' % (
            _txt(out[a:i + 15]), _txt(recv), w[13][1]))
        out = out[:a] + new + out[i + 15:]
        i = a + len(new)
    return out


# ---------------------------------------------------------------------------------------
# D15b: `X.bytes().all(|b| b == C)` on a string slice

def rule_d15b(toks, log):
    """`X . bytes ( ) . all ( | b | b == C )` with X and b single identifiers, C a literal or a single identifier (real
    tokens only) ==> `__str_all_eq ( X , C )`.  Verus (this build) has no specification for `Iterator::all` / `str::bytes`.
    The helper `__str_all_eq(s: &str, c: u8) -> bool` is an exec function with an index loop over `s.as_bytes()` and the
    contract `ret == forall|k| 0 <= k < s.b().len() ==> s.b()[k] == c` (contracts/lib/parse_filter.rs), verified in the
    same run against the string model of the unit.  Trusted (as for D1 / D15): the meaning of `str::bytes` (the bytes of
    `as_bytes()` in order) and of `Iterator::all` with a pure closure.  Any other shape is left untouched."""
    pat = ['.', 'bytes', '(', ')', '.', 'all', '(', '|', None, '|', None, '==', None, ')']
    out = list(toks)
    i = 1
    while i + len(pat) <= len(out):
        w = out[i:i + len(pat)]
        if any(x[2] for x in w) or not all(p_ is None or _is(x, p_) for x, p_ in zip(w, pat)) \
                or w[8][0] != 'id' or w[10] != w[8] or w[12][0] not in ('id', 'lit', 'int', 'num') \
                or out[i - 1][0] != 'id' or out[i - 1][2] \
                or (i >= 2 and out[i - 2][0] == 'p' and out[i - 2][1] in ('.', '::', ')', ']', '?')):
            i += 1
            continue
        x, c = out[i - 1][1], w[12][1]
        log.append('D15b `%s` -> `__str_all_eq(%s, %s)` (helper verified in the unit)' % (_txt(out[i - 1:i + len(pat)]), x, c))
        new = toks_of('__str_all_eq ( %s ,' % x, False) + [w[12]] + [T('p', ')')]
        out = out[:i - 1] + new + out[i + len(pat):]
        i = i - 1 + len(new)
    return out


# ---------------------------------------------------------------------------------------
# D15c: `Y.iter().copied().filter(|&c| c != C).collect()` on a byte slice

def rule_d15c(toks, log):
    """`Y . iter ( ) . copied ( ) . filter ( | & c | c != C ) . collect ( )` with Y and c single identifiers, C a literal or
    a single identifier (real tokens only) ==> `__collect_ne ( Y , C )`.  Verus (this build) has no specification for
    `Iterator::copied` / `collect`.  The helper `__collect_ne(s: &[u8], c: u8) -> Vec<u8>` is NOT trusted: the unit
    provides it as an exec function with an index loop and the contract `ret@ == strip_byte(s@, c)` (the elements of s
    different from c, in order; contracts/lib/parse_filter.rs), verified in the same run.  Trusted (as for D1 / D15): the
    meaning of `slice::Iter` + `copied` + `filter` with a pure closure + `collect::<Vec<u8>>()` in core/alloc.  Any other
    shape is left untouched (Verus then rejects it)."""
    pat = ['.', 'iter', '(', ')', '.', 'copied', '(', ')', '.', 'filter', '(', '|', '&', None, '|', None, '!=', None, ')',
           '.', 'collect', '(', ')']
    out = list(toks)
    i = 1
    while i + len(pat) <= len(out):
        w = out[i:i + len(pat)]
        if any(x[2] for x in w) or not all(p_ is None or _is(x, p_) for x, p_ in zip(w, pat)) \
                or w[13][0] != 'id' or w[15] != w[13] or w[17][0] not in ('id', 'lit', 'int', 'num') \
                or out[i - 1][0] != 'id' or out[i - 1][2] \
                or (i >= 2 and out[i - 2][0] == 'p' and out[i - 2][1] in ('.', '::', ')', ']', '?')):
            i += 1
            continue
        y, c = out[i - 1][1], w[17][1]
        log.append('D15c `%s` -> `__collect_ne(%s, %s)` (helper verified in the unit)' % (_txt(out[i - 1:i + len(pat)]), y, c))
        new = toks_of('__collect_ne ( %s ,' % y, False) + [w[17]] + [T('p', ')')]
        out = out[:i - 1] + new + out[i + len(pat):]
        i = i - 1 + len(new)
    # the same chain WITHOUT the filter (what is left when a code change drops it): `Y . iter ( ) . copied ( ) . collect ( )`
    # ==> `__collect_copy ( Y )` (verified helper, `ret@ == s@`), so that such a change is judged by the contract
    pat2 = ['.', 'iter', '(', ')', '.', 'copied', '(', ')', '.', 'collect', '(', ')']
    i = 1
    while i + len(pat2) <= len(out):
        w = out[i:i + len(pat2)]
        if any(x[2] for x in w) or not all(_is(x, p_) for x, p_ in zip(w, pat2)) or out[i - 1][0] != 'id' or out[i - 1][2] \
                or (i >= 2 and out[i - 2][0] == 'p' and out[i - 2][1] in ('.', '::', ')', ']', '?')):
            i += 1
            continue
        y = out[i - 1][1]
        log.append('D15c `%s` -> `__collect_copy(%s)` (helper verified in the unit)' % (_txt(out[i - 1:i + len(pat2)]), y))
        new = toks_of('__collect_copy ( %s )' % y, False)
        out = out[:i - 1] + new + out[i + len(pat2):]
        i = i - 1 + len(new)
    return out


# ---------------------------------------------------------------------------------------
# D16: mutable sub-slice of a boxed slice (directive `#[box_slice(P)]` in the contract block)

def rule_d16(toks, log):
    """Directive `#[box_slice(P)]` (annotation tokens; P a place path `id ( . id | . int )*` of type `Box<[Word]>`):
    every real-token occurrence of `& mut P [` becomes `& mut __as_mut_slice ( & mut P ) [`.  Verus (this build) loses the
    view of `&mut b[range]` when `b` is a `Box<[T]>` (probed: shared slicing and `&mut b` as a `&mut [T]` argument are
    fine).  `__as_mut_slice(s: &mut [Word]) -> &mut [Word]` is the identity function, VERIFIED in the unit
    (lib/mod2_ring.rs: `r@ == old(s)@, final(r)@ == final(s)@`); the deref coercion `&mut Box<[Word]>` -> `&mut [Word]`
    is the one every unit already relies on when it passes `&mut x.0` to a kernel.  A directive without any occurrence
    raises Unsupported."""
    i = 0
    while i + 3 < len(toks):
        if toks[i][2] and _is(toks[i], '#') and _is(toks[i + 1], '[') and _is(toks[i + 2], 'box_slice') and _is(toks[i + 3], '('):
            break
        i += 1
    else:
        return toks
    ce = _match_close(toks, i + 3)
    if not (ce + 1 < len(toks) and _is(toks[ce + 1], ']')):
        raise Unsupported('D16: malformed box_slice directive')
    place = [(k, t) for k, t, _ in toks[i + 4:ce]]
    if not place or place[0][0] != 'id' or len(place) % 2 != 1 \
            or any((q % 2 == 1) != (x == ('p', '.')) for q, x in enumerate(place)) \
            or any(x[0] not in ('id', 'lit', 'int', 'num') for x in place[0::2]):
        raise Unsupported('D16: box_slice place `%s`' % _txt(toks[i + 4:ce]))
    out = toks[:i] + toks[ce + 2:]
    n = len(place)
    hits = 0
    k = 0
    while k + 2 + n < len(out):
        if _is(out[k], '&') and _is(out[k + 1], 'mut') and not out[k][2] and not out[k + 1][2] \
                and [(a, b) for a, b, _ in out[k + 2:k + 2 + n]] == place and not any(x[2] for x in out[k + 2:k + 2 + n]) \
                and _is(out[k + 2 + n], '[') and not out[k + 2 + n][2]:
            new = toks_of('& mut __as_mut_slice ( & mut', False) + out[k + 2:k + 2 + n] + [T('p', ')')]
            out = out[:k] + new + out[k + 2 + n:]
            k += len(new)
            hits += 1
            continue
        k += 1
    if hits == 0:
        raise Unsupported('D16: no `&mut %s[..]` in the function' % _txt(toks[i + 4:ce]))
    log.append('D16 `&mut %s[..]` -> `&mut __as_mut_slice(&mut %s)[..]` (%d occurrence(s); identity helper verified in the unit)' % (
        _txt(toks[i + 4:ce]), _txt(toks[i + 4:ce]), hits))
    return out


# ---------------------------------------------------------------------------------------
# D17: loop annotation on something that is no longer a loop (after a code change `while` -> `if`)

def rule_d17(toks, log):
    """An annotation run starting with `invariant` / `invariant_except_break` / `decreases` that sits in front of a
    `{` must belong to a `while` / `for` / `loop` header.  After a code change that turned the loop into an `if` the
    transplanted annotation would be a syntax error (the unit would be inconclusive); it is dropped instead, so that
    the function is verified WITHOUT the loop contract and fails on its own postcondition if the change matters."""
    out = []
    i = 0
    n = len(toks)
    while i < n:
        t = toks[i]
        if t[2] and t[0] == 'id' and t[1] in ('invariant', 'invariant_except_break', 'decreases') \
                and (i == 0 or not toks[i - 1][2]):
            # end of the annotation run
            j = i
            while j < n and toks[j][2]:
                j += 1
            if j < n and _is(toks[j], '{'):
                # walk back over the real header tokens to the statement start
                k = len(out) - 1
                d = 0
                kw = None
                while k >= 0:
                    tk = out[k]
                    if tk[0] == 'p' and tk[1] in rtok.CLOSE:
                        d += 1
                    elif tk[0] == 'p' and tk[1] in rtok.OPEN:
                        if d == 0:
                            break
                        d -= 1
                    elif d == 0 and tk[0] == 'p' and tk[1] == ';':
                        break
                    elif d == 0 and tk[0] == 'id' and tk[1] in ('while', 'for', 'loop') and not tk[2]:
                        kw = tk[1]
                        break
                    elif d == 0 and tk[0] == 'id' and tk[1] in ('if', 'match') and not tk[2]:
                        kw = tk[1]
                        # keep looking: `while x == if ..` does not occur in practice; an `if` header ends the search
                        break
                    k -= 1
                if kw not in ('while', 'for', 'loop'):
                    log.append('D17 stale loop annotation dropped (header is now `%s`): %s' % (kw, _txt(toks[i:j])[:80]))
                    i = j
                    continue
        out.append(t)
        i += 1
    return out


# ---------------------------------------------------------------------------------------
# D18: `let PAT = loop { .. break EXPR; .. };` ==> deferred initialisation + plain `break`

def rule_d18(toks, log):
    """`let PAT = loop [annotation] { BODY } ;` where BODY leaves the loop through `break EXPR ;` statements ==>
    `let __brkK ; loop [annotation] { BODY' } let PAT = __brkK ;` with every `break EXPR ;` of THIS loop (not inside a
    nested loop / closure) replaced by `{ __brkK = EXPR ; break ; }`.  This is Rust's own definition of a loop with a
    break value (the loop expression evaluates to the operand of the `break` that leaves it); this Verus build rejects
    "complex break expressions" (rational/src/simplify.rs `Repr::simplest_in`).  A labelled break, a `break` without
    operand next to one with operand, or a nested loop / closure containing `break` ==> unsupported."""
    out = list(toks)
    k = 0
    i = 0
    while i < len(out):
        if _is(out[i], 'let') and not out[i][2]:
            # find `= loop` at depth 0 before the next `;`
            j = i + 1
            d = 0
            eq = None
            while j < len(out):
                tj = out[j]
                if tj[0] == 'p' and tj[1] in rtok.OPEN:
                    d += 1
                elif tj[0] == 'p' and tj[1] in rtok.CLOSE:
                    if d == 0:
                        break
                    d -= 1
                elif d == 0 and tj[0] == 'p' and tj[1] == ';':
                    break
                elif d == 0 and _is(tj, '=') and not tj[2]:
                    eq = j
                    break
                j += 1
            if eq is not None and eq + 1 < len(out) and _is(out[eq + 1], 'loop') and not out[eq + 1][2]:
                b = eq + 2
                while b < len(out) and out[b][2]:      # loop annotation (invariant / decreases)
                    b += 1
                if not (b < len(out) and _is(out[b], '{') and not out[b][2]):
                    raise Unsupported('D18: `let .. = loop` without a body block')
                e = _match_close(out, b)
                if not (e + 1 < len(out) and _is(out[e + 1], ';') and not out[e + 1][2]):
                    raise Unsupported('D18: `let .. = loop { .. }` not followed by `;`')
                body = out[b + 1:e]
                if any(_is(x, w) and not x[2] for x in body for w in ('loop', 'while', 'for')) \
                        or any(x[0] == 'p' and x[1] in ('|', '||') and not x[2] for x in body):
                    raise Unsupported('D18: nested loop or closure inside a loop with break value')
                name = '__brk%d' % k
                nb = []
                m = 0
                hits = 0
                while m < len(body):
                    if _is(body[m], 'break') and not body[m][2]:
                        n = m + 1
                        dd = 0
                        while n < len(body):
                            tn = body[n]
                            if tn[0] == 'p' and tn[1] in rtok.OPEN:
                                dd += 1
                            elif tn[0] == 'p' and tn[1] in rtok.CLOSE:
                                dd -= 1
                                if dd < 0:
                                    raise Unsupported('D18: `break EXPR` not terminated by `;`')
                            elif dd == 0 and tn[0] == 'p' and tn[1] == ';':
                                break
                            n += 1
                        expr = body[m + 1:n]
                        if not expr or any(x[2] for x in expr) or expr[0][0] == 'lifetime' or expr[0][1].startswith("'"):
                            raise Unsupported('D18: `break` without operand / labelled break')
                        nb += [T('p', '{'), T('id', name), T('p', '=')] + expr + [T('p', ';'), T('id', 'break'), T('p', ';'), T('p', '}')]
                        hits += 1
                        m = n + 1
                        continue
                    nb.append(body[m])
                    m += 1
                if hits == 0:
                    raise Unsupported('D18: `let .. = loop` without `break EXPR;`')
                pat = out[i + 1:eq]
                # a typed declaration `let __brkK : TYPE ;` supplied by the annotation block right in front of the statement
                # (needed when the loop's `ensures` mentions __brkK) replaces the untyped one
                a0 = i
                while a0 > 0 and out[a0 - 1][2]:
                    a0 -= 1
                pre = out[a0:i]
                typed = any(_is(pre[x], 'let') and x + 2 < len(pre) and _is(pre[x + 1], name) and _is(pre[x + 2], ':')
                            for x in range(len(pre)))
                decl = [] if typed else [T('id', 'let'), T('id', name), T('p', ';')]
                new = decl + [T('id', 'loop')] + out[eq + 2:b] + [T('p', '{')] + nb + [T('p', '}')] \
                    + [T('id', 'let')] + pat + [T('p', '='), T('id', name), T('p', ';')]
                log.append('D18 `let %s = loop { .. break EXPR; .. }` -> `let %s; loop { .. { %s = EXPR; break; } .. } let %s = %s;` (%d break(s))'
                           % (_txt(pat)[:40], name, name, _txt(pat)[:40], name, hits))
                out = out[:i] + new + out[e + 2:]
                k += 1
                i += len(new)
                continue
        i += 1
    return out


# ---------------------------------------------------------------------------------------
# D20: tail cut (marker `#[cut_tail]` in an annotation block between two top-level statements of the body)

def rule_d20(toks, log):
    """Marker `#[cut_tail]` (annotation tokens) placed BETWEEN two top-level statements of the function body: every token
    from the marker up to the closing brace of the body is replaced by the tail expression `__cut_tail()`, where the unit
    declares `#[verifier::external_body] fn __cut_tail<T>() -> T` WITHOUT any `ensures` (an arbitrary value of the return
    type).  What is verified is the PREFIX only: its panic-freedom, its early `return`s against the contract, and the
    proof obligations (`assert`) placed in front of the marker; nothing is claimed about the dropped tail and the
    function's `ensures` cannot be established through it (the canary `ensures false` therefore still fails).
    Used where the tail is a sequence of `core::fmt::Formatter` / `write!` calls that Verus cannot host (float/src/fmt.rs).
    Shape checks: exactly one marker, at nesting depth 0 of the body, right after a real `;` or `}`, and at least one real
    token is dropped."""
    # D20u (added for the int_memsize_* units): `#[cut_tail_unused(IDENT)]` is `#[cut_tail]` plus the shape check that the
    # identifier IDENT does not occur among the dropped real tokens (the resource units cut value-dependent tails that
    # must not touch the scratch `memory`; a code change that uses it there makes the unit unsupported, never a pass)
    unused = None
    for i in range(len(toks) - 6):
        if toks[i][2] and _is(toks[i], '#') and _is(toks[i + 1], '[') and _is(toks[i + 2], 'cut_tail_unused') \
                and _is(toks[i + 3], '(') and toks[i + 4][0] == 'id' and _is(toks[i + 5], ')') and _is(toks[i + 6], ']'):
            unused = toks[i + 4][1]
            toks = toks[:i] + toks_of('# [ cut_tail ]', True) + toks[i + 7:]
            break
    hits = [i for i in range(len(toks) - 3)
            if toks[i][2] and _is(toks[i], '#') and _is(toks[i + 1], '[') and _is(toks[i + 2], 'cut_tail') and _is(toks[i + 3], ']')]
    if not hits:
        return toks
    if len(hits) != 1:
        raise Unsupported('D20: more than one #[cut_tail] marker')
    m = hits[0]
    f = next((i for i, t in enumerate(toks) if not t[2] and _is(t, 'fn')), None)
    if f is None:
        raise Unsupported('D20: no fn')
    b = next((i for i in range(f, len(toks)) if not toks[i][2] and _is(toks[i], '{')), None)
    if b is None:
        raise Unsupported('D20: no body')
    e = _match_close(toks, b)
    if not (b < m < e):
        raise Unsupported('D20: #[cut_tail] outside the function body')
    depth = 0
    for t in toks[b + 1:m]:
        if t[0] == 'p' and t[1] in rtok.OPEN:
            depth += 1
        elif t[0] == 'p' and t[1] in rtok.CLOSE:
            depth -= 1
    if depth != 0:
        raise Unsupported('D20: #[cut_tail] is not between top-level statements of the body')
    p = m - 1
    while p > b and toks[p][2]:
        p -= 1
    if p == b or not (toks[p][0] == 'p' and toks[p][1] in (';', '}')):
        raise Unsupported('D20: #[cut_tail] does not follow a complete statement')
    dropped = [t for t in toks[m + 4:e] if not t[2]]
    if not dropped:
        raise Unsupported('D20: nothing to cut')
    if unused is not None:
        if any(t[0] == 'id' and t[1] == unused for t in dropped):
            raise Unsupported('D20u: `%s` is used in the tail cut by #[cut_tail_unused(%s)]' % (unused, unused))
        log.append('D20u the cut tail does not mention `%s` (checked on the real tokens)' % unused)
    log.append('D20 tail cut: %d real tokens after `%s` replaced by `__cut_tail()` (arbitrary value, no contract): only the '
               'prefix of the function is verified' % (len(dropped), _txt(toks[max(b + 1, p - 8):p + 1])[-60:]))
    return toks[:m] + toks_of('__cut_tail ( )', False) + toks[e:]


# ---------------------------------------------------------------------------------------
# D1d: a ChunksExactMut bound to a local, iterated by `&mut X`, then `X.into_remainder()`

def rule_d1d(toks, log):
    """`let mut X = W . chunks_exact_mut ( N ) ; .. for P in & mut X { B } .. let R = X . into_remainder ( ) ;`
    (W, X, R identifiers, N an integer literal >= 1, X used nowhere else)
    ==> the binding of X is dropped, the loop iterates `W . chunks_exact_mut ( N )` (lowered by D1/D1c to an index loop
    with `P = &mut W[N*k .. N*k + N]`), and `let __rem_start_X = N * ( W . len ( ) / N ) ; let R = & mut W [ __rem_start_X .. ] ;`.
    Meaning of ChunksExactMut in `core` (trusted as for D1): the iterator yields the W.len() / N full chunks in order;
    `into_remainder()` is the tail of fewer than N elements, fixed when the iterator is created."""
    i = 0
    while i + 10 < len(toks):
        if _is(toks[i], 'let') and not toks[i][2] and _is(toks[i + 1], 'mut') and toks[i + 2][0] == 'id' \
                and _is(toks[i + 3], '=') and toks[i + 4][0] == 'id' and _is(toks[i + 5], '.') \
                and _is(toks[i + 6], 'chunks_exact_mut') and _is(toks[i + 7], '(') and toks[i + 8][0] == 'lit' \
                and toks[i + 8][1].isdigit() and int(toks[i + 8][1]) >= 1 and _is(toks[i + 9], ')') and _is(toks[i + 10], ';') \
                and not any(x[2] for x in toks[i:i + 11]):
            x, w, nlit = toks[i + 2][1], toks[i + 4][1], toks[i + 8][1]
            uses = [j for j in range(i + 11, len(toks)) if toks[j][0] == 'id' and toks[j][1] == x and not toks[j][2]]
            loop_use = [j for j in uses if j >= 3 and _is(toks[j - 1], 'mut') and _is(toks[j - 2], '&') and _is(toks[j - 3], 'in')]
            rem_use = [j for j in uses if j + 4 < len(toks) and _is(toks[j + 1], '.') and _is(toks[j + 2], 'into_remainder')
                       and _is(toks[j + 3], '(') and _is(toks[j + 4], ')') and j + 5 < len(toks) and _is(toks[j + 5], ';')
                       and j >= 3 and _is(toks[j - 1], '=') and toks[j - 2][0] == 'id' and _is(toks[j - 3], 'let')]
            if len(uses) != 2 or len(loop_use) != 1 or len(rem_use) != 1 or not loop_use[0] < rem_use[0]:
                raise Unsupported('D1d: ChunksExactMut local `%s` is not used as `for P in &mut %s` + `let R = %s.into_remainder();`' % (x, x, x))
            lu, ru = loop_use[0], rem_use[0]
            chunk_src = toks_of('%s . chunks_exact_mut ( %s )' % (w, nlit), False)
            rem_src = toks_of('& mut %s [ __rem_start_%s .. ]' % (w, x), False)
            rem_pre = toks_of('let __rem_start_%s = %s * ( %s . len ( ) / %s ) ;' % (x, nlit, w, nlit), False)
            log.append('D1d `let mut %s = %s.chunks_exact_mut(%s)` / `for .. in &mut %s` / `%s.into_remainder()` -> loop over the '
                       'chunks of %s, remainder `&mut %s[%s * (%s.len() / %s)..]`' % (x, w, nlit, x, x, w, w, nlit, w, nlit))
            # (the start index is computed before the mutable borrow: `let R = ..` begins at ru - 3)
            toks = toks[:i] + toks[i + 11:lu - 2] + chunk_src + toks[lu + 1:ru - 3] + rem_pre + toks[ru - 3:ru] + rem_src \
                + toks[ru + 5:]
            continue
        i += 1
    return toks


# ---------------------------------------------------------------------------------------
# D11d: overloaded operator whose operand is a LOCAL OF REFERENCE TYPE (directive `#[ref_operand(a, b)]`)

def rule_d11d(toks, log):
    """Directive `#[ref_operand(a, b, ..)]` (annotation tokens; a, b identifiers of locals / pattern bindings whose type is a
    reference, e.g. `&UBig`): every real-token `X OP Y` with X and Y single identifiers, at least one of them listed,
    OP one of `* / %` (followed by `;`, `)`, `}`, `,`, `+`, `-` or an annotation) or `+ -` (followed by `;`, `)`, `}`, `,` or
    an annotation), preceded by `=`, `(`, `{`, `}`, `;`, `,` or an annotation ==> `core::ops::Tr::m(X, Y)`.
    Same reason and same justification as D11 (Verus crashes on overloaded operators with reference operands; the rewrite
    is Rust's own definition of the operator; the precedence context is shape-checked).  A listed identifier that occurs in
    no such expression ==> unsupported."""
    i = 0
    while i + 3 < len(toks):
        if toks[i][2] and _is(toks[i], '#') and _is(toks[i + 1], '[') and _is(toks[i + 2], 'ref_operand') and _is(toks[i + 3], '('):
            break
        i += 1
    else:
        return toks
    ce = _match_close(toks, i + 3)
    if not (ce + 1 < len(toks) and _is(toks[ce + 1], ']')):
        raise Unsupported('D11d: malformed ref_operand directive')
    names = []
    for part in _split_top(toks[i + 4:ce]):
        if len(part) != 1 or part[0][0] != 'id':
            raise Unsupported('D11d: ref_operand takes identifiers')
        names.append(part[0][1])
    out = toks[:i] + toks[ce + 2:]
    hit = set()
    k = 1
    while k + 2 < len(out):
        a, o, b = out[k], out[k + 1], out[k + 2]
        if a[0] == 'id' and b[0] == 'id' and o[0] == 'p' and o[1] in _D11_OPS and not (a[2] or o[2] or b[2]) \
                and (a[1] in names or b[1] in names) \
                and (out[k - 1][2] or (out[k - 1][0] == 'p' and out[k - 1][1] in ('=', '(', '{', '}', ';', ','))) \
                and k + 3 < len(out):
            nxt = out[k + 3]
            follow = (';', ')', '}', ',', '+', '-') if o[1] in ('*', '/', '%') else (';', ')', '}', ',')
            if nxt[2] or (nxt[0] == 'p' and nxt[1] in follow):
                log.append('D11d `%s %s %s` -> core::ops::%s(..) (reference-typed operand)' % (
                    a[1], o[1], b[1], _D11_OPS[o[1]].replace(' ', '')))
                new = toks_of('core :: ops :: %s ( %s , %s )' % (_D11_OPS[o[1]], a[1], b[1]), False)
                out = out[:k] + new + out[k + 3:]
                hit.update(x for x in (a[1], b[1]) if x in names)
                k += len(new)
                continue
        # D11g (additive): `= X OP CHAIN ;` -- X a listed identifier, OP `+`/`-`, CHAIN a postfix expression (identifiers, `.`,
        # `::`, parenthesised argument groups only at depth 0: a path / field / method-call chain, which binds tighter than
        # every binary operator) that runs up to the `;` of the statement ==> `core::ops::Tr::m(X, CHAIN)`
        # (rational/src/third_party/dashu_float.rs `let lb = f - l.with_precision(f.precision() + 1).unwrap();`)
        if a[0] == 'id' and a[1] in names and o[0] == 'p' and o[1] in ('+', '-') and not (a[2] or o[2]) \
                and out[k - 1][0] == 'p' and out[k - 1][1] == '=' and not out[k - 1][2] and b[0] == 'id' and not b[2]:
            j, ok = k + 2, True
            while j < len(out) and not (out[j][0] == 'p' and out[j][1] == ';'):
                t = out[j]
                if t[2]:
                    ok = False
                    break
                if t[0] == 'p' and t[1] == '(':
                    j = _match_close(out, j) + 1
                    continue
                if not (t[0] == 'id' or (t[0] == 'p' and t[1] in ('.', '::'))):
                    ok = False
                    break
                j += 1
            if ok and j < len(out) and j > k + 3:
                chain = out[k + 2:j]
                log.append('D11g `%s %s %s` -> core::ops::%s(..) (reference-typed left operand, postfix-chain right operand)' % (
                    a[1], o[1], _txt(chain)[:60], _D11_OPS[o[1]].replace(' ', '')))
                new = toks_of('core :: ops :: %s ( %s ,' % (_D11_OPS[o[1]], a[1]), False) + chain + toks_of(')', False)
                out = out[:k] + new + out[j:]
                hit.add(a[1])
                k += len(new)
                continue
        k += 1
    missing = [n for n in names if n not in hit]
    if missing:
        raise Unsupported('D11d: no `X OP Y` expression with operand %s' % ', '.join(missing))
    return out


# ---------------------------------------------------------------------------------------
# D11h: `#[ref_lhs(x, ..)]` -- a reference-typed identifier as LEFT operand of `* / % << >>`, right operand ONE postfix expression

_D11H_OPS = {'*': 'Mul :: mul', '/': 'Div :: div', '%': 'Rem :: rem', '<<': 'Shl :: shl', '>>': 'Shr :: shr'}


def _d11h_postfix_end(out, j):
    """index just behind the postfix expression starting at out[j] (real tokens only): a primary -- identifier, literal or
    parenthesised group -- followed by any number of `. ident|int`, `:: ident`, `:: < generic args >`, `( args )`, `[ index ]`;
    None if out[j] does not start one"""
    n = len(out)
    if j >= n or out[j][2]:
        return None
    if out[j][0] in ('id', 'lit'):
        j += 1
    elif out[j][0] == 'p' and out[j][1] == '(':
        j = _match_close(out, j) + 1
    else:
        return None
    while j < n and not out[j][2] and out[j][0] == 'p':
        t = out[j][1]
        if t == '.' and j + 1 < n and out[j + 1][0] in ('id', 'lit') and not out[j + 1][2]:
            j += 2
        elif t == '::' and j + 1 < n and out[j + 1][0] == 'id' and not out[j + 1][2]:
            j += 2
        elif t == '::' and j + 1 < n and _is(out[j + 1], '<') and not out[j + 1][2]:
            d, j = 1, j + 2
            while j < n and d:
                if out[j][2] or (out[j][0] == 'p' and out[j][1] in ('>>', '<<', ';', '{', '}')):
                    return None
                if _is(out[j], '<'):
                    d += 1
                elif _is(out[j], '>'):
                    d -= 1
                j += 1
            if d:
                return None
        elif t in ('(', '['):
            j = _match_close(out, j) + 1
        else:
            break
    return j


def rule_d11h(toks, log):
    """Directive `#[ref_lhs(a, ..)]` (annotation tokens; a: identifier of a parameter / local whose type is a reference to a
    non-primitive type, e.g. `&IBig`): every real-token `X OP R` with X a listed identifier, OP one of `* / % << >>`, preceded
    by `=`, `=>`, `(`, `{`, `}`, `;`, `,` or an annotation, R ONE postfix expression (see _d11h_postfix_end: it binds tighter
    than every binary operator) that runs exactly up to a `,`, `;`, `)`, `}` or an annotation -- so `X OP R` is a complete
    expression -- ==> `core::ops::Tr::m(X, R)`.  Same reason and same justification as D11 / D14 (this Verus build fails
    with `codegen_select_candidate failed` on an overloaded operator whose left operand is a reference; the rewrite is
    Rust's own definition of the operator).  float/src/utils.rs `value << exp`, `value * IBig::from(5).pow(exp)`,
    `value / base_as_ibig::<B>().pow(exp)`, `value << (exp * b.trailing_zeros() as usize)`.  Any other shape is left
    untouched; a listed identifier that occurs in no such expression ==> unsupported."""
    i = 0
    while i + 3 < len(toks):
        if toks[i][2] and _is(toks[i], '#') and _is(toks[i + 1], '[') and _is(toks[i + 2], 'ref_lhs') and _is(toks[i + 3], '('):
            break
        i += 1
    else:
        return toks
    ce = _match_close(toks, i + 3)
    if not (ce + 1 < len(toks) and _is(toks[ce + 1], ']')):
        raise Unsupported('D11h: malformed ref_lhs directive')
    names = []
    for part in _split_top(toks[i + 4:ce]):
        if len(part) != 1 or part[0][0] != 'id':
            raise Unsupported('D11h: ref_lhs takes identifiers')
        names.append(part[0][1])
    out = toks[:i] + toks[ce + 2:]
    hit = set()
    k = 1
    while k + 2 < len(out):
        a, o = out[k], out[k + 1]
        if a[0] == 'id' and a[1] in names and not a[2] and o[0] == 'p' and o[1] in _D11H_OPS and not o[2] \
                and (out[k - 1][2] or (out[k - 1][0] == 'p' and out[k - 1][1] in ('=', '=>', '(', '{', '}', ';', ','))):
            j = _d11h_postfix_end(out, k + 2)
            if j is not None and j < len(out) and (out[j][2] or (out[j][0] == 'p' and out[j][1] in (',', ';', ')', '}'))):
                rhs = out[k + 2:j]
                log.append('D11h `%s %s %s` -> core::ops::%s(..) (reference-typed left operand, postfix right operand)' % (
                    a[1], o[1], _txt(rhs)[:60], _D11H_OPS[o[1]].replace(' ', '')))
                new = toks_of('core :: ops :: %s ( %s ,' % (_D11H_OPS[o[1]], a[1]), False) + rhs + toks_of(')', False)
                out = out[:k] + new + out[j:]
                hit.add(a[1])
                # continue INSIDE the rewritten call (the right operand may contain further occurrences)
                k += 1
                continue
        k += 1
    missing = [n for n in names if n not in hit]
    if missing:
        raise Unsupported('D11h: no `X OP R` expression with left operand %s' % ', '.join(missing))
    return out


# ---------------------------------------------------------------------------------------
# D11i: `#[ref_rhs(x, ..)]` -- ONE postfix expression as left operand of `* / %`, right operand a reference `& x.p` / `x`

def rule_d11i(toks, log):
    """Directive `#[ref_rhs(a, ..)]` (annotation tokens; a: identifier of a parameter / local of reference type, e.g.
    `rhs: &ConstDivisor`): every real-token `L OP R` with L ONE postfix expression (see _d11h_postfix_end: it binds tighter
    than every binary operator) preceded by `=`, `=>`, `(`, `{`, `}`, `;`, `,` or an annotation, OP one of `* / %`, and R
    either `& P` with P a plain place path `a ( . id | . int )*` whose head `a` is listed, or a listed identifier itself,
    followed by `,`, `;`, `)`, `}` or an annotation -- so `L OP R` is a complete expression -- ==> `core::ops::Tr::m(L, R)`.
    Same reason and same justification as D11 / D11h (this Verus build fails with `codegen_select_candidate failed` on an
    overloaded operator with a reference operand; the rewrite is Rust's own definition of the operator).
    integer/src/div_const.rs `self.into_repr() / &rhs.0`, `(repr % &rhs.0).with_sign(sign)`, `mem::take(self) / rhs`.
    Any other shape is left untouched; a listed identifier that occurs in no such expression ==> unsupported."""
    i = 0
    while i + 3 < len(toks):
        if toks[i][2] and _is(toks[i], '#') and _is(toks[i + 1], '[') and _is(toks[i + 2], 'ref_rhs') and _is(toks[i + 3], '('):
            break
        i += 1
    else:
        return toks
    ce = _match_close(toks, i + 3)
    if not (ce + 1 < len(toks) and _is(toks[ce + 1], ']')):
        raise Unsupported('D11i: malformed ref_rhs directive')
    names = []
    for part in _split_top(toks[i + 4:ce]):
        if len(part) != 1 or part[0][0] != 'id':
            raise Unsupported('D11i: ref_rhs takes identifiers')
        names.append(part[0][1])
    out = toks[:i] + toks[ce + 2:]
    hit = set()
    ops = {'*': 'Mul :: mul', '/': 'Div :: div', '%': 'Rem :: rem'}
    k = 1
    while k + 2 < len(out):
        if (out[k - 1][2] or (out[k - 1][0] == 'p' and out[k - 1][1] in ('=', '=>', '(', '{', '}', ';', ','))) \
                and not out[k][2] and not (out[k][0] == 'id' and out[k][1] in (
                    'let', 'mut', 'if', 'while', 'match', 'return', 'in', 'else', 'move', 'unsafe', 'for', 'loop', 'break')):
            j = _d11h_postfix_end(out, k)
            if j is not None and j + 1 < len(out) and out[j][0] == 'p' and out[j][1] in ops and not out[j][2]:
                r0 = j + 1
                head, e = None, None
                if _is(out[r0], '&') and not out[r0][2] and r0 + 1 < len(out):
                    head, e = out[r0 + 1], _place_path_end(out, r0 + 1)
                elif out[r0][0] == 'id' and not out[r0][2]:
                    head, e = out[r0], r0 + 1
                if e is not None and head[0] == 'id' and head[1] in names and e < len(out) \
                        and (out[e][2] or (out[e][0] == 'p' and out[e][1] in (',', ';', ')', '}'))):
                    lhs, rhs, op = out[k:j], out[r0:e], out[j][1]
                    log.append('D11i `%s %s %s` -> core::ops::%s(..) (postfix left operand, reference right operand)' % (
                        _txt(lhs)[:60], op, _txt(rhs)[:40], ops[op].replace(' ', '')))
                    new = toks_of('core :: ops :: %s (' % ops[op], False) + lhs + [T('p', ',')] + rhs + toks_of(')', False)
                    out = out[:k] + new + out[e:]
                    hit.add(head[1])
                    k += len(new)
                    continue
        k += 1
    missing = [n for n in names if n not in hit]
    if missing:
        raise Unsupported('D11i: no `L OP R` expression with right operand %s' % ', '.join(missing))
    return out


# ---------------------------------------------------------------------------------------
# D11f: `( & P ) OP X` -- parenthesised reference on the left, one identifier / literal on the right

def rule_d11f(toks, log):
    """`( & P ) OP X` as a complete expression, P a plain place path `id ( . id | . int )*`, X ONE identifier or literal (real
    tokens only), preceded by `=`, `(`, `{`, `}`, `;`, `,` or an annotation and followed by `;`, `)`, `}`, `,` or an annotation
    ==> `core::ops::Tr::m(( & P ), X)`.  Same reason and same justification as D11 / D11c (rational/src/third_party/
    num_order.rs `(&self.denominator) % M127U`).  Any other shape is left untouched."""
    out = list(toks)
    i = 0
    while i + 1 < len(out):
        t = out[i]
        if t[0] == 'p' and t[1] == '(' and not t[2] and _is(out[i + 1], '&') and not out[i + 1][2] \
                and (i == 0 or out[i - 1][2] or (out[i - 1][0] == 'p' and out[i - 1][1] in ('=', '(', '{', '}', ';', ','))):
            e0 = _place_path_end(out, i + 2)
            if e0 is not None and e0 + 3 < len(out) and _is(out[e0], ')') and not out[e0][2] \
                    and out[e0 + 1][0] == 'p' and out[e0 + 1][1] in _D11_OPS and not out[e0 + 1][2] \
                    and out[e0 + 2][0] in ('id', 'lit', 'int', 'num') and not out[e0 + 2][2] and out[e0 + 2][1] not in ('mut', 'self'):
                nxt = out[e0 + 3]
                if nxt[2] or (nxt[0] == 'p' and nxt[1] in (';', ')', '}', ',')):
                    op = out[e0 + 1][1]
                    log.append('D11f `%s` -> core::ops::%s(..)' % (_txt(out[i:e0 + 3])[:80], _D11_OPS[op].replace(' ', '')))
                    new = toks_of('core :: ops :: %s (' % _D11_OPS[op], False) + out[i:e0 + 1] + [T('p', ','), out[e0 + 2], T('p', ')')]
                    out = out[:i] + new + out[e0 + 3:]
                    i += len(new)
                    continue
        i += 1
    return out


# ---------------------------------------------------------------------------------------
# D11e: overloaded arithmetic operator whose LEFT operand is the hoisted `&self` receiver of a non-primitive type

def rule_d11e(toks, log):
    """`self_ OP R` in a hoisted method whose receiver is `self_ : & T` (T not a primitive integer, not `&mut`), OP one of
    `* / % + -`, R a parenthesised expression `( .. )`, a path `id ( :: id )*` or one literal (real tokens only), preceded
    by `=`, `(`, `{`, `}`, `;`, `,` or an annotation and followed by `;`, `)`, `}`, `,` or an annotation
    ==> `core::ops::Tr::m(self_, R)`.  Same reason and same justification as D11 / D11c (Verus crashes with
    `codegen_select_candidate failed` on an overloaded operator with a reference operand; the rewrite is Rust's own
    definition of the operator): integer/src/third_party/num_order.rs `self % (i128::MAX as u128)`, `(self % i128::MAX)`.
    Any other shape is left untouched."""
    out = list(toks)
    recv_ref = False
    for k in range(len(out) - 3):
        if out[k][2]:
            continue
        if out[k][0] == 'id' and out[k][1] == 'self_' and _is(out[k + 1], ':') and _is(out[k + 2], '&'):
            if not _is(out[k + 3], 'mut') and not (out[k + 3][0] == 'id' and out[k + 3][1] in _D14C_PRIMS):
                recv_ref = True
            break
        if _is(out[k], '{'):
            break
    if not recv_ref:
        return out
    i = 1
    while i + 2 < len(out):
        a, o = out[i], out[i + 1]
        if a[0] == 'id' and a[1] == 'self_' and not a[2] and o[0] == 'p' and o[1] in _D11_OPS and not o[2] \
                and (out[i - 1][2] or (out[i - 1][0] == 'p' and out[i - 1][1] in ('=', '(', '{', '}', ';', ','))):
            j = i + 2
            if _is(out[j], '(') and not out[j][2]:
                e = _match_close(out, j) + 1
            elif out[j][0] == 'id' and not out[j][2]:
                e = j + 1
                while e + 1 < len(out) and _is(out[e], '::') and not out[e][2] and out[e + 1][0] == 'id' and not out[e + 1][2]:
                    e += 2
            elif out[j][0] in ('lit', 'int', 'num') and not out[j][2]:
                e = j + 1
            else:
                e = None
            if e is not None and e < len(out) and not any(x[2] for x in out[j:e]):
                nxt = out[e]
                if nxt[2] or (nxt[0] == 'p' and nxt[1] in (';', ')', '}', ',')):
                    log.append('D11e `%s` -> core::ops::%s(..) (reference receiver)' % (
                        _txt(out[i:e])[:80], _D11_OPS[o[1]].replace(' ', '')))
                    new = toks_of('core :: ops :: %s (' % _D11_OPS[o[1]], False) + [a, T('p', ',')] + out[j:e] + [T('p', ')')]
                    out = out[:i] + new + out[e:]
                    i += len(new)
                    continue
        i += 1
    return out


# ---------------------------------------------------------------------------------------
# D1e: `let G = X . rchunks ( N ) ;` .. `G . len ( )` .. `for P in G . rev ( ) { B }`

def _rchunks_locals(toks):
    """names G of locals produced by rule_d1e: `let G = __rchunks ( X , N ) ;` (generated tokens)."""
    res = set()
    for i in range(len(toks) - 4):
        if _is(toks[i], 'let') and toks[i + 1][0] == 'id' and _is(toks[i + 2], '=') and _is(toks[i + 3], '__rchunks') \
                and _is(toks[i + 4], '(') and not toks[i + 3][2]:
            res.add(toks[i + 1][1])
    return res


def rule_d1e(toks, log):
    """`let G = X . rchunks ( N ) ;` (G, X identifiers, N a literal or a place path `id ( . id )*`, real tokens only)
    ==> `let G = __rchunks ( X , N ) ;`.  Every other real-token use of G must be `G . len ( )` (kept: a method of the
    helper struct) or the iterator `G . rev ( )` / `G` of a `for` loop (lowered by D1/D1e to an index loop with
    `P = G . __from_front ( k )` resp. `G . __from_back ( k )`); any other use ==> unsupported.  Verus has no model of `core::slice::RChunks`.  The helper
    struct `__RChunks { v, n }` with `__rchunks`, `len`, `__from_front` (contracts/lib/parse_rchunks.rs) consists of exec
    functions VERIFIED in the same unit against their stated meaning; trusted (as for D1): that meaning IS the definition
    of `<[T]>::rchunks` / `RChunks::len` / `RChunks::next_back` in core (chunks of N elements counted from the END of
    the slice; the chunk at the FRONT has `len % N` elements if that is not zero; panic for N == 0 => `requires`)."""
    i = 0
    done = set()
    while i + 8 < len(toks):
        if _is(toks[i], 'let') and not toks[i][2] and toks[i + 1][0] == 'id' and _is(toks[i + 2], '=') \
                and toks[i + 3][0] == 'id' and _is(toks[i + 4], '.') and _is(toks[i + 5], 'rchunks') and _is(toks[i + 6], '(') \
                and not any(x[2] for x in toks[i:i + 7]):
            e = _match_close(toks, i + 6)
            arg = toks[i + 7:e]
            g, x = toks[i + 1][1], toks[i + 3][1]
            # N: a side-effect free expression of identifiers, field accesses, literals and + - *
            shape = len(arg) >= 1 and not any(a[2] for a in arg) and all(
                a[0] in ('id', 'lit', 'int', 'num') or (a[0] == 'p' and a[1] in ('.', '+', '-', '*')) for a in arg)
            if not shape or not (e + 1 < len(toks) and _is(toks[e + 1], ';')):
                raise Unsupported('D1e: rchunks shape `%s`' % _txt(toks[i:e + 2]))
            for j in range(len(toks)):
                if j == i + 1 or toks[j][2] or toks[j][0] != 'id' or toks[j][1] != g:
                    continue
                is_len = j + 4 < len(toks) and _is(toks[j + 1], '.') and _is(toks[j + 2], 'len') and _is(toks[j + 3], '(') \
                    and _is(toks[j + 4], ')')
                is_rev = j >= 1 and _is(toks[j - 1], 'in') and j + 4 < len(toks) and _is(toks[j + 1], '.') \
                    and _is(toks[j + 2], 'rev') and _is(toks[j + 3], '(') and _is(toks[j + 4], ')')
                is_fwd = j >= 1 and _is(toks[j - 1], 'in') and j + 1 < len(toks) and (toks[j + 1][2] or _is(toks[j + 1], '{'))
                if not (is_len or is_rev or is_fwd) or j < i:
                    raise Unsupported('D1e: RChunks local `%s` used other than as `%s.len()` / `for P in %s.rev()`' % (g, g, g))
            log.append('D1e `let %s = %s.rchunks(%s)` -> `let %s = __rchunks(%s, %s)` (helper struct verified in the unit)' % (
                g, x, _txt(arg), g, x, _txt(arg)))
            new = toks_of('__rchunks ( %s ,' % x, False) + arg + [T('p', ')')]
            toks = toks[:i + 3] + new + toks[e + 1:]
            i += 3 + len(new)
            continue
        i += 1
    return toks


# ---------------------------------------------------------------------------------------
# D21: indexed store whose right-hand side is a call, with a proof step between the call and the store
# (directive `#[after_rhs]` in the annotation that follows the statement)

def rule_d21(toks, log):
    """`X [ I ] = CALL ;` / `X [ I ] += CALL ;` followed by the annotation `#[after_rhs] proof { .. }`
    ==> `let __rhsK = CALL ; proof { .. } X [ I ] = __rhsK ;` (resp. `+=`).
    Rust evaluates the right operand of `=` and (for primitive operands) of `+=` BEFORE the assignee place, so naming the
    operand first changes nothing; the proof block may then speak about the state between the call and the store
    (`__rhsK`, the callee's postcondition).  Shape-checked: X one identifier, I without calls/side effects (identifiers,
    literals, + - *), the directive must follow the statement's `;` directly; anything else ==> unsupported."""
    out = []
    i = 0
    n = 0
    while i < len(toks):
        t = toks[i]
        if t[2] and _is(t, '#') and i + 3 < len(toks) and _is(toks[i + 1], '[') and _is(toks[i + 2], 'after_rhs') \
                and _is(toks[i + 3], ']') and toks[i + 2][2]:
            j = i + 4
            if not (j + 1 < len(toks) and toks[j][2] and _is(toks[j], 'proof') and _is(toks[j + 1], '{')):
                raise Unsupported('D21: #[after_rhs] must be followed by one proof block')
            je = _match_close(toks, j + 1)
            if not all(x[2] for x in toks[j:je + 1]):
                raise Unsupported('D21: proof block mixes real tokens')
            proof = toks[j:je + 1]
            # the statement just emitted: ... X [ I ] OP RHS ;
            if not out or not _is(out[-1], ';') or out[-1][2]:
                raise Unsupported('D21: #[after_rhs] does not follow a statement')
            k = len(out) - 2
            d = 0
            while k >= 0:
                x = out[k]
                if not x[2] and x[0] == 'p':
                    if x[1] in rtok.CLOSE:
                        d += 1
                    elif x[1] in rtok.OPEN:
                        if d == 0:
                            break
                        d -= 1
                    elif d == 0 and x[1] == ';':
                        break
                k -= 1
            stmt = out[k + 1:len(out) - 1]
            lead = []
            while stmt and stmt[0][2]:      # annotation tokens in front of the statement stay in front
                lead.append(stmt.pop(0))
            if any(x[2] for x in stmt):
                raise Unsupported('D21: annotation inside the statement')
            if len(stmt) >= 5 and stmt[0][0] == 'id' and stmt[1][0] == 'p' and stmt[1][1] in ('=', '+=') and _is(stmt[-1], ')'):
                # D21b (shape-checked): `V += CALL ;` / `V = CALL ;` with V ONE identifier (a local scalar): same rewrite, the
                # assignee is a plain local, so naming the right operand first cannot change the meaning
                rhs = stmt[2:]
                rv = '__rhs%d' % n
                n += 1
                log.append('D21b `%s` -> right operand `%s` named %s before the assignment (proof step in between)' % (
                    _txt(stmt)[:70], _txt(rhs)[:50], rv))
                out = out[:k + 1] + lead + toks_of('let %s =' % rv, False) + rhs + [T('p', ';')] + proof + \
                    stmt[:2] + toks_of('%s ;' % rv, False)
                i = je + 1
                continue
            if len(stmt) < 6 or stmt[0][0] != 'id' or not _is(stmt[1], '['):
                raise Unsupported('D21: statement shape (expected `X [ I ] = CALL ;`): ' + _txt(stmt))
            ce = _match_close(stmt, 1)
            idx = stmt[2:ce]
            if any(not (x[0] in ('id', 'lit') or (x[0] == 'p' and x[1] in ('+', '-', '*'))) for x in idx):
                raise Unsupported('D21: index expression shape: ' + _txt(idx))
            if ce + 1 >= len(stmt) or not (stmt[ce + 1][0] == 'p' and stmt[ce + 1][1] in ('=', '+=')):
                raise Unsupported('D21: operator shape: ' + _txt(stmt))
            rhs = stmt[ce + 2:]
            if not rhs or not _is(rhs[-1], ')'):
                raise Unsupported('D21: right-hand side is not a call: ' + _txt(rhs))
            rv = '__rhs%d' % n
            n += 1
            log.append('D21 `%s` -> right operand `%s` named %s before the store (proof step in between)' % (
                _txt(stmt)[:70], _txt(rhs)[:50], rv))
            out = out[:k + 1] + lead + toks_of('let %s =' % rv, False) + rhs + [T('p', ';')] + proof + \
                stmt[:ce + 2] + toks_of('%s ;' % rv, False)
            i = je + 1
            continue
        out.append(t)
        i += 1
    return out


# ---------------------------------------------------------------------------------------
# D22 / D23: a by-value reverse traversal of a local Vec, and a stored `iter().enumerate().rev()` iterator
# (fmt/non_power_two.rs PreparedLarge::write / PreparedLarge::new)

def _real_is(tok, text):
    return not tok[2] and _is(tok, text)


def _for_header(out, i):
    """`for PAT in EXPR [annotation tokens] {`: returns (pat, expr, ann_start, brace, close) or None."""
    j = i + 1
    d = 0
    while j < len(out) and not (d == 0 and _real_is(out[j], 'in')):
        if out[j][0] == 'p' and out[j][1] in rtok.OPEN:
            d += 1
        elif out[j][0] == 'p' and out[j][1] in rtok.CLOSE:
            d -= 1
        j += 1
    if j >= len(out):
        return None
    k = j + 1
    d = 0
    while k < len(out) and not (d == 0 and (_is(out[k], '{') or out[k][2])):
        if out[k][0] == 'p' and out[k][1] in rtok.OPEN:
            d += 1
        elif out[k][0] == 'p' and out[k][1] in rtok.CLOSE:
            d -= 1
        k += 1
    b = k
    while b < len(out) and not (_is(out[b], '{') and not out[b][2]):
        b += 1
    if b >= len(out):
        return None
    return out[i + 1:j], out[j + 1:k], k, b, _match_close(out, b)


def rule_d23(toks, log):
    """`for PAT in V . drain ( .. ) . rev ( ) {B}` (V ONE identifier bound by `let mut V` in this function and not
    mentioned by any real token after the loop) ==> `while V . len ( ) > 0 { let PAT = V . pop ( ) . unwrap ( ) ; B }`.
    `Vec::drain(..)` yields every element by value, `.rev()` from the back: the k-th item is what the k-th `pop()`
    returns (alloc, trusted as for D1).  The two differ only in what V holds after an EARLY exit (Drain's drop clears V,
    the pop loop leaves the unvisited front) -- unobservable because V is a local that is not used after the loop."""
    out = list(toks)
    i = 0
    while i < len(out):
        if not _real_is(out[i], 'for'):
            i += 1
            continue
        h = _for_header(out, i)
        if h is None:
            i += 1
            continue
        pat, expr, k, b, e = h
        shape = ['.', 'drain', '(', '..', ')', '.', 'rev', '(', ')']
        fwd = False
        if len(expr) == 6 and expr[0][0] == 'id' and all(_is(x, y) for x, y in zip(expr[1:], shape[:5])) \
                and not any(x[2] for x in expr):
            # D23b: the same traversal from the front (`V.drain(..)` without `.rev()`): the k-th item is what the k-th
            # `V.remove(0)` returns
            fwd = True
        elif not (len(expr) == 10 and expr[0][0] == 'id' and all(_is(x, y) for x, y in zip(expr[1:], shape))
                  and not any(x[2] for x in expr)):
            i += 1
            continue
        v = expr[0][1]
        bound = any(_real_is(out[a], 'let') and _real_is(out[a + 1], 'mut') and not out[a + 2][2] and out[a + 2][1] == v
                    and out[a + 2][0] == 'id' for a in range(0, i - 2))
        later = any((not x[2]) and x[0] == 'id' and x[1] == v for x in out[e + 1:])
        if not bound or later:
            raise Unsupported('D23: `%s` is not a `let mut` local that dies with the loop' % v)
        head = toks_of('while %s . len ( ) > 0' % v, False)
        if fwd:
            inner = toks_of('let %s = %s . remove ( 0 ) ;' % (_txt(pat), v), False)
            log.append('D23b `for %s in %s` -> `while %s.len() > 0 { let %s = %s.remove(0); .. }`' % (
                _txt(pat), _txt(expr), v, _txt(pat), v))
        else:
            inner = toks_of('let %s = %s . pop ( ) . unwrap ( ) ;' % (_txt(pat), v), False)
            log.append('D23 `for %s in %s` -> `while %s.len() > 0 { let %s = %s.pop().unwrap(); .. }`' % (
                _txt(pat), _txt(expr), v, _txt(pat), v))
        out = out[:i] + head + out[k:b + 1] + inner + out[b + 1:]
        i += len(head)
    return out


def rule_d22(toks, log):
    """`let mut X = P . iter ( ) . enumerate ( ) . rev ( ) ;` (X, P identifiers) ==> `let mut X = __enum_rev ( & P ) ;`
    and every later `for PAT in X {B}` ==> `while X . __has_next ( ) { let PAT = X . next ( ) . unwrap ( ) ; B }`;
    `X . next ( )` in between stays as written.  `__enum_rev`, `__EnumRev::next` and `__has_next` are NOT trusted: the unit
    provides them as exec functions (lib/fmtl_iter.rs) verified in the same run against the definition of
    `Rev<Enumerate<slice::Iter>>::next` (pairs (k, &P[k]) for k = len-1 down to 0); trusted, as for D1: that core's
    adapters follow that definition, and that a `for` loop calls `next()` until `None`."""
    out = list(toks)
    names = []
    i = 0
    shape = ['.', 'iter', '(', ')', '.', 'enumerate', '(', ')', '.', 'rev', '(', ')', ';']
    while i + 17 < len(out):
        w = out[i:i + 18]
        if _real_is(w[0], 'let') and _real_is(w[1], 'mut') and w[2][0] == 'id' and _real_is(w[3], '=') and w[4][0] == 'id' \
                and all(_real_is(x, y) for x, y in zip(w[5:], shape)) and not w[2][2] and not w[4][2]:
            x, p_ = w[2][1], w[4][1]
            new = toks_of('let mut %s = __enum_rev ( & %s ) ;' % (x, p_), False)
            log.append('D22 `let mut %s = %s.iter().enumerate().rev();` -> `__enum_rev(&%s)` (helper verified in the unit)' % (x, p_, p_))
            out = out[:i] + new + out[i + 18:]
            names.append(x)
            i += len(new)
            continue
        i += 1
    if not names:
        return out
    i = 0
    while i < len(out):
        if not _real_is(out[i], 'for'):
            i += 1
            continue
        h = _for_header(out, i)
        if h is None:
            i += 1
            continue
        pat, expr, k, b, e = h
        if not (len(expr) == 1 and expr[0][0] == 'id' and not expr[0][2] and expr[0][1] in names):
            i += 1
            continue
        x = expr[0][1]
        head = toks_of('while %s . __has_next ( )' % x, False)
        inner = toks_of('let %s = %s . next ( ) . unwrap ( ) ;' % (_txt(pat), x), False)
        log.append('D22 `for %s in %s` -> `while %s.__has_next() { let %s = %s.next().unwrap(); .. }`' % (_txt(pat), x, x, _txt(pat), x))
        out = out[:i] + head + out[k:b + 1] + inner + out[b + 1:]
        i += len(head)
    return out


# ---------------------------------------------------------------------------------------
# D24: inlining of a local, non-escaping closure (fmt/non_power_two.rs PreparedDword::new `get_digit`,
# fmt/mod.rs InRadixWriter::format_prepared `write_digits`)

def rule_d24(toks, log):
    """Directive `#[inline_closure(NAME)]` in the contract block.  Shape (anything else => "unsupported"):
    `let mut NAME = | P1 [: T1] , .. | { BODY } ;` as a statement of the function body, not `move`; every other real
    occurrence of NAME is a call `NAME ( A1 , .. )` with as many arguments, either (a) a statement `NAME ( .. ) ;` or
    (b) `NAME ( .. ) ?` -- (b) for all calls or none.  BODY contains no `return`, and a `?` only in case (b).
    ==> the `let` is dropped and every call becomes the block `{ let P1 [: T1] = A1 ; .. BODY }`, in case (b)
    `{ let .. ; BODY ? }` with the call's `?` moved onto the body's tail expression (no `let` for an
    argument that is the bare identifier the parameter is named after: the body then acts on that very variable).
    This is beta-reduction of a closure that is only ever called: a non-`move` closure reads and writes the captured
    places themselves, and the borrow checker excludes any other access to a mutably captured place between the closure's
    creation and its last call.  Case (b) additionally relies on `From<E> for E` being the identity: a `?` inside the
    closure leaves the closure with `Err(e)` and the call's own `?` returns `Err(From::from(e))` from the function -- the
    inlined `?` returns the same value provided the closure's error type is the function's (here: both fmt::Error; the
    inlined text would not type-check against the function's return type otherwise unless a From impl existed)."""
    # directive
    names = []
    out = []
    i = 0
    while i < len(toks):
        t = toks[i]
        if t[2] and _is(t, '#') and i + 6 < len(toks) and _is(toks[i + 1], '[') and _is(toks[i + 2], 'inline_closure') \
                and _is(toks[i + 3], '(') and toks[i + 4][0] == 'id' and _is(toks[i + 5], ')') and _is(toks[i + 6], ']'):
            names.append(toks[i + 4][1])
            i += 7
            continue
        out.append(t)
        i += 1
    if names and not any(_real_is(x, '{') for x in out):
        return out          # signature only (`//@@ SIG`): the directive concerns the body
    for name in names:
        out = _d24_inline(out, name, log)
    return out


def _d24_inline(out, name, log):
    # the definition
    d = None
    for i in range(len(out) - 4):
        if _real_is(out[i], 'let') and _real_is(out[i + 1], 'mut') and out[i + 2][0] == 'id' and out[i + 2][1] == name \
                and not out[i + 2][2] and _real_is(out[i + 3], '=') and _real_is(out[i + 4], '|'):
            d = i
            break
    if d is None:
        raise Unsupported('D24: no `let mut %s = |..| {..};`' % name)
    j = d + 5
    while j < len(out) and not _real_is(out[j], '|'):
        if out[j][0] == 'p' and out[j][1] in ('{', '}', ';', '('):
            raise Unsupported('D24: parameter list shape of `%s`' % name)
        j += 1
    params = [p for p in _split_top(out[d + 5:j]) if p]
    if not (j + 1 < len(out) and _real_is(out[j + 1], '{')):
        raise Unsupported('D24: body of `%s` is not a block' % name)
    be = _match_close(out, j + 1)
    if not (be + 1 < len(out) and _real_is(out[be + 1], ';')):
        raise Unsupported('D24: `%s` definition is not a statement' % name)
    body = out[j + 2:be]
    if any(_real_is(x, 'return') or _real_is(x, 'move') for x in out[d:be]):
        raise Unsupported('D24: `return`/`move` in closure `%s`' % name)
    has_q = any(_real_is(x, '?') for x in body)
    pnames = []
    for p in params:
        if not (p[0][0] == 'id' and (len(p) == 1 or _is(p[1], ':'))):
            raise Unsupported('D24: parameter pattern `%s`' % _txt(p))
        pnames.append(p[0][1])
    rest = out[:d] + out[be + 2:]
    res = []
    i = 0
    ncalls = 0
    while i < len(rest):
        t = rest[i]
        if t[0] == 'id' and t[1] == name and not t[2]:
            if not (i + 1 < len(rest) and _real_is(rest[i + 1], '(')) or (i > 0 and rest[i - 1][0] == 'p' and rest[i - 1][1] in ('.', '::', '&')):
                raise Unsupported('D24: closure `%s` escapes (used other than by a call)' % name)
            ce = _match_close(rest, i + 1)
            args = [a for a in _split_top(rest[i + 2:ce]) if a]
            if len(args) != len(params):
                raise Unsupported('D24: argument count of `%s`' % name)
            nxt = rest[ce + 1] if ce + 1 < len(rest) else None
            prev_ok = i == 0 or (rest[i - 1][0] == 'p' and rest[i - 1][1] in (';', '{', '}')) or rest[i - 1][2]
            if not prev_ok or nxt is None:
                raise Unsupported('D24: call of `%s` is not a statement' % name)
            if has_q:
                if not _real_is(nxt, '?'):
                    raise Unsupported('D24: closure `%s` uses `?` but a call is not followed by `?`' % name)
            elif not _real_is(nxt, ';'):
                raise Unsupported('D24: call of `%s` is not a statement `%s(..);`' % (name, name))
            blk = [T('p', '{')]
            if i > 0 and rest[i - 1][0] == 'p' and rest[i - 1][1] == '}':
                # `while .. { } { inlined }`: Verus' parser takes a block right after a loop body for a misplaced clause;
                # an empty statement in between changes nothing
                blk = [T('p', ';'), T('p', '{')]
            for p, a in zip(params, args):
                if len(a) == 1 and a[0][0] == 'id' and a[0][1] == p[0][1] and len(p) == 1:
                    continue
                blk += toks_of('let', False) + p + [T('p', '=')] + a + [T('p', ';')]
            if has_q:
                # the call's own `?` goes onto the tail expression of the inlined body (`{ .. TAIL ? }`): a block statement
                # cannot be followed by `?`; the body must end in a tail expression
                last = [x for x in body if not x[2]][-1]
                if last[0] == 'p' and last[1] in (';', '}'):
                    raise Unsupported('D24: closure `%s` with `?` does not end in a tail expression' % name)
                blk += body + [T('p', '?'), T('p', '}')]
                res += blk
                ncalls += 1
                i = ce + 2
                continue
            blk += body + [T('p', '}')]
            res += blk
            ncalls += 1
            i = ce + 1
            continue
        res.append(t)
        i += 1
    if ncalls == 0:
        raise Unsupported('D24: closure `%s` is never called' % name)
    log.append('D24 closure `%s` (%d parameter(s)%s) inlined at %d call site(s)' % (
        name, len(params), ', body with `?`' if has_q else '', ncalls))
    return res


# ---------------------------------------------------------------------------------------
# D25: a `&mut dyn Trait` parameter seen as a generic one (fmt/mod.rs InRadixWriter::format_prepared)

def rule_d25(toks, log):
    """Directive `#[dyn_as_impl(P)]` in the contract block: the parameter `P : & mut dyn TRAIT` of the signature (shape
    checked; anything else => "unsupported") becomes `P : & mut impl TRAIT`, in the verified function AND in the signature
    its callers see (`//@@ SIG`).  Verus (this build) can verify calls on a `&mut dyn Trait` but rejects the unsizing
    coercion `&mut T -> &mut dyn Trait` at the call sites.  A `&mut dyn Trait` can only be used through the trait's
    methods; with the anonymous type parameter the same body is checked for EVERY implementor and each call dispatches
    statically to the method the vtable entry points to."""
    out = []
    names = []
    i = 0
    while i < len(toks):
        t = toks[i]
        if t[2] and _is(t, '#') and i + 6 < len(toks) and _is(toks[i + 1], '[') and _is(toks[i + 2], 'dyn_as_impl') \
                and _is(toks[i + 3], '(') and toks[i + 4][0] == 'id' and _is(toks[i + 5], ')') and _is(toks[i + 6], ']'):
            names.append(toks[i + 4][1])
            i += 7
            continue
        out.append(t)
        i += 1
    for name in names:
        hit = False
        for k in range(len(out) - 5):
            if _real_is(out[k], '{'):
                break               # parameters only
            if out[k][0] == 'id' and out[k][1] == name and not out[k][2] and _real_is(out[k + 1], ':') and _real_is(out[k + 2], '&') \
                    and _real_is(out[k + 3], 'mut') and _real_is(out[k + 4], 'dyn') and out[k + 5][0] == 'id':
                out[k + 4] = T('id', 'impl')
                hit = True
                log.append('D25 parameter `%s: &mut dyn %s` -> `&mut impl %s`' % (name, out[k + 5][1], out[k + 5][1]))
                break
        if not hit:
            raise Unsupported('D25: no parameter `%s : & mut dyn TRAIT`' % name)
    return out


# ---------------------------------------------------------------------------------------
# D28: unary minus on an associated constant of a primitive float type (rational/src/simplify.rs `-<$t>::MIN_POSITIVE`)

def rule_d28(toks, log):
    """`- < T > :: IDENT` with T one of `f32` / `f64` (real tokens; the shape a `-<$t>::CONST` of a macro arm has after rule
    E3b), directly preceded by a real `!=` or `==` ==> `__fneg_T ( < T > :: IDENT )`.  Verus (this build) rejects "unary op
    negation of floating point"; `__fneg_f32` / `__fneg_f64` are ASSUMED stubs of the unit (lib/sf_prim_stubs.rs) whose
    contract is IEEE negation: the sign bit of the bit pattern is flipped, nothing else.  Any other float negation is left
    untouched (and rejected by Verus: exit-2 class)."""
    out = []
    i = 0
    while i < len(toks):
        t = toks[i]
        if _real_is(t, '-') and i + 5 < len(toks) and out and not out[-1][2] and out[-1][0] == 'p' and out[-1][1] in ('!=', '==') \
                and _real_is(toks[i + 1], '<') and not toks[i + 2][2] and toks[i + 2][0] == 'id' and toks[i + 2][1] in ('f32', 'f64') \
                and _real_is(toks[i + 3], '>') and _real_is(toks[i + 4], '::') and toks[i + 5][0] == 'id' and not toks[i + 5][2]:
            ty, name = toks[i + 2][1], toks[i + 5][1]
            out += toks_of('__fneg_%s (' % ty, False) + toks[i + 1:i + 6] + toks_of(')', False)
            log.append('D28 `- <%s>::%s` -> __fneg_%s(<%s>::%s) (assumed stub: IEEE negation flips the sign bit)' % (ty, name, ty, ty, name))
            i += 6
            continue
        out.append(t)
        i += 1
    return out


# ---------------------------------------------------------------------------------------

def lower(toks, marks, opts=None):
    """toks: [(kind,text)], marks: [bool]; returns ([(kind,text)], log)."""
    opts = opts or {}
    log = []
    ts = [(k, t, m) for (k, t), m in zip(toks, marks)]
    ts = rule_d20(ts, log)
    ts = rule_d2(ts, log)
    ts = rule_d5(ts, log)
    ts = rule_d6(ts, log)
    ts = rule_d19(ts, log)
    ts = rule_d21(ts, log)
    ts = rule_d3(ts, log, drop=opts.get('drop_asserts', ()))
    ts = rule_d4a(ts, log)
    ts = rule_d10(ts, log)
    ts = rule_d10b(ts, log)
    ts = rule_d11(ts, log)
    ts = rule_d11b(ts, log)
    ts = rule_d11c(ts, log)
    ts = rule_d11d(ts, log)
    ts = rule_d11h(ts, log)
    ts = rule_d11i(ts, log)
    ts = rule_d11e(ts, log)
    ts = rule_d11f(ts, log)
    ts = rule_d12(ts, log)
    ts = rule_d13(ts, log)
    ts = rule_d14(ts, log)
    ts = rule_d14b(ts, log)
    ts = rule_d15(ts, log)
    ts = rule_d15b(ts, log)
    ts = rule_d15c(ts, log)
    ts = rule_d16(ts, log)
    ts = rule_d17(ts, log)
    ts = rule_d18(ts, log)
    ts = rule_d7(ts, log)
    ts = rule_d1d(ts, log)
    ts = rule_d1e(ts, log)
    ts = rule_d25(ts, log)
    ts = rule_d24(ts, log)
    ts = rule_d22(ts, log)
    ts = rule_d23(ts, log)
    ts = rule_d26(ts, log)
    ts = rule_d28(ts, log)
    ts = rule_d1(ts, log)
    ts = rule_d9(ts, log)
    ts = rule_d8(ts, log)
    return [(k, t) for k, t, _ in ts], log
