"""Developer helper: python3 -m engine.kdev <group> [harness ...] [--thorough] [--repo DIR] [--word 64]
Runs the Kani harnesses of one registry group against a scratch copy of the repo and prints per-harness status."""
import argparse, sys
from . import registry, kani_run



def _mod_cfg(gi):
    """cfg predicate under which a group's harness module is compiled: harness files are written for one word size
    (64 unless the group says 'word': 32) and optionally one feature configuration ('mod_cfg')."""
    w = 'force_bits = "32"' if gi.get('word') == 32 else 'not(force_bits = "32")'
    return 'all(%s, %s)' % (w, gi['mod_cfg']) if gi.get('mod_cfg') else w


def main():
    ap = argparse.ArgumentParser()
    ap.add_argument('group')
    ap.add_argument('harness', nargs='*')
    ap.add_argument('--thorough', action='store_true')
    ap.add_argument('--repo', default='/repo')
    ap.add_argument('--word', type=int, default=64)
    ap.add_argument('--timeout', type=int, default=900)
    ap.add_argument('--log')
    a = ap.parse_args()
    gi = registry.KANI[a.group]
    s = kani_run.Scratch(a.repo)
    try:
        pre = s.inject(gi['target'], gi['file'], 'verif_kani_' + a.group, _mod_cfg(gi))
        names = [h for h, hi in gi['harnesses'].items()
                 if (not a.harness or h in a.harness) and (a.thorough or hi.get('tier', 'quick') == 'quick' or a.harness)]
        r = kani_run.run_kani(s, gi['package'], [pre + '::' + h for h in names],
                              rustflags='--cfg force_bits="%d"' % gi.get('word', a.word), timeout=a.timeout + 300,
                              harness_timeout=a.timeout, features=gi.get('features'),
                              no_default_features=gi.get('no_default_features', False), cbmc_args=gi.get('cbmc_args', ()))
        print('wall %.1fs rc=%s' % (r['wall_s'], r['returncode']))
        for k, v in sorted(r['harnesses'].items()):
            print('%-60s %-8s checks=%-4s cover=%s/%s t=%s' % (k.split('::')[-1], v['status'], v.get('checks'),
                  v.get('cover_sat'), v.get('cover_total'), v.get('time_s')))
            for f in v['failed_checks'][:5]:
                print('      FAILED: %s (%s:%d)' % (f['desc'], f['file'].split('/')[-1], f['line']))
            if v['status'] in ('missing', 'unknown'):
                print(v.get('log', '')[-1500:])
        if a.log:
            open(a.log, 'w').write(r['raw'])
    finally:
        s.close()


main()
