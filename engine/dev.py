"""Developer helper: python3 -m engine.dev <unit.rs> [--canary] [--word 32] [--variant v] [--repo DIR]"""
import argparse, os, sys, json
from . import verus_run


def main():
    ap = argparse.ArgumentParser()
    ap.add_argument('unit')
    ap.add_argument('--canary', action='store_true')
    ap.add_argument('--word', type=int, default=64)
    ap.add_argument('--variant', action='append', default=[])
    ap.add_argument('--repo', default='/repo')
    ap.add_argument('--out', default='/tmp/vw/gen')
    ap.add_argument('--rlimit', type=int)
    a = ap.parse_args()
    os.makedirs(a.out, exist_ok=True)
    text, recs = verus_run.build_unit(a.repo, a.unit, a.variant, a.canary, a.word)
    path = os.path.join(a.out, os.path.basename(a.unit))
    with open(path, 'w') as f:
        f.write(text)
    for r in recs:
        print('%-4s %-60s %s' % (r.mode, r.locator, r.status))
    res = verus_run.run_verus(path, rlimit=a.rlimit)
    if 'tool_error' in res:
        print('TOOL ERROR', res['tool_error'])
        print(res.get('stderr', '')[-3000:])
        return
    print('verified=%s errors=%s wall=%.1fs smt=%.2fs' % (res['verified'], res['errors'], res['wall_s'], res['smt_s']))
    for d in res['diagnostics']:
        print('ERR', d['msg'])
        for s in d['spans']:
            print('     L%d: %s %s' % (s['line'], s['text'][:150], s.get('notes', '')))
    bad = [k for k, v in res['functions'].items() if not v['success']]
    print('failed fns:', bad)
    slow = sorted(res['functions'].items(), key=lambda kv: -kv[1]['time_us'])[:5]
    print('slowest:', [(k, round(v['time_us'] / 1e6, 2)) for k, v in slow])


main()
