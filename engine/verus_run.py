"""Build single-file Verus units from templates + annotated copies and run the verifier."""
import json
import os
import re
import subprocess
import time

from . import rtok, extract, annot, lower

VERIF = os.path.dirname(os.path.dirname(os.path.abspath(__file__)))
CONTRACTS = os.path.join(VERIF, 'contracts')


class UnitProblem(Exception):
    """exit-2 class: lost anchor, unsupported construct, missing item ..."""
    pass


def _parse_opts(words):
    opts = {}
    for w in words:
        if '=' in w:
            k, v = w.split('=', 1)
            opts[k] = v
        else:
            opts[w] = True
    return opts


def _body_brace(toks):
    """Index of the `{` opening the fn body in a token stream that may contain 'ann' tokens."""
    d = 0
    seen_fn = False
    for i, (k, t) in enumerate(toks):
        if k == 'ann':
            continue
        if k == 'id' and t == 'fn':
            seen_fn = True
        if not seen_fn:
            continue
        if k == 'p' and t in ('(', '['):
            d += 1
        elif k == 'p' and t in (')', ']'):
            d -= 1
        elif d == 0 and k == 'p' and t == '{':
            return i
    raise UnitProblem('no body brace')


def fn_name_of(toks):
    for i, (k, t) in enumerate(toks):
        if k == 'id' and t == 'fn':
            return toks[i + 1][1]
    return None


def _add_canary(atoks):
    """Prepend `false` to the ensures list of the contract (or add `ensures false`)."""
    b = _body_brace(atoks)
    out = list(atoks)
    for i in range(b):
        k, t = out[i]
        if k == 'ann' and re.search(r'\bensures\b', t):
            out[i] = ('ann', re.sub(r'\bensures\b', 'ensures false,', t, count=1))
            return out
    out.insert(b, ('ann', ' ensures false, '))
    return out


class FnRecord:
    def __init__(self):
        self.annot_path = None
        self.locator = None
        self.name = None
        self.mode = None          # 'FN' or 'SIG'
        self.status = None        # clean / transplanted
        self.changes = []
        self.rules = []
        self.variant = []
        self.contract = ''


def _e3_wrap(toks, header, subst, locator):
    """Rule E3: turn the body of a macro_rules! arm (tokens with 'ann' blocks) into a function.

    `header` is the `fn name(params) -> ret` text given by a `//@@ WRAP` line of the unit template (the
    parameter list the forwarding macro supplies).  `$x` becomes `x` and must be a parameter of the header;
    `$m` with m in `subst` (ident metavariables such as `$method`) becomes the given identifier.  The leading
    annotation block (requires/ensures) becomes the contract.  An arm body that is exactly one `{ ... }`
    block is used as the function body itself, anything else is wrapped in `{ }`.
    Returns (tokens, log).  Unknown shapes raise UnitProblem (exit-2 class)."""
    if not locator.strip().endswith('@arm'):
        raise UnitProblem('E3: wrap= on an item that is not a macro arm: ' + locator)
    htoks = rtok.tokenize(header)
    if not htoks or htoks[0] != ('id', 'fn') or len(htoks) < 4 or htoks[1][0] != 'id' or htoks[2] != ('p', '('):
        raise UnitProblem('E3: wrap header must be `fn name(params) [-> ret]`: ' + header)
    pe = rtok.match_close(htoks, 2)
    params = set()
    depth = 0
    start = True
    for k, t in htoks[3:pe]:
        if k == 'p' and t in ('(', '[', '<'):
            depth += 1
        elif k == 'p' and t in (')', ']', '>'):
            depth -= 1
        elif depth == 0 and k == 'p' and t == ',':
            start = True
            continue
        if start and k == 'id' and t != 'mut':
            params.add(t)
            start = False
    # leading contract blocks
    i = 0
    contract = []
    while i < len(toks) and toks[i][0] == 'ann':
        if re.match(r'\s*(requires|ensures|decreases)\b', toks[i][1]):
            contract.append(toks[i])
            i += 1
        else:
            break
    body = toks[i:]
    out = []
    used = []
    j = 0
    while j < len(body):
        k, t = body[j]
        if k == 'p' and t == '$':
            if j + 1 < len(body) and body[j + 1][0] == 'id':
                nm = body[j + 1][1]
                if nm in subst:
                    out.append(('id', subst[nm]))
                    if '$%s -> %s' % (nm, subst[nm]) not in used:
                        used.append('$%s -> %s' % (nm, subst[nm]))
                elif nm in params:
                    out.append(('id', nm))
                else:
                    raise UnitProblem('E3: metavariable $%s is neither a parameter of `%s` nor substituted' % (nm, header))
                j += 2
                continue
            raise UnitProblem('E3: unsupported `$` shape in macro arm ' + locator)
        out.append((k, t))
        j += 1
    real_idx = [x for x, (k, _) in enumerate(out) if k != 'ann']
    single_block = False
    if real_idx and out[real_idx[0]] == ('p', '{'):
        real = [out[x] for x in real_idx]
        if rtok.match_close(real, 0) == len(real) - 1:
            single_block = True
    if single_block:
        # annotation blocks in front of the opening brace (other than the contract) move inside
        first = real_idx[0]
        pre = out[:first]
        res = htoks + contract + [out[first]] + pre + out[first + 1:]
    else:
        res = htoks + contract + [('p', '{')] + out + [('p', '}')]
    log = ['E3 macro arm wrapped as `%s`%s; $x -> x for %s%s' % (
        header, ' (arm block used as fn body)' if single_block else ' (arm expression wrapped in a block)',
        ', '.join(sorted(params)), ('; ' + ', '.join(used)) if used else '')]
    return res, log


def _macro_invocation_bindings(repo, locator, ordinal):
    """Rule E3c: the metavariable bindings of the `ordinal`-th (0-based) invocation `NAME!( args );` of the macro named
    in `locator` (`<file> :: macro NAME#K :: ...`), read from the REAL file: the arm's matcher must have the simple
    shape `( $a:frag, $b:frag, .. )` and every argument must be a single token.  This makes the instantiation a
    function is verified for come from the code (`forward_conversion_to_repr!(RBig, reduce);`), not from the unit
    template.  Anything else raises UnitProblem (exit-2 class)."""
    parts = [x.strip() for x in locator.split('::')]
    mac = [x for x in parts[1:] if x.startswith('macro ')]
    if not mac:
        raise UnitProblem('E3c: minvoke= on an item that is not inside a macro arm: ' + locator)
    name, _, ordn = mac[0][6:].partition('#')
    name = name.strip()
    toks = extract.file_tokens(repo, parts[0])
    try:
        (ms, me), _ = extract._find_macro_arm(toks, 0, len(toks), name, int(ordn or 0))
    except extract.ExtractError as e:
        raise UnitProblem('E3c: %s' % e)
    matcher = toks[ms + 1:me - 1]
    names = []
    i = 0
    while i < len(matcher):
        if i + 3 < len(matcher) and matcher[i] == ('p', '$') and matcher[i + 1][0] == 'id' \
                and matcher[i + 2] == ('p', ':') and matcher[i + 3][0] == 'id':
            names.append(matcher[i + 1][1])
            i += 4
            if i < len(matcher):
                if matcher[i] != ('p', ','):
                    raise UnitProblem('E3c: unsupported matcher shape of macro ' + name)
                i += 1
            continue
        raise UnitProblem('E3c: unsupported matcher shape of macro ' + name)
    hits = []
    i = 0
    while i + 2 < len(toks):
        if toks[i] == ('id', name) and toks[i + 1] == ('p', '!') and toks[i + 2][0] == 'p' and toks[i + 2][1] in ('(', '[', '{') \
                and not (i >= 2 and toks[i - 2] == ('id', 'macro_rules')):
            e = rtok.match_close(toks, i + 2)
            hits.append(toks[i + 3:e])
            i = e
        i += 1
    if ordinal >= len(hits):
        raise UnitProblem('E3c: macro %s has no invocation #%d in %s' % (name, ordinal, parts[0]))
    args, cur, d = [], [], 0
    for k, t in hits[ordinal]:
        if k == 'p' and t in rtok.OPEN:
            d += 1
        elif k == 'p' and t in rtok.CLOSE:
            d -= 1
        if d == 0 and (k, t) == ('p', ','):
            args.append(cur)
            cur = []
        else:
            cur.append((k, t))
    if cur:
        args.append(cur)
    if len(args) != len(names) or any(len(x) != 1 for x in args):
        raise UnitProblem('E3c: invocation #%d of %s does not bind %s to single tokens' % (ordinal, name, names))
    return dict((n, x[0][1]) for n, x in zip(names, args))


def _e3d_inline(repo, toks, spec, variants):
    """Rule E3d: invocations `NAME!(a, b, ..)` of a `macro_rules!` macro of the real file inside a function body are replaced
    by the macro's arm body, taken from its OWN annotated copy (`minline=NAME:<annot path>[;NAME2:<path>]` on the FN line; the
    copy's locator must be `<file> :: macro NAME#K :: @arm`, it is erasure-checked / transplanted against /repo like any other
    item, so a change of the macro is a change of the function).  Shape: the arm's matcher is `( $a:frag, $b:frag, .. )`, every
    argument of the invocation is a single token, and no argument is an identifier bound by a `let` inside the arm (macro
    hygiene would keep them apart, textual inlining would not).  `$x` is substituted in the real tokens and in the annotation
    blocks of the arm.  Anything else raises UnitProblem (exit-2 class).
    Returns (tokens, log, transplanted?, changes)."""
    log, changed, changes = [], False, []
    for ent in spec.split(';'):
        name, _, apath = ent.partition(':')
        a = annot.load(os.path.join(CONTRACTS, 'annot', apath))
        parts = [x.strip() for x in a.locator.split('::')]
        mac = [x for x in parts[1:] if x.startswith('macro ')]
        if not mac or parts[-1] != '@arm' or mac[0][6:].partition('#')[0].strip() != name:
            raise UnitProblem('E3d: %s is not an annotated copy of an arm of macro %s' % (apath, name))
        ordn = int(mac[0][6:].partition('#')[2] or 0)
        try:
            new_real = extract.extract(repo, a.locator)
            ftoks = extract.file_tokens(repo, parts[0])
            (ms, me), _ = extract._find_macro_arm(ftoks, 0, len(ftoks), name, ordn)
        except (extract.ExtractError, rtok.TokError, OSError) as e:
            raise UnitProblem('E3d: lost macro arm %s: %s' % (a.locator, e))
        status, atoks, ch = annot.sync(a.toks, new_real)
        if status == 'lost':
            raise UnitProblem('E3d: annotation anchors lost for %s' % a.locator)
        if status != 'clean':
            changed = True
            changes += ['%s (macro %s) `%s` -> `%s`' % (tg, name, ' '.join(x[1] for x in o), ' '.join(x[1] for x in n_))
                        for tg, o, n_ in ch]
        atoks = annot.select_variant(atoks, variants)
        matcher = ftoks[ms + 1:me - 1]
        names, i = [], 0
        while i < len(matcher):
            if i + 3 < len(matcher) and matcher[i] == ('p', '$') and matcher[i + 1][0] == 'id' \
                    and matcher[i + 2] == ('p', ':') and matcher[i + 3][0] == 'id':
                names.append(matcher[i + 1][1])
                i += 4
                if i < len(matcher):
                    if matcher[i] != ('p', ','):
                        raise UnitProblem('E3d: unsupported matcher shape of macro ' + name)
                    i += 1
                continue
            raise UnitProblem('E3d: unsupported matcher shape of macro ' + name)
        binders = set()
        real = annot.erase(atoks)
        for q, (k, t) in enumerate(real):
            if (k, t) == ('id', 'let'):
                r = q + 1
                if r < len(real) and real[r] == ('id', 'mut'):
                    r += 1
                if r < len(real) and real[r][0] == 'id':
                    binders.add(real[r][1])
        out, i, n = [], 0, 0
        while i < len(toks):
            if toks[i] == ('id', name) and i + 2 < len(toks) and toks[i + 1] == ('p', '!') and toks[i + 2] == ('p', '('):
                e = rtok.match_close(toks, i + 2)
                args, cur = [], []
                for k, t in toks[i + 3:e]:
                    if k == 'ann':
                        raise UnitProblem('E3d: annotation block inside the invocation of ' + name)
                    if (k, t) == ('p', ','):
                        args.append(cur)
                        cur = []
                    else:
                        cur.append((k, t))
                if cur:
                    args.append(cur)
                if len(args) != len(names) or any(len(x) != 1 for x in args):
                    raise UnitProblem('E3d: invocation of %s does not bind %s to single tokens' % (name, names))
                bind = dict((nm, x[0]) for nm, x in zip(names, args))
                clash = [x[0][1] for x in args if x[0][0] == 'id' and x[0][1] in binders]
                if clash:
                    raise UnitProblem('E3d: argument `%s` of %s! is also bound inside the macro (hygiene)' % (clash[0], name))
                j = 0
                while j < len(atoks):
                    k, t = atoks[j]
                    if k == 'ann':
                        def _sub(m):
                            if m.group(1) not in bind:
                                raise UnitProblem('E3d: unknown metavariable $%s in an annotation of %s' % (m.group(1), a.locator))
                            return bind[m.group(1)][1]
                        out.append(('ann', re.sub(r'\$([A-Za-z_][A-Za-z0-9_]*)', _sub, t)))
                    elif (k, t) == ('p', '$'):
                        if j + 1 < len(atoks) and atoks[j + 1][0] == 'id' and atoks[j + 1][1] in bind:
                            out.append(bind[atoks[j + 1][1]])
                            j += 1
                        else:
                            raise UnitProblem('E3d: unsupported `$` shape in macro arm ' + a.locator)
                    else:
                        out.append((k, t))
                    j += 1
                n += 1
                i = e + 1
                continue
            out.append(toks[i])
            i += 1
        if n == 0:
            raise UnitProblem('E3d: minline=%s but the function does not invoke %s!' % (name, name))
        toks = out
        log.append('E3d %d invocation(s) of %s! replaced by the arm body of %s (%s; metavariables %s)' % (
            n, name, a.locator, status, ', '.join('$' + x for x in names)))
    return toks, log, changed, changes


def _sig_conj(text1, text2, locator):
    """Conjunction of two generated `external_body` signatures of the same function: the clause lists after the (identical)
    signature are merged: requires = both, ensures = both, decreases = the first one's (if any)."""
    def split(text):
        tail = ' { unimplemented!() }'
        body = text.rstrip()
        if not body.endswith(tail.strip()):
            raise UnitProblem('SIG and=: unexpected stub shape for ' + locator)
        body = body[:body.rindex('{ unimplemented!() }')]
        parts = re.split(r'\b(requires|ensures|decreases)\b', body)
        sig = parts[0]
        cl = {'requires': [], 'ensures': [], 'decreases': []}
        for k in range(1, len(parts), 2):
            c = parts[k + 1].strip()
            while c.endswith(','):
                c = c[:-1].rstrip()
            if c:
                cl[parts[k]].append(c)
        return sig, cl
    sig1, c1 = split(text1)
    sig2, c2 = split(text2)
    if ''.join(sig1.split()) != ''.join(sig2.split()):
        raise UnitProblem('SIG and=: the two copies of %s have different signatures' % locator)
    out = sig1.rstrip()
    req = c1['requires'] + c2['requires']
    ens = c1['ensures'] + c2['ensures']
    if req:
        out += ' requires ' + ', '.join(req) + ','
    if ens:
        out += ' ensures ' + ', '.join(ens) + ','
    if c1['decreases']:
        out += ' decreases ' + ', '.join(c1['decreases'])
    return out + ' { unimplemented!() }\n'


def process_const(repo, annot_rel):
    """Rule E4: a `const NAME: T = ..;` item of the real file (locator `<file> :: const NAME`), erasure-checked against /repo and
    emitted VERBATIM (real tokens only) so that the functions of the unit index the real table.  Functions that depend on it name
    the copy with `mconst=<annot path>[;..]` on their FN line: a change of the item is then a change of those functions."""
    a = annot.load(os.path.join(CONTRACTS, 'annot', annot_rel))
    rec = FnRecord()
    rec.annot_path = annot_rel
    rec.locator = a.locator
    rec.mode = 'CONST'
    try:
        new_real = extract.extract(repo, a.locator)
    except (extract.ExtractError, rtok.TokError, OSError) as e:
        raise UnitProblem('lost item %s: %s' % (a.locator, e))
    status, toks, changes = annot.sync(a.toks, new_real)
    if status == 'lost':
        raise UnitProblem('annotation anchors lost for %s' % a.locator)
    rec.status = status
    rec.changes = ['%s `%s` -> `%s`' % (tg, ' '.join(x[1] for x in o), ' '.join(x[1] for x in n_)) for tg, o, n_ in changes]
    real = annot.erase(toks)
    rec.name = real[1][1] if len(real) > 1 else None
    rec.rules = ['E4 const item emitted verbatim']
    return rtok.render(real), rec


def process_fn(repo, annot_rel, opts, mode, canary, base_variants):
    a = annot.load(os.path.join(CONTRACTS, 'annot', annot_rel))
    rec = FnRecord()
    rec.annot_path = annot_rel
    rec.locator = a.locator
    rec.mode = mode
    try:
        new_real = extract.extract(repo, a.locator)
    except (extract.ExtractError, rtok.TokError, OSError) as e:
        raise UnitProblem('lost item %s: %s' % (a.locator, e))
    status, toks, changes = annot.sync(a.toks, new_real)
    if status == 'lost':
        raise UnitProblem('annotation anchors lost for %s (changes: %s)' % (
            a.locator, '; '.join('%s `%s` -> `%s`' % (tg, ' '.join(x[1] for x in o), ' '.join(x[1] for x in n_))
                                 for tg, o, n_ in changes)))
    rec.status = status
    rec.changes = ['%s `%s` -> `%s`' % (tg, ' '.join(x[1] for x in o), ' '.join(x[1] for x in n_))
                   for tg, o, n_ in changes]
    variants = set(base_variants)
    if opts.get('variant'):
        variants |= set(opts['variant'].split(','))
    rec.variant = sorted(variants)
    toks = annot.select_variant(toks, variants)
    e3log = []
    if opts.get('minvoke') is not None:
        # rule E3c: the substitution comes from the real macro invocation; `mexpect=t:RBig` pins which one this is
        binds = _macro_invocation_bindings(repo, a.locator, int(opts['minvoke']))
        for ent in (opts['mexpect'].split(',') if opts.get('mexpect') else []):
            k_, v_ = ent.split(':', 1)
            if binds.get(k_) != v_:
                raise UnitProblem('E3c: invocation #%s of %s binds $%s to `%s`, the unit expects `%s`' % (
                    opts['minvoke'], a.locator, k_, binds.get(k_), v_))
        opts = dict(opts)
        opts['msubst'] = ','.join('%s:%s' % kv for kv in binds.items())
        if opts.get('mbase') and opts['mbase'] != opts['msubst']:
            # the macro invocation itself changed (e.g. `reduce` -> `reduce2`): that is a change of the code under
            # contract although the arm tokens are identical
            rec.status = 'transplanted'
            rec.changes = list(rec.changes) + ['macro invocation #%s bindings `%s` -> `%s`' % (
                opts['minvoke'], opts['mbase'], opts['msubst'])]
        e3log.append('E3c bindings of invocation #%s read from the source: %s' % (opts['minvoke'], opts['msubst']))
    if opts.get('msubst'):
        # rule E3b: a function extracted from inside a macro_rules arm mentions metavariables (`$t`); substitute the
        # instantiation named on the FN/SIG line (`msubst=t:f32,u:u64`); any other `$x` is an error
        msub = dict(x.split(':', 1) for x in opts['msubst'].split(','))
        out, i, used = [], 0, []
        while i < len(toks):
            k, t = toks[i]
            if k == 'p' and t == '$' and i + 1 < len(toks) and toks[i + 1][0] == 'id':
                nm = toks[i + 1][1]
                if nm not in msub:
                    raise UnitProblem('E3b: metavariable $%s not substituted (msubst=) in %s' % (nm, a.locator))
                out.extend(rtok.tokenize(msub[nm]))
                if nm not in used:
                    used.append(nm)
                i += 2
                continue
            out.append((k, t))
            i += 1
        toks = out
        e3log.append('E3b metavariables ' + ', '.join('$%s -> %s' % (n, msub[n]) for n in used))
    if opts.get('mconst'):
        # rule E4: const items of the real file the function depends on (emitted by `//@@ CONST`): their change is a change
        # of this function
        for _cp in opts['mconst'].split(';'):
            _ca = annot.load(os.path.join(CONTRACTS, 'annot', _cp))
            try:
                _cr = extract.extract(repo, _ca.locator)
            except (extract.ExtractError, rtok.TokError, OSError) as e:
                raise UnitProblem('lost item %s: %s' % (_ca.locator, e))
            _cs, _ct, _cc = annot.sync(_ca.toks, _cr)
            if _cs != 'clean':
                rec.status = 'transplanted'
                rec.changes = list(rec.changes) + ['%s (%s) `%s` -> `%s`' % (tg, _ca.locator, ' '.join(x[1] for x in o)[:200],
                                                                          ' '.join(x[1] for x in n_)[:200]) for tg, o, n_ in _cc]
            e3log.append('E4 depends on %s (%s)' % (_ca.locator, _cs))
    if opts.get('minline'):
        # rule E3d: macro_rules! invocations in the body are replaced by the macro's own annotated arm
        toks, _il, _ich, _ichs = _e3d_inline(repo, toks, opts['minline'], variants)
        e3log = e3log + _il
        if _ich:
            rec.status = 'transplanted'
            rec.changes = list(rec.changes) + _ichs
    if opts.get('wrap'):
        sub = dict(x.split(':', 1) for x in opts['subst'].split(',')) if opts.get('subst') else {}
        toks, e3log = _e3_wrap(toks, opts['wrap'], sub, a.locator)
    rec.name = fn_name_of(annot.erase(toks))
    b = _body_brace(toks)
    rec.contract = ' '.join(t.strip() for k, t in toks[:b] if k == 'ann')
    if mode == 'SIG':
        head = toks[:b]
        # SIG-d10b: the body directive `#[float_est(X)]` (rule D10b) names a `let X = ..;` of the BODY, which a signature
        # does not have: it is dropped from the contract block of a SIG (exact shape only, logged); the contract is untouched
        _sd = []
        _fe = re.compile(r'#\s*\[\s*float_est\s*\(\s*[A-Za-z_][A-Za-z0-9_]*\s*\)\s*\]')
        for _i, (_k, _t) in enumerate(head):
            if _k == 'ann' and _fe.search(_t):
                _sd += _fe.findall(_t)
                head[_i] = (_k, _fe.sub(' ', _t))
        sp, marks = annot.splice(head)
        lowered, log = lower.lower(sp, marks, {})
        if _sd:
            log = ['SIG-d10b body directive dropped from the signature: ' + ', '.join(x.strip() for x in _sd)] + log
        rec.rules = e3log + log
        text = '#[verifier::external_body]\n' + rtok.render(lowered).rstrip() + ' { unimplemented!() }\n'
        return text, rec
    ctoks = _add_canary(toks) if canary else None
    sp, marks = annot.splice(toks)
    lopts = {}
    if opts.get('drop_asserts'):
        lopts['drop_asserts'] = set(int(x) if x != '*' else '*' for x in opts['drop_asserts'].split(','))
    try:
        lowered, log = lower.lower(sp, marks, lopts)
    except lower.Unsupported as e:
        raise UnitProblem('unsupported construct in %s: %s' % (a.locator, e))
    rec.rules = e3log + log
    for _l in log:      # rule D2 `Name = ..`: the verified function carries the new name in the generated file
        _m = re.match(r'D2 hoist: free function named `(\w+)`', _l)
        if _m:
            rec.name = _m.group(1)
    text = rtok.render(lowered)
    rec.main_lines = len(text.rstrip('\n').split('\n'))
    if ctoks is not None:
        # vacuity canary: a renamed copy with `ensures false`, next to the unmodified function (callers keep
        # seeing the real contract)
        sp, marks = annot.splice(ctoks)
        clow, clog = lower.lower(sp, marks, lopts)
        for _l in clog:     # rule D19: the fn-local items hoisted in front of the function exist already (original copy)
            _m = re.match(r'D19 hoisted_tokens=(\d+)', _l)
            if _m:
                clow = clow[int(_m.group(1)):]
        for i, (k, t) in enumerate(clow):
            if k == 'id' and t == 'fn':
                clow[i + 1] = ('id', clow[i + 1][1] + '__canary')
                break
        text += '\n' + rtok.render(clow)
    return text, rec


WORD_SUBST = {
    64: {'W': 'u64', 'D': 'u128', 'SW': 'i64', 'SD': 'i128', 'BITS': '64', 'B': '0x1_0000_0000_0000_0000',
         'HALFB': '0x8000_0000_0000_0000'},
    32: {'W': 'u32', 'D': 'u64', 'SW': 'i32', 'SD': 'i64', 'BITS': '32', 'B': '0x1_0000_0000',
         'HALFB': '0x8000_0000'},
}


def build_unit(repo, unit_rel, variants=(), canary=False, word=64):
    """Returns (text, [FnRecord])."""
    subst = WORD_SUBST[word]
    path = os.path.join(CONTRACTS, 'units', unit_rel)
    recs = []
    out = []
    wraps = {}
    with open(path) as f:
        lines = f.read().split('\n')
    lines = list(reversed(lines))           # work list (directives inside an included lib file are processed too)
    depth_guard = 0
    while lines:
        ln = lines.pop()
        m = re.match(r'\s*//@@\s*(\w+)\s*(.*)$', ln)
        if not m:
            out.append(ln)
            continue
        cmd, rest = m.group(1), m.group(2).split()
        if cmd == 'INCLUDE':
            depth_guard += 1
            if depth_guard > 200:
                raise UnitProblem('INCLUDE recursion')
            for k, v in subst.items():
                rest[0] = rest[0].replace('@%s@' % k, v)
            with open(os.path.join(CONTRACTS, rest[0])) as f:
                inc = f.read()
            for k, v in subst.items():
                inc = inc.replace('@%s@' % k, v)
            if '//@@' in inc:
                lines.extend(reversed(inc.split('\n')))
            else:
                out.append(inc)
        elif cmd == 'WRAP':
            # //@@ WRAP <key> fn name(params) -> ret      (rule E3 function header, referenced by wrap=<key>)
            wraps[rest[0]] = m.group(2).split(None, 1)[1]
        elif cmd == 'CONST':
            text, rec = process_const(repo, rest[0])
            recs.append(rec)
            out.append('// ---- CONST %s  [%s]' % (rec.locator, rec.status))
            out.append(text)
        elif cmd in ('FN', 'SIG'):
            opts = _parse_opts(rest[1:])
            if opts.get('wrap'):
                if opts['wrap'] not in wraps:
                    raise UnitProblem('wrap=%s: no such //@@ WRAP line' % opts['wrap'])
                opts['wrap'] = wraps[opts['wrap']]
            text, rec = process_fn(repo, rest[0], opts, cmd, canary and cmd == 'FN', variants)
            recs.append(rec)
            if cmd == 'SIG' and opts.get('and'):
                # SIG conjunction (added for the int_memsize_* units): `//@@ SIG a.rs and=b.rs` -- two annotated copies of
                # the SAME item, each with its own contract (each proved as FN in some unit): the callee is seen through
                # requires(a) && requires(b)  /  ensures(a) && ensures(b)   (sound: {P1}f{Q1}, {P2}f{Q2} |- {P1&P2}f{Q1&Q2})
                text2, rec2 = process_fn(repo, opts['and'], {}, 'SIG', False, variants)
                if rec2.locator != rec.locator:
                    raise UnitProblem('SIG and=: %s and %s are not the same item' % (rec.locator, rec2.locator))
                text = _sig_conj(text, text2, rec.locator)
                rec.rules = list(rec.rules) + ['SIG conjunction with the contract of %s [%s]' % (opts['and'], rec2.status)]
                rec.contract = rec.contract + ' && ' + rec2.contract
                if rec2.status != 'clean' and rec.status == 'clean':
                    rec.status = rec2.status
                    rec.changes = list(rec.changes) + list(rec2.changes)
            out.append('// ---- %s %s  [%s]' % (cmd, rec.locator, rec.status))
            # 1-based line span of the function (and of its canary copy) in the generated file
            start = sum(x.count('\n') + 1 for x in out) + 1
            rec.line_lo = start
            rec.line_hi = start + getattr(rec, 'main_lines', len(text.rstrip('\n').split('\n'))) - 1
            rec.canary_lo = rec.line_hi + 1
            rec.canary_hi = start + len(text.rstrip('\n').split('\n')) - 1
            out.append(text)
        else:
            raise UnitProblem('unknown directive ' + cmd)
    return '\n'.join(out), recs


def run_verus(path, timeout=600, rlimit=None):
    cmd = ['verus', path, '--output-json', '--time', '--num-threads', '4']
    if rlimit:
        cmd += ['--rlimit', str(rlimit)]
    t0 = time.time()
    try:
        p = subprocess.run(cmd, stdout=subprocess.PIPE, stderr=subprocess.PIPE, timeout=timeout,
                           cwd=os.path.dirname(path), text=True)
    except subprocess.TimeoutExpired:
        return {'tool_error': 'timeout after %ds' % timeout, 'wall_s': time.time() - t0}
    wall = time.time() - t0
    res = {'wall_s': wall, 'stderr': p.stderr, 'returncode': p.returncode, 'cmd': ' '.join(cmd)}
    try:
        j = json.loads(p.stdout)
    except Exception:
        res['tool_error'] = 'no JSON from verus (rc=%d)' % p.returncode
        return res
    vr = j.get('verification-results', {})
    res['verified'] = vr.get('verified', 0)
    res['errors'] = vr.get('errors', 0)
    res['encountered_error'] = vr.get('encountered-error', False) or vr.get('encountered-vir-error', False)
    res['success'] = vr.get('success', False)
    fb = {}
    smt_us = 0
    for m in j.get('times-ms', {}).get('smt', {}).get('smt-run-module-times', []):
        for f in m.get('function-breakdown', []):
            nm = f['function']
            e = fb.setdefault(nm, {'success': True, 'time_us': 0, 'rlimit': 0, 'mode': f.get('mode:')})
            e['success'] = e['success'] and f['success']
            e['time_us'] += f.get('time-micros', 0)
            e['rlimit'] += f.get('rlimit', 0)
            smt_us += f.get('time-micros', 0)
    res['functions'] = fb
    res['smt_s'] = smt_us / 1e6
    res['diagnostics'] = parse_diagnostics(p.stderr, path)
    return res


def parse_diagnostics(stderr, path):
    """Extract `error: <msg>` + primary span lines from rustc-style output."""
    diags = []
    lines = stderr.split('\n')
    src = None
    i = 0
    while i < len(lines):
        m = re.match(r'^error(\[E\d+\])?: (.*)$', lines[i])
        if m:
            d = {'msg': m.group(2), 'spans': []}
            j = i + 1
            while j < len(lines) and not re.match(r'^(error|warning)(\[|:)', lines[j]):
                ms = re.match(r'^\s*(-->|:::)\s*(\S+):(\d+):(\d+)', lines[j])
                if ms:
                    ln = int(ms.group(3))
                    if src is None:
                        try:
                            with open(path) as f:
                                src = f.read().split('\n')
                        except OSError:
                            src = []
                    txt = src[ln - 1].strip() if 0 < ln <= len(src) else ''
                    d['spans'].append({'line': ln, 'text': txt})
                mn = re.match(r'^\s*\d*\s*\|\s*[-^]+\s*(.*)$', lines[j])
                if mn and mn.group(1) and d['spans']:
                    d['spans'][-1].setdefault('notes', []).append(mn.group(1))
                j += 1
            if not d['msg'].startswith('aborting due to'):
                diags.append(d)
            i = j
            continue
        i += 1
    return diags


def enclosing_fn(path, line):
    """Name of the fn that contains `line` (1-based) in the generated file."""
    try:
        with open(path) as f:
            src = f.read().split('\n')
    except OSError:
        return None
    for ln in range(min(line, len(src)), 0, -1):
        m = re.search(r'\bfn\s+([A-Za-z_][A-Za-z0-9_]*)', src[ln - 1])
        if m and not src[ln - 1].lstrip().startswith('//'):
            return m.group(1)
    return None
