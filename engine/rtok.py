"""Minimal Rust tokenizer (stdlib only).

Tokens are (kind, text) pairs. kind in:
  'id'  identifier / keyword / lifetime
  'lit' literal (number, string, char, byte string, raw string)
  'p'   punctuation (maximal munch over Rust's multi-char operators)
  'ann' annotation block  /*@ ... @*/   (only with keep_ann=True)
Whitespace and ordinary comments (including doc comments) are dropped.
"""
import re

PUNCT3 = ['<<=', '>>=', '...', '..=']
PUNCT2 = ['::', '->', '=>', '==', '!=', '<=', '>=', '&&', '||', '+=', '-=', '*=', '/=',
          '%=', '^=', '&=', '|=', '<<', '>>', '..']

_id_re = re.compile(r"[A-Za-z_][A-Za-z0-9_]*")
_num_re = re.compile(r"(0x[0-9a-fA-F_]+|0o[0-7_]+|0b[01_]+|[0-9][0-9_]*(\.[0-9][0-9_]*)?([eE][+-]?[0-9_]+)?)([A-Za-z_][A-Za-z0-9_]*)?")


class TokError(Exception):
    pass


VPUNCT = ['<==>', '=~~=', '==>', '<==', '=~=', '===', '!==', '&&&', '|||']


def tokenize(src, keep_ann=False, verus=False):
    toks = []
    i, n = 0, len(src)
    while i < n:
        c = src[i]
        if c.isspace():
            i += 1
            continue
        if src.startswith('//', i):
            j = src.find('\n', i)
            i = n if j < 0 else j
            continue
        if src.startswith('/*', i):
            is_ann = src.startswith('/*@', i)
            depth, j = 1, i + 2
            while j < n and depth:
                if src.startswith('/*', j):
                    depth += 1
                    j += 2
                elif src.startswith('*/', j):
                    depth -= 1
                    j += 2
                else:
                    j += 1
            if depth:
                raise TokError('unterminated block comment')
            if is_ann and keep_ann:
                body = src[i + 3:j - 2]
                if body.endswith('@'):
                    body = body[:-1]
                toks.append(('ann', body))
            i = j
            continue
        # raw strings / byte strings
        m = re.match(r'(b?r)(#*)"', src[i:])
        if m:
            hashes = m.group(2)
            end = src.find('"' + hashes, i + len(m.group(0)))
            if end < 0:
                raise TokError('unterminated raw string')
            j = end + 1 + len(hashes)
            toks.append(('lit', src[i:j]))
            i = j
            continue
        if c == '"' or (c == 'b' and i + 1 < n and src[i + 1] == '"'):
            j = i + (2 if c == 'b' else 1)
            while j < n and src[j] != '"':
                j += 2 if src[j] == '\\' else 1
            toks.append(('lit', src[i:j + 1]))
            i = j + 1
            continue
        if c == "'" or (c == 'b' and i + 1 < n and src[i + 1] == "'"):
            k = i + (1 if c == 'b' else 0)
            # char literal or lifetime
            m = re.match(r"'(\\x[0-9a-fA-F]{2}|\\u\{[0-9a-fA-F_]+\}|\\.|[^\\'])'", src[k:])
            if m:
                j = k + len(m.group(0))
                toks.append(('lit', src[i:j]))
                i = j
                continue
            m = re.match(r"'[A-Za-z_][A-Za-z0-9_]*", src[k:])
            if m and c == "'":
                toks.append(('id', m.group(0)))
                i = k + len(m.group(0))
                continue
            raise TokError('bad quote at %d' % i)
        if c.isdigit():
            m = _num_re.match(src, i)
            txt = m.group(0)
            # `1..2` / `0.pow()` : do not swallow a '.' that is not followed by a digit
            toks.append(('lit', txt))
            i += len(txt)
            continue
        m = _id_re.match(src, i)
        if m:
            toks.append(('id', m.group(0)))
            i = m.end()
            continue
        if verus:
            hit = False
            for p in VPUNCT:
                if src.startswith(p, i):
                    toks.append(('p', p))
                    i += len(p)
                    hit = True
                    break
            if hit:
                continue
        for p in PUNCT3:
            if src.startswith(p, i):
                toks.append(('p', p))
                i += 3
                break
        else:
            for p in PUNCT2:
                if src.startswith(p, i):
                    toks.append(('p', p))
                    i += 2
                    break
            else:
                toks.append(('p', c))
                i += 1
    return toks


OPEN = {'(': ')', '[': ']', '{': '}'}
CLOSE = {')', ']', '}'}


def match_close(toks, i):
    """toks[i] is an opening bracket; return index of its closing bracket."""
    assert toks[i][0] == 'p' and toks[i][1] in OPEN, toks[i]
    depth = 0
    for j in range(i, len(toks)):
        k, t = toks[j]
        if k == 'p':
            if t in OPEN:
                depth += 1
            elif t in CLOSE:
                depth -= 1
                if depth == 0:
                    return j
    raise TokError('unbalanced bracket')


KEYWORDS = {'if', 'else', 'while', 'for', 'in', 'match', 'return', 'let', 'mut', 'as', 'fn', 'pub', 'loop',
            'break', 'continue', 'where', 'impl', 'use', 'mod', 'struct', 'enum', 'trait', 'type', 'const',
            'static', 'unsafe', 'move', 'ref', 'dyn', 'requires', 'ensures', 'invariant', 'decreases', 'by',
            'forall', 'exists', 'proof', 'assert', 'assume', 'spec', 'open', 'closed', 'recommends', 'via',
            'invariant_except_break', 'returns', 'opens_invariants', 'no_unwind', 'choose', 'implies',
            'is', 'has', 'matches', 'ghost', 'tracked', 'exec', 'broadcast', 'group', 'axiom'}


def _glue(prev, cur):
    """True if no space is needed between two adjacent tokens."""
    if prev is None:
        return True
    pk, pt = prev
    ck, ct = cur
    if ck == 'p' and ct in ('@', ',', ';', ')', ']', '?', '::', '.'):
        return not (ct == '.' and pk == 'lit')
    if pk == 'p' and pt in ('(', '[', '.', '::', '@'):
        return pt != '@' or (ck == 'p' and ct in ('.', '[', ')', ',', ';'))
    if ck == 'p' and ct in ('(', '['):
        if pk == 'id' and pt not in KEYWORDS:
            return True
        if pk == 'p' and pt in (')', ']', '!', '@'):
            return True
    return False


def render(toks):
    """Token list -> source text (one statement-ish per line, for readable diagnostics)."""
    out = []
    line = []
    prev = None
    for idx, (k, t) in enumerate(toks):
        if k == 'ann':
            t = ' ' + t.strip() + ' '
        # a float literal written `0.` is tokenized as integer literal + `.`; when the dot is not followed by an
        # identifier or a number (method call, field, tuple index, range) it belongs to the literal: no space
        float_dot = (k == 'p' and t == '.' and prev is not None and prev[0] == 'lit' and prev[1].isdigit()
                     and not (idx + 1 < len(toks) and (toks[idx + 1][0] in ('id', 'lit') or toks[idx + 1] == ('p', '.'))))
        if line and not float_dot and not _glue(prev, (k, t)):
            line.append(' ')
        line.append(t)
        prev = (k, t)
        if k == 'p' and t in (';', '{', '}') or k == 'ann':
            out.append(''.join(line))
            line = []
            prev = None
    if line:
        out.append(''.join(line))
    return '\n'.join(out) + '\n'


def texts(toks):
    return [t for _, t in toks]
