"""Which units decide which property.  Pure data; see DESIGN.md §5 for the rationale.

Fragments under engine/registry_d/*.py each define (all optional)
  VERUS[unit]   : {'file': template under contracts/units, 'w32': bool (re-verify with Word = u32 in the thorough tier)}
  KANI[group]   : {'package', 'target' (file the harness module is appended to), 'file' (under kani/harness),
                   'harnesses': {name: {'kind': 'complete'|'bounded'|'finding', 'domain'|'bound': str,
                                        'tier': 'quick'|'thorough', 'props': [ids] (optional filter)}}}
                  kind 'complete' = loop-free / fully unwound over the whole input domain: a proof;
                  kind 'bounded'  = stand-in with a stated bound, never counted as proved;
                  kind 'finding'  = expected to FAIL: witnesses an entry of known_findings.txt
  PROP_UNITS[id]: {'verus': [...], 'kani': [...], 'verus_thorough': [...], 'kani_thorough': [...],
                   'undecided': [clauses left undecided]}
and are merged here.  PROPS (claims, notes) lives in this file.
"""
import glob
import importlib.util
import os

VERUS = {}
KANI = {}
_UNITS = {}

for _f in sorted(glob.glob(os.path.join(os.path.dirname(os.path.abspath(__file__)), 'registry_d', '*.py'))):
    _spec = importlib.util.spec_from_file_location('registry_d_' + os.path.basename(_f)[:-3], _f)
    _m = importlib.util.module_from_spec(_spec)
    _spec.loader.exec_module(_m)
    for _k, _v in getattr(_m, 'VERUS', {}).items():
        assert _k not in VERUS, 'duplicate verus unit ' + _k
        VERUS[_k] = _v
    for _k, _v in getattr(_m, 'KANI', {}).items():
        assert _k not in KANI, 'duplicate kani group ' + _k
        KANI[_k] = _v
    for _p, _u in getattr(_m, 'PROP_UNITS', {}).items():
        _d = _UNITS.setdefault(_p, {})
        for _k, _v in _u.items():
            for _x in _v:
                if _x not in _d.setdefault(_k, []):
                    _d[_k].append(_x)

NOT_APPLICABLE = {
    'C11': 'transcendental accuracy needs real analysis (exp/ln over the reals) as specification and the loops '
           'are steered by f32 libm estimates; no contract within reach of Verus/Kani can express or decide it '
           '(DESIGN.md §5 C11)',
    'C20': 'the code runs inside rustc on proc_macro2 token streams; neither verifier can host a proc-macro and '
           'no function-level contract relates generated tokens to a parsed value (DESIGN.md §5 C20)',
}

_T = ('contract-based deductive verification: Verus requires/ensures/invariants on the mechanically extracted real '
      'functions (unbounded), Kani function-level harnesses on the real crate (complete over the domain, or '
      'bounded stand-ins labelled as such)')
_N = ('assume_specification for core integer ops without vstd specs; external_body stubs listed in the evidence; '
      'x86_64 carry intrinsics assumed equal to the generic versions (Kani runs use force_bits="64"); lowering rules '
      'D1-D8; Verus/z3, Kani/CBMC, rustc')

PROPS = {
    'C01': {'level': 'proof', 'technique': _T, 'note': _N,
            'claim': 'Unbounded Verus proofs (all slice lengths, all word values) that the word kernels behind + - * '
                     '(integer/src/add.rs, mul/mod.rs, mul/simple.rs, math.rs, primitive.rs) compute exactly '
                     'val(lhs) +- val(rhs) resp. the exact product with the returned carry/borrow/sign; complete Kani '
                     'proofs of scalar helpers. Karatsuba/Toom-3/pow glue and the Repr dispatch are listed per run '
                     'under "undecided"/"bounded_units".'},
    'C02': {'level': 'proof', 'technique': _T, 'note': _N + '; num_modular dividers assumed (dependency)',
            'claim': 'Verus proofs of the sign conventions of every IBig division form over the unsigned division '
                     'contract, and of the word-divisor kernels over assumed num_modular reciprocal-division contracts; '
                     'multi-word schoolbook/divide-and-conquer division is bounded or undecided (see evidence).'},
    'C03': {'level': 'proof', 'technique': _T, 'note': _N + '; IBig seen through stub contracts',
            'claim': 'Verus proofs that the six rounding modes decide NoOp/AddOne/SubOne exactly per their definition '
                     'and that a single rounding of an exact value obeys the ulp/side/flag contract; the per-operation '
                     'alignment code (add/div/sqrt) is undecided (f32 log2 estimates, see evidence).'},
    'C04': {'level': 'proof', 'technique': _T, 'note': _N + '; UBig/IBig/Gcd seen through stub contracts',
            'claim': 'Verus proofs over big-integer stubs that reduction and the arithmetic arms return the exact '
                     'rational (cross-multiplied) and keep the canonical form (positive coprime denominator, 0/1).'},
    'C05': {'level': 'other', 'technique': _T, 'note': _N,
            'claim': 'Kani harnesses on the real representation code: every constructor keeps the normal form '
                     '(bounded sizes), and ==/cmp/hash on normal forms follow the value (words <= 3, full 64-bit '
                     'symbolic words). Bounded: not a proof for longer operands. Float/rational comparison shortcuts '
                     'are undecided.',
            'explanation': 'bounded model checking (CBMC via Kani) of the real comparison/representation code under '
                           'function-level contracts; sizes bounded as stated per harness'},
    'C06': {'level': 'proof', 'technique': _T, 'note': _N,
            'claim': 'Complete Kani proofs over the whole input domain that f32/f64 encode/decode are exact or '
                     'correctly rounded (RNE) with a truthful flag, of the sign-magnitude conversions for every '
                     'primitive width and of the double-word to_f32/to_f64 paths; multi-word and float/rational '
                     'conversions are bounded or undecided (see evidence).'},
    'C07': {'level': 'proof', 'technique': _T, 'note': _N,
            'claim': 'Complete Kani proofs of digit decoding for all bytes x radices; bounded harnesses for the byte '
                     'and chunk codecs; radix conversion algorithms and Formatter layout are undecided.'},
    'C08': {'level': 'proof', 'technique': _T, 'note': _N,
            'claim': 'Only the clauses "conversion from f32/f64 is exact" (on top of the decode proof) and '
                     '"with_precision is one correct rounding" are decided; parser/printer/base change are undecided.'},
    'C09': {'level': 'proof', 'technique': _T, 'note': _N,
            'claim': 'Unbounded Verus proofs of the shift kernels and trailing-bit scans against the arithmetic '
                     'meaning (multiplication / floor division by 2^n, least set/clear bit); complete Kani proofs of '
                     'the scalar bit helpers; two\'s-complement sign cases bounded (see evidence).'},
    'C10': {'level': 'proof', 'technique': _T, 'note': _N + '; IBig/UBig seen through stub contracts',
            'claim': 'Verus proofs that the rounding primitives follow the definition of each of the six modes and '
                     'that RBig trunc/floor/ceil/round/fract return the defined neighbour with trunc+fract = x.'},
    'C12': {'level': 'proof', 'technique': _T, 'note': _N,
            'claim': 'Complete Kani proofs for u8/u16 gcd/gcd_ext/sqrt/cbrt and the no_std log2 estimator over their '
                     'whole domain; big-integer roots/gcd/log are bounded or undecided (Lehmer, f32-steered loops).'},
    'C13': {'level': 'proof', 'technique': _T, 'note': _N,
            'claim': 'Unbounded Verus proofs, on top of the C01 kernel contracts, that multi-word residue + and - '
                     'return the residue of the integer result and stay in [0, m) for every modulus length; '
                     'multiplication/pow/inv are bounded or undecided (see evidence).'},
    'C14': {'level': 'other', 'technique': _T, 'note': _N,
            'claim': 'Kani harness: integer vs f32 NumOrd equals the exact comparison for all f32 bit patterns and '
                     'inline integers (bounded). Float/rational cross-type comparison filters are undecided.',
            'explanation': 'bounded model checking of the real NumOrd impls against an exact integer oracle'},
    'C15': {'level': 'other', 'technique': _T, 'note': _N,
            'claim': 'Relational Kani harnesses on the macro-expanded operator impls: every call form returns the same '
                     'value for operands up to 3 words (bounded); clone/clone_from equal and independent.',
            'explanation': 'bounded model checking (CBMC via Kani) of relational call-form contracts on the real impls'},
    'C16': {'level': 'proof', 'technique': _T, 'note': _N + '; Kani proofs do not establish termination',
            'claim': 'Aggregates, over every function under Verus contract, the proved absence of panics (bounds, '
                     'unwrap, overflow, debug assertions) under the stated precondition and termination (decreases); '
                     'plus must-panic contracts for guarded preconditions. Whole-API exploration is not attempted.'},
    'C17': {'level': 'other', 'technique': _T, 'note': _N + '; leak freedom unchecked',
            'claim': 'Kani on the real unsafe storage code, inductively: from an arbitrary well-formed state of bounded '
                     'size every Buffer/Repr operation is memory-safe and re-establishes the representation '
                     'invariant. Bounded sizes: not a proof.',
            'explanation': 'bounded model checking (CBMC pointer/bounds/double-free checks) of one-operation '
                           'inductive steps over arbitrary well-formed states of bounded size'},
    'C18': {'level': 'proof', 'technique': _T, 'note': _N + '; UBig/IBig seen through stub contracts',
            'claim': 'is_simpler_than is proved to be the documented lexicographic order; optimality of simplest_in '
                     'and the Farey-neighbour functions is undecided (needs Stern-Brocot theory).'},
    'C19': {'level': 'proof', 'technique': _T, 'note': _N,
            'claim': 'The kernel units are re-verified with Word = u32 against the same value-level contracts '
                     '(thorough tier), debug assertions of functions under contract are proved (D3), and the no_std '
                     'log2 estimator is proved in a --no-default-features build. Serialization is undecided.'},
}

# C16 (panic freedom + termination) and C19 (word size) aggregate over every Verus unit registered for any property:
# each Verus proof also proves absence of panics under the contract and termination; w32-capable units are
# re-verified with Word = u32 (C19: quick tier = the kernel units, thorough tier = all of them).
_all_verus = []
for _p, _u in sorted(_UNITS.items()):
    for _x in _u.get('verus', []):
        if _x not in _all_verus and _x in VERUS:
            _all_verus.append(_x)
_KERNELS = ('int_prim', 'int_add', 'int_mul', 'int_mul_simple', 'int_shift', 'int_div_word')
_c16_quick = [x for x in _all_verus if x.endswith(('_panic', '_zero', '_inf')) or x in _KERNELS or x in (
    'int_div_simple', 'int_add_ops', 'int_div_ops', 'float_round', 'float_repr_round', 'ratio_reduce', 'ratio_ops')]
_UNITS.setdefault('C16', {})
_UNITS['C16']['verus'] = list(_all_verus)          # every unit: each proof includes panic-freedom + termination
_UNITS['C16']['verus_thorough'] = []
_w32 = [x for x in _all_verus if VERUS[x].get('w32')]
_UNITS.setdefault('C19', {})
_UNITS['C19']['verus'] = [x for x in _KERNELS if x in _w32]
_UNITS['C19']['verus_thorough'] = [x for x in _w32 if x not in _KERNELS]
_UNITS['C19']['verus_w32_quick'] = [x for x in _KERNELS if x in _w32]

for _p, _u in _UNITS.items():
    if _p in PROPS:
        for _k, _v in _u.items():
            PROPS[_p].setdefault(_k, [])
            PROPS[_p][_k] = PROPS[_p][_k] + [x for x in _v if x not in PROPS[_p][_k]]
