"""Which units decide which property.  Pure data; see DESIGN.md §5 for the rationale.

VERUS[unit]   : template file under contracts/units, flags
KANI[group]   : package, file the harness module is injected into, harness file, harnesses
                harness kind: 'complete' (loop-free / fully unwound over the whole input domain: a proof)
                              'bounded'  (stand-in, bound stated; never counted as proved)
                              'finding'  (expected to FAIL: witnesses an entry of known_findings.txt)
PROPS[id]     : units per tier + the clauses left undecided
"""

VERUS = {
    'int_prim': {'file': 'int_prim.rs', 'w32': True},
    'int_add': {'file': 'int_add.rs', 'w32': True},
}

KANI = {
    'int_math': {
        'package': 'dashu-int', 'target': 'integer/src/math.rs', 'file': 'int_math.rs',
        'harnesses': {
            'vk_math_ones_word': {'kind': 'complete', 'domain': 'all n <= 64'},
            'vk_math_ones_dword': {'kind': 'complete', 'domain': 'all n <= 128'},
            'vk_math_shl_dword': {'kind': 'complete', 'domain': 'all u128 x all shifts <= 64'},
            'vk_math_shr_word': {'kind': 'complete', 'domain': 'all u64 x all shifts < 64'},
        },
    },
}

NOT_APPLICABLE = {
    'C11': 'transcendental accuracy needs real analysis (exp/ln over the reals) as specification and the loops '
           'are steered by f32 libm estimates; no contract within reach of Verus/Kani can express or decide it '
           '(DESIGN.md §5 C11)',
    'C20': 'the code runs inside rustc on proc_macro2 token streams; neither verifier can host a proc-macro and '
           'no function-level contract relates generated tokens to a parsed value (DESIGN.md §5 C20)',
}

PROPS = {
    'C01': {
        'level': 'proof',
        'claim': 'Unbounded Verus proofs (all slice lengths, all word values) that the add/sub word kernels of '
                 'integer/src/add.rs and the word primitives compute exactly val(lhs) ± val(rhs) with the '
                 'returned carry/borrow; complete Kani proofs of the scalar helpers. Dispatch/multiplication '
                 'layers are listed as undecided until their units land.',
        'note': 'assume_specification for overflowing_add/sub and From<bool>; x86_64 carry intrinsics assumed '
                'equal to the generic versions; lowering rules D1-D8; Verus/z3/Kani/CBMC.',
        'verus': ['int_prim', 'int_add'],
        'kani': ['int_math'],
        'undecided': [],
    },
}
