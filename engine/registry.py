"""Which units decide which property.  Pure data; see DESIGN.md §5 for the rationale.

Fragments under engine/registry_d/*.py each define (all optional)
  VERUS[unit]   : {'file': template under contracts/units, 'w32': bool (re-verify with Word = u32 in the thorough tier)}
  KANI[group]   : {'package', 'target' (file the harness module is appended to), 'file' (under kani/harness),
                   'harnesses': {name: {'kind': 'complete'|'bounded'|'finding', 'domain'|'bound': str,
                                        'tier': 'quick'|'thorough', 'props': [ids] (optional filter)}}}
                  kind 'complete' = loop-free / fully unwound over the whole input domain: a proof;
                  kind 'bounded'  = stand-in with a stated bound, never counted as proved;
                  kind 'finding'  = expected to FAIL: witnesses an entry of known_findings.txt
  PROP_UNITS[id]: {'verus': [...], 'kani': [...], 'verus_thorough': [...], 'kani_thorough': [...],
                   'undecided': [clauses left undecided]}
and are merged here.  PROPS (claims, notes) lives in this file.
"""
import glob
import importlib.util
import os

VERUS = {}
KANI = {}
_UNITS = {}

for _f in sorted(glob.glob(os.path.join(os.path.dirname(os.path.abspath(__file__)), 'registry_d', '*.py'))):
    _spec = importlib.util.spec_from_file_location('registry_d_' + os.path.basename(_f)[:-3], _f)
    _m = importlib.util.module_from_spec(_spec)
    _spec.loader.exec_module(_m)
    for _k, _v in getattr(_m, 'VERUS', {}).items():
        assert _k not in VERUS, 'duplicate verus unit ' + _k
        VERUS[_k] = _v
    for _k, _v in getattr(_m, 'KANI', {}).items():
        assert _k not in KANI, 'duplicate kani group ' + _k
        KANI[_k] = _v
    for _p, _u in getattr(_m, 'PROP_UNITS', {}).items():
        _d = _UNITS.setdefault(_p, {})
        for _k, _v in _u.items():
            for _x in _v:
                if _x not in _d.setdefault(_k, []):
                    _d[_k].append(_x)

NOT_APPLICABLE = {
    'C11': 'transcendental accuracy needs real analysis (exp/ln over the reals) as specification and the loops '
           'are steered by f32 libm estimates; no contract within reach of Verus/Kani can express or decide it '
           '(DESIGN.md §5 C11)',
    'C20': 'the code runs inside rustc on proc_macro2 token streams; neither verifier can host a proc-macro and '
           'no function-level contract relates generated tokens to a parsed value (DESIGN.md §5 C20)',
}

_T = ('contract-based deductive verification: Verus requires/ensures/invariants on the mechanically extracted real '
      'functions (unbounded), Kani function-level harnesses on the real crate (complete over the domain, or '
      'bounded stand-ins labelled as such)')
_N = ('assume_specification for core integer ops without vstd specs; external_body stubs listed in the evidence; '
      'x86_64 carry intrinsics assumed equal to the generic versions (Kani runs use force_bits="64"); lowering rules '
      'D1-D8; Verus/z3, Kani/CBMC, rustc')

PROPS = {
    'C01': {'level': 'proof', 'technique': _T, 'note': _N + '; Buffer/Repr/Memory seen through stub contracts by the '
                                                           'dispatch units; Karatsuba/Toom-3/sqr bodies assumed exact',
            'claim': 'Unbounded Verus proofs: every slice kernel of add.rs, the word/dword multiply kernels (math.rs, '
                     'mul/mod.rs, mul/simple.rs), the whole Repr-level dispatch of + - * (add_ops.rs, mul_ops.rs incl. the '
                     'four owned/borrowed forms and the IBig sign arms), pow (word/dword/large base, UBig/IBig::pow) and '
                     'the must-panic contract of unsigned subtraction below zero compute exactly the mathematical '
                     'result for all lengths and values. Karatsuba/Toom-3/squaring bodies are assumed exact products.'},
    'C02': {'level': 'proof', 'technique': _T, 'note': _N + '; num_modular dividers assumed (dependency); add_signed_mul assumed',
            'claim': 'Unbounded Verus proofs of a = q*b + r, r < b for the word/dword kernels, Knuth schoolbook division '
                     '(div/simple.rs), divide-and-conquer division, the Repr-level dispatch incl. zero-divisor must-panic '
                     'variants, every IBig sign convention (truncating and Euclidean forms) and ConstDivisor remainders/'
                     'quotients (same result as plain division); a bounded Kani group cross-checks the schoolbook routine '
                     'with the real reciprocal divider.'},
    'C03': {'level': 'proof', 'technique': _T, 'note': _N + '; IBig/UBig and float Repr helpers seen through stub contracts; '
                                                           'f32 log2 shortcuts are assumed guards (rule D10)',
            'claim': 'Verus proofs that the six modes decide NoOp/AddOne/SubOne by their definition (round_low_part, '
                     'round_ratio, round_fract), that repr_round is one correct rounding with a truthful flag, and that '
                     'Context mul/sqr/cubic/add/sub/div/inv/sqrt return the mode-correct rounding of the exact result '
                     '(add: at a proved unit; the <= 1 ulp-at-precision-p bound of add is undecided).'},
    'C04': {'level': 'proof', 'technique': _T, 'note': _N + '; UBig/IBig/Gcd seen through stub contracts (value-exact ops, gcd by divisibility)',
            'claim': 'Verus proofs that reduce/reduce2/from_parts, + - * / % (nearest-quotient remainder) and the Euclidean '
                     'forms, mixed integer operands, inv, sqr/cubic/pow and the constructors of RBig/Relaxed return the '
                     'exact rational (cross-multiplied) and that RBig results are canonical (den >= 1, coprime, 0/1).'},
    'C05': {'level': 'proof', 'technique': _T, 'note': _N,
            'claim': 'Verus proofs that rational ==/cmp (also non-reduced Relaxed) and float cmp/== (any precision, '
                     'infinities) are the order of the exact values; bounded Kani harnesses that every Repr constructor '
                     'keeps the normal form and that integer ==/cmp/hash on normal forms follow the value (<= 3 words).'},
    'C06': {'level': 'proof', 'technique': _T, 'note': _N,
            'claim': 'Complete Kani proofs (whole input domain) of f32/f64 encode/decode (RNE, truthful flag), the sign-'
                     'magnitude conversions and double-word to_f32/to_f64; unbounded Verus proofs that multi-word integer, '
                     'rational and base-2 float to_f32/to_f64 are correctly rounded with a truthful flag, TryFrom<f32/f64> is '
                     'exact, TryFrom<RBig> for floats never panics and is exact when Ok, with_precision/to_int round once.'},
    'C07': {'level': 'proof', 'technique': _T, 'note': _N + '; Formatter layout and non-power-of-two parsers undecided',
            'claim': 'Complete Kani proofs of digit decoding and radix tables; Verus proofs that non-power-of-two printing '
                     'of numbers up to the medium size emits exactly the positional digits and that width() matches; '
                     'bounded Kani harnesses for byte/chunk codecs (<= 3 words), power-of-two parser and printer.'},
    'C08': {'level': 'proof', 'technique': _T, 'note': _N,
            'claim': 'Decided clauses only: conversion from f32/f64 to Repr<2>/FBig is exact (Verus over the Kani-proved '
                     'decode) and with_precision is one correct rounding with a truthful flag. Parser, printer and base '
                     'conversion are undecided (str/Formatter, ln/exp at working precision).'},
    'C09': {'level': 'proof', 'technique': _T, 'note': _N,
            'claim': 'Unbounded Verus proofs: shift kernels and Repr-level << >> (multiplication / floor division by 2^n), '
                     'bitwise kernels digit-wise, set/clear bit, clear_high_bits, split_bits, trailing-bit scans, and the '
                     'IBig two\'s-complement sign arms of & | ^ ! >> against the infinite-sign digit semantics; complete and '
                     'bounded Kani harnesses for scalar helpers, bit tests and next_power_of_two.'},
    'C10': {'level': 'proof', 'technique': _T, 'note': _N + '; IBig/UBig seen through stub contracts',
            'claim': 'Verus proofs that the rounding primitives follow the definition of each mode (uniqueness of the '
                     'defined neighbour proved), that RBig/Relaxed trunc/floor/ceil/round/fract/split_at_point return the '
                     'defined neighbour with trunc + fract = x, and that repr_round / with_precision / Repr::to_int round '
                     'once with a truthful flag.'},
    'C12': {'level': 'proof', 'technique': _T, 'note': _N + '; Lehmer gcd loops and root::sqrt_rem assumed (bounded Kani for sqrt_rem)',
            'claim': 'Complete Kani proofs for u8/u16 gcd/gcd_ext/roots and the no_std log2 estimator; Verus proofs of the '
                     'Bezout identity for gcd_ext with word/dword/large operands (bookkeeping around the assumed Lehmer '
                     'core), sqrt_rem un-normalisation, log_dword (b^e <= x < b^(e+1) for any float estimate).'},
    'C13': {'level': 'proof', 'technique': _T, 'note': _N + '; multiply/div_rem/gcd_ext_in_place assumed via contracts proved or assumed elsewhere',
            'claim': 'Unbounded Verus proofs for multi-word rings: + - negate double multiply square are the residue of the '
                     'integer result and stay in [0, m); inv returns Some(x) with a*x = 1 exactly for coprime a; '
                     'conversions to/from residues; different rings must panic. pow is bounded (Kani, thorough tier).'},
    'C14': {'level': 'proof', 'technique': _T, 'note': _N + '; f32 log2 filters assumed sound (axioms listed)',
            'claim': 'Verus proofs that NumOrd between UBig and f32/f64, between rationals and floats (exact step) and '
                     'NumHash of floats in any base agree with the exact values; bounded Kani spot checks of NumHash.'},
    'C15': {'level': 'proof', 'technique': _T, 'note': _N,
            'claim': 'Every owned/borrowed form of the integer + - * / % & | ^ >> dispatch, of the rational and float '
                     'arithmetic arms is proved (Verus) against one and the same value-level postcondition, hence the forms '
                     'agree; bounded Kani harnesses for clone/clone_from (equal and independent) and call-form agreement.'},
    'C16': {'level': 'proof', 'technique': _T, 'note': _N + '; Kani proofs do not establish termination',
            'claim': 'Aggregates every Verus unit: each proved function is panic-free under its contract (bounds, unwrap, '
                     'overflow, debug and run-time assertions) and terminates (decreases); must-panic contracts for '
                     'unsigned subtraction below zero, zero divisors, different rings, infinite float operands, sqrt of '
                     'negatives / unlimited precision. Whole-API exploration is not attempted.'},
    'C17': {'level': 'other', 'technique': _T, 'note': _N,
            'claim': 'Kani on the real unsafe storage code, inductively: from an arbitrary well-formed state of bounded '
                     'size every Buffer/Repr operation is memory-safe (CBMC pointer/bounds/double-free/leak checks) and '
                     're-establishes the representation invariant. Bounded sizes: not a proof.',
            'explanation': 'bounded model checking of one-operation inductive steps over arbitrary well-formed states of '
                           'bounded size (capacities/lengths <= 6-8 words), real unsafe code, CBMC memory checks'},
    'C18': {'level': 'proof', 'technique': _T, 'note': _N + '; UBig/IBig seen through stub contracts',
            'claim': 'Unbounded Verus proofs: is_simpler_than is the documented order; farey_neighbors/next_up/next_down/'
                     'nearest return the adjacent Farey elements (optimality included); simplest_in returns the simplest '
                     'fraction strictly inside (membership and optimality); error_bounds of the six modes describe exactly '
                     'the reals that round to f. simplest_from_f32/f64/float themselves are not under contract.'},
    'C19': {'level': 'proof', 'technique': _T, 'note': _N,
            'claim': 'Every word-size dependent Verus unit is re-verified with Word = u32 against the same value-level '
                     'contracts (quick: kernel units; thorough: all), debug assertions of functions under contract are '
                     'proved (D3), and the no_std log2 estimator is proved in a --no-default-features build. '
                     'Serialization is undecided.'},
}

# C16 (panic freedom + termination) and C19 (word size) aggregate over every Verus unit registered for any property:
# each Verus proof also proves absence of panics under the contract and termination; w32-capable units are
# re-verified with Word = u32 (C19: quick tier = the kernel units, thorough tier = all of them).
_all_verus = []
for _p, _u in sorted(_UNITS.items()):
    for _x in _u.get('verus', []):
        if _x not in _all_verus and _x in VERUS:
            _all_verus.append(_x)
_KERNELS = ('int_prim', 'int_add', 'int_mul', 'int_mul_simple', 'int_shift', 'int_div_word')
_c16_quick = [x for x in _all_verus if x.endswith(('_panic', '_zero', '_inf')) or x in _KERNELS or x in (
    'int_div_simple', 'int_add_ops', 'int_div_ops', 'float_round', 'float_repr_round', 'ratio_reduce', 'ratio_ops')]
_UNITS.setdefault('C16', {})
_UNITS['C16']['verus'] = list(_all_verus)          # every unit: each proof includes panic-freedom + termination
_UNITS['C16']['verus_thorough'] = []
_w32 = [x for x in _all_verus if VERUS[x].get('w32')]
_UNITS.setdefault('C19', {})
_UNITS['C19']['verus'] = [x for x in _KERNELS if x in _w32]
_UNITS['C19']['verus_thorough'] = [x for x in _w32 if x not in _KERNELS]
_UNITS['C19']['verus_w32_quick'] = [x for x in _KERNELS if x in _w32]

for _p, _u in _UNITS.items():
    if _p in PROPS:
        for _k, _v in _u.items():
            PROPS[_p].setdefault(_k, [])
            PROPS[_p][_k] = PROPS[_p][_k] + [x for x in _v if x not in PROPS[_p][_k]]
