"""Which units decide which property.  Pure data; see DESIGN.md §5 for the rationale.

Fragments under engine/registry_d/*.py each define (all optional)
  VERUS[unit]   : {'file': template under contracts/units, 'w32': bool (re-verify with Word = u32 in the thorough tier)}
  KANI[group]   : {'package', 'target' (file the harness module is appended to), 'file' (under kani/harness),
                   'harnesses': {name: {'kind': 'complete'|'bounded'|'finding', 'domain'|'bound': str,
                                        'tier': 'quick'|'thorough', 'props': [ids] (optional filter)}}}
                  kind 'complete' = loop-free / fully unwound over the whole input domain: a proof;
                  kind 'bounded'  = stand-in with a stated bound, never counted as proved;
                  kind 'finding'  = expected to FAIL: witnesses an entry of known_findings.txt
  PROP_UNITS[id]: {'verus': [...], 'kani': [...], 'verus_thorough': [...], 'kani_thorough': [...],
                   'undecided': [clauses left undecided]}
and are merged here.  PROPS (claims, notes) lives in this file.
"""
import glob
import importlib.util
import os

VERUS = {}
KANI = {}
_UNITS = {}

for _f in sorted(glob.glob(os.path.join(os.path.dirname(os.path.abspath(__file__)), 'registry_d', '*.py'))):
    _spec = importlib.util.spec_from_file_location('registry_d_' + os.path.basename(_f)[:-3], _f)
    _m = importlib.util.module_from_spec(_spec)
    _spec.loader.exec_module(_m)
    for _k, _v in getattr(_m, 'VERUS', {}).items():
        assert _k not in VERUS, 'duplicate verus unit ' + _k
        VERUS[_k] = _v
    for _k, _v in getattr(_m, 'KANI', {}).items():
        assert _k not in KANI, 'duplicate kani group ' + _k
        KANI[_k] = _v
    for _p, _u in getattr(_m, 'PROP_UNITS', {}).items():
        _d = _UNITS.setdefault(_p, {})
        for _k, _v in _u.items():
            for _x in _v:
                if _x not in _d.setdefault(_k, []):
                    _d[_k].append(_x)

NOT_APPLICABLE = {
    'C11': 'transcendental accuracy needs real analysis (exp/ln over the reals) as specification and the loops '
           'are steered by f32 libm estimates; no contract within reach of Verus/Kani can express or decide it '
           '(DESIGN.md §5 C11)',
    'C20': 'the code runs inside rustc on proc_macro2 token streams; neither verifier can host a proc-macro and '
           'no function-level contract relates generated tokens to a parsed value (DESIGN.md §5 C20)',
}

PROPS = {
    'C01': {
        'level': 'proof',
        'claim': 'Unbounded Verus proofs (all slice lengths, all word values) that the add/sub word kernels of '
                 'integer/src/add.rs and the word primitives compute exactly val(lhs) ± val(rhs) with the '
                 'returned carry/borrow; complete Kani proofs of the scalar helpers. Dispatch/multiplication '
                 'layers are listed as undecided until their units land.',
        'note': 'assume_specification for overflowing_add/sub and From<bool>; x86_64 carry intrinsics assumed '
                'equal to the generic versions; lowering rules D1-D8; Verus/z3/Kani/CBMC.',
        'verus': ['int_prim', 'int_add'],
        'kani': ['int_math'],
        'undecided': [],
    },
}
